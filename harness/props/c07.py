"""C07 -- results do not depend on labels, storage order or cell orientation."""
import math
import numpy as np
import common as C
import gen
import impl
from props.c05 import noisy

RULE = ("tissues (equilibrium, noisy, sub-tissues with cells that have no internal interface) compared with relabelled copies: "
        "permuted vertex / edge / cell ids with gaps, cyclic shifts of every cell, random orientation patterns, shuffled vertex and "
        "edge insertion order (cells keep construction order); non-trivial = at least 3 internal interfaces; "
        "distinct = (tissue, relabelling kind)")
TRUSTED = ["theorem create_edges_new_rename (Proofs/InterfacesProofs.v) for id renaming; Model/Interfaces.v tied to the code by the "
           "exact correspondence of C08, repeated here on every relabelled tissue",
           "coefficient pairs / tensions / pressures compared per physical junction / interface / cell with tolerance 1e-9 / 5e-8 / 2e-7 "
           "(taubinSVD) or 1e-3 / 2e-2 / 5e-2 (dlite: the iterative least-squares fit stops at a storage-order dependent point)"]
ASSUMPTIONS = ["cells are inserted in construction order, as every parser does"]
TESTED_NOT_PROVED = ["invariance of the set of equations, of the tensions and of the pressures under cyclic shifts and orientation flips is "
                     "evaluated by the oracle on every case (the invariance of the interface decomposition itself is proved: "
                     "C07_cell_shift, C07_cell_flip, C07_tissue_shift_flip); for renumbering, the minimisers of the relabelled system under a constraint on the sum of the "
                     "unknowns (zero-sum pressures, mean-one tensions) are the relabelled minimisers: C07_constrained_minimiser_relabels"]
IMPORTS = "From Forsys Require Import Model.CaseUtil Model.PyList Model.Interfaces.\n"


def canon(e):
    e = list(e)
    return tuple(min(e, e[::-1]))


def observe(spec, fit):
    fr = impl.frame(spec)
    f = impl.forsys_of({0: fr})
    out = {"frame": fr}
    with impl.quiet():
        f.build_force_matrix(when=0, circle_fit_method=fit, angle_limit=np.inf)
        fm = f.force_matrices[0]
        out["internal"] = {canon(e) for e in fr.internal_big_edges_vertices}
        eqs = {}
        M = np.array(fm.matrix)
        for v, r in fm.map_vid_to_row.items():
            for k, e in enumerate(fm.big_edges_to_use):
                if M[r, k] != 0 or M[r + 1, k] != 0:
                    eqs[(v, canon(e))] = (M[r, k], M[r + 1, k])
        out["eqs"] = eqs
        Aug = np.vstack([np.hstack([M, np.ones((M.shape[0], 1))]), np.hstack([np.ones(M.shape[1]), [0.0]])]) if M.size else np.zeros((1, 1))
        sv = np.linalg.svd(Aug, compute_uv=False) if M.size else np.array([0.0])
        out["determined"] = bool(M.size and Aug.shape[0] >= Aug.shape[1] and sv[-1] > 1e-6 * sv[0])
        out["smin"], out["cond"] = float(sv[-1]), (float(sv[0] / sv[-1]) if sv[-1] > 0 else float("inf"))
        # the circle fit is a black box whose answer may depend on the order in which it is handed the points: measure it
        sens = {}
        for be in fr.internal_big_edges:
            if len(be.vertices) < 3:
                continue
            c1 = impl.ve.calculate_circle_center(list(be.vertices), method=fit)
            c2 = impl.ve.calculate_circle_center(list(be.vertices)[::-1], method=fit)
            worst = 0.0
            for a in (be.vertices[0], be.vertices[-1]):
                t1 = np.array([-(a.y - c1[1]), a.x - c1[0]])
                t2 = np.array([-(a.y - c2[1]), a.x - c2[0]])
                t1, t2 = t1 / np.linalg.norm(t1), t2 / np.linalg.norm(t2)
                worst = max(worst, float(min(np.max(np.abs(t1 - t2)), np.max(np.abs(t1 + t2)))))
            sens[canon(be.get_vertices_ids())] = worst
        out["order_sensitivity"] = sens
        with impl.capture_solvers() as rec:
            f.solve_stress(when=0, allow_negatives=False)
        out["xnorm"] = out["rnorm"] = None
        for c in rec.calls[::-1]:
            if c["x"] is not None and M.size and len(np.ravel(c["x"])) == Aug.shape[1]:
                xv = np.array(c["x"], dtype=float).ravel()
                rhs = np.concatenate([np.zeros(M.shape[0]), [float(M.shape[1])]])
                out["xnorm"], out["rnorm"] = float(np.linalg.norm(xv)), float(np.linalg.norm(Aug @ xv - rhs))
                break
        out["tension"] = {}
        for be in fr.internal_big_edges:
            out["tension"].setdefault(tuple(sorted(be.own_cells)), []).append((canon(be.get_vertices_ids()), be.tension))
        # the pressures are determined only when the internal interfaces link all cells that have one into a single group
        # (theorem C04_connected_pressures_are_the_zero_sum_least_squares); otherwise the bordered matrix is singular
        adj = {}
        for be in fr.internal_big_edges:
            if len(be.own_cells) == 2:
                a_, b_ = be.own_cells
                adj.setdefault(a_, set()).add(b_)
                adj.setdefault(b_, set()).add(a_)
        seen = set()
        if adj:
            start = next(iter(adj))
            seen, stack = {start}, [start]
            while stack:
                u_ = stack.pop()
                for w_ in adj[u_]:
                    if w_ not in seen:
                        seen.add(w_)
                        stack.append(w_)
        out["pressure_determined"] = bool(adj) and seen == set(adj)
        try:
            f.build_pressure_matrix(when=0)
            f.solve_pressure(when=0, method="lagrange_pressure")
            out["pressure"] = {cid: c.pressure for cid, c in fr.cells.items()}
        except ValueError as ex:
            out["pressure"] = None
            out["pressure_error"] = str(ex)[:60]
    return out


def check_pair(res, base, rel, fit, exprs, label, kind):
    vmap, cmap = rel["maps"]["v"], rel["maps"]["c"]
    replay = {"base": {k: base[k] for k in ("vertices", "edges", "cells")}, "relabelled": {k: rel[k] for k in ("vertices", "edges", "cells")},
              "maps": {"v": {str(k): v for k, v in vmap.items()}, "c": {str(k): v for k, v in cmap.items()}}, "fit": fit, "label": label, "kind": kind}
    try:
        A = observe(base, fit)
        B = observe(rel, fit)
    except Exception as ex:  # noqa
        import traceback
        res.fail("oracle", f"inference raised {type(ex).__name__}: {str(ex)[:80]} @ " + " <- ".join(traceback.format_exc().strip().splitlines()[-7:-1:2])[-400:], replay)
        return
    tol = 1e-9
    bad = []
    fro = 0.0
    mapped_internal = {canon([vmap[x] for x in e]) for e in A["internal"]}
    if mapped_internal != B["internal"]:
        bad.append(f"internal interfaces differ after relabelling: {len(mapped_internal ^ B['internal'])} interfaces in one set only")
    eqA = {(vmap[v], canon([vmap[x] for x in e])): c for (v, e), c in A["eqs"].items()}
    if set(eqA) != set(B["eqs"]):
        bad.append(f"equation sets differ: {len(set(eqA) ^ set(B['eqs']))} (junction, interface) pairs in one system only")
    else:
        # per interface: 1e-9 plus four times the order sensitivity of the circle fit measured on that interface (in either labelling)
        sensA = {canon([vmap[x] for x in e]): v for e, v in A["order_sensitivity"].items()}
        excess, worst, fro2 = 0.0, 0.0, 0.0
        for k in eqA:
            d = max(abs(eqA[k][0] - B["eqs"][k][0]), abs(eqA[k][1] - B["eqs"][k][1]))
            fro2 += (eqA[k][0] - B["eqs"][k][0]) ** 2 + (eqA[k][1] - B["eqs"][k][1]) ** 2
            tol_k = tol + 4 * max(sensA.get(k[1], 0.0), B["order_sensitivity"].get(k[1], 0.0))
            if d - tol_k > excess:
                excess, worst = d - tol_k, d
        fro = math.sqrt(fro2)
        if excess > 0:
            bad.append(f"coefficient pairs differ by {worst:.3g} after relabelling (beyond the measured order sensitivity of the circle fit)")
    if not (A["determined"] and B["determined"]):
        res.count("system does not determine the tensions uniquely (tension / pressure comparison skipped)")
        A["tension"], A["pressure"], B["pressure"] = {}, None, None
    # solutions of (constrained) least squares move by at most |E| |x| / smin + |E| |r| / smin^2 (first order) when the matrix moves by E
    smin = min(A.get("smin", 0.0), B.get("smin", 0.0))
    if A["determined"] and B["determined"] and A["xnorm"] is not None and smin > 0:
        ttol = 1e-9 * max(A["cond"], B["cond"]) + 3 * (fro * A["xnorm"] / smin + fro * max(A["rnorm"], B["rnorm"] or 0.0) / smin ** 2)
    else:
        ttol = 50e-9 if fit == "taubinSVD" else 2e-2
    for pair, lst in A["tension"].items():
        mp = tuple(sorted(cmap[c] for c in pair))
        got = dict((e, t) for e, t in B["tension"].get(mp, []))
        for e, t in lst:
            me = canon([vmap[x] for x in e])
            if me not in got or abs(got[me] - t) > ttol * (1 + abs(t)):
                bad.append(f"tension of the interface between cells {pair} changes from {t} to {got.get(me)}")
                break
        if bad:
            break
    if A["pressure"] is not None and B["pressure"] is not None and not (A.get("pressure_determined") and B.get("pressure_determined")):
        res.count("internal interfaces do not link the cells into one group: pressures not determined (comparison skipped)")
    elif A["pressure"] is not None and B["pressure"] is not None:
        worst = max(abs(B["pressure"][cmap[c]] - p) for c, p in A["pressure"].items())
        sc = 1 + max(abs(p) for p in A["pressure"].values())
        if worst > max(200e-9, 100 * ttol) * sc:
            c = max(A["pressure"], key=lambda c: abs(B["pressure"][cmap[c]] - A["pressure"][c]))
            bad.append(f"pressure of physical cell {c} changes from {A['pressure'][c]} to {B['pressure'][cmap[c]]}")
    elif (A["pressure"] is None) != (B["pressure"] is None) and A["determined"] and B["determined"]:
        bad.append("pressure step succeeds for one labelling and fails for the other")
    elif A["determined"] and B["determined"]:
        res.count("pressure step not applicable (D15 interface)")
    for b in bad[:3]:
        res.fail("oracle", b, replay)
    res.case((tuple(tuple(x[1:]) for x in base["vertices"][:5]), len(base["cells"]), kind, fit), nontrivial=len(A["internal"]) >= 3)
    res.count(f"kind={kind}")
    res.count(f"fit={fit}")
    res.sample({"label": label, "kind": kind, "fit": fit, "internal": len(A["internal"]), "cells": len(base["cells"])})
    fr = B["frame"]
    L = impl.mesh_literals(fr.vertices, fr.cells)
    exprs.append((impl.MESH_LET.format(**L) + f"listlistZ_eqb (create_edges_new junc cells) {C.zlistlist(fr.big_edges_list)}", replay))


def cases(rng, tier):
    n = 5 if tier == "quick" else 60
    for k in range(n):
        kind = k % 3
        if kind == 0:
            base = gen.voronoi_tissue(rng, n=int(rng.integers(35, 70)), npts=int(rng.integers(1, 8)), mob_strength=float(rng.uniform(0.4, 1.2)))
        elif kind == 1:
            base = noisy(gen.voronoi_tissue(rng, n=int(rng.integers(35, 70)), npts=int(rng.integers(1, 5))), rng, 0.3)
        else:
            big = gen.voronoi_tissue(rng, n=int(rng.integers(60, 90)), npts=int(rng.integers(1, 4)), mob_strength=0.8)
            base = gen.with_dangling(big, rng, k=int(rng.integers(1, 4)), core_size=int(rng.integers(14, 22))) or big
        if len(base["cells"]) < 4:
            continue
        yield base, f"t{k}/kind{kind}"


def run(res, tier, seed):
    rng = np.random.default_rng(seed)
    exprs = []
    for base, label in cases(rng, tier):
        variants = [("ids", dict(shift=False, flip=0.0, shuffle_edge_order=False, shuffle_vertex_order=False)),
                    ("ids+shift+order", dict(shift=True, flip=0.0)),
                    ("ids+shift+flip", dict(shift=True, flip=0.5)),
                    ("all-flipped", dict(shift=True, flip=1.0))]
        for kind, kw in variants:
            rel = gen.relabel(base, rng, **kw)
            check_pair(res, base, rel, "taubinSVD" if rng.random() < 0.6 else "dlite", exprs, label, kind)
    bools, outs = C.coq_eval_bools("C07", IMPORTS, [e for e, _ in exprs], chunk=20)
    for (e, rp), b in zip(exprs, bools):
        res.traces += 1
        if b is not True:
            res.fail("correspondence", "model != implementation (decomposition of the relabelled tissue)" if b is False else "case did not evaluate",
                     {"correspondence": "Model/Interfaces.v vs virtual_edges.create_edges_new", "case": {"label": rp["label"], "kind": rp["kind"]}})


def search(res, tier, seed, broken):
    rng = np.random.default_rng(seed + 31)
    r2 = C.Result(res.pid)
    sink = []
    for base, label in cases(rng, "thorough"):
        for kind, kw in (("ids+shift+flip", dict(shift=True, flip=0.5)), ("ids", dict(shift=False, flip=0.0))):
            check_pair(r2, base, gen.relabel(base, rng, **kw), "taubinSVD", sink, label, kind)
        if [f for f in r2.failures if f["kind"] == "oracle"] or r2.evaluations > 60:
            break
    res.failures.extend(f for f in r2.failures if f["kind"] == "oracle")
    res.notes.append(f"search: {r2.evaluations} extra oracle cases")


def replay(res, obj):
    inp = obj.get("input", obj)
    if "case" in inp:
        inp = inp["case"]
    rel = dict(inp["relabelled"])
    rel["maps"] = {"v": {int(k): v for k, v in inp["maps"]["v"].items()}, "c": {int(k): v for k, v in inp["maps"]["c"].items()}}
    check_pair(res, inp["base"], rel, inp["fit"], [], "replay", inp.get("kind", "?"))
