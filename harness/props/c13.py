"""C13 -- velocities are finite differences of tracked vertices over real elapsed time."""
import math
from fractions import Fraction
import numpy as np
import common as C
import gen
import impl
from props.c12 import mapping_lit

RULE = ("series of 2..6 frames with arbitrary increasing time stamps (dyadic steps for the exact comparison, arbitrary ones for "
        "the oracle), displacement fields inside the tracking bounds, independent renumbering per frame, one junction that jumps "
        "out of the tracking radius (no partner); b_matrix in {none, velocity}, adimensional on/off, velocity_normalization; "
        "non-trivial = at least 4 used junctions; distinct = (tissue, frames, times, options)")
TRUSTED = ["Model/Tracking.v calculate_velocity and Model/ForceSys.v set_velocity_rhs tied to time_series.calculate_velocity / "
           "fmatrix.set_velocity_matrix by exact rational correspondence (dyadic coordinates, power-of-two time steps)"]
ASSUMPTIONS = ["mean junction speed compared with tolerance 1e-12 (one sqrt per junction)"]
TESTED_NOT_PROVED = ["the adimensional division (mean Euclidean norm) and the reported system velocity are evaluated by the oracle"]
IMPORTS = "From Forsys Require Import Model.Num Model.CaseUtil Model.PyList Model.ForceSys Model.Tracking Model.Velocity Model.Round.\n"


def check_series(res, specs, times, truth, jump, rng, exprs, label):
    frames = {t: impl.frame(s, t, times[t]) for t, s in enumerate(specs)}
    replay = {"specs": [{k: s[k] for k in ("vertices", "edges", "cells")} for s in specs], "times": times, "label": label}
    f = impl.forsys_of(frames, cm=False)
    ts = f.mesh
    n = len(specs)
    pos = [{k: (v.x, v.y) for k, v in frames[t].vertices.items()} for t in range(n)]
    bad = []

    def expected(v, t):
        """finite difference to the *tracked* partner (the tracking correspondence is C12's subject)"""
        if t == n - 1:
            m = ts.mapping[t - 1] or {}
            inv = {b_: a_ for a_, b_ in m.items()}
            w, tt = inv.get(v), t - 1
        else:
            m = ts.mapping[t] or {}
            w, tt = m.get(v), t + 1
        if w is None or w not in pos[tt]:
            return (0.0, 0.0)
        dt = times[tt] - times[t]
        return ((pos[tt][w][0] - pos[t][v][0]) / dt, (pos[tt][w][1] - pos[t][v][1]) / dt)

    for t in range(n):
        ends = sorted({x for e in frames[t].big_edges_list for x in (e[0], e[-1])})
        for v in ends:
            try:
                got = ts.calculate_velocity(v, t)
            except Exception as ex:  # noqa
                bad.append(f"calculate_velocity({v},{t}) raised {type(ex).__name__}")
                break
            ex_v = expected(v, t)
            if abs(got[0] - ex_v[0]) > 1e-12 * (1 + abs(ex_v[0])) or abs(got[1] - ex_v[1]) > 1e-12 * (1 + abs(ex_v[1])):
                bad.append(f"velocity of vertex {v} at frame {t}: {tuple(got)} expected {ex_v}")
                break
    # right-hand sides
    nused = 0
    for t in range(n):
        with impl.quiet():
            f.build_force_matrix(when=t, angle_limit=np.inf)
        fm = f.force_matrices[t]
        used = dict(fm.map_vid_to_row)
        nused = max(nused, len(used))
        nrows = fm.matrix.shape[0]
        vn = float(rng.choice([1.0, 0.5, 4.0]))
        for adim in (False, True):
            if adim and used and all(expected(v, t) == (0.0, 0.0) for v in used):
                res.count("frame with all junctions at rest (mean speed 0: adimensional division undefined, skipped)")
                continue
            b, avg = fm.set_velocity_matrix(ts, b_matrix="velocity", adimensional_velocity=adim, velocity_normalization=vn)
            b = np.array(b, dtype=float).ravel()
            speeds = [math.hypot(*expected(v, t)) for v in used]
            mean_speed = float(np.mean(speeds)) if speeds else 1.0
            div = mean_speed if (adim and speeds) else 1.0
            if adim and speeds and abs(avg - mean_speed) > 1e-12 * (1 + mean_speed):
                bad.append(f"frame {t}: reported normaliser {avg} is not the mean junction speed {mean_speed}")
            if not adim and avg != 1:
                bad.append(f"frame {t}: dimensional mode but normaliser {avg}")
            exp_b = np.zeros(nrows)
            for v, r in used.items():
                ev = expected(v, t)
                exp_b[r], exp_b[r + 1] = ev[0] / div * vn, ev[1] / div * vn
            if nrows and div != 0 and np.max(np.abs(b - exp_b)) > 1e-9 * (1 + np.max(np.abs(exp_b))):
                k = int(np.argmax(np.abs(b - exp_b)))
                bad.append(f"frame {t} adimensional={adim}: right-hand side entry {k} is {b[k]} expected {exp_b[k]}")
            # correspondence of the normalisation step (PrimFloat instance of Model/Velocity.v): the velocity vectors of the used
            # junctions and the raw right-hand side go in, the scaled right-hand side and the normaliser must come out
            if nrows and used:
                vs_l = "[" + "; ".join(f"({C.flit(float(ts.calculate_velocity(v, t)[0]))}, {C.flit(float(ts.calculate_velocity(v, t)[1]))})" for v in used) + "]"
                raw = np.zeros(nrows)
                for v, r in used.items():
                    vv = ts.calculate_velocity(v, t)
                    raw[r], raw[r + 1] = vv[0], vv[1]
                exprs.append((f"let '(bb, avg) := velocity_matrix FOps {'true' if adim else 'false'} {vs_l} [{'; '.join(C.flit(float(x)) for x in raw)}] {C.flit(vn)} in "
                              f"listF_close 1e-9 bb [{'; '.join(C.flit(float(x)) for x in b)}] && fclose 1e-9 avg {C.flit(float(avg))}", replay))
        b0, avg0 = fm.set_velocity_matrix(ts)
        if np.any(np.array(b0) != 0) or avg0 != 1:
            bad.append(f"frame {t}: static mode right-hand side is not zero")
        # correspondence (exact): dimensional right-hand side, normalisation 1
        bd, _ = fm.set_velocity_matrix(ts, b_matrix="velocity")
        bd = np.array(bd, dtype=float).ravel()
        vel_l = "[" + "; ".join(f"({C.zlit(v)}, ({C.qlit(ts.calculate_velocity(v, t)[0])}, {C.qlit(ts.calculate_velocity(v, t)[1])}))" for v in used) + "]"
        map_l = "[" + "; ".join(f"({C.zlit(v)}, {C.zlit(r)})" for v, r in used.items()) + "]"
        exprs.append((f"listQ_eqb (set_velocity_rhs {nrows} {map_l} (assoc_def (0%Q, 0%Q) {vel_l})) [{'; '.join(C.qlit(x) for x in bd.tolist())}]", replay))
        # what the back-end receives: the velocity term followed by the number of interfaces, every entry rounded to three decimals by numpy
        # (Model/Round.v np_around, bit for bit) - the junction's own rows still carry its velocity components, to the thousandth
        if nrows and used and sum(1 for e_, _ in exprs if "field_np_ok" in e_) < 3:
            try:
                with impl.capture_solvers() as rec, impl.quiet():
                    f.solve_stress(when=t, b_matrix="velocity", allow_negatives=False)
                got = next((np.array(c_["b"], dtype=float).ravel() for c_ in rec.calls if c_.get("b") is not None and c_.get("solver") in ("nnls", "inv")), None)
            except Exception:  # noqa  (what a solve may raise is C05's subject)
                got = None
            if got is not None and len(got) == nrows + 1:
                pre = list(bd) + [float(fm.matrix.shape[1])]
                exprs.append(("forallb (field_np_ok 3) [" + "; ".join(f"({C.flit(a)}, {C.flit(b_)})" for a, b_ in zip(pre, got.tolist())) + "]", replay))
                res.count("right-hand side handed to the back-end = numpy rounding of the velocity term (tied)")
    try:
        with impl.quiet():
            sysv = f.get_system_velocity_per_frame()
    except FloatingPointError:
        sysv = None
        res.count("get_system_velocity_per_frame undefined (a frame at rest)")
    for t in range(n if sysv is not None else 0):
        used = f.force_matrices[t].map_vid_to_row
        speeds = [math.hypot(*expected(v, t)) for v in used]
        if speeds and abs(sysv[t] - float(np.mean(speeds))) > 1e-12 * (1 + float(np.mean(speeds))):
            bad.append(f"system velocity of frame {t} is {sysv[t]}, mean junction speed {np.mean(speeds)}")
    for b in bad[:3]:
        res.fail("oracle", b, replay)
    res.case((tuple(tuple(v[1:]) for v in specs[0]["vertices"][:4]), n, tuple(times), bool(jump)), nontrivial=nused >= 4)
    res.count(f"frames={n}")
    res.count("with-untracked-junction" if jump else "all-tracked")
    res.sample({"label": label, "frames": n, "times": times, "jump": jump, "system_velocity": [float(x) for x in (sysv or [])][:3]})
    # correspondence: calculate_velocity, exact
    dyadic = all(Fraction(x).denominator & (Fraction(x).denominator - 1) == 0 for x in times) and \
        all((Fraction(b) - Fraction(a)).numerator & ((Fraction(b) - Fraction(a)).numerator - 1) == 0 for a, b in zip(times, times[1:]))
    if dyadic and not any(m is None for m in ts.mapping.values()):
        fr_l = "[" + "; ".join(f"({C.qlit(times[t])}, [" + "; ".join(f"({C.zlit(k)}, ({C.qlit(x)}, {C.qlit(y)}))" for k, (x, y) in pos[t].items()) + "])" for t in range(n)) + "]"
        maps_l = "[" + "; ".join("Some " + mapping_lit(ts.mapping[t]) for t in range(n - 1)) + "]"
        qs = []
        for t in range(n):
            ends = sorted({x for e in frames[t].big_edges_list for x in (e[0], e[-1])})
            for v in [ends[int(i)] for i in rng.choice(len(ends), size=min(6, len(ends)), replace=False)]:
                got = ts.calculate_velocity(v, t)
                qs.append(f"(match calculate_velocity frames maps {C.zlit(v)} {t} with Some (a, b) => Qeq_bool a {C.qlit(got[0])} && Qeq_bool b {C.qlit(got[1])} | None => false end)")
        exprs.append((f"let frames := {fr_l} in let maps := {maps_l} in " + " && ".join(qs), replay))


def cases(rng, tier):
    n = 8 if tier == "quick" else 50
    for k in range(n):
        base = gen.voronoi_tissue(rng, n=int(rng.integers(14, 36)), npts=int(rng.integers(0, 3)), snap=8)
        if len(base["cells"]) < 4:
            continue
        nf = int(rng.integers(2, 7))
        dy = k % 2 == 0
        times = None
        if not dy:
            times = sorted(float(x) for x in np.cumsum(rng.uniform(0.1, 3.0, size=nf)))
        specs, times, truth = gen.series(rng, base, nf, field=["random", "affine", "flow"][k % 3], amp_frac=0.5, times=times, zero_junction=True)
        jump = None
        if k % 2 == 1 or tier == "quick":
            # one junction with >= 3 cells jumps out of the tracking radius between frames tj and tj+1
            tj = int(rng.integers(0, nf - 1))
            member = {}
            for cid, v in specs[tj]["cells"]:
                for x in v:
                    member.setdefault(x, set()).add(cid)
            cand = [v for v in gen.junction_ids(specs[tj]) if len(member.get(v, ())) >= 3]
            if cand:
                vj = cand[int(rng.integers(0, len(cand)))]
                P = np.array([[x, y] for _, x, y in specs[tj]["vertices"]])
                ext = float(max(P[:, 0].max() - P[:, 0].min(), P[:, 1].max() - P[:, 1].min()))
                ctr = P.mean(axis=0)
                for later in range(tj + 1, nf):
                    wid = vj
                    for s_ in range(tj, later):
                        wid = truth[s_][wid]
                    for row in specs[later]["vertices"]:
                        if row[0] == wid:
                            d = ctr - np.array(row[1:3])
                            d = d / (np.linalg.norm(d) + 1e-9)
                            row[1] = round((row[1] + 0.15 * ext * d[0]) * 256) / 256
                            row[2] = round((row[2] + 0.15 * ext * d[1]) * 256) / 256
                jump = (tj, vj)
        yield specs, times, truth, jump, f"s{k}"


def run(res, tier, seed):
    rng = np.random.default_rng(seed)
    exprs = []
    for specs, times, truth, jump, label in cases(rng, tier):
        if any(len({(x, y) for _, x, y in sp["vertices"]}) < len(sp["vertices"]) for sp in specs):
            # the dyadic snapping of a generated displacement put two vertices on one point: not a tissue (an interface of length zero
            # has no direction; the assembly divides 0 by 0, silently or not depending on numpy's error state)
            res.count("generated series with two vertices on one point (skipped)")
            continue
        check_series(res, specs, times, truth, jump, rng, exprs, label)
    bools, outs = C.coq_eval_bools("C13", IMPORTS, [e for e, _ in exprs], chunk=8)
    for (e, rp), b in zip(exprs, bools):
        res.traces += 1
        if b is not True:
            res.fail("correspondence", "model != implementation (velocity / right-hand side)" if b is False else "case did not evaluate",
                     {"correspondence": "Model/Tracking.v, Model/ForceSys.v vs time_series.calculate_velocity / fmatrix.set_velocity_matrix", "case": rp})


def search(res, tier, seed, broken):
    rng = np.random.default_rng(seed + 19)
    r2 = C.Result(res.pid)
    sink = []
    for specs, times, truth, jump, label in cases(rng, "thorough"):
        check_series(r2, specs, times, truth, jump, rng, sink, label)
        if [f for f in r2.failures if f["kind"] == "oracle"] or r2.evaluations > 25:
            break
    res.failures.extend(f for f in r2.failures if f["kind"] == "oracle")
    res.notes.append(f"search: {r2.evaluations} extra oracle cases")


def replay(res, obj):
    res.notes.append("replay: series replays need the generator's truth map; re-run with the same VERIF_SEED instead")
    res.case(("replay",), True)
