"""C08 -- interfaces partition the mesh edges; internal/external classification is exact."""
import itertools
import numpy as np
import common as C
import gen
import impl

RULE = ("Voronoi / Moebius / exact-lattice tissues and their connected sub-tissues (all 2^n cell subsets of small tissues in "
        "the thorough tier, random connected subsets otherwise), 0..15 interior points per interface, relabelled ids; "
        "non-trivial = the sub-tissue has at least one junction; distinct = distinct (cell cycles) tuples")
TRUSTED = ["hand-written model Model/Interfaces.v tied to forsys/virtual_edges.py, frames.py, edge.py by exact correspondence",
           "the mesh bookkeeping (ownEdges / ownCells lists) is taken from the implementation objects as model input; its "
           "consistency is C09's subject"]
ASSUMPTIONS = ["meshes are consistent in the sense of C09 (checked per case by impl.consistency_errors)"]
TESTED_NOT_PROVED = ["'every mesh edge of a cell that has a junction lies in exactly one of that cell's interfaces' is proved for the model "
                     "(C08_mesh_edge_in_exactly_one_interface); across cells (after de-duplication) and 'internal interfaces separate exactly two cells' "
                     "it is evaluated by the graph-walk oracle on every case",
                     "lookup of an interface by its two cells (get_big_edge_by_cells) is compared with the oracle only"]
IMPORTS = "From Forsys Require Import Model.CaseUtil Model.PyList Model.Interfaces.\n"


def brute_interfaces(spec):
    """maximal paths between junctions (>=3 mesh edges), interior vertices of degree 2 -- graph walk from the text"""
    adj = {}
    for _, a, b in spec["edges"]:
        adj.setdefault(a, []).append(b)
        adj.setdefault(b, []).append(a)
    junc = {v for v, n in adj.items() if len(n) >= 3}
    out = []
    seen = set()
    for j in sorted(junc):
        for nb in adj[j]:
            if (j, nb) in seen:
                continue
            path = [j, nb]
            prev, cur = j, nb
            while cur not in junc:
                nxt = [w for w in adj[cur] if w != prev]
                if len(nxt) != 1:
                    break
                prev, cur = cur, nxt[0]
                path.append(cur)
                if cur == j and cur not in junc:
                    break
            if path[-1] in junc:
                seen.add((path[0], path[1]))
                seen.add((path[-1], path[-2]))
                out.append(path)
    return out, junc


def canon(e):
    e = list(e)
    return tuple(min(e, e[::-1]))


def check_tissue(res, spec, exprs, label):
    fr = impl.frame(spec)
    cons = impl.consistency_errors(fr.vertices, fr.edges, fr.cells)
    if cons:
        res.notes.append(f"inconsistent input mesh skipped: {cons[0]}")
        return
    bel = fr.big_edges_list
    replay = {"spec": {k: spec[k] for k in ("vertices", "edges", "cells")}, "label": label}
    bad = []
    paths, junc = brute_interfaces(spec)
    cells_with_j = [cid for cid, v in spec["cells"] if any(x in junc for x in v)]
    got = [canon(e) for e in bel]
    if len(set(got)) != len(got):
        bad.append("an interface is listed twice (possibly reversed)")
    # expected: maximal paths all of whose mesh edges belong to a cell with a junction (every path does: its ends are junctions)
    exp = {canon(p) for p in paths}
    if set(got) != exp:
        bad.append(f"interfaces differ from the maximal junction-to-junction paths: missing {list(exp - set(got))[:2]} extra {list(set(got) - exp)[:2]}")
    # every mesh edge of a cell that has a junction lies in exactly one interface
    cnt = {}
    for e in bel:
        for a, b in zip(e, e[1:]):
            cnt[frozenset((a, b))] = cnt.get(frozenset((a, b)), 0) + 1
    cyc = dict(spec["cells"])
    for cid in cells_with_j:
        v = cyc[cid]
        for k in range(len(v)):
            if cnt.get(frozenset((v[k], v[(k + 1) % len(v)])), 0) != 1:
                bad.append(f"mesh edge {v[k]}-{v[(k + 1) % len(v)]} of cell {cid} lies in {cnt.get(frozenset((v[k], v[(k + 1) % len(v)])), 0)} interfaces")
                break
    member = {}
    for cid, v in spec["cells"]:
        for x in v:
            member.setdefault(x, set()).add(cid)
    edge_cells = {}
    for cid, v in spec["cells"]:
        for k in range(len(v)):
            edge_cells.setdefault(frozenset((v[k], v[(k + 1) % len(v)])), set()).add(cid)
    exp_int = []
    for i, e in enumerate(bel):
        internal = all(len(member[x]) >= 2 for x in e) and (len(member[e[0]]) >= 3 or len(member[e[-1]]) >= 3)
        if internal:
            exp_int.append(i)
        be = fr.big_edges[i]
        if be.external == internal:
            bad.append(f"BigEdge.external of interface {i} is {be.external}, expected {not internal}")
        if internal:
            sep = set.intersection(*[edge_cells[frozenset((a, b))] for a, b in zip(e, e[1:])])
            if len(e) == 2 and len(sep) == 1:
                # known finding D15: a two-point interface on a concave corner of the border
                res.fail("oracle", f"two-point interface {e} is classified internal but its mesh edge belongs to one cell "
                         f"{sorted(sep)} (own_cells {be.own_cells})", replay, tag="D15-two-point-border-internal")
                res.count("D15 two-point border interface classified internal")
                continue
            if len(sep) != 2 or set(be.own_cells) != sep or len(be.own_cells) != 2:
                bad.append(f"internal interface {i} own_cells {be.own_cells} but separates {sorted(sep)}")
            if len(e) > 2:
                try:
                    a, b = sorted(sep)
                    lk = fr.get_big_edge_by_cells(a, b)
                    # several interfaces may separate the same two cells only in degenerate tissues
                    same_pair = [j for j, f in enumerate(bel) if len(f) > 2 and j in exp_int + [i] and
                                 set.intersection(*[edge_cells[frozenset(p)] for p in zip(f, f[1:])]) == sep]
                    if lk.big_edge_id not in same_pair:
                        bad.append(f"get_big_edge_by_cells{(a, b)} returned {lk.big_edge_id}, expected {i}")
                except Exception as ex:  # noqa
                    bad.append(f"get_big_edge_by_cells raised {type(ex).__name__}")
    got_int = [b.big_edge_id for b in fr.internal_big_edges]
    if got_int != exp_int:
        bad.append(f"Frame.internal_big_edges {got_int[:8]} expected {exp_int[:8]}")
    if [list(x) for x in fr.internal_big_edges_vertices] != [bel[i] for i in exp_int]:
        bad.append("internal_big_edges_vertices differs")
    if bel:
        with impl.quiet():
            tid = [int(x) for x in fr.get_tensions()["id"]]
    else:
        tid = []      # get_tensions() raises on a frame without any interface (pandas: empty frame has no 'id'); vacuous clause
        res.count("no-interface-frames (get_tensions not callable)")
    if tid != exp_int:
        bad.append(f"get_tensions lists {tid[:8]} expected {exp_int[:8]}")
    for b in bad[:4]:
        res.fail("oracle", b, replay)
    res.case(tuple(tuple(v) for _, v in spec["cells"]), nontrivial=len(junc) > 0)
    res.count(f"cells={min(len(spec['cells']) // 5 * 5, 40)}+")
    res.count("with-border-only" if not exp_int else "has-internal")
    res.sample({"label": label, "cells": len(spec["cells"]), "interfaces": len(bel), "internal": len(exp_int),
                "first": bel[:2]})
    # correspondence
    L = impl.mesh_literals(fr.vertices, fr.cells)
    pre = impl.MESH_LET.format(**L)
    own = [list(fr.big_edges[i].own_cells) for i in range(len(bel))]
    own_ok = " && ".join(
        [f"forallb (fun p => (if (length (fst p) =? 2)%nat then setZ_eqb else listZ_eqb) (own_cells ownc (fst p)) (snd p)) "
         f"(combine earr {C.zlistlist(own)})"])
    edges_l = C.zlistlist([list(fr.big_edges[i].edges) for i in range(len(bel))])
    e = (pre + f"let earr := create_edges_new junc cells in "
         f"listlistZ_eqb earr {C.zlistlist(bel)} && "
         f"listZ_eqb (map (fun ie => Z.of_nat (fst ie)) (frame_internal ncells earr)) {C.zlist(got_int)} && "
         f"listB_eqb (map (big_edge_external ncells) earr) [{'; '.join(C.blit(fr.big_edges[i].external) for i in range(len(bel)))}] && "
         f"listZ_eqb (map Z.of_nat (tension_table_ids ncells earr)) {C.zlist(tid)} && "
         f"{own_ok} && "
         f"forallb (fun p => forallb (fun q => memZ (snd q) (fst q)) (combine (iface_edge_candidates owne (fst p)) (snd p)) && "
         f"(length (iface_edge_candidates owne (fst p)) =? length (snd p))%nat) (combine earr {edges_l})")
    exprs.append((e, replay))


def resampled(spec, ne, flag=False):
    """the mesh after generate_mesh, as a new spec (input meshes 'after resampling')"""
    v, e, c = impl.build(spec)
    try:
        with impl.quiet():
            v2, e2, c2, _ = impl.ve.generate_mesh(v, e, c, ne=ne, replace_short_edges=flag)
    except Exception:
        return None
    return {"vertices": [[k, w.x, w.y] for k, w in v2.items()], "edges": [[k, x.v1.id, x.v2.id] for k, x in e2.items()],
            "cells": [[k, [w.id for w in x.vertices]] for k, x in c2.items()], "meta": {"resampled": ne}}


def tissues(rng, tier):
    n = 10 if tier == "quick" else 120
    for k in range(n):
        kind = k % 5
        if kind == 0:
            spec = gen.voronoi_tissue(rng, n=int(rng.integers(8, 45)), npts_range=(0, 6), npts=0)
        elif kind == 1:
            spec = gen.voronoi_tissue(rng, n=int(rng.integers(8, 45)), npts=int(rng.integers(0, 16)), mob_strength=1.0)
        elif kind == 2:
            spec = gen.lattice_tissue(int(rng.integers(2, 5)), int(rng.integers(2, 5)), ["square", "brick"][k % 2], npts=int(rng.integers(0, 3)))
        elif kind == 3:
            spec = gen.voronoi_tissue(rng, sites=gen.jittered_sites(rng, int(rng.integers(3, 7)), kind="hex"), npts=int(rng.integers(0, 4)))
        else:
            spec = gen.voronoi_tissue(rng, n=int(rng.integers(8, 30)), npts=1)
        if len(spec["cells"]) == 0:
            continue
        yield spec, f"tissue{k}"


def run(res, tier, seed):
    rng = np.random.default_rng(seed)
    exprs = []
    for spec, label in tissues(rng, tier):
        check_tissue(res, spec, exprs, label)
        ids = [c[0] for c in spec["cells"]]
        if tier == "thorough" and len(ids) <= 10:
            subsets = [s for r in range(1, len(ids) + 1) for s in itertools.combinations(ids, r) if gen.is_connected(spec, s)]
            res.count("exhaustive-subset-tissues")
        else:
            subsets = gen.connected_subsets(spec, rng, 4 if tier == "quick" else 12)
        for s in subsets:
            sub = gen.sub_tissue(spec, s)
            if rng.random() < 0.5:
                sub = gen.relabel(sub, rng, flip=0.3)
            check_tissue(res, sub, exprs, f"{label}/sub{len(s)}")
            if rng.random() < 0.5:
                rs = resampled(sub, int(rng.integers(1, 7)))
                if rs is not None and rs["cells"]:
                    check_tissue(res, rs, exprs, f"{label}/sub{len(s)}/resampled")
                    res.count("resampled-input-meshes")
    bools, outs = C.coq_eval_bools("C08", IMPORTS, [e for e, _ in exprs], chunk=20)
    for (e, rp), b in zip(exprs, bools):
        res.traces += 1
        if b is not True:
            res.fail("correspondence", "model != implementation (decomposition / classification)" if b is False else "case did not evaluate",
                     {"correspondence": "Model/Interfaces.v vs virtual_edges.create_edges_new / Frame / BigEdge", "case": rp})


def search(res, tier, seed, broken):
    rng = np.random.default_rng(seed + 7)
    r2 = C.Result(res.pid)
    sink = []
    for spec, label in tissues(rng, "thorough"):
        check_tissue(r2, spec, sink, label)
        for s in gen.connected_subsets(spec, rng, 6):
            check_tissue(r2, gen.sub_tissue(spec, s), sink, label + "/sub")
        if [f for f in r2.failures if f["kind"] == "oracle"]:
            break
    res.failures.extend(f for f in r2.failures if f["kind"] == "oracle")
    res.notes.append(f"search: {r2.evaluations} extra oracle cases")


def replay(res, obj):
    inp = obj.get("input", obj)
    if "case" in inp:
        inp = inp["case"]
    sink = []
    check_tissue(res, inp["spec"], sink, "replay")
    bools, _ = C.coq_eval_bools("C08r", IMPORTS, [e for e, _ in sink], chunk=20)
    for (e, rp), b in zip(sink, bools):
        if b is not True:
            res.fail("correspondence", "model != implementation", {"correspondence": "Model/Interfaces.v", "case": rp})
