"""C14 -- Surface Evolver dumps are parsed faithfully."""
import math
import os
from fractions import Fraction
import numpy as np
import common as C
import gen
import impl

RULE = ("dumps written by an independent serialiser from generated tissues: arbitrary positive ids with gaps, positive and negative edge "
        "references, face loops wrapped at random positions, edges with and without a density (bare records and records with another "
        "attribute), extra unattached vertices and edges, large and tiny coordinates, plus every shipped .dmp; non-trivial = at least "
        "3 faces; distinct = the dump text")
TRUSTED = ["Model/SEParse.v (token level) tied to surface_evolver.get_cells / get_edges / create_lattice by exact correspondence on every "
           "generated dump; Model/Round.v (Python's round as exact half-even rounding of the double's value, numpy's rint-based rounding for the density that comes out of a pandas column) tied to every stored coordinate, density and multiplier, exactly and bit for bit; float() is an oracle (the token's double is handed to the model); the layout (blank line before each section header, bodies in face order) is "
           "what 'laid out like the shipped ones' means"]
ASSUMPTIONS = ["apart from the deliberate exact ties and next-to-tie values, generated numbers stay 1e-6 away from rounding ties (the serialiser prints a double, the expected value is computed from the printed token)"]
TESTED_NOT_PROVED = ["the interface reference tension (mean of mesh-edge densities) is compared by the oracle; that float() returns the double nearest to the token is not modelled"]
IMPORTS = "From Coq Require Import String.\nFrom Forsys Require Import Model.CaseUtil Model.SEParse Model.Round.\nOpen Scope string_scope.\n"
WORKDIR = os.path.join(C.WORK, "dumps")


def rnd(x, k):
    return round(float(x), k)


def rnd_np(x, k):
    """round() of a numpy.float64 (the density comes out of a pandas column): numpy's rint(x * 10^k) / 10^k"""
    return float(np.around(np.float64(x), k))


def safe(val, k, digits):
    """a value printed with `digits` decimals that stays away from rounding ties at k decimals"""
    val = float(("%." + str(digits) + "f") % val)
    frac = (abs(val) * 10 ** k) % 1
    if abs(frac - 0.5) < 1e-2:
        val += 0.2 * 10 ** (-k)
        val = float(("%." + str(digits) + "f") % val)
    return val


def make_dump(rng, spec, path):
    """independent serialiser; returns the expected parse"""
    vids = [v[0] for v in spec["vertices"]]
    pool = [int(x) + 1 for x in rng.permutation(3 * len(vids) + 20)]
    vmap = {v: pool[i] for i, v in enumerate(vids)}
    scale = float(rng.choice([1.0, 1e-3, 1e3]))
    coords = {}
    # the tissue is translated so that one vertex has an abscissa, another an ordinate, exactly on a three-decimal rounding tie
    # (odd multiples of 1/16 are the ties that are binary64 numbers): round() sends them to the even neighbour
    tx = ty = 0.0
    tie_x = tie_y = None
    if scale >= 1.0 and rng.random() < 0.7:
        v, x, y = spec["vertices"][int(rng.integers(0, len(spec["vertices"])))]
        tie_x = (vmap[v], (2 * math.floor(x * scale * 8) + 1) / 16.0)
        tx = tie_x[1] - x * scale
        v, x, y = spec["vertices"][int(rng.integers(0, len(spec["vertices"])))]
        tie_y = (vmap[v], -(2 * math.floor(y * scale * 8) + 1) / 16.0 if rng.random() < 0.5 else (2 * math.floor(y * scale * 8) + 1) / 16.0)
        if rng.random() < 0.5:
            # a decimal tie that is not a binary64 number: the double next to it is rounded as its exact value says
            tie_y = (tie_y[0], float("%.4f" % (math.floor(y * scale * 1000) / 1000.0 + 0.0005)))
        ty = tie_y[1] - y * scale
    for v, x, y in spec["vertices"]:
        # other coordinates keep away from rounding ties at three decimals
        coords[vmap[v]] = (safe(x * scale + tx, 3, 12), safe(y * scale + ty, 3, 12))
    if tie_x is not None:
        coords[tie_x[0]] = (tie_x[1], coords[tie_x[0]][1])
        coords[tie_y[0]] = (coords[tie_y[0]][0], tie_y[1])
    epool = [int(x) + 1 for x in rng.permutation(3 * len(spec["edges"]) + 20)]
    edges = {}
    byend = {}
    for i, (eid, a, b) in enumerate(spec["edges"]):
        k = epool[i]
        kind = int(rng.integers(0, 4))
        dens = safe(float(rng.uniform(0.1, 3.0)), 4, 7)
        if rng.random() < 0.15:
            dens = (2 * int(rng.integers(2, 47)) + 1) / 32.0          # an exact tie at four decimals
        elif rng.random() < 0.15:
            dens = float(rng.choice([0.54025, 1.96515, 2.87685, 2.60275]))   # next to a tie: numpy's rounding and Python's differ
        if rng.random() < 0.5:
            a, b = b, a
        edges[k] = (vmap[a], vmap[b], kind, dens)
        byend[(vmap[a], vmap[b])] = k
    faces = []
    fpool = [int(x) + 1 for x in rng.permutation(3 * len(spec["cells"]) + 5)]
    for i, (cid, cyc) in enumerate(spec["cells"]):
        loop = []
        n = len(cyc)
        for j in range(n):
            a, b = vmap[cyc[j]], vmap[cyc[(j + 1) % n]]
            if (a, b) in byend:
                loop.append(byend[(a, b)])
            else:
                loop.append(-byend[(b, a)])
        mult = safe(float(rng.uniform(-0.5, 0.5)), 4, 8)
        if rng.random() < 0.15:
            mult = (2 * int(rng.integers(-8, 8)) + 1) / 32.0
        elif rng.random() < 0.15:
            mult = float(rng.choice([0.54025, -0.54025, 0.19345, -0.31215]))
        faces.append((fpool[i], loop, mult))
    # extra unattached vertices and edges (each extra edge touches at least one extra vertex)
    extra_v, extra_e = {}, {}
    used_v, used_e = set(coords), set(edges)
    for _ in range(int(rng.integers(0, 6))):
        k = max(used_v) + int(rng.integers(1, 4))
        used_v.add(k)
        extra_v[k] = (float(rng.uniform(-5, 5)), float(rng.uniform(-5, 5)))
    ev = sorted(extra_v)
    for i in range(len(ev)):
        for other in ([ev[(i + 1) % len(ev)]] if len(ev) > 1 else []) + ([sorted(coords)[int(rng.integers(0, len(coords)))]] if rng.random() < 0.7 else []):
            if other == ev[i]:
                continue
            k = max(used_e) + int(rng.integers(1, 3))
            used_e.add(k)
            extra_e[k] = (ev[i], other, int(rng.integers(0, 4)), 0.75)
    lines = ["// generated dump", "", "vertices_predicted      %d" % (len(coords) + len(extra_v)), "edges_predicted  %d" % len(edges),
             "SPACE_DIMENSION 2", "", "vertices        /*  coordinates  */    "]
    allv = list(coords.items()) + list(extra_v.items())
    order = rng.permutation(len(allv))
    for i in order:
        k, (x, y) = allv[int(i)]
        lines.append("%3d  %18.12f %18.12f" % (k, x, y) + ("  fixed" if rng.random() < 0.1 else ""))
    lines += ["", "edges  /* endpoints */   "]
    alle = list(edges.items()) + list(extra_e.items())
    order = rng.permutation(len(alle))

    def edge_line(k, rec):
        a, b, kind, dens = rec
        if kind == 0:
            return "%3d   %d %d" % (k, a, b)                                  # bare record: density 1
        if kind == 1:
            return "%3d   %d %d fixed" % (k, a, b)                            # another attribute: density 1
        if kind == 2:
            return "%3d   %d %d density %.7f" % (k, a, b, dens)
        return "%3d   %d %d density %.7f color red" % (k, a, b, dens)
    for i in order:
        k, rec = alle[int(i)]
        lines.append(edge_line(k, rec))
    lines += ["", "faces    /* edge loop */      "]
    wraps = []
    for fid, loop, _ in faces:
        toks = [str(e) for e in loop]
        cuts = sorted(set(int(c) for c in rng.integers(1, len(toks), size=int(rng.integers(0, 4))))) if len(toks) > 1 else []
        chunks = [toks[a:b] for a, b in zip([0] + cuts, cuts + [len(toks)])]
        wraps.append(chunks)
        for ci, ch in enumerate(chunks):
            head = ("%3d   " % fid) if ci == 0 else "               "
            tail = " \\" if ci < len(chunks) - 1 else " /*area %.4f*/" % float(rng.uniform(10, 500))
            lines.append(head + " ".join(ch) + tail)
    lines += ["", "bodies  /* facets */"]
    for fid, loop, p in faces:
        lines.append("%3d    %d  volume 500  /*actual: 499.99*/ lagrange_multiplier %.8f  centerofmass " % (fid, fid, p))
    lines += ["", "read", "// end"]
    with open(path, "w") as f:
        f.write("\n".join(lines) + "\n")
    in_cell = set()
    for _, loop, _ in faces:
        for e in loop:
            a, b, _, _ = edges[abs(e)]
            in_cell.add(a if e > 0 else b)
    exp = {"vertices": {k: (rnd(x, 3), rnd(y, 3)) for k, (x, y) in coords.items() if k in in_cell},
           "edges": {k: (a, b, rnd_np(d, 4) if kind >= 2 else 1.0) for k, (a, b, kind, d) in edges.items() if a in in_cell and b in in_cell},
           "cells": {fid: ([edges[abs(e)][0] if e > 0 else edges[abs(e)][1] for e in loop], rnd(p, 4)) for fid, loop, p in faces}}
    return exp, lines, faces, wraps, edges, extra_e


def tok_lit(t):
    return '"' + t.replace('"', '""') + '"'


def section(lines, name, nxt):
    a = next(i for i, ln in enumerate(lines) if ln.startswith(name))
    b = next(i for i, ln in enumerate(lines) if ln.startswith(nxt))
    return [ln.split() for ln in lines[a + 1:b] if ln.split()]


def numeric_fields_case(res, se, lines, exprs, replay):
    """every coordinate / density / multiplier the parser stored against Model/Round.v: coordinates and multipliers are Python's round() of a
    Python float (exact rule `rhe` on the fraction of the token's double, and the stored double is the one nearest to that decimal:
    `py_round`); densities pass through a pandas column, so round() is numpy's (`np_around`)"""
    exact, pyf, npf = [], [], []
    bad = []

    def decimal_num(v, k):
        m = round(Fraction(float(v)) * 10 ** k)
        if float(Fraction(m, 10 ** k)) != float(v):
            bad.append(f"stored value {float(v)!r} is not the double nearest to a {k}-decimal number")
        return m
    for t in section(lines, "vertices  ", "edges  "):
        vid = int(t[0])
        if vid not in se.vertices:
            continue
        for tok, got in ((t[1], se.vertices[vid].x), (t[2], se.vertices[vid].y)):
            f = Fraction(float(tok))
            exact.append((3, f.numerator, f.denominator, decimal_num(got, 3)))
            pyf.append((3, float(tok), float(got)))
    for t in section(lines, "edges  ", "faces  "):
        eid = int(t[0])
        if eid in se.edges and len(t) > 4 and t[3] == "density":
            npf.append((4, float(t[4]), float(se.edges[eid].gt)))
            decimal_num(se.edges[eid].gt, 4)
    for t in section(lines, "bodies  ", "read"):
        cid = int(t[0])
        if cid in se.cells:
            f = Fraction(float(t[7]))
            exact.append((4, f.numerator, f.denominator, decimal_num(se.cells[cid].gt_pressure, 4)))
            pyf.append((4, float(t[7]), float(se.cells[cid].gt_pressure)))
    for b in bad[:2]:
        res.fail("oracle", b, replay)
    parts = []
    for k in (3, 4):
        e = [x for x in exact if x[0] == k]
        if e:
            parts.append(f"forallb (field_ok {k}) [" + "; ".join(f"({C.zlit(n)}, {d}, {C.zlit(m)})" for _, n, d, m in e) + "]%Z")
        p = [x for x in pyf if x[0] == k]
        if p:
            parts.append(f"forallb (field_float_ok {k}) [" + "; ".join(f"({C.flit(a)}, {C.flit(b)})" for _, a, b in p) + "]")
        q = [x for x in npf if x[0] == k]
        if q:
            parts.append(f"forallb (field_np_ok {k}) [" + "; ".join(f"({C.flit(a)}, {C.flit(b)})" for _, a, b in q) + "]")
    if parts:
        exprs.append((" && ".join("(" + x + ")" for x in parts), replay, "numeric fields (Model/Round.v)"))
    ties = sum(1 for k, n, d, m in exact if (2 * n * 10 ** k) % d == 0 and (n * 10 ** k) % d != 0)
    res.count("numeric fields tied", len(exact) + len(npf))
    res.count("numeric fields on an exact rounding tie", ties)
    res.count("densities next to a tie (numpy's rounding differs from Python's)", sum(1 for _, a, b in npf if round(a, 4) != b))
    res.count("coordinates / multipliers next to a tie (numpy's rounding would differ)", sum(1 for k, a, b in pyf if float(np.around(np.float64(a), k)) != b))


def check_dump(res, path, exp, lines, faces, wraps, edges, extra_e, exprs, label):
    replay = {"dump": open(path).read(), "label": label}
    try:
        with impl.quiet():
            se = impl.fs.surface_evolver.SurfaceEvolver(path)
    except Exception as ex:  # noqa
        res.fail("oracle", f"SurfaceEvolver raised {type(ex).__name__}: {str(ex)[:80]}", replay)
        return
    bad = []
    gotv = {k: (v.x, v.y) for k, v in se.vertices.items()}
    if gotv != exp["vertices"]:
        diff = sorted(set(gotv) ^ set(exp["vertices"]))[:3] or [k for k in gotv if gotv[k] != exp["vertices"][k]][:3]
        bad.append(f"vertices differ (e.g. ids {diff})")
    gote = {k: (e.v1.id, e.v2.id, e.gt) for k, e in se.edges.items()}
    if gote != exp["edges"]:
        diff = sorted(set(gote) ^ set(exp["edges"]))[:3] or [k for k in gote if gote[k] != exp["edges"][k]][:3]
        bad.append(f"edges differ (e.g. ids {diff}: {[gote.get(k) for k in diff]} expected {[exp['edges'].get(k) for k in diff]})")
    gotc = {k: ([w.id for w in c.vertices], c.gt_pressure) for k, c in se.cells.items()}
    if gotc != exp["cells"]:
        diff = sorted(set(gotc) ^ set(exp["cells"]))[:3] or [k for k in gotc if gotc[k] != exp["cells"][k]][:3]
        bad.append(f"cells differ (e.g. ids {diff})")
    cons = impl.consistency_errors(se.vertices, se.edges, se.cells)
    if cons:
        bad.append("parsed mesh inconsistent: " + cons[0])
    if not bad:
        with impl.quiet():
            fr = impl.fframes.Frame(0, se.vertices, se.edges, se.cells, gt=True)
            tab = fr.get_gt_tensions(with_border=True)
        for i, be in fr.big_edges.items():
            m = float(np.mean([se.edges[e].gt for e in be.edges]))
            if abs(float(tab["gt"].iloc[i]) - m) > 1e-12:
                bad.append(f"interface {i}: reference tension {tab['gt'].iloc[i]} is not the mean density {m} of its mesh edges")
                break
    for b in bad[:3]:
        res.fail("oracle", b, replay)
    res.case(hash(replay["dump"]), nontrivial=len(exp["cells"]) >= 3)
    res.count(f"faces={min(len(exp['cells']) // 5 * 5, 30)}+")
    res.count("with-orphans" if extra_e or len(exp["vertices"]) < len(gotv) + 0 else "plain")
    res.sample({"label": label, "faces": len(exp["cells"]), "vertices": len(exp["vertices"]), "first_lines": lines[6:9]})
    # ---- correspondence on the numeric fields: Model/Round.v on the double float() made of each token
    numeric_fields_case(res, se, lines, exprs, replay)
    # ---- correspondence on the token level
    if faces:
        start = next(i for i, ln in enumerate(lines) if ln.startswith("faces  "))
        end = next(i for i, ln in enumerate(lines) if ln.startswith("bodies  "))
        flines = [ln.split() for ln in lines[start + 1:end - 1]]
        lit = "[" + "; ".join("[" + "; ".join(tok_lit(t) for t in ln) + "]" for ln in flines) + "]"
        ids = [str(f[0]) for f in faces]
        loops = [[str(e) for e in f[1]] for f in faces]
        ids_l = "[" + "; ".join(tok_lit(t) for t in ids) + "]"
        loops_l = "[" + "; ".join("[" + "; ".join(tok_lit(t) for t in lp) + "]" for lp in loops) + "]"
        exprs.append((f"let r := parse_faces {lit} in "
                      f"(if list_eq_dec string_dec (fst r) {ids_l} then true else false) && "
                      f"(if list_eq_dec (list_eq_dec string_dec) (snd r) {loops_l} then true else false)", replay, "faces"))
        estart = next(i for i, ln in enumerate(lines) if ln.startswith("edges  "))
        elines = [ln.split() for ln in lines[estart + 1:start - 1]]
        flags = [len(t) > 4 and t[3] == "density" for t in elines]
        el = "[" + "; ".join("[" + "; ".join(tok_lit(t) for t in ln) + "]" for ln in elines) + "]"
        exprs.append((f"listB_eqb (map edge_has_density {el}) [{'; '.join(C.blit(x) for x in flags)}]", replay, "edge density rule"))
        alle = {k: (a, b) for k, (a, b, _, _) in list(edges.items()) + list(extra_e.items())}
        edl = "[" + "; ".join(f"({k}%Z, ({a}%Z, {b}%Z))" for k, (a, b) in alle.items()) + "]"
        cyc_l = "[" + "; ".join("[" + "; ".join(f"Some {v}%Z" for v in exp["cells"][f[0]][0]) + "]" for f in faces) + "]"
        loopz = "[" + "; ".join(C.zlist(f[1]) for f in faces) + "]"
        kept = sorted(se.edges.keys())
        exprs.append((f"let edges := {edl} in let cyc := map (cell_cycle edges) {loopz}%Z in "
                      f"forallb (fun p => forallb (fun q => optZ_eqb (fst q) (snd q)) (combine (fst p) (snd p))) (combine cyc {cyc_l}) && "
                      f"setZ_eqb (map fst (kept_edges edges (map (fun c => map (fun o => match o with Some v => v | None => 0%Z end) c) cyc))) {C.zlist(kept)}",
                      replay, "tail vertices / orphan removal"))
        # premise of theorem C14_cycle_steps_are_loop_edges on the faces of this dump: every loop is chained head to tail
        exprs.append((f"let edges := {edl} in forallb (closed_loop edges) {loopz}%Z", replay, "face loops chained head to tail (premise of the cycle theorem)"))


def run(res, tier, seed):
    rng = np.random.default_rng(seed)
    os.makedirs(WORKDIR, exist_ok=True)
    exprs = []
    n = 6 if tier == "quick" else 120
    for k in range(n):
        spec = gen.voronoi_tissue(rng, n=int(rng.integers(8, 40)), npts=int(rng.integers(0, 12)), mob_strength=float(rng.choice([0.0, 1.0])))
        if len(spec["cells"]) < 2:
            continue
        if k % 3 == 2:
            spec = gen.sub_tissue(spec, gen.connected_subsets(spec, rng, 1, min_cells=2)[0])
        path = os.path.join(WORKDIR, f"gen_{k}.dmp")
        out = make_dump(rng, spec, path)
        check_dump(res, path, *out, exprs, f"generated{k}")
    # shipped dumps: parse, consistency, one cell per face line, reference tension = mean density
    shipped = [os.path.join(impl.REPO, "tests", "data", "initial_furrow.dmp"), os.path.join(impl.REPO, "tests", "data", "last_furrow.dmp")]
    if tier != "quick":
        d = os.path.join(impl.REPO, "tests", "data", "furrow_gauss_velocity")
        shipped += [os.path.join(d, f) for f in sorted(os.listdir(d)) if f.endswith(".dmp")]
    for path in shipped:
        if not os.path.exists(path):
            continue
        with impl.quiet():
            se = impl.fs.surface_evolver.SurfaceEvolver(path)
        txt = open(path).read().split("\n")
        s = next(i for i, ln in enumerate(txt) if ln.startswith("faces  "))
        e = next(i for i, ln in enumerate(txt) if ln.startswith("bodies  "))
        nfaces = sum(1 for ln in txt[s + 1:e] if "*/" in ln)
        cons = impl.consistency_errors(se.vertices, se.edges, se.cells)
        res.case(("shipped", os.path.basename(path)), True)
        res.count("shipped dumps")
        if len(se.cells) != nfaces or cons:
            res.fail("oracle", f"shipped dump {os.path.basename(path)}: {len(se.cells)} cells for {nfaces} faces; {cons[:1]}", {"path": path})
    bools, outs = C.coq_eval_bools("C14", IMPORTS, [e for e, _, _ in exprs], chunk=9)
    for (e, rp, kind), b in zip(exprs, bools):
        res.traces += 1
        if b is not True:
            res.fail("correspondence", f"model != implementation ({kind})" if b is False else f"case did not evaluate ({kind})",
                     {"correspondence": f"Model/SEParse.v / Model/Round.v ({kind})", "case": {"label": rp["label"], "dump": rp["dump"][:4000]}})


def search(res, tier, seed, broken):
    rng = np.random.default_rng(seed + 47)
    r2 = C.Result(res.pid)
    sink = []
    os.makedirs(WORKDIR, exist_ok=True)
    for k in range(60):
        spec = gen.voronoi_tissue(rng, n=int(rng.integers(8, 40)), npts=int(rng.integers(0, 12)))
        if len(spec["cells"]) < 2:
            continue
        path = os.path.join(WORKDIR, f"search_{k}.dmp")
        check_dump(r2, path, *make_dump(rng, spec, path), sink, f"search{k}")
        if [f for f in r2.failures if f["kind"] == "oracle"]:
            break
    res.failures.extend(f for f in r2.failures if f["kind"] == "oracle")
    res.notes.append(f"search: {r2.evaluations} extra dumps")


def replay(res, obj):
    inp = obj.get("input", obj)
    if "case" in inp:
        inp = inp["case"]
    os.makedirs(WORKDIR, exist_ok=True)
    path = os.path.join(WORKDIR, "replay.dmp")
    open(path, "w").write(inp["dump"])
    try:
        with impl.quiet():
            se = impl.fs.surface_evolver.SurfaceEvolver(path)
        cons = impl.consistency_errors(se.vertices, se.edges, se.cells)
        if cons:
            res.fail("oracle", "parsed mesh inconsistent: " + cons[0], inp)
    except Exception as ex:  # noqa
        res.fail("oracle", f"SurfaceEvolver raised {type(ex).__name__}", inp)
    res.case(("replay",), True)
