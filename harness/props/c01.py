"""C01 -- static inference recovers the tensions of any tissue in force balance."""
import math
import numpy as np
import common as C
import gen
import impl
from props.c02 import hquad, expected_structure, fit_delta, iface_theta
from props.c05 import rosette

RULE = ("equilibrium tissues: Voronoi diagrams (tension = site distance) and their Moebius images, rotated / translated / scaled, 0..16 "
        "interior points per interface, optionally passed through generate_mesh(ne=2..12); solver method in {default, lsq, lsq_linear} "
        "x circle fit in {dlite, taubinSVD}; only tissues whose analytic augmented matrix is injective are judged; "
        "non-trivial = at least 6 inferred interfaces; distinct = (tissue, method, fit, ne)")
TRUSTED = ["theorems equilibrium_solves_augmented and zero_residual_minimiser_unique (Proofs/CertProofs.v) compose with C02 (rows are "
           "outward unit tangents) and C05 (the reported vector is a non-negative least-squares minimiser)",
           "circle-fit accuracy is an oracle bounded per coefficient (c02.fit_delta: 1e-5 / 1e-6 on arcs, 1e-3 on straight interfaces with "
           ">= 3 points, 1e-9 for two-point interfaces); the tolerance on the tensions is derived from the measured tangent error E by the perturbation bound "
           "(2 |E T| + eps_res) / sigma_min(augmented matrix), eps_res = residual left by the back-end at termination (1e-9 exact / nnls, "
           "1e-6 lmfit, 1e-4 scipy lsq_linear); independently the reported tensions must fit the assembled equations as well as the true ones"]
ASSUMPTIONS = ["Maxwell reciprocity: a Voronoi diagram balances under tension = site distance; Moebius maps preserve the angles at junctions"]
TESTED_NOT_PROVED = ["the end-to-end recovery on floating-point data is evaluated on every generated tissue; over the rationals the chain is mechanised: assembled rows applied to T are the junction resultants "
                     "(C01_junction_rows_are_resultants), balanced tensions are in the kernel (C01_balanced_tensions_in_kernel), (T/mean T, 0) solves the augmented system, an injective system has one minimiser; "
                     "that the fitted versors are the true tangents (circle-fit accuracy) and that the solver reaches the minimiser are numerical facts measured per case"]
IMPORTS = "From Forsys Require Import Model.CaseUtil.\n"


def d1_ends(spec):
    """interface ends where the code's sign forcing mirrors the tangent (known finding D1)"""
    pos = {v[0]: (v[1], v[2]) for v in spec["vertices"]}
    internal, juncs = expected_structure(spec, False)
    n = 0
    for v, lst in juncs.items():
        for it, end in lst:
            p = it["pts"] if end == 0 else it["pts"][::-1]
            if len(p) < 3:
                continue
            t = it["tan0"] if end == 0 else it["tan1"]
            d = (pos[p[1]][0] - pos[p[0]][0], pos[p[1]][1] - pos[p[0]][1])
            if not hquad(t, d):
                n += 1
    return n


def analytic_injective(spec):
    internal, juncs = expected_structure(spec, False)
    col = {tuple(it["pts"]): k for k, it in enumerate(internal)}
    M = np.zeros((2 * len(juncs), len(internal)))
    for r, (v, lst) in enumerate(juncs.items()):
        for it, end in lst:
            t = it["tan0"] if end == 0 else it["tan1"]
            M[2 * r, col[tuple(it["pts"])]] = t[0]
            M[2 * r + 1, col[tuple(it["pts"])]] = t[1]
    if M.size == 0:
        return False, 0.0
    T = np.array([it["T"] for it in internal])
    resid = float(np.max(np.abs(M @ T))) / float(np.mean(T))
    A = np.vstack([np.hstack([M, np.ones((M.shape[0], 1))]), np.hstack([np.ones(M.shape[1]), [0.0]])])
    sv = np.linalg.svd(A, compute_uv=False)
    return bool(A.shape[0] >= A.shape[1] and sv[-1] > 1e-3 * sv[0]), resid


def check_case(res, spec, method, fit, ne, label):
    replay = {"spec": {k: spec[k] for k in ("vertices", "edges", "cells", "ifaces", "meta")}, "method": method, "fit": fit, "ne": ne, "label": label}
    inj, resid = analytic_injective(spec)
    if not inj:
        # the recovery cannot be judged, but which junctions get equations can (C02's clause, needed by C01's argument)
        if ne is None and method is None:
            fr_ = impl.frame(spec)
            f_ = impl.forsys_of({0: fr_})
            try:
                with impl.quiet():
                    f_.build_force_matrix(when=0, circle_fit_method=fit, angle_limit=np.inf)
                _, juncs_ = expected_structure(spec, False)
                if set(f_.force_matrices[0].map_vid_to_row) != set(juncs_):
                    odd = sorted(set(f_.force_matrices[0].map_vid_to_row) ^ set(juncs_))[:4]
                    res.fail("oracle", f"junctions {odd} : the set of junctions with force-balance equations differs from 'three or more cells and three or more "
                             f"internal interfaces' ({len(f_.force_matrices[0].map_vid_to_row)} vs {len(juncs_)})", replay)
            except Exception as ex:  # noqa
                res.fail("oracle", f"build_force_matrix raised {type(ex).__name__}: {str(ex)[:80]}", replay)
            res.case((tuple(tuple(x[1:]) for x in spec["vertices"][:5]), len(spec["cells"]), "structure-only", fit), nontrivial=True)
        res.count("force balance does not determine the tensions uniquely (not judged)")
        return
    if resid > 1e-9:
        res.notes.append(f"generator: analytic force-balance residual {resid:.2e}")
    v, e, c = impl.build(spec)
    try:
        with impl.quiet():
            if ne is not None:
                v, e, c, _ = impl.ve.generate_mesh(v, e, c, ne=ne, replace_short_edges=False)
            fr = impl.fframes.Frame(0, v, e, c, time=0.0)
            f = impl.forsys_of({0: fr})
            f.build_force_matrix(when=0, circle_fit_method=fit, angle_limit=np.inf)
            Mhat = np.array(f.force_matrices[0].matrix, dtype=float).copy()
            cols_used = [list(e) for e in f.force_matrices[0].big_edges_to_use]
            rows_used = dict(f.force_matrices[0].map_vid_to_row)
            # the default call (negatives allowed) and the explicit non-negative one are both in the quantifier
            kw = {"allow_negatives": False} if (len(spec["vertices"]) + (ne or 0)) % 2 else {}
            if method:
                kw["method"] = method
            f.solve_stress(when=0, **kw)
    except Exception as ex:  # noqa
        res.fail("oracle", f"static inference raised {type(ex).__name__}: {str(ex)[:80]}", replay)
        return
    truth = {tuple(sorted(it["cells"])): it["T"] for it in spec["ifaces"] if it.get("T") and len(it["cells"]) == 2}
    internal = list(fr.internal_big_edges)
    T = np.array([truth[tuple(sorted(be.own_cells))] for be in internal])
    T = T / T.mean()
    got = np.array([be.tension for be in internal])
    straight = spec["meta"].get("mobius") is None
    err = float(np.max(np.abs(got - T)))
    # ---- the numerical tolerance is derived, not chosen: with Mhat = M + E (E = error of the fitted tangents, a black box) and
    # x* = (T, 0) an exact solution of the analytic system, any minimiser xhat of |Ahat x - b| over a set containing x* satisfies
    # |Ahat (xhat - x*)| <= 2 |E T|, hence |xhat - x*| <= 2 |E T| / sigma_min(Ahat).  E itself is bounded per entry by the
    # circle-fit accuracy that C02 also uses (delta below); a larger E is a failure of its own.
    byends, dup_ends = {}, False
    for it in spec["ifaces"]:
        th_ = iface_theta(it)
        for key, val in (((it["pts"][0], it["pts"][-1]), (it["tan0"], it["tan1"], th_)), ((it["pts"][-1], it["pts"][0]), (it["tan1"], it["tan0"], th_))):
            if key in byends and it["pts"][0] != it["pts"][-1]:
                dup_ends = True
            byends[key] = val
    pos_now = {vv.id: (vv.x, vv.y) for vv in fr.vertices.values()}
    Tcol = {}
    for be, tk in zip(internal, T):
        Tcol[tuple(be.get_vertices_ids())] = tk
        Tcol[tuple(be.get_vertices_ids()[::-1])] = tk
    Ma = np.zeros_like(Mhat)
    nd1, worst_E, bad_tangent, mirrored = 0, 0.0, None, []
    usable = (not dup_ends) and Mhat.shape == (2 * len(rows_used), len(cols_used)) and all(tuple(cq) in Tcol for cq in cols_used)
    if usable:
        for j, ids in enumerate(cols_used):
            tt = byends.get((ids[0], ids[-1]))
            if tt is None:
                usable = False
                break
            for t, q in ((tt[0], ids), (tt[1], ids[::-1])):
                v0 = q[0]
                if v0 not in rows_used:
                    continue
                r = rows_used[v0]
                d = (pos_now[q[1]][0] - pos_now[v0][0], pos_now[q[1]][1] - pos_now[v0][1])
                if len(ids) == 2:
                    t = (d[0] / math.hypot(*d), d[1] / math.hypot(*d))      # two points define a line
                Ma[r, j], Ma[r + 1, j] = t[0], t[1]
                e_ = max(abs(Mhat[r, j] - t[0]), abs(Mhat[r + 1, j] - t[1]))
                delta = max(1e-9, fit_delta(fit, len(ids), tt[2], straight))
                if len(ids) >= 3 and not hquad(t, d):
                    nd1 += 1
                    if e_ > delta:
                        mirrored.append((v0, ids[0], ids[-1], (Mhat[r, j], Mhat[r + 1, j]), tuple(t)))
                elif e_ > delta and bad_tangent is None:
                    bad_tangent = f"junction {v0}, interface {ids[0]}..{ids[-1]} ({len(ids)} pts): coefficient pair {(Mhat[r, j], Mhat[r + 1, j])} but tangent {tuple(t)}"
                else:
                    worst_E = max(worst_E, e_)
    # termination of the back-ends, in residual norm: exact / nnls 1e-9; lmfit (Levenberg-Marquardt) 1e-6; scipy lsq_linear (trust region,
    # iteration cap) leaves up to ~2e-5 on these zero-residual systems (calibrated), 1e-4 allowed
    eps_res = {"lsq": 1e-6, "lsq_linear": 1e-4}.get(method, 1e-9)
    resid_excess = None
    if usable:
        Tv = np.array([Tcol[tuple(cq)] for cq in cols_used])
        A_aug = np.vstack([np.hstack([Mhat, np.ones((Mhat.shape[0], 1))]), np.hstack([np.ones(Mhat.shape[1]), [0.0]])])
        smin = float(np.linalg.svd(A_aug, compute_uv=False)[-1])
        et = float(np.linalg.norm((Mhat - Ma) @ Tv))
        bound = (2 * et + eps_res) / smin if smin > 0 else float("inf")
        tol = 1e-9 + 1.01 * bound
        # the reported tensions (with the best non-negative multiplier) must fit the assembled equations at least as well as the true ones
        xcol = {}
        for be, g in zip(internal, got):
            xcol[tuple(be.get_vertices_ids())] = g
            xcol[tuple(be.get_vertices_ids()[::-1])] = g
        xv = np.array([xcol[tuple(cq)] for cq in cols_used])
        lam = -float(np.mean(Mhat @ xv)) if Mhat.shape[0] else 0.0        # the multiplier that fits best
        if kw.get("allow_negatives", True) is False or method in ("lsq", "lsq_linear"):
            lam = max(0.0, lam)
        rhs = np.concatenate([np.zeros(Mhat.shape[0]), [float(Mhat.shape[1])]])
        r_hat = float(np.linalg.norm(A_aug @ np.concatenate([xv, [lam]]) - rhs))
        if r_hat > 1.01 * et + eps_res:
            resid_excess = (r_hat, et)
    else:
        tol = eps_res
        bound = None
    res.case((tuple(tuple(x[1:]) for x in spec["vertices"][:5]), len(spec["cells"]), method, fit, ne), nontrivial=len(internal) >= 6)
    res.count(f"method={method or 'default'}")
    res.count(f"fit={fit}")
    res.count("resampled" if ne else "raw")
    res.count("D1-affected tissue" if nd1 else "H_quad holds everywhere")
    res.extra["worst_error_judged"] = max(res.extra.get("worst_error_judged", 0.0), err if (not nd1 and err <= tol) else 0.0)
    res.sample({"label": label, "method": method, "fit": fit, "ne": ne, "interfaces": len(internal), "max_error": err, "tolerance": tol,
                "perturbation_bound": bound, "worst_tangent_error": worst_E, "d1_ends": nd1})
    if ne is None:
        _, juncs_x = expected_structure(spec, False)
        if set(rows_used) != set(juncs_x):
            odd = sorted(set(rows_used) ^ set(juncs_x))[:4]
            res.fail("oracle", f"junctions {odd} : the set of junctions with force-balance equations differs from 'three or more cells and three or more "
                     f"internal interfaces' ({len(rows_used)} vs {len(juncs_x)})", replay)
    if not usable:
        res.count("tolerance not derivable (two interfaces with the same ends): not judged")
        return
    if bad_tangent:
        res.fail("oracle", bad_tangent + " (beyond the circle-fit accuracy)", replay)
    if mirrored:
        m = mirrored[0]
        res.fail("oracle", f"{len(mirrored)} coefficient pair(s) mirrored in an axis (tangent and first segment in different quadrants), e.g. junction {m[0]}, "
                 f"interface {m[1]}..{m[2]}: {m[3]} for tangent {m[4]}; reported tensions off by {err:.3g}", replay, tag="D1-tangent-sign-forcing")
    if resid_excess and not mirrored:
        res.fail("oracle", f"the reported tensions leave residual {resid_excess[0]:.3g} in the assembled equations, the true tensions only {resid_excess[1]:.3g}: "
                 f"not a minimiser (back-end {method or 'default'})", replay)
    if err > tol:
        k = int(np.argmax(np.abs(got - T)))
        res.fail("oracle", f"interface between cells {internal[k].own_cells}: reported {got[k]:.6f}, true tension / mean {T[k]:.6f} "
                 f"(max error {err:.3g}, derived tolerance {tol:.2g})", replay)


def tissues(rng, tier):
    # curved tissues with an interface whose first segment at an interior junction is exactly axis-parallel, and in extreme length units
    for j in range(2 if tier == "quick" else 10):
        for _ in range(20):
            base = gen.voronoi_tissue(rng, n=int(rng.integers(40, 70)), npts=int(rng.integers(1, 5)), mob_strength=float(rng.uniform(0.8, 1.5)))
            if len(base["cells"]) >= 8:
                break
        al, who = gen.align_first_segment(base, rng)
        if who is not None and len(al["cells"]) >= 8:
            yield al, f"aligned{j}"
        if j == 0 and len(base["cells"]) >= 8:
            yield gen.similarity(base, scale=float(rng.choice([1e-6, 1e6])), theta=float(rng.uniform(0, 6.28))), "unit-scale"
    # junctions of four interfaces (cocircular sites): an exact square lattice and a random tissue with a small exact square of sites in it
    yield gen.lattice_tissue(4, 4, "square", npts=int(rng.integers(0, 3))), "square-lattice"
    for _ in range(20):
        sites = gen.random_sites(rng, int(rng.integers(40, 70)), 100.0)
        c0, h = rng.uniform(35, 65, size=2), float(rng.uniform(3, 6))
        sq = np.array([[c0[0] - h, c0[1] - h], [c0[0] + h, c0[1] - h], [c0[0] + h, c0[1] + h], [c0[0] - h, c0[1] + h]])
        keep = [p for p in sites if np.hypot(*(p - c0)) > 2.2 * h]
        four = gen.voronoi_tissue(rng, sites=np.vstack([np.array(keep), sq]), npts=int(rng.integers(0, 4)))
        if len(four["cells"]) >= 8:
            yield four, "four-fold-junction"
            break
    n = 6 if tier == "quick" else 100
    for k in range(n):
        kind = k % 3
        sc = float(10 ** rng.uniform(-2, 2)) if k % 2 else 1.0
        th = float(rng.uniform(0, 2 * math.pi))
        npts = int(rng.integers(0, 17))
        if kind == 0:
            spec = gen.voronoi_tissue(rng, n=int(rng.integers(40, 80)), npts=npts)
        elif kind == 1:
            spec = gen.voronoi_tissue(rng, n=int(rng.integers(40, 80)), npts=max(npts, 1), mob_strength=float(rng.uniform(0.05, 1.5)))
        else:
            spec = gen.voronoi_tissue(rng, n=int(rng.integers(40, 80)), npts=0)
        spec = gen.similarity(spec, scale=sc, theta=th, tx=float(rng.uniform(-500, 500)) * sc, ty=float(rng.uniform(-500, 500)) * sc)
        if len(spec["cells"]) >= 8:
            yield spec, f"t{k}/kind{kind}"


def run(res, tier, seed):
    rng = np.random.default_rng(seed)
    for spec, label in tissues(rng, tier):
        configs = [(None, "dlite", None), ("lsq_linear", "taubinSVD", None), ("lsq", "dlite", None),
                   (None, "taubinSVD", int(rng.integers(2, 13)))]
        if tier != "quick":
            configs += [("lsq_linear", "dlite", int(rng.integers(2, 13))), ("lsq", "taubinSVD", int(rng.integers(2, 13)))]
        for method, fit, ne in configs:
            check_case(res, spec, method, fit, ne, label)
        # a cell with its full ring of neighbours: the augmented system is square, the exact-inversion path runs
        ro = rosette(spec, rng)
        if ro is not None:
            for fit in ("dlite", "taubinSVD"):
                check_case(res, ro, None, fit, None, label + "/rosette")
            check_case(res, ro, "lsq_linear", "taubinSVD", int(rng.integers(3, 9)), label + "/rosette")
    res.traces = res.evaluations


def search(res, tier, seed, broken):
    rng = np.random.default_rng(seed + 37)
    r2 = C.Result(res.pid)
    for spec, label in tissues(rng, "thorough"):
        for method, fit, ne in ((None, "taubinSVD", None), ("lsq_linear", "dlite", 4)):
            check_case(r2, spec, method, fit, ne, label)
        if [f for f in r2.failures if f["kind"] == "oracle" and not f.get("tag")] or r2.evaluations > 60:
            break
    res.failures.extend(f for f in r2.failures if f["kind"] == "oracle")
    res.notes.append(f"search: {r2.evaluations} extra oracle cases")


def replay(res, obj):
    inp = obj.get("input", obj)
    if "case" in inp:
        inp = inp["case"]
    check_case(res, inp["spec"], inp["method"], inp["fit"], inp["ne"], "replay")
