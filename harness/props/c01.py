"""C01 -- static inference recovers the tensions of any tissue in force balance."""
import math
import numpy as np
import common as C
import gen
import impl
from props.c02 import hquad, expected_structure
from props.c05 import rosette

RULE = ("equilibrium tissues: Voronoi diagrams (tension = site distance) and their Moebius images, rotated / translated / scaled, 0..16 "
        "interior points per interface, optionally passed through generate_mesh(ne=2..12); solver method in {default, lsq, lsq_linear} "
        "x circle fit in {dlite, taubinSVD}; only tissues whose analytic augmented matrix is injective are judged; "
        "non-trivial = at least 6 inferred interfaces; distinct = (tissue, method, fit, ne)")
TRUSTED = ["theorems equilibrium_solves_augmented and zero_residual_minimiser_unique (Proofs/CertProofs.v) compose with C02 (rows are "
           "outward unit tangents) and C05 (the reported vector is a non-negative least-squares minimiser)",
           "circle-fit accuracy and solver tolerances are oracles: tolerance 5e-3 for straight interfaces with >= 3 points, 2e-3 for "
           "arcs (dlite), 1e-6 for two-point interfaces / taubinSVD arcs, x10 for method='lsq'"]
ASSUMPTIONS = ["Maxwell reciprocity: a Voronoi diagram balances under tension = site distance; Moebius maps preserve the angles at junctions"]
TESTED_NOT_PROVED = ["the end-to-end recovery is evaluated on every generated tissue; the composition of C02/C05 with the two algebraic theorems is not mechanised"]
IMPORTS = "From Forsys Require Import Model.CaseUtil.\n"


def d1_ends(spec):
    """interface ends where the code's sign forcing mirrors the tangent (known finding D1)"""
    pos = {v[0]: (v[1], v[2]) for v in spec["vertices"]}
    internal, juncs = expected_structure(spec, False)
    n = 0
    for v, lst in juncs.items():
        for it, end in lst:
            p = it["pts"] if end == 0 else it["pts"][::-1]
            if len(p) < 3:
                continue
            t = it["tan0"] if end == 0 else it["tan1"]
            d = (pos[p[1]][0] - pos[p[0]][0], pos[p[1]][1] - pos[p[0]][1])
            if not hquad(t, d):
                n += 1
    return n


def analytic_injective(spec):
    internal, juncs = expected_structure(spec, False)
    col = {tuple(it["pts"]): k for k, it in enumerate(internal)}
    M = np.zeros((2 * len(juncs), len(internal)))
    for r, (v, lst) in enumerate(juncs.items()):
        for it, end in lst:
            t = it["tan0"] if end == 0 else it["tan1"]
            M[2 * r, col[tuple(it["pts"])]] = t[0]
            M[2 * r + 1, col[tuple(it["pts"])]] = t[1]
    if M.size == 0:
        return False, 0.0
    T = np.array([it["T"] for it in internal])
    resid = float(np.max(np.abs(M @ T))) / float(np.mean(T))
    A = np.vstack([np.hstack([M, np.ones((M.shape[0], 1))]), np.hstack([np.ones(M.shape[1]), [0.0]])])
    sv = np.linalg.svd(A, compute_uv=False)
    return bool(A.shape[0] >= A.shape[1] and sv[-1] > 1e-3 * sv[0]), resid


def check_case(res, spec, method, fit, ne, label):
    replay = {"spec": {k: spec[k] for k in ("vertices", "edges", "cells", "ifaces", "meta")}, "method": method, "fit": fit, "ne": ne, "label": label}
    inj, resid = analytic_injective(spec)
    if not inj:
        res.count("force balance does not determine the tensions uniquely (not judged)")
        return
    if resid > 1e-9:
        res.notes.append(f"generator: analytic force-balance residual {resid:.2e}")
    v, e, c = impl.build(spec)
    try:
        with impl.quiet():
            if ne is not None:
                v, e, c, _ = impl.ve.generate_mesh(v, e, c, ne=ne, replace_short_edges=False)
            fr = impl.fframes.Frame(0, v, e, c, time=0.0)
            f = impl.forsys_of({0: fr})
            f.build_force_matrix(when=0, circle_fit_method=fit, angle_limit=np.inf)
            # the default call (negatives allowed) and the explicit non-negative one are both in the quantifier
            kw = {"allow_negatives": False} if (len(spec["vertices"]) + (ne or 0)) % 2 else {}
            if method:
                kw["method"] = method
            f.solve_stress(when=0, **kw)
    except Exception as ex:  # noqa
        res.fail("oracle", f"static inference raised {type(ex).__name__}: {str(ex)[:80]}", replay)
        return
    truth = {tuple(sorted(it["cells"])): it["T"] for it in spec["ifaces"] if it.get("T") and len(it["cells"]) == 2}
    internal = list(fr.internal_big_edges)
    T = np.array([truth[tuple(sorted(be.own_cells))] for be in internal])
    T = T / T.mean()
    got = np.array([be.tension for be in internal])
    straight = spec["meta"].get("mobius") is None
    npts = [len(be.vertices) for be in internal]
    if all(n == 2 for n in npts):
        tol = 1e-6
    elif straight:
        tol = 5e-3
    else:
        tol = 2e-3 if fit == "dlite" else 1e-5
        if min(npts) == 2:
            tol = max(tol, 1e-6)
        if ne is not None and ne <= 2:
            tol = max(tol, 1e-4)
    if method in ("lsq", "lsq_linear"):
        tol = max(10 * tol, 1e-4)        # termination tolerances of lmfit / scipy.optimize.lsq_linear
    err = float(np.max(np.abs(got - T)))
    # D1 detection on the mesh actually solved (resampling changes the first segment of an interface)
    byends = {}
    for it in spec["ifaces"]:
        byends[(it["pts"][0], it["pts"][-1])] = (it["tan0"], it["tan1"])
        byends[(it["pts"][-1], it["pts"][0])] = (it["tan1"], it["tan0"])
    nd1 = 0
    for be in internal:
        ids = be.get_vertices_ids()
        tt = byends.get((ids[0], ids[-1]))
        if tt is None or len(ids) < 3:
            continue
        for t, a, b in ((tt[0], be.vertices[0], be.vertices[1]), (tt[1], be.vertices[-1], be.vertices[-2])):
            if not hquad(t, (b.x - a.x, b.y - a.y)):
                nd1 += 1
    res.case((tuple(tuple(x[1:]) for x in spec["vertices"][:5]), len(spec["cells"]), method, fit, ne), nontrivial=len(internal) >= 6)
    res.count(f"method={method or 'default'}")
    res.count(f"fit={fit}")
    res.count("resampled" if ne else "raw")
    res.count("D1-affected tissue" if nd1 else "H_quad holds everywhere")
    res.extra["worst_error_judged"] = max(res.extra.get("worst_error_judged", 0.0), err if (not nd1 and err <= tol) else 0.0)
    res.sample({"label": label, "method": method, "fit": fit, "ne": ne, "interfaces": len(internal), "max_error": err, "tolerance": tol, "d1_ends": nd1})
    if err > tol:
        k = int(np.argmax(np.abs(got - T)))
        msg = f"interface between cells {internal[k].own_cells}: reported {got[k]:.6f}, true tension / mean {T[k]:.6f} (max error {err:.3g}, tolerance {tol:.1g})"
        if nd1 and (ne is None or True):
            res.fail("oracle", msg + f"; {nd1} interface end(s) have tangent and first segment in different quadrants", replay, tag="D1-tangent-sign-forcing")
        else:
            res.fail("oracle", msg, replay)


def tissues(rng, tier):
    n = 6 if tier == "quick" else 100
    for k in range(n):
        kind = k % 3
        sc = float(10 ** rng.uniform(-2, 2)) if k % 2 else 1.0
        th = float(rng.uniform(0, 2 * math.pi))
        npts = int(rng.integers(0, 17))
        if kind == 0:
            spec = gen.voronoi_tissue(rng, n=int(rng.integers(40, 80)), npts=npts)
        elif kind == 1:
            spec = gen.voronoi_tissue(rng, n=int(rng.integers(40, 80)), npts=max(npts, 1), mob_strength=float(rng.uniform(0.05, 1.5)))
        else:
            spec = gen.voronoi_tissue(rng, n=int(rng.integers(40, 80)), npts=0)
        spec = gen.similarity(spec, scale=sc, theta=th, tx=float(rng.uniform(-500, 500)) * sc, ty=float(rng.uniform(-500, 500)) * sc)
        if len(spec["cells"]) >= 8:
            yield spec, f"t{k}/kind{kind}"


def run(res, tier, seed):
    rng = np.random.default_rng(seed)
    for spec, label in tissues(rng, tier):
        configs = [(None, "dlite", None), ("lsq_linear", "taubinSVD", None), ("lsq", "dlite", None),
                   (None, "taubinSVD", int(rng.integers(2, 13)))]
        if tier != "quick":
            configs += [("lsq_linear", "dlite", int(rng.integers(2, 13))), ("lsq", "taubinSVD", int(rng.integers(2, 13)))]
        for method, fit, ne in configs:
            check_case(res, spec, method, fit, ne, label)
        # a cell with its full ring of neighbours: the augmented system is square, the exact-inversion path runs
        ro = rosette(spec, rng)
        if ro is not None:
            for fit in ("dlite", "taubinSVD"):
                check_case(res, ro, None, fit, None, label + "/rosette")
            check_case(res, ro, "lsq_linear", "taubinSVD", int(rng.integers(3, 9)), label + "/rosette")
    res.traces = res.evaluations


def search(res, tier, seed, broken):
    rng = np.random.default_rng(seed + 37)
    r2 = C.Result(res.pid)
    for spec, label in tissues(rng, "thorough"):
        for method, fit, ne in ((None, "taubinSVD", None), ("lsq_linear", "dlite", 4)):
            check_case(r2, spec, method, fit, ne, label)
        if [f for f in r2.failures if f["kind"] == "oracle" and not f.get("tag")] or r2.evaluations > 60:
            break
    res.failures.extend(f for f in r2.failures if f["kind"] == "oracle")
    res.notes.append(f"search: {r2.evaluations} extra oracle cases")


def replay(res, obj):
    inp = obj.get("input", obj)
    if "case" in inp:
        inp = inp["case"]
    check_case(res, inp["spec"], inp["method"], inp["fit"], inp["ne"], "replay")
