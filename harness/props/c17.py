"""C17 -- myosin quantification is a normalised, linear window statistic of the image."""
import math
import numpy as np
from PIL import Image
import common as C
import gen
import impl

RULE = ("random images (8-bit and float), synthetic tissues placed inside the image by rescale / offset (integer, half-integer and "
        "sub-pixel scalings, so that consecutive vertices may share a pixel), layers 0..3, integrate on/off, normalize in {None, "
        "'average'}, interface lists with repeated interfaces; non-trivial = at least 3 interfaces; distinct = (tissue, image, options)")
TRUSTED = ["Model/Myosin.v (layer_elements, median, non_integrated, integrated over distinct pixels, 'average' normalisation) tied to "
           "myosin.get_intensities by exact rational correspondence on integer-valued images; PIL getpixel (truncation of float "
           "coordinates toward zero) is an oracle",
           "Model/Band.v tied exactly to the pixel set myosin.get_interpolation returns: scipy's interp1d on integer arrays delegates to numpy.interp, whose "
           "binary64 formula slope * (x - x_lo) + y_lo with exact end values the model copies; the ceiled vertices are computed by the harness with the source's expression"]
ASSUMPTIONS = ["tolerance 1e-12 where a mean or a polyline length (sqrt) is taken"]
TESTED_NOT_PROVED = ["the polyline length as divisor (sqrt) and PIL's pixel access are evaluated by the oracle; linearity / homogeneity in the image and "
                     "the uniform-image clause are proved for the model (C17_integrated_scale/_add, C17_non_integrated_scale/_uniform) and re-checked "
                     "on the implementation by the oracle"]
IMPORTS = "From Forsys Require Import Model.CaseUtil Model.Resample Model.Myosin Model.Band.\n"


def band_pixels(be, layers, rescale, offset):
    """independent construction of the layered band around the polyline (pixels, not positions) and the polyline length"""
    pts = [(x * rescale[0] + offset[0], y * rescale[1] + offset[1]) for x, y in zip(be.xs, be.ys)]
    pix = set()
    length = 0.0
    for a, b in zip(pts, pts[1:]):
        v0 = [math.ceil(a[0]), math.ceil(a[1])]
        v1 = [math.ceil(b[0]), math.ceil(b[1])]
        length += math.hypot(a[0] - b[0], a[1] - b[1])
        dx, dy = abs(v0[0] - v1[0]), abs(v0[1] - v1[1])
        ax = 0 if dx > dy else 1
        step = 1 if v0[ax] < v1[ax] else -1
        for val in range(v0[ax], v1[ax], step):
            t = (val - v0[ax]) / (v1[ax] - v0[ax])
            other = v0[1 - ax] + t * (v1[1 - ax] - v0[1 - ax])
            c = (val, int(other)) if ax == 0 else (int(other), val)
            for i in range(-layers, layers + 1):
                for k in range(-layers, layers + 1):
                    pix.add((c[0] + i, c[1] + k))
    return pix, length


def check_case(res, fr, arr, mode, layers, integrate, normalize, rescale, offset, repeat, exprs, label, spec):
    img = Image.fromarray(arr.astype(np.uint8) if mode == "L" else arr.astype(np.float32))
    bes = list(fr.internal_big_edges)
    if not bes:
        # the statement quantifies over interfaces; 'average' of an empty list is 0/0
        res.count("skipped: tissue without internal interface")
        return
    if repeat and len(bes) >= 3:
        bes = [bes[0], bes[1], bes[0]] + bes[2:]
    replay = {"spec": {k: spec[k] for k in ("vertices", "edges", "cells")}, "image_seed_shape": list(arr.shape), "image": arr.astype(int).tolist(),
              "mode": mode, "layers": layers, "integrate": integrate, "normalize": normalize, "rescale": rescale, "offset": offset, "repeat": repeat, "label": label}
    kw = {"rescale": rescale, "offset": offset}
    try:
        got = impl.fs.myosin.get_intensities(bes, img, integrate=integrate, normalize=normalize, layers=layers, **kw)
    except Exception as ex:  # noqa
        res.fail("oracle", f"get_intensities raised {type(ex).__name__}: {str(ex)[:80]}", replay)
        return
    bad = []
    if list(got.keys()) != list(range(len(bes))):
        bad.append(f"keys {list(got.keys())[:6]} are not the list positions 0..{len(bes) - 1}")
    H, W = arr.shape

    def pixel(x, y):
        return float(arr[int(y), int(x)])          # getpixel truncates toward zero
    raw = []
    for be in bes:
        if integrate:
            pix, length = band_pixels(be, layers, rescale, offset)
            raw.append(sum(pixel(x, y) for x, y in pix) / length)
        else:
            meds = []
            for v in be.vertices:
                px, py = v.x * rescale[0] + offset[0], v.y * rescale[1] + offset[1]
                # the statement's window: the (2*layers+1)^2 block of whole pixels around the pixel the vertex falls into (the offsets are
                # added to the pixel index, not to the float position: 61.99999999999999 + 3 would round to 65.0, see D28)
                win = [pixel(int(px) + i, int(py) + k) for i in range(-layers, layers + 1) for k in range(-layers, layers + 1)]
                meds.append(float(np.median(win)))
            raw.append(float(np.mean(meds)))
    exp = list(raw)
    if normalize == "average":
        m = float(np.mean(raw))
        exp = [v / m for v in raw]
    vals = [got[i] for i in range(len(bes))] if not bad else []
    for i, (g, e) in enumerate(zip(vals, exp)):
        if abs(g - e) > 1e-9 * (1 + abs(e)):
            bad.append(f"interface {i}: intensity {g} but the statement gives {e} (integrate={integrate}, layers={layers})")
            break
    if normalize == "average" and vals and abs(float(np.mean(vals)) - 1) > 1e-9:
        bad.append(f"'average' normalisation: values average to {np.mean(vals)}")
    if vals and [be.gt for be in bes][-1] != vals[-1]:
        bad.append("values are not stored as the interfaces' reference values in the order given")
    if vals:
        # an interface listed several times is stored once: its reference value is the one of its last position
        last = {id(be): v for be, v in zip(bes, vals)}
        wrong = [i for i, be in enumerate(bes) if be.gt != last[id(be)]]
        if wrong:
            bad.append(f"BigEdge.gt of the interface at list position {wrong[0]} is {bes[wrong[0]].gt}, the returned value is {last[id(bes[wrong[0]])]}"
                       + (" (the interface is listed more than once)" if repeat else ""))
    # linearity in the image / uniform image
    if not bad and normalize is None:
        img2 = Image.fromarray((arr * 2).astype(np.float32))
        g2 = impl.fs.myosin.get_intensities(bes, img2, integrate=integrate, normalize=None, layers=layers, **kw)
        if any(abs(g2[i] - 2 * vals[i]) > 1e-6 * (1 + abs(vals[i])) for i in range(len(bes))):
            bad.append("intensities do not scale linearly with the image")
        if not integrate:
            uni = Image.fromarray(np.full(arr.shape, 7.0, dtype=np.float32))
            gu = impl.fs.myosin.get_intensities(bes, uni, integrate=False, normalize=None, layers=layers, **kw)
            if any(abs(gu[i] - 7.0) > 1e-9 for i in range(len(bes))):
                bad.append("a uniformly bright image does not give equal intensities")
    for b in bad[:3]:
        res.fail("oracle", b, replay)
    res.case((tuple(tuple(x[1:]) for x in spec["vertices"][:4]), int(arr[0, 0]), mode, layers, integrate, normalize, tuple(rescale), tuple(offset), repeat),
             nontrivial=len(bes) >= 3)
    res.count(f"layers={layers}")
    res.count("integrate" if integrate else "window-median")
    res.count(f"normalize={normalize}")
    res.sample({"label": label, "mode": mode, "layers": layers, "integrate": integrate, "normalize": normalize, "rescale": rescale, "offset": offset,
                "interfaces": len(bes), "first": vals[:2]})
    # correspondence (exact rationals): a few interfaces
    if not bad:
        cols = sorted({(int(x), int(y)) for be in bes[:3] for x, y in
                       ([(int(v.x * rescale[0] + offset[0]) + i, int(v.y * rescale[1] + offset[1]) + k) for v in be.vertices
                         for i in range(-layers, layers + 1) for k in range(-layers, layers + 1)] if not integrate else band_pixels(be, layers, rescale, offset)[0])})
        tbl = "[" + "; ".join(f"(({x}, {y}), {C.qlit(float(arr[y, x]))})" for x, y in cols) + "]"
        imgf = (f"let tbl := {tbl} in let img := fun (x y : Z) => match find (fun e => Z.eqb (fst (fst e)) x && Z.eqb (snd (fst e)) y) tbl with "
                f"Some e => snd e | None => 0%Q end in ")
        for be, r_ in list(zip(bes, raw))[:3]:
            if integrate:
                pix, length = band_pixels(be, layers, rescale, offset)
                # the band handed to the model with duplicates (every pixel twice): the model must sum it once
                band = "[" + "; ".join(f"({x}, {y})" for x, y in list(pix) + list(pix)) + "]"
                exprs.append((imgf + f"Qle_bool (Qabs (integrated img {band} {C.qlit(length)} - {C.qlit(r_)})) (1 # 1000000000)", replay))
                # the band itself: Model/Band.v (walk along the axis of larger extent, numpy's binary64 interpolation, truncation) on the
                # ceiled vertices, against the set of pixels get_interpolation returns
                try:
                    gset, _ = impl.fs.myosin.get_interpolation(be, layers, **kw)
                except Exception:  # noqa  (the judged call above reports it)
                    gset = None
                if gset is not None and len(gset) <= 1500:
                    vs = [(math.ceil(x * rescale[0] + offset[0]), math.ceil(y * rescale[1] + offset[1])) for x, y in zip(be.xs, be.ys)]
                    exprs.append((f"pixset_eqb (band_of {layers} [" + "; ".join(f"({C.zlit(a_)}, {C.zlit(b_)})" for a_, b_ in vs) + "]) [" +
                                  "; ".join(f"({C.zlit(int(a_))}, {C.zlit(int(b_))})" for a_, b_ in sorted((int(a_), int(b_)) for a_, b_ in gset)) + "]",
                                  dict(replay, what="band")))
                    res.count("band correspondence (Model/Band.v)")
            elif all(px >= 0 and py >= 0 for px, py in [(v.x * rescale[0] + offset[0] - layers, v.y * rescale[1] + offset[1] - layers) for v in be.vertices]):
                pl = "[" + "; ".join(f"({int(v.x * rescale[0] + offset[0])}, {int(v.y * rescale[1] + offset[1])})" for v in be.vertices) + "]"
                exprs.append((imgf + f"Qle_bool (Qabs (non_integrated img {layers} {pl} - {C.qlit(r_)})) (1 # 1000000000)", replay))


def window_cases(res, rng, exprs, n):
    """Model/Myosin.v layer_elements around the pixel a float position falls into (truncation in binary64, Model/Resample.v float_trunc) against
    myosin.get_layer_elements on positions at, just below and just above whole pixels (where adding the offsets to the float would round)"""
    for k in range(n):
        layers = int(rng.integers(0, 4))
        base = [float(rng.integers(3, 400)), float(rng.integers(3, 400))]
        pos = []
        for b in base:
            kind = int(rng.integers(0, 4))
            pos.append([b, float(np.nextafter(b, 0.0)), float(np.nextafter(b, 1e9)), b + float(rng.uniform(0.01, 0.99))][kind])
        try:
            got = impl.fs.myosin.get_layer_elements(pos, layers)
            got = [(int(a_), int(b_)) for a_, b_ in got]
            whole = all(float(a_) == int(a_) and float(b_) == int(b_) for a_, b_ in impl.fs.myosin.get_layer_elements(pos, layers))
        except Exception as ex:  # noqa
            res.fail("oracle", f"get_layer_elements raised {type(ex).__name__}: {str(ex)[:60]}", {"position": pos, "layers": layers})
            continue
        exprs.append((f"let w := layer_elements (float_trunc {C.flit(pos[0])}) (float_trunc {C.flit(pos[1])}) {layers} in "
                      f"Nat.eqb (length w) {len(got)} && pixset_eqb w [" + "; ".join(f"({a_}, {b_})" for a_, b_ in got) + f"] && {C.blit(whole)}",
                      {"what": "window", "position": pos, "layers": layers, "label": "window", "integrate": False, "normalize": None, "rescale": [1, 1], "offset": [0, 0]}))
        res.count("window positions (Model/Myosin.v layer_elements on the truncated position)")


def cases(rng, tier):
    # interfaces made of exactly horizontal / vertical segments through pixel-lattice points (several pixels long, integer coordinates)
    for j in range(2 if tier == "quick" else 8):
        yield gen.lattice_tissue(int(rng.integers(2, 4)), int(rng.integers(2, 4)), ["square", "brick"][j % 2], npts=int(rng.integers(1, 4)),
                                 w=float(rng.integers(9, 40)), h=float(rng.integers(9, 40))), f"lattice{j}"
    n = 3 if tier == "quick" else 40
    for k in range(n):
        spec = gen.voronoi_tissue(rng, n=int(rng.integers(14, 30)), npts=int(rng.integers(1, 6)), mob_strength=float(rng.choice([0.0, 0.8])))
        if len(spec["cells"]) >= 3:
            yield spec, f"t{k}"


def run(res, tier, seed):
    rng = np.random.default_rng(seed)
    exprs = []
    for spec, label in cases(rng, tier):
        fr = impl.frame(spec)
        combos = [(0, False, None), (1, False, "average"), (2, True, None), (1, True, "average"), (3, False, None), (0, True, None)]
        for layers, integrate, normalize in combos:
            mode = "L" if rng.random() < 0.5 else "F"
            sc = float(rng.choice([1.0, 0.5, 0.25, 2.0, 1.5])) if not label.startswith("lattice") else float(rng.choice([1.0, 2.0, 3.0]))
            rescale = [sc, sc]
            offset = [float(rng.choice([6, 6.5, 10])), float(rng.choice([6, 7.5, 12]))] if not label.startswith("lattice") else \
                [float(rng.integers(5, 14)), float(rng.integers(5, 14))]
            # the image covers the rescaled tissue (Moebius images can leave the unit box) plus the widest band
            ext = max(max(abs(x), abs(y)) for _, x, y in spec["vertices"])
            low = min(min(x, y) for _, x, y in spec["vertices"]) * sc + min(offset)
            if low < 6:
                offset = [o + math.ceil(6 - low) for o in offset]
            size = int(max(100.0, ext) * sc + max(offset) + 40)
            arr = rng.integers(1, 200, size=(size, size)).astype(float)
            # an interface listed twice is part of the quantifier: always with 'average' normalisation, at random otherwise
            repeat = True if normalize == "average" else bool(rng.integers(0, 2))
            check_case(res, fr, arr, mode, layers, integrate, normalize, rescale, offset, repeat, exprs, label, spec)
    window_cases(res, rng, exprs, 16 if tier == "quick" else 120)
    bools, outs = C.coq_eval_bools("C17", IMPORTS, [e for e, _ in exprs], chunk=10)
    for (e, rp), b in zip(exprs, bools):
        res.traces += 1
        if b is not True:
            res.fail("correspondence", ("model != implementation (window of pixels around a float position, Model/Myosin.v layer_elements vs myosin.get_layer_elements)" if rp.get("what") == "window" else
                                        "model != implementation (band of pixels, Model/Band.v vs myosin.get_interpolation)" if rp.get("what") == "band" else
                                        "model != implementation (interface intensity)") if b is False else "case did not evaluate",
                     {"correspondence": "Model/Myosin.v vs myosin.get_intensities", "case": {k: rp[k] for k in ("label", "layers", "integrate", "normalize", "rescale", "offset")}})


def search(res, tier, seed, broken):
    rng = np.random.default_rng(seed + 61)
    r2 = C.Result(res.pid)
    sink = []
    for spec, label in cases(rng, "thorough"):
        fr = impl.frame(spec)
        for layers, integrate in ((1, True), (2, False), (0, True)):
            sc = float(rng.choice([1.0, 0.25, 2.0]))
            ext = max(max(abs(x), abs(y)) for _, x, y in spec["vertices"])
            arr = rng.integers(1, 200, size=(int(max(100.0, ext) * sc + 50),) * 2).astype(float)
            check_case(r2, fr, arr, "F", layers, integrate, None, [sc, sc], [8.0, 8.5], False, sink, label, spec)
        if [f for f in r2.failures if f["kind"] == "oracle"] or r2.evaluations > 40:
            break
    res.failures.extend(f for f in r2.failures if f["kind"] == "oracle")
    res.notes.append(f"search: {r2.evaluations} extra oracle cases")


def replay(res, obj):
    inp = obj.get("input", obj)
    if "case" in inp:
        inp = inp["case"]
    if "spec" not in inp:
        res.case(("replay",), True)
        return
    fr = impl.frame(inp["spec"])
    check_case(res, fr, np.array(inp["image"], dtype=float), inp["mode"], inp["layers"], inp["integrate"], inp["normalize"], inp["rescale"], inp["offset"],
               inp["repeat"], [], "replay", inp["spec"])
