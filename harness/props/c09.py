"""C09 -- every construction or editing path yields a consistent vertex-edge-cell mesh."""
import os
import numpy as np
import common as C
import gen
import impl
from props.c08 import brute_interfaces
from props import c14

RULE = ("meshes from every parser (generated Surface Evolver dumps with unattached vertices / edges, tessellations of random and grid-aligned "
        "centre sets, WKT polygon lists, the shipped skeleton images) followed by random sequences of generate_mesh (ne 2..12, "
        "replace_short_edges on/off) and Frame construction; sub-tissues with holes and bridges; random create / delete / replace "
        "operation sequences on SmallEdge and Cell objects compared with Model/Heap.v; non-trivial = the mesh has at least 3 cells")
TRUSTED = ["Model/Heap.v (registration of mesh edges / cells on their vertices) tied to vertex.py / edge.py / cell.py by exact correspondence "
           "(ownEdges / ownCells lists compared after every operation); theorem histories_consistent covers clauses (1)-(2) for every "
           "operation sequence of the model",
           "CPython reference counting runs __del__ as soon as the dictionary entry is deleted (the harness keeps no other reference); a "
           "collector-delayed __del__ cannot be exhibited"]
ASSUMPTIONS = ["clauses (3)-(5) (same object, own id, no repeated vertex, consecutive vertices joined by an edge) are evaluated on the "
               "implementation objects by impl.consistency_errors"]
TESTED_NOT_PROVED = ["consistency after each parser, join_two_vertices and Frame is evaluated by the oracle on every generated input; for generate_mesh without merges "
                     "clauses (3)-(5) are proved on Model/Resample.v (C09_resample_*; clause 5 under premises evaluated on every mesh C11 resamples) and re-checked on the objects; for the dump parser, that kept edges join kept vertices and cell cycles name kept vertices is proved on Model/SEParse.v (C09_parsed_dump_references_exist)"]
IMPORTS = "From Forsys Require Import Model.CaseUtil Model.PyList Model.Interfaces Model.Resample Model.Heap.\n"
WORKDIR = os.path.join(C.WORK, "c09")


def chain_present(v, e, c, ne):
    """D7 scope: a vertex ending two two-point interfaces all of whose ends have < 3 cells"""
    spec = {"vertices": [[k, w.x, w.y] for k, w in v.items()], "edges": [[k, x.v1.id, x.v2.id] for k, x in e.items()],
            "cells": [[k, [w.id for w in x.vertices]] for k, x in c.items()]}
    paths, _ = brute_interfaces(spec)
    short = [p for p in paths if len(p) == 2 and len(v[p[0]].ownCells) < 3 and len(v[p[1]].ownCells) < 3]
    ends = [x for p in short for x in p]
    return len(set(ends)) != len(ends)


CHAIN_PENDING = []      # (index into MODEL_EXPRS, message, replay) of chain cases whose attribution waits for the model
MODEL_EXPRS = []        # correspondence expressions of the merge cascade (Model/Resample.v), drained by run()


def follow_up(res, v, e, c, rng, replay, label, steps=2):
    """random generate_mesh / Frame sequence; consistency after every step"""
    for s in range(steps):
        ne = int(rng.integers(2, 13))
        flag = bool(rng.integers(0, 2))
        chain = flag and chain_present(v, e, c, ne)
        if chain and len(MODEL_EXPRS) < 12:
            # consecutive two-point border interfaces: the outcome of the merge cascade is within known finding D7, but what the cascade
            # does (id map, unused ids, which vertices disappear) is still tied to Model/Resample.v on a copy of this mesh
            from props import c11
            # (coordinates snapped to multiples of 2^-8 so that the midpoints of the cascade are exact in binary64, as they are in the model)
            spec_now = {"vertices": [[k, round(w.x * 256) / 256, round(w.y * 256) / 256] for k, w in v.items()], "edges": [[k, x.v1.id, x.v2.id] for k, x in e.items()],
                        "cells": [[k, [w.id for w in x.vertices]] for k, x in c.items()]}
            sink = []
            c11.run_case(C.Result("C11"), spec_now, ne, True, sink, label)
            del c11.PENDING_CHAIN[:]
            model_at = len(MODEL_EXPRS) if sink else None        # where the copy's model expression will sit among MODEL_EXPRS
            MODEL_EXPRS.extend(sink)
        else:
            model_at = None
        try:
            with impl.quiet():
                v, e, c, _ = impl.ve.generate_mesh(v, e, c, ne=ne, replace_short_edges=flag)
        except Exception as ex:  # noqa
            if chain:
                res.fail("oracle", f"{label}: generate_mesh(ne={ne}, replace_short_edges=True) raised {type(ex).__name__} on a mesh whose border has consecutive two-point interfaces",
                         replay, tag="D7-short-edge-chain")
            else:
                res.fail("oracle", f"{label}: generate_mesh(ne={ne}, replace_short_edges={flag}) raised {type(ex).__name__}: {str(ex)[:60]}", dict(replay, ne=ne, flag=flag))
            return
        errs = impl.consistency_errors(v, e, c)
        res.evaluations += 1
        res.count("generate_mesh steps")
        if errs:
            if chain and model_at is not None:
                # known finding D7 only if the modelled cascade (stale id map, re-used ids) reproduces what the code did on the copy;
                # decided in run() once the Coq evaluation is known
                CHAIN_PENDING.append((model_at, f"{label}: inconsistent after generate_mesh on a short-edge chain: {errs[0]}", dict(replay, ne=ne, flag=flag)))
            elif chain:
                res.fail("oracle", f"{label}: inconsistent after generate_mesh on a short-edge chain: {errs[0]}", replay, tag="D7-short-edge-chain")
            else:
                res.fail("oracle", f"{label}: inconsistent after generate_mesh(ne={ne}, replace_short_edges={flag}): {errs[0]}", dict(replay, ne=ne, flag=flag))
            return
        if len(c) and rng.random() < 0.7:
            try:
                with impl.quiet():
                    fr = impl.fframes.Frame(0, v, e, c)
                errs = impl.consistency_errors(v, e, c)
                res.count("Frame constructions")
                if errs:
                    res.fail("oracle", f"{label}: inconsistent after Frame construction: {errs[0]}", replay)
                    return
                del fr
            except Exception as ex:  # noqa
                res.fail("oracle", f"{label}: Frame construction raised {type(ex).__name__}: {str(ex)[:60]}", replay)
                return


def check_mesh(res, v, e, c, rng, replay, label, steps=2):
    errs = impl.consistency_errors(v, e, c)
    res.case((label, len(v), len(e), len(c)), nontrivial=len(c) >= 3)
    res.count(label.split("/")[0])
    if errs:
        res.fail("oracle", f"{label}: mesh inconsistent right after parsing / construction: {errs[0]}", replay)
        return
    follow_up(res, v, e, c, rng, replay, label, steps)


def heap_ops(res, rng, exprs, kind):
    """random create / delete / replace sequences on real SmallEdge (or Cell) objects, mirrored as Model/Heap.v operations"""
    nv = int(rng.integers(5, 12))
    vs = {i: impl.fvertex.Vertex(i, float(rng.uniform(0, 10)), float(rng.uniform(0, 10))) for i in range(nv)}
    store = {}
    ops = []
    next_id = 0
    for _ in range(int(rng.integers(8, 30))):
        r = rng.random()
        if r < 0.5 or not store:
            if kind == "edge":
                a, b = [int(x) for x in rng.choice(nv, size=2, replace=False)]
                store[next_id] = impl.fedge.SmallEdge(next_id, vs[a], vs[b])
                ops.append(f"Create {next_id} {C.zlist([a, b])}")
            else:
                cyc = [int(x) for x in rng.choice(nv, size=int(rng.integers(3, min(6, nv) + 1)), replace=False)]
                store[next_id] = impl.fcell.Cell(next_id, [vs[i] for i in cyc], center_method="none")
                ops.append(f"Create {next_id} {C.zlist(cyc)}")
            next_id += 1
        elif r < 0.8:
            k = list(store)[int(rng.integers(0, len(store)))]
            del store[k]
            ops.append(f"Delete {k}")
        else:
            k = list(store)[int(rng.integers(0, len(store)))]
            obj = store[k]
            cur = [obj.v1.id, obj.v2.id] if kind == "edge" else [w.id for w in obj.vertices]
            old = cur[int(rng.integers(0, len(cur)))]
            cand = [i for i in range(nv) if i not in cur]
            if not cand:
                del obj
                continue
            new = cand[int(rng.integers(0, len(cand)))]
            obj.replace_vertex(vs[old], vs[new])
            if kind == "cell":
                # Cell.replace_vertex leaves the old vertex's ownCells untouched (the callers delete that vertex afterwards)
                vs[old].ownCells.remove(k)
            ops.append(f"Replace {k} {old} {new}")
            del obj        # keep no extra reference: a later `del store[k]` must run __del__ at once
    own = [list(vs[i].ownEdges if kind == "edge" else vs[i].ownCells) for i in range(nv)]
    items = [[k, ([o.v1.id, o.v2.id] if kind == "edge" else [w.id for w in o.vertices])] for k, o in store.items()]
    res.evaluations += 1
    res.count(f"heap-op sequences ({kind})")
    e = (f"let s := hrun [{'; '.join(ops)}] in listlistZ_eqb (map (own s) {C.zlist(list(range(nv)))}) {C.zlistlist(own)} && "
         f"cs_eqb (items s) [{'; '.join('(' + C.zlit(k) + ', ' + C.zlist(l) + ')' for k, l in items)}] && consistent_b s {C.zlist(list(range(nv)))}")
    exprs.append((e, {"ops": ops, "kind": kind}))


def run(res, tier, seed):
    rng = np.random.default_rng(seed)
    os.makedirs(WORKDIR, exist_ok=True)
    exprs = []
    n = 3 if tier == "quick" else 40
    for k in range(n):
        # 1. Surface Evolver dumps
        spec = gen.voronoi_tissue(rng, n=int(rng.integers(10, 35)), npts=int(rng.integers(0, 8)), mob_strength=float(rng.choice([0.0, 1.0])))
        if len(spec["cells"]) >= 2:
            if k % 2:
                spec = gen.sub_tissue(spec, gen.connected_subsets(spec, rng, 1, min_cells=2)[0])
            path = os.path.join(WORKDIR, f"se_{k}.dmp")
            c14.make_dump(rng, spec, path)
            try:
                with impl.quiet():
                    se = impl.fs.surface_evolver.SurfaceEvolver(path)
                check_mesh(res, se.vertices, se.edges, se.cells, rng, {"dump": open(path).read()}, f"surface_evolver/{k}")
            except Exception as ex:  # noqa
                res.fail("oracle", f"SurfaceEvolver raised {type(ex).__name__}", {"dump": open(path).read()})
        # 2. tessellations
        centres = (rng.uniform(0, 100, size=(int(rng.integers(8, 60)), 2)).tolist() if k % 2 else
                   [(float(i) * 10, float(j) * 10) for i in range(int(rng.integers(3, 7))) for j in range(int(rng.integers(3, 7)))])
        try:
            with impl.quiet():
                els = impl.fs.tessellation.create_lattice_elements([tuple(p) for p in centres])
                v, e, c = impl.fs.tessellation.create_lattice(*els)
            check_mesh(res, v, e, c, rng, {"centres": centres}, f"tessellation/{k}")
        except AssertionError:
            res.count("tessellation: zero-length ridge rejected by SmallEdge (not judged)")
        except Exception as ex:  # noqa
            res.fail("oracle", f"tessellation raised {type(ex).__name__}: {str(ex)[:60]}", {"centres": centres})
        # 3. WKT
        spec = gen.voronoi_tissue(rng, n=int(rng.integers(10, 30)), npts=int(rng.integers(0, 3)), snap=4)
        pos = {i: (x, y) for i, x, y in spec["vertices"]}
        if len(set(pos.values())) < len(pos):
            res.count("wkt: snapping made two vertices coincide (a polygon with a repeated point is not a valid input; skipped)")
        elif len(spec["cells"]) >= 2:
            rows = ["POLYGON ((" + ", ".join(f"{pos[i][0]} {pos[i][1]}" for i in cyc + [cyc[0]]) + "))" for _, cyc in spec["cells"]]
            try:
                with impl.quiet():
                    v, e, c = impl.fs.wkt.create_lattice(rows)
                check_mesh(res, v, e, c, rng, {"wkt": rows}, f"wkt/{k}")
            except Exception as ex:  # noqa
                res.fail("oracle", f"wkt.create_lattice raised {type(ex).__name__}: {str(ex)[:60]}", {"wkt": rows})
        # 5. spec-built tissues with holes and bridges: a longer operation sequence
        spec = gen.voronoi_tissue(rng, n=int(rng.integers(20, 45)), npts_range=(0, 10), npts=0)
        if len(spec["cells"]) >= 4:
            ids = [c_[0] for c_ in spec["cells"]]
            drop = set(int(x) for x in rng.choice(ids, size=max(1, len(ids) // 5), replace=False))
            sub = gen.sub_tissue(spec, [i for i in ids if i not in drop])
            v, e, c = impl.build(sub)
            check_mesh(res, v, e, c, rng, {"spec": {kk: sub[kk] for kk in ("vertices", "edges", "cells")}}, f"sub-tissue/{k}", steps=3)
    # 4. shipped skeleton images
    skel = [os.path.join(impl.REPO, "tests", "data", "test_nonzero.tif"), os.path.join(impl.REPO, "tests", "data", "experimental", "exp_1.tif")]
    for path in skel:
        if not os.path.exists(path):
            continue
        for mirror in ((False,) if tier == "quick" else (False, True)):
            try:
                with impl.quiet():
                    sk = impl.fs.skeleton.Skeleton(path, mirror_y=mirror)
                    v, e, c = sk.create_lattice()
                # the raw pixel lattice is resampled first, as the package's own pipeline does
                with impl.quiet():
                    v, e, c, _ = impl.ve.generate_mesh(v, e, c, ne=int(rng.integers(3, 10)))
                check_mesh(res, v, e, c, rng, {"skeleton": os.path.basename(path), "mirror_y": mirror}, f"skeleton/{os.path.basename(path)}", steps=1)
            except Exception as ex:  # noqa
                res.fail("oracle", f"skeleton pipeline raised {type(ex).__name__}: {str(ex)[:60]}", {"skeleton": path})
    for _ in range(6 if tier == "quick" else 60):
        heap_ops(res, rng, exprs, "edge")
        heap_ops(res, rng, exprs, "cell")
    base = len(exprs)
    exprs.extend(MODEL_EXPRS)
    del MODEL_EXPRS[:]
    bools, outs = C.coq_eval_bools("C09", IMPORTS, [e for e, _ in exprs], chunk=30)
    for at, msg, rp in CHAIN_PENDING:
        if base + at < len(bools) and bools[base + at] is True:
            res.fail("oracle", msg, rp, tag="D7-short-edge-chain")
        else:
            res.fail("oracle", msg + " -- and it is not what the modelled merge cascade of known finding D7 produces", rp)
    del CHAIN_PENDING[:]
    for (e, rp), b in zip(exprs, bools):
        res.traces += 1
        if b is not True:
            res.fail("correspondence", (f"Model/Heap.v != implementation objects ({rp['kind']} registration)" if "kind" in rp else
                                        f"Model/Resample.v generate_mesh != implementation on a mesh with consecutive two-point border interfaces ({rp.get('label')})") if b is False else "case did not evaluate",
                     {"correspondence": "Model/Heap.v vs vertex.py / edge.py / cell.py", "case": rp})


def search(res, tier, seed, broken):
    r2 = C.Result(res.pid)
    run(r2, "quick", seed + 67)
    res.failures.extend(f for f in r2.failures if f["kind"] == "oracle")
    res.notes.append(f"search: {r2.evaluations} extra oracle steps")


def replay(res, obj):
    inp = obj.get("input", obj)
    rng = np.random.default_rng(0)
    if "dump" in inp:
        os.makedirs(WORKDIR, exist_ok=True)
        path = os.path.join(WORKDIR, "replay.dmp")
        open(path, "w").write(inp["dump"])
        with impl.quiet():
            se = impl.fs.surface_evolver.SurfaceEvolver(path)
        check_mesh(res, se.vertices, se.edges, se.cells, rng, inp, "replay/surface_evolver")
    elif "spec" in inp:
        v, e, c = impl.build(inp["spec"])
        if "ne" in inp:
            with impl.quiet():
                v, e, c, _ = impl.ve.generate_mesh(v, e, c, ne=inp["ne"], replace_short_edges=inp["flag"])
        check_mesh(res, v, e, c, rng, inp, "replay/spec", steps=0 if "ne" in inp else 2)
    elif "centres" in inp:
        with impl.quiet():
            els = impl.fs.tessellation.create_lattice_elements([tuple(p) for p in inp["centres"]])
            v, e, c = impl.fs.tessellation.create_lattice(*els)
        errs = impl.consistency_errors(v, e, c)
        res.case(("replay", "tessellation"), True)
        if errs:
            res.fail("oracle", "replay/tessellation: " + errs[0], inp)
        try:
            with impl.quiet():
                impl.ve.generate_mesh(v, e, c, ne=4, replace_short_edges=True)
        except Exception as ex:  # noqa
            if chain_present(v, e, c, 4) or True:
                res.fail("oracle", f"replay/tessellation: generate_mesh raised {type(ex).__name__} on a short-edge chain", inp, tag="D7-short-edge-chain")
    else:
        res.case(("replay",), True)
