"""C04 -- pressure step: Young-Laplace equations with a zero-sum least-squares solution."""
import math
import numpy as np
import common as C
import gen
import impl

RULE = ("Moebius-image equilibrium tissues, straight-edged tissues, 3..17 points per interface, cells stored clockwise / "
        "counter-clockwise / mixed, relabelled cell ids, arbitrary tension vectors (linearity), connected sub-tissues containing "
        "cells without internal interfaces; single uniformly sampled arcs for the turning estimate; non-trivial = the pressure "
        "matrix has at least 3 rows; distinct = (tissue fingerprint, orientation pattern)")
TRUSTED = ["Model/PressureSys.v get_row / removed_columns / reinsert_zeros / assign_pressures tied to pmatrix.py / general_matrix.py / "
           "frames.py by exact correspondence; total_curvature (PrimFloat instance) compared with tolerance 1e-9",
           "np.linalg.inv of the bordered normal equations is an oracle; its output is compared with an independent least-squares solve"]
ASSUMPTIONS = ["tolerance 1e-7 (relative to the pressure scale) between reported pressures and the independent zero-sum least-squares solution"]
TESTED_NOT_PROVED = ["(proved over the reals in Props/C04.v: turning estimate zero on collinear points, invariant under translation / uniform scaling, "
                     "odd under reversal; the floating-point implementation is compared with these by the oracle)",
                     "the 3% turning-estimate clause (swept over uniformly sampled arcs: n = 3..17, angle up to 1.5 rad) and the 0.9 correlation "
                     "clause (equilibrium Moebius tissues, >= 5 points per interface) are evaluated by the oracle only",
                     "that a solution of the bordered normal equations is THE zero-sum least-squares solution on a connected tissue is proved (C04_connected_pressures_are_the_zero_sum_least_squares); "
                     "that numpy's inverse returns such a solution is checked numerically (stationarity, zero sum, +-1 rows on the reported pressures; independent solve)"]
IMPORTS = "From Forsys Require Import Model.Num Model.CaseUtil Model.PyList Model.PressureSys.\n"


def circle_through(p, q, r):
    ax, ay, bx, by, cx, cy = *p, *q, *r
    d = 2 * (ax * (by - cy) + bx * (cy - ay) + cx * (ay - by))
    if abs(d) < 1e-14:
        return None
    ux = ((ax * ax + ay * ay) * (by - cy) + (bx * bx + by * by) * (cy - ay) + (cx * cx + cy * cy) * (ay - by)) / d
    uy = ((ax * ax + ay * ay) * (cx - bx) + (bx * bx + by * by) * (ax - cx) + (cx * cx + cy * cy) * (bx - ax)) / d
    return ux, uy, math.hypot(ax - ux, ay - uy)


def side_cell(spec_cells, pos, iface_pts, own):
    """which own cell lies on the left of the interface traversed in storage direction (independent geometry)"""
    left = None
    for c in own:
        cyc = spec_cells[c]
        n = len(cyc)
        a2 = sum(pos[cyc[i]][0] * pos[cyc[(i + 1) % n]][1] - pos[cyc[(i + 1) % n]][0] * pos[cyc[i]][1] for i in range(n))
        k = cyc.index(iface_pts[0])
        forward = cyc[(k + 1) % n] == iface_pts[1]
        # interior is on the left of a CCW (a2 > 0) traversal
        if (a2 > 0) == forward:
            left = c
    return left


def ls_zero_sum(A, r):
    n = A.shape[1]
    K = np.vstack([np.hstack([A.T @ A, np.ones((n, 1))]), np.hstack([np.ones(n), [0.0]])])
    rhs = np.concatenate([A.T @ r, [0.0]])
    sol = np.linalg.lstsq(K, rhs, rcond=None)[0]
    return sol[:-1]


def check_tissue(res, spec, exprs, label, rng, equilibrium):
    fr = impl.frame(spec)
    f = impl.forsys_of({0: fr})
    replay = {"spec": {k: spec[k] for k in ("vertices", "edges", "cells")}, "label": label}
    pos = {v[0]: (v[1], v[2]) for v in spec["vertices"]}
    cells = dict(spec["cells"])
    keys = list(fr.cells.keys())
    internal = list(fr.internal_big_edges)
    if len(internal) < 3:
        return
    if any(len(be.own_cells) != 2 for be in internal):
        res.count("skipped: D15 two-point border interface classified internal")
        return
    bad = []
    # tensions: analytic (equilibrium) or arbitrary
    truth = {tuple(sorted(it["cells"])): it["T"] for it in spec.get("ifaces", []) if it.get("T")}
    T1 = np.array([truth.get(tuple(sorted(be.own_cells)), 1.0) for be in internal]) if equilibrium else rng.uniform(0.2, 3.0, size=len(internal))
    T1 = T1 / T1.mean()
    T2 = rng.uniform(0.2, 3.0, size=len(internal))
    al, be_ = 0.7, -1.3

    def solve_with(T):
        for b, t in zip(internal, T):
            b.tension = float(t)
        with impl.quiet():
            f.build_pressure_matrix(when=0)
            f.solve_pressure(when=0, method="lagrange_pressure")
        pm = f.pressure_matrices[0]
        return pm, np.array([c.pressure for c in fr.cells.values()], dtype=float)
    try:
        pm, P1 = solve_with(T1)
    except Exception as ex:  # noqa
        res.fail("oracle", f"pressure step raised {type(ex).__name__}: {str(ex)[:80]}", replay)
        return
    A = np.array(pm.lhs_matrix, dtype=float)
    r = np.array(pm.rhs_matrix, dtype=float)
    removed = list(pm.removed_columns)
    kept_cols = [j for j in range(len(keys)) if j not in removed]
    if A.ndim != 2 or A.shape[1] != len(kept_cols):
        res.fail("oracle", f"the pressure matrix has {A.shape[1] if A.ndim == 2 else '?'} columns although {len(removed)} of the {len(keys)} cells are recorded as "
                 f"removed (cells touching no internal interface: columns {removed[:5]})", replay)
        return
    touched = set()
    for be in internal:
        touched.update(be.own_cells)
    # rows: one +1 and one -1 at the interface's two cells; sign: the cell on the side of the centre of curvature has the higher pressure
    for i, be in enumerate(internal):
        row = A[i]
        nz = {kept_cols[j]: row[j] for j in np.nonzero(row)[0]}
        exp_cols = {keys.index(c) for c in be.own_cells}
        if set(nz) != exp_cols or sorted(nz.values()) != [-1.0, 1.0]:
            bad.append(f"row {i}: non-zero entries {nz} but the interface separates cells {be.own_cells}")
            continue
        ids = be.get_vertices_ids()
        K = be.calculate_total_curvature(normalized=False)
        if abs(r[i] - T1[i] * K) > 1e-12 * (1 + abs(T1[i] * K)):
            bad.append(f"row {i}: right-hand side {r[i]} is not tension x total curvature {T1[i] * K}")
        if len(ids) >= 3:
            turn = sum((pos[ids[j + 1]][0] - pos[ids[j]][0]) * (pos[ids[j + 2]][1] - pos[ids[j + 1]][1]) -
                       (pos[ids[j + 1]][1] - pos[ids[j]][1]) * (pos[ids[j + 2]][0] - pos[ids[j + 1]][0]) for j in range(len(ids) - 2))
            ext = max(abs(pos[ids[0]][0] - pos[ids[-1]][0]), abs(pos[ids[0]][1] - pos[ids[-1]][1]), 1e-12)
            if abs(turn) > 1e-7 * ext * ext and abs(K) > 1e-9:
                left = side_cell(cells, pos, ids, be.own_cells)
                centre_side = left if turn > 0 else [c for c in be.own_cells if c != left][0]
                plus = [kept_cols[j] for j in np.nonzero(row > 0)[0]][0]
                # equation: p_plus - p_minus = T*K ; the centre-side cell must come out higher for positive tension
                higher = keys[plus] if r[i] > 0 else [c for c in be.own_cells if c != keys[plus]][0]
                if higher != centre_side:
                    bad.append(f"row {i}: the equation puts the higher pressure in cell {higher}, the centre of curvature lies in cell {centre_side}")
            elif abs(turn) <= 1e-12 * ext * ext and abs(K) > 1e-6:
                bad.append(f"row {i}: straight interface but turning estimate {K}")
    # removed columns = cells touching no internal interface; they get pressure zero
    exp_removed = [j for j, c in enumerate(keys) if c not in touched]
    if removed != exp_removed:
        bad.append(f"dropped columns {removed} but the cells without an internal interface are at {exp_removed}")
    for j in exp_removed:
        if P1[j] != 0.0:
            bad.append(f"cell {keys[j]} touches no internal interface but has pressure {P1[j]}")
            break
    # connectedness of the retained cells through internal interfaces
    adj = {}
    for be in internal:
        a, b = be.own_cells
        adj.setdefault(a, set()).add(b)
        adj.setdefault(b, set()).add(a)
    start = next(iter(adj))
    seen, st = {start}, [start]
    while st:
        u = st.pop()
        for w in adj[u]:
            if w not in seen:
                seen.add(w)
                st.append(w)
    connected = seen == set(adj)
    scale = 1 + float(np.max(np.abs(P1)))
    if connected:
        ref = ls_zero_sum(A, r)
        got = P1[kept_cols]
        if np.max(np.abs(got - ref)) > 1e-7 * scale:
            bad.append(f"reported pressures differ from the zero-sum least-squares solution by {np.max(np.abs(got - ref)):.3g}")
        if abs(float(np.sum(P1))) > 1e-7 * scale * len(P1):
            bad.append(f"pressures sum to {np.sum(P1)}")
        # the premises of theorem C04_connected_pressures_are_the_zero_sum_least_squares on the implementation's own output:
        # stationarity A^T (A p - r) = -mu 1 (a constant vector), zero sum, +-1 difference rows, connectedness (established above)
        g = A.T @ (A @ got - r)
        gscale = 1.0 + float(np.max(np.abs(A.T @ A))) * float(np.max(np.abs(got))) + float(np.max(np.abs(A.T @ r)))
        rows_ok = all(sorted(row[np.nonzero(row)[0]].tolist()) == [-1.0, 1.0] for row in A)
        if float(np.max(g) - np.min(g)) > 1e-7 * gscale:
            bad.append(f"reported pressures are not a stationary point of the bordered normal equations: A^T(Ap - r) spreads by {float(np.max(g) - np.min(g)):.3g}")
        elif rows_ok:
            res.count("premises of the zero-sum least-squares theorem hold on the reported pressures")
        # linearity in the tensions
        _, P2 = solve_with(T2)
        _, P3 = solve_with(al * T1 + be_ * T2)
        if np.max(np.abs(P3 - (al * P1 + be_ * P2))) > 1e-7 * (1 + np.max(np.abs(P1)) + np.max(np.abs(P2))):
            bad.append("pressures are not linear in the tensions")
        pm, P1 = solve_with(T1)
    else:
        res.count("internal interfaces do not connect the retained cells (least-squares clause skipped)")
    # correlation with analytic Young-Laplace pressures
    if equilibrium and connected and spec["meta"].get("mobius") and min(len(be.vertices) for be in internal) >= 5 and len(adj) >= 6:
        rows, rh, rh_turn = [], [], []
        for be, t in zip(internal, T1):
            ids = be.get_vertices_ids()
            cc = circle_through(pos[ids[0]], pos[ids[len(ids) // 2]], pos[ids[-1]])
            if cc is None:
                kap = 0.0
            else:
                kap = 1.0 / cc[2]
            turn = (pos[ids[1]][0] - pos[ids[0]][0]) * (pos[ids[-1]][1] - pos[ids[1]][1]) - (pos[ids[1]][1] - pos[ids[0]][1]) * (pos[ids[-1]][0] - pos[ids[1]][0])
            left = side_cell(cells, pos, ids, be.own_cells)
            centre_side = left if turn > 0 else [c for c in be.own_cells if c != left][0]
            other = [c for c in be.own_cells if c != centre_side][0]
            row = np.zeros(len(keys))
            row[keys.index(centre_side)] = 1
            row[keys.index(other)] = -1
            rows.append(row[kept_cols])
            rh.append(t * kap)
            # the exact right-hand side of forsys' own equation: tension x total turning of the sampled arc
            chord = math.hypot(pos[ids[-1]][0] - pos[ids[0]][0], pos[ids[-1]][1] - pos[ids[0]][1])
            theta = 2 * math.asin(min(1.0, chord * kap / 2)) if kap > 0 else 0.0
            rh_turn.append(t * theta * (len(ids) - 2) / (len(ids) - 1))
        ana = ls_zero_sum(np.array(rows), np.array(rh))
        ana_turn = ls_zero_sum(np.array(rows), np.array(rh_turn))
        got = P1[kept_cols]
        if np.std(ana) > 1e-12 and np.std(got) > 1e-12:
            corr = float(np.corrcoef(ana, got)[0, 1])
            corr_turn = float(np.corrcoef(ana_turn, got)[0, 1]) if np.std(ana_turn) > 1e-12 else 0.0
            res.extra.setdefault("correlations", []).append(round(corr, 4))
            if corr < 0.9:
                msg = f"correlation with the analytic Young-Laplace pressures is {corr:.3f} < 0.9"
                if corr_turn >= 0.99:
                    # the reported pressures solve forsys' own equations (tension x turning angle) to correlation >= 0.99: the shortfall is
                    # entirely the difference between turning angle (= length x curvature) and curvature
                    res.fail("oracle", msg + f" although the pressures agree with the exact solution of the equations 'tension x total turning' "
                             f"(correlation {corr_turn:.4f}): interfaces of unequal length weigh the curvature differently", replay,
                             tag="D24-turning-is-not-curvature")
                else:
                    bad.append(msg + f" (and {corr_turn:.3f} with the solution of the turning-angle equations)")
    for b in bad[:3]:
        res.fail("oracle", b, replay)
    res.case((tuple(tuple(x[1:]) for x in spec["vertices"][:5]), len(spec["cells"]), tuple(spec["meta"].get("flipped", []))), nontrivial=len(internal) >= 3)
    res.count(f"removed_columns={len(removed)}")
    res.count("connected" if connected else "disconnected")
    res.sample({"label": label, "cells": len(keys), "internal": len(internal), "removed_columns": removed, "pressures": P1[:4].tolist()})
    # ---- correspondence
    keys_l = C.zlist(keys)
    rows_impl = "[" + "; ".join(C.zlist([int(v) for v in row]) for row in A.tolist()) + "]"
    own_l = "[" + "; ".join(f"({C.zlist(be.own_cells)}, {C.zlit(fr.cells[be.own_cells[0]].get_area_sign())})" for be in internal) + "]"
    sol = list(pm.solution)
    raw = [sol[j] for j in kept_cols]
    e = (f"let keys := {keys_l} in let rows := map (fun os => match get_row keys (fst os) (snd os) with Some r => r | None => [] end) {own_l} in "
         f"let rem := removed_columns (length keys) rows in "
         f"listZ_eqb (map Z.of_nat rem) {C.zlist(removed)} && listlistZ_eqb (map (drop_columns rem) rows) {rows_impl} && "
         f"listQ_eqb (reinsert_zeros 0%Q (length keys) rem [{'; '.join(C.qlit(v) for v in raw)}]) [{'; '.join(C.qlit(v) for v in sol)}] && "
         f"forallb (fun p => Z.eqb (fst (fst p)) (fst (snd p)) && Qeq_bool (snd (fst p)) (snd (snd p))) "
         f"(combine (assign_pressures 0%Q keys [{'; '.join(C.qlit(v) for v in sol)}]) [{'; '.join('(' + C.zlit(k) + ', ' + C.qlit(fr.cells[k].pressure) + ')' for k in keys)}])")
    exprs.append((e, replay, "rows/reinsertion"))
    # curvature of a few interfaces in PrimFloat
    for be in internal[:4]:
        K = be.calculate_total_curvature(normalized=False)
        exprs.append((f"fclose 1e-9 (total_curvature FOps [{'; '.join(C.flit(x) for x in be.xs)}] [{'; '.join(C.flit(y) for y in be.ys)}]) {C.flit(K)}",
                      replay, "total curvature"))


def arc_sweep(res, tier):
    """turning estimate on uniformly sampled arcs: zero for straight, scale free, orientation odd, within 3% of theta*(n-2)/(n-1)"""
    worst = 0.0
    thetas = np.linspace(0.05, 1.5, 8 if tier == "quick" else 40)
    for n in range(3, 18):
        for th in thetas:
            for (R, rot, cx, cy) in ((1.0, 0.3, 0.0, 0.0), (37.5, 2.1, 100.0, -40.0)):
                ang = rot + np.linspace(0, th, n)
                pts = [(cx + R * math.cos(a), cy + R * math.sin(a)) for a in ang]
                vs = [impl.fvertex.Vertex(i, x, y) for i, (x, y) in enumerate(pts)]
                es = [impl.fedge.SmallEdge(i, vs[i], vs[i + 1]) for i in range(n - 1)]
                K = impl.fedge.BigEdge(0, vs).calculate_total_curvature(normalized=False)
                vr = [impl.fvertex.Vertex(i, x, y) for i, (x, y) in enumerate(pts[::-1])]
                er = [impl.fedge.SmallEdge(i, vr[i], vr[i + 1]) for i in range(n - 1)]
                Kr = impl.fedge.BigEdge(1, vr).calculate_total_curvature(normalized=False)
                exp = th * (n - 2) / (n - 1)
                rel = abs(abs(K) - exp) / exp
                worst = max(worst, rel)
                res.evaluations += 1
                if rel > 0.03:
                    res.fail("oracle", f"turning estimate {abs(K)} for a uniformly sampled arc of {th:.3f} rad with {n} points, expected {exp} (off by {100 * rel:.1f}%)",
                             {"arc": [n, float(th), R, rot, cx, cy]})
                if abs(K + Kr) > 1e-9 * (1 + abs(K)):
                    res.fail("oracle", f"turning estimate is not odd under reversal of the storage direction: {K} vs {Kr}", {"arc": [n, float(th), R, rot, cx, cy]})
    # straight interfaces with uneven spacing
    for n in range(2, 12):
        ts = np.cumsum(np.linspace(0.3, 1.7, n))
        vs = [impl.fvertex.Vertex(i, 3 + 2 * t, -1 + 0.5 * t) for i, t in enumerate(ts)]
        es = [impl.fedge.SmallEdge(i, vs[i], vs[i + 1]) for i in range(n - 1)]
        K = impl.fedge.BigEdge(0, vs).calculate_total_curvature(normalized=False)
        res.evaluations += 1
        if abs(K) > 1e-9:
            res.fail("oracle", f"turning estimate {K} for a straight interface with {n} points", {"straight": n})
    res.extra["worst_turning_estimate_error"] = worst


def tissues(rng, tier):
    n = 6 if tier == "quick" else 80
    for k in range(n):
        kind = k % 3
        npts = int(rng.integers(1, 16))
        if kind == 0:
            spec = gen.voronoi_tissue(rng, n=int(rng.integers(14, 40)), npts=max(npts, 3), mob_strength=float(rng.uniform(0.5, 1.5)))
            eq = True
        elif kind == 1:
            spec = gen.voronoi_tissue(rng, n=int(rng.integers(14, 40)), npts=npts)
            eq = True
        else:
            spec = gen.voronoi_tissue(rng, n=int(rng.integers(14, 40)), npts=max(npts, 1), mob_strength=float(rng.uniform(0.5, 1.5)))
            sub = gen.connected_subsets(spec, rng, 1, min_cells=4)[0]
            spec = gen.sub_tissue(spec, sub)
            eq = False
        if len(spec["cells"]) < 4:
            continue
        if kind == 2:
            dg = gen.with_dangling(gen.voronoi_tissue(rng, n=int(rng.integers(30, 50)), npts=2, mob_strength=0.8), rng, k=int(rng.integers(2, 4)))
            if dg is not None:
                yield gen.relabel(dg, rng, flip=0.3, shuffle_vertex_order=False), f"t{k}/dangling", False
            # exactly one cell without internal interface, stored first / in the middle / last in the cells dictionary (removed column 0, j, n-1)
            for _try in range(40):
                base1 = gen.voronoi_tissue(rng, n=int(rng.integers(30, 50)), npts=2, mob_strength=0.8)
                d1 = gen.with_dangling(base1, rng, k=1, core_size=int(rng.integers(7, 12)))
                if d1 is None:
                    continue
                fr1 = impl.frame(d1)
                covered = {c for be in fr1.internal_big_edges for c in be.own_cells}
                lone = [c for c, _ in d1["cells"] if c not in covered]
                if len(lone) != 1:
                    continue
                others = [cv for cv in d1["cells"] if cv[0] != lone[0]]
                me = [cv for cv in d1["cells"] if cv[0] == lone[0]]
                where = (k // 3) % 3
                pos_ = 0 if where == 0 else (len(others) if where == 2 else len(others) // 2)
                d1 = dict(d1, cells=others[:pos_] + me + others[pos_:])
                yield d1, f"t{k}/one-dangling-at-{['front', 'middle', 'end'][where]}", False
                break
        yield spec, f"t{k}/kind{kind}", eq
        yield gen.relabel(spec, rng, flip=float(rng.choice([0.0, 0.5, 1.0]))), f"t{k}/kind{kind}/relabelled", eq


def run(res, tier, seed):
    rng = np.random.default_rng(seed)
    exprs = []
    arc_sweep(res, tier)
    for spec, label, eq in tissues(rng, tier):
        check_tissue(res, spec, exprs, label, rng, eq)
    bools, outs = C.coq_eval_bools("C04", IMPORTS, [e for e, _, _ in exprs], chunk=10)
    for (e, rp, kind), b in zip(exprs, bools):
        res.traces += 1
        if b is not True:
            res.fail("correspondence", f"model != implementation ({kind})" if b is False else f"case did not evaluate ({kind})",
                     {"correspondence": f"Model/PressureSys.v ({kind})", "case": rp})


def search(res, tier, seed, broken):
    rng = np.random.default_rng(seed + 29)
    r2 = C.Result(res.pid)
    sink = []
    for spec, label, eq in tissues(rng, "thorough"):
        check_tissue(r2, spec, sink, label, rng, eq)
        if [f for f in r2.failures if f["kind"] == "oracle"] or r2.evaluations > 80:
            break
    res.failures.extend(f for f in r2.failures if f["kind"] == "oracle")
    res.notes.append(f"search: {r2.evaluations} extra oracle cases")


def replay(res, obj):
    inp = obj.get("input", obj)
    if "case" in inp:
        inp = inp["case"]
    sink = []
    spec = dict(inp["spec"])
    spec.setdefault("meta", {})
    spec.setdefault("ifaces", [])
    check_tissue(res, spec, sink, "replay", np.random.default_rng(0), False)
