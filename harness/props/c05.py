"""C05 -- reported tensions are the non-negative least-squares optimum with mean one."""
from fractions import Fraction
import math
import warnings
import numpy as np
import common as C
import gen
import impl

RULE = ("equilibrium, noisy (vertex jitter) and ill-scaled tissues incl. 'rosettes' (a cell with its full ring of neighbours: "
        "square augmented systems, so that the inversion path runs), static right-hand side, allow_negatives on/off, method in "
        "{default, lsq, lsq_linear (equilibrium only), fix_stress}; non-trivial = the system has >= 3 unknowns; "
        "distinct = (tissue fingerprint, method, allow_negatives)")
TRUSTED = ["certificate route: kkt_check (Model/Cert.v, evaluated on exact integers = the captured doubles scaled by a power of two) "
           "+ theorem kkt_check_sound turn each accepted certificate into an optimality statement over all non-negative real vectors",
           "the captured doubles are scaled to integers by the harness (exact: powers of two)",
           "solver inputs/outputs are captured by proxying scipy.optimize / numpy.linalg.inv / lmfit.minimize inside the harness process",
           "Model/ForceSys.v add_mean_one / add_mean_one_before / solution_no_discarded tied to fmatrix.py by exact correspondence"]
ASSUMPTIONS = ["slacks: eps_w = 1e-7*(1+|A|_F^2*|z|_inf), eps_zw = eps_w*(1+|z|_inf) (nnls / lmfit termination tolerances)"]
TESTED_NOT_PROVED = ["'mean one for consistent systems' and finiteness are checked by the oracle on every case"]
IMPORTS = "From Forsys Require Import Model.Num Model.CaseUtil Model.PyList Model.ForceSys Model.Cert.\n"


def to_int_scale(arrs):
    """common power-of-two scale making every double in the arrays an integer (exact)"""
    s = 0
    for a in arrs:
        for x in np.asarray(a, dtype=float).ravel():
            if x != 0.0:
                m, e = math.frexp(x)          # x = m * 2**e, 0.5 <= |m| < 1, 53-bit mantissa
                fr = Fraction(x)
                s = max(s, fr.denominator.bit_length() - 1)
    return s


def noisy(spec, rng, amp):
    out = dict(spec)
    out["vertices"] = [[i, x + float(rng.normal(0, amp)), y + float(rng.normal(0, amp))] for i, x, y in spec["vertices"]]
    out["meta"] = dict(spec.get("meta", {}), noise=amp)
    return out


def rosette(spec, rng):
    adj = gen.cell_adjacency(spec)
    cyc = dict(spec["cells"])
    # a cell all of whose sides are shared (interior cell): number of neighbours == number of corners
    owner = {}
    for cid, v in spec["cells"]:
        for k in range(len(v)):
            owner.setdefault(frozenset((v[k], v[(k + 1) % len(v)])), set()).add(cid)
    interior = [cid for cid, v in spec["cells"] if all(len(owner[frozenset((v[k], v[(k + 1) % len(v)]))]) == 2 for k in range(len(v)))]
    if not interior:
        return None
    c = interior[int(rng.integers(0, len(interior)))]
    return gen.sub_tissue(spec, [c] + sorted(adj[c]))


def kkt_exact(A, b, z, eps_w, eps_zw):
    """independent exact KKT test with Fractions"""
    A = [[Fraction(x) for x in row] for row in A]
    b = [Fraction(x) for x in b]
    z = [Fraction(x) for x in z]
    r = [sum(a * zz for a, zz in zip(row, z)) - bb for row, bb in zip(A, b)]
    n = len(z)
    w = [sum(A[i][j] * r[i] for i in range(len(A))) for j in range(n)]
    worst_w = min(w) if w else 0
    worst_zw = max(zz * ww for zz, ww in zip(z, w)) if w else 0
    ok = all(zz >= 0 for zz in z) and worst_w >= -Fraction(eps_w) and worst_zw <= Fraction(eps_zw)
    return ok, float(worst_w), float(worst_zw), float(sum(x * x for x in r))


def check_case(res, spec, method, allow_neg, exprs, label, consistent, limit=None, velocity_first=0):
    """velocity_first: the tissue is the first frame of a two-frame movie and, before the static solve that is judged, the same assembled
    matrix is used for a velocity-based solve (1) or the system velocities are asked for (2) - "whichever solver path is taken", the static
    solve minimises the residual of the static equations"""
    fr = impl.frame(spec)
    if velocity_first:
        P = np.array([[x, y] for _, x, y in spec["vertices"]], dtype=float)
        ext = float(max(P[:, 0].max() - P[:, 0].min(), P[:, 1].max() - P[:, 1].min()))
        spec1 = dict(spec, vertices=[[i, x + 0.004 * ext * math.sin(1.7 * k), y + 0.004 * ext * math.cos(2.3 * k)] for k, (i, x, y) in enumerate(spec["vertices"])])
        f = impl.forsys_of({0: fr, 1: impl.frame(spec1, 1, 1.0)})
    else:
        f = impl.forsys_of({0: fr})
    replay = {"spec": {k: spec[k] for k in ("vertices", "edges", "cells")}, "method": method, "allow_negatives": allow_neg,
              "label": label, "consistent": consistent, "limit": limit, "velocity_first": velocity_first}
    with impl.quiet():
        f.build_force_matrix(when=0, angle_limit=np.inf if limit is None else limit)
    if velocity_first:
        try:
            with impl.quiet():
                if velocity_first == 1:
                    f.solve_stress(when=0, b_matrix="velocity", allow_negatives=False)
                else:
                    f.get_system_velocity_per_frame()
        except Exception:  # noqa  (what the velocity solve itself does is C03 / C13's subject)
            pass
        res.count("static solve after a velocity assembly on the same object")
    fm = f.force_matrices[0]
    M = np.array(fm.matrix, dtype=float)
    ncol = M.shape[1]
    if ncol < 3 or M.shape[0] == 0:
        return
    kw = {"allow_negatives": allow_neg}
    if method:
        kw["method"] = method
    wlist = []
    err = None
    with impl.capture_solvers() as rec, warnings.catch_warnings(record=True) as wl:
        warnings.simplefilter("always")
        try:
            with impl.quiet():
                f.solve_stress(when=0, **kw)
        except Exception as ex:  # noqa
            err = f"{type(ex).__name__}: {str(ex)[:100]}"
        wlist = [str(w.message)[:80] for w in wl]
    res.case((tuple(tuple(x[1:]) for x in spec["vertices"][:5]), len(spec["cells"]), method, allow_neg), nontrivial=True)
    res.count(f"method={method or 'default'}")
    res.count("square" if M.shape[0] == M.shape[1] else "rectangular")
    if method == "fix_stress":
        if err:
            res.fail("oracle", f"method='fix_stress' raises {err.split(':')[0]} for every system (right-hand side broadcast to a matrix)",
                     replay, tag="D17-fix-stress-broken")
        else:
            res.fail("oracle", "method='fix_stress' returned (expected to be broken)", replay)
        return
    if err:
        res.fail("oracle", f"solve_stress raised {err}", replay)
        return
    forces = f.forces[0]
    x = np.array([forces[i] for i in range(len(forces))], dtype=float)
    pre_bad = []
    if limit is not None:
        # with an angle limit the assembled system is the restricted one: the reported value of every interface that has a column is
        # judged; every other position must hold -1
        internal = [tuple(e) for e in fr.internal_big_edges_vertices]
        posn = {e: i for i, e in enumerate(internal)}
        cols = [tuple(e) for e in fm.big_edges_to_use]
        if len(x) != len(internal) or any(c not in posn for c in cols):
            pre_bad.append(f"{len(x)} values reported for {len(internal)} internal interfaces")
        else:
            colpos = [posn[c] for c in cols]
            if any(x[i] != -1 for i in range(len(x)) if i not in set(colpos)):
                pre_bad.append("an interface without a column in the assembled system is not reported as -1")
            minus = [i for i in colpos if x[i] == -1]
            if minus:
                pre_bad.append(f"interface(s) {minus[:4]} take part in the assembled system but are reported as -1")
            x = x[colpos]
        res.count("angle-limited" if len(cols) < len(internal) else "angle limit without exclusion")
    final = [c for c in rec.calls if c["x"] is not None or c.get("inv") is not None]
    path = "+".join(c["solver"] + ("!" if c["error"] else "") for c in rec.calls)
    res.count(f"path={path}")
    bad = list(pre_bad)
    if len(x) != ncol:
        bad.append(f"{len(x)} reported tensions for {ncol} unknowns")
    if not np.all(np.isfinite(x)):
        bad.append("non-finite tension reported")
    if not allow_neg and np.any(x < 0):
        bad.append(f"negative tension {x.min()} reported with allow_negatives=False")
    # the optimisation problem of the statement (static mode: b = 0)
    A = np.vstack([np.hstack([M, np.ones((M.shape[0], 1))]), np.hstack([np.ones(ncol), [0.0]])])
    b = np.concatenate([np.zeros(M.shape[0]), [float(ncol)]])
    # multiplier: the one the solver returned if available, else the best non-negative one
    lam = None
    last = rec.calls[-1] if rec.calls else None
    if last is not None and last["x"] is not None and len(last["x"]) == ncol + 1 and method != "lsq_linear":
        lam = float(last["x"][-1])
    elif last is not None and last.get("inv") is not None:
        lam = float((last["inv"] @ np.concatenate([np.zeros(M.shape[0]), [float(ncol)]]))[-1])
    if lam is None or method == "lsq_linear":
        lam = max(0.0, -float(np.mean(M @ x))) if len(x) == ncol else 0.0
    neg_allowed_inv = allow_neg and (np.any(x < 0) or lam < 0)
    if len(x) == ncol and not neg_allowed_inv:
        z = np.concatenate([x, [lam]])
        zinf = float(np.max(np.abs(z)))
        eps_w = 1e-7 * (1 + float(np.sum(A * A)) * zinf)
        eps_zw = eps_w * (1 + zinf)
        if method in ("lsq", "lsq_linear"):
            eps_w *= 1e3       # Levenberg-Marquardt stops on ftol/xtol 1e-8 of a bounded re-parametrisation;
            eps_zw *= 1e3      # lsq_linear minimises the residual of the normal equations (consistent systems only)
        ok, ww, zw, rss = kkt_exact(A.tolist(), b.tolist(), z.tolist(), eps_w, eps_zw)
        if not ok:
            bad.append(f"reported tensions (+ multiplier {lam:.3g}) are not a KKT point of the non-negative least-squares problem: "
                       f"min gradient {ww:.3g} (>= {-eps_w:.3g}), max z*w {zw:.3g} (<= {eps_zw:.3g})")
        if method == "lsq" and not allow_neg:
            # "equal that minimiser within solver tolerance": the residual the Levenberg-Marquardt back-end reaches against the optimum of an
            # independent NNLS solve of the same problem.  On most systems it is within 1e-6 (relative); now and then, on large noisy systems
            # with many tensions at zero, lmfit stops short and reports success (known finding D27)
            import scipy.optimize
            zopt, _ = scipy.optimize.nnls(A, b)
            r_x, r_z = float(np.linalg.norm(A @ z - b)), float(np.linalg.norm(A @ zopt - b))
            res.count("lsq residual compared with the NNLS optimum")
            if r_x > r_z * (1 + 1e-5) + 1e-7 * (1 + float(np.linalg.norm(b))):
                msg = (f"method='lsq' stops short of the non-negative optimum: residual {r_x:.6g} against {r_z:.6g}, tensions up to "
                       f"{float(np.max(np.abs(z - zopt))):.3g} away from the minimiser (lmfit reports success)")
                active = int(np.sum(zopt[:-1] < 1e-12))
                if np.all(z >= -1e-12) and active >= 10 and ncol >= 60 and r_x <= 1.05 * r_z:
                    res.fail("oracle", msg + f"; {active} tensions of the minimiser are zero", replay, tag="D27-lsq-stops-short")
                else:
                    bad.append(msg)
        if consistent and abs(float(np.mean(x)) - 1) > 1e-6:
            bad.append(f"consistent system but mean tension {np.mean(x)}")
        # certificate evaluated in Coq on exact integers
        sa = to_int_scale([A])
        sz = to_int_scale([z])
        Ai = [[int(Fraction(v) * 2 ** sa) for v in row] for row in A.tolist()]
        zi = [int(Fraction(v) * 2 ** sz) for v in z.tolist()]
        bi = [int(Fraction(v) * 2 ** (sa + sz)) for v in b.tolist()]
        ew = int(Fraction(eps_w) * 2 ** (2 * sa + sz)) + 1
        ezw = int(Fraction(eps_zw) * 2 ** (2 * sa + 2 * sz)) + 1
        cert = (f"kkt_check ZOps {len(zi)} {C.zlistlist(Ai)} {C.zlist(bi)} {C.zlist(zi)} {C.zlit(ew)} {C.zlit(ezw)}")
        exprs.append((cert if ok else f"negb ({cert})", replay, "certificate"))
        res.count("certificates")
    elif neg_allowed_inv:
        res.count("negatives allowed and present (outside the non-negative clause)")
    for bb in bad[:3]:
        res.fail("oracle", bb, replay)
    res.sample({"label": label, "method": method, "allow_negatives": allow_neg, "shape": list(M.shape), "path": path,
                "warnings": wlist[:1], "mean": float(np.mean(x)), "multiplier": lam})
    # correspondence: augmentation and re-alignment
    used = [c for c in rec.calls if c["A"] is not None and c["solver"] in ("nnls", "lsq_linear", "lmfit", "inv")]
    if used and len(x) == ncol and limit is None:
        c0 = used[0]
        rows_l = "[" + "; ".join("[" + "; ".join(C.qlit(v) for v in row) + "]" for row in M.tolist()) + "]"
        aug_l = "[" + "; ".join("[" + "; ".join(C.qlit(v) for v in row) + "]" for row in c0["A"].tolist()) + "]"
        zero_b = "[" + "; ".join("0" for _ in range(M.shape[0])) + "]"
        if method == "lsq_linear":
            e = (f"let r := add_mean_one_before {rows_l} (map inject_Z {zero_b}) {ncol} in "
                 f"forallb (fun p => forallb (fun q => Qle_bool (Qabs (fst q - snd q)) (1 # 1000000000000)) (combine (fst p) (snd p))) (combine (fst r) {aug_l}) "
                 f"&& (length (fst r) =? {c0['A'].shape[0]})%nat")
        else:
            bq = "[" + "; ".join(C.qlit(v) for v in (c0["b"] if c0["b"] is not None else b).tolist()) + "]"
            e = (f"let r := add_mean_one {rows_l} (map inject_Z {zero_b}) {ncol} in "
                 f"forallb (fun p => listQ_eqb (fst p) (snd p)) (combine (fst r) {aug_l}) && (length (fst r) =? {c0['A'].shape[0]})%nat "
                 f"&& listQ_eqb (snd r) {bq}")
        lastx = [c for c in rec.calls if c["x"] is not None]
        if lastx:
            raw = lastx[-1]["x"].tolist()
            e += (f" && listQ_eqb (solution_no_discarded [] {C.zlistlist([list(q) for q in fr.internal_big_edges_vertices])} "
                  f"(removelast [{'; '.join(C.qlit(v) for v in raw)}])) [{'; '.join(C.qlit(v) for v in x.tolist())}]")
        exprs.append((e, replay, "augmentation"))


def cases(rng, tier):
    n = 6 if tier == "quick" else 80
    for k in range(n):
        base = gen.voronoi_tissue(rng, n=int(rng.integers(14, 40)), npts=int(rng.integers(1, 6)),
                                  mob_strength=float(rng.choice([0.0, 0.8])))
        if len(base["cells"]) < 4:
            continue
        yield base, f"t{k}/equilibrium", True
        yield noisy(base, rng, float(rng.choice([0.05, 0.5, 2.0]))), f"t{k}/noisy", False
        yield gen.similarity(noisy(base, rng, 0.3), scale=float(rng.choice([1e-3, 1e3]))), f"t{k}/illscaled", False
        ro = rosette(base, rng)
        if ro is not None:
            yield noisy(ro, rng, float(rng.choice([0.5, 3.0, 6.0]))), f"t{k}/rosette-noisy", False
            yield ro, f"t{k}/rosette", True


def run(res, tier, seed):
    rng = np.random.default_rng(seed)
    exprs = []
    for spec, label, consistent in cases(rng, tier):
        methods = [None, "lsq"] + (["lsq_linear"] if consistent else [])
        for m in methods:
            check_case(res, spec, m, bool(rng.integers(0, 2)) if "rosette" not in label else False, exprs, label, consistent)
        if "rosette" in label:
            check_case(res, spec, None, True, exprs, label, consistent)
        elif "noisy" in label:
            # the restricted system of an angle limit (several, often neighbouring, interfaces excluded)
            check_case(res, spec, None, False, exprs, label + "/limited", False, limit=float(rng.uniform(0.72, 0.85)) * math.pi)
    # the static solve of a frame whose matrix served a velocity-based solve (or the system velocities) just before
    done = 0
    for spec, label, consistent in cases(np.random.default_rng(seed + 101), "quick"):
        if "rosette" in label or len(spec["cells"]) < 6:
            continue
        check_case(res, spec, [None, "lsq_linear" if consistent else None, "lsq"][done % 3], False, exprs, label + "/after-velocity", consistent,
                   velocity_first=1 + done % 2)
        done += 1
        if done >= (3 if tier == "quick" else 12):
            break
    # the broken back-end (known finding)
    spec = gen.voronoi_tissue(rng, n=20, npts=2)
    check_case(res, spec, "fix_stress", True, exprs, "fix_stress", True)
    bools, outs = C.coq_eval_bools("C05", IMPORTS, [e for e, _, _ in exprs], chunk=3)
    for (e, rp, kind), b in zip(exprs, bools):
        res.traces += 1
        if b is not True:
            res.fail("correspondence", f"{kind}: Coq evaluation disagrees with the harness / implementation" if b is False else f"{kind}: case did not evaluate",
                     {"correspondence": f"Model/Cert.v / Model/ForceSys.v ({kind})", "case": rp})


def search(res, tier, seed, broken):
    rng = np.random.default_rng(seed + 9)
    r2 = C.Result(res.pid)
    sink = []
    for spec, label, consistent in cases(rng, "thorough"):
        for m in (None, "lsq"):
            for an in (False, True):
                check_case(r2, spec, m, an, sink, label, consistent)
        if [f for f in r2.failures if f["kind"] == "oracle" and not f.get("tag")] or r2.evaluations > 200:
            break
    res.failures.extend(f for f in r2.failures if f["kind"] == "oracle")
    res.notes.append(f"search: {r2.evaluations} extra oracle cases")


def replay(res, obj):
    inp = obj.get("input", obj)
    if "case" in inp:
        inp = inp["case"]
    sink = []
    check_case(res, inp["spec"], inp["method"], inp["allow_negatives"], sink, "replay", inp.get("consistent", False), limit=inp.get("limit"), velocity_first=inp.get("velocity_first", 0))
    bools, _ = C.coq_eval_bools("C05r", IMPORTS, [e for e, _, _ in sink], chunk=3)
    for (e, rp, kind), b in zip(sink, bools):
        if b is not True:
            res.fail("correspondence", f"{kind}: disagreement", {"correspondence": kind, "case": rp})
