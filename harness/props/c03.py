"""C03 -- dynamic inference recovers tensions from junction velocities."""
import math
import numpy as np
import common as C
import gen
import impl

RULE = ("series of 2..5 frames of arc/line tissues in which the junctions of the inference frame move with the resultant of arbitrary "
        "positive mean-one tensions (unit mobility; forward to the next frame, backward from the previous one at the last frame), "
        "unequal time steps, every frame renumbered independently (ids with and without 0), solver method in {default, lsq, lsq_linear}; "
        "only systems whose augmented matrix is injective are judged; non-trivial = at least 6 inferred interfaces")
TRUSTED = ["theorem equilibrium_solves_augmented (Proofs/CertProofs.v, with b = M T) and zero_residual_minimiser_unique; velocity "
           "placement and finite differences are C13's theorems; the displacement field is generated from the implementation's own "
           "force matrix of the inference frame (so the tangent rule, incl. known finding D1, cancels out)"]
ASSUMPTIONS = ["tolerance implied by the three-decimal rounding of the right-hand side of the system the back-end receives (the augmented system; for 'lsq_linear' "
               "the bordered normal system, whose right-hand side M^T b is what is rounded): 2 * |pinv(that matrix)|_inf * 5e-4 (x10 for method='lsq'; "
               "plus 1e-4 / sigma_min for 'lsq_linear', the residual scipy may leave at termination)"]
TESTED_NOT_PROVED = ["the end-to-end recovery is evaluated by the oracle; the rounding perturbation bound it uses as tolerance is theorem C03_rounded_rhs_moves_a_linear_solution_by_at_most for a solution that is linear in the right-hand side (exact rounding; numpy's binary64 rounding adds an ulp), the factor for the iterative back-ends is measured"]
IMPORTS = "From Forsys Require Import Model.CaseUtil.\n"


def move(spec, disp):
    out = dict(spec)
    out["vertices"] = [[i, x + disp.get(i, (0.0, 0.0))[0], y + disp.get(i, (0.0, 0.0))[1]] for i, x, y in spec["vertices"]]
    return out


def swap_ids(spec, a, b):
    m = {a: b, b: a}
    g = lambda i: m.get(i, i)
    out = dict(spec)
    out["vertices"] = [[g(i), x, y] for i, x, y in spec["vertices"]]
    out["edges"] = [[e, g(u), g(w)] for e, u, w in spec["edges"]]
    out["cells"] = [[c, [g(i) for i in v]] for c, v in spec["cells"]]
    out["ifaces"] = [dict(it, pts=[g(i) for i in it["pts"]]) for it in spec.get("ifaces", [])]
    if "maps" in spec:
        out["maps"] = dict(spec["maps"], v={k: g(v) for k, v in spec["maps"]["v"].items()})
    return out


def rounding_tolerance(A_s, method):
    """what the three-decimal rounding of the right-hand side can do to the solution of the system the back-end actually receives (for
    'lsq_linear' that is the bordered normal system, whose right-hand side M^T b is what gets rounded): |dx|_inf <= |pinv(A_s)|_inf * 5e-4,
    doubled; x10 for lmfit's termination; plus the residual scipy's lsq_linear may leave at termination (c01: eps_res) over sigma_min"""
    tol = 2 * float(np.max(np.sum(np.abs(np.linalg.pinv(A_s)), axis=1))) * 5e-4 + 1e-6
    if method == "lsq":
        tol *= 10
    if method == "lsq_linear":
        tol += 1e-4 / float(np.linalg.svd(A_s, compute_uv=False)[-1])
    return tol


def check_case(res, base, rng, nframes, where, method, label, zero_ids, presolve=False):
    """where: index of the inference frame in the series"""
    # the inference frame, renumbered
    cur = gen.relabel(base, rng, gaps=not zero_ids, shift=True, flip=0.0)
    if zero_ids:
        # give id 0 to a junction that gets equations (ids are a permutation of 0..n-1)
        fr_ = impl.frame(cur)
        f_ = impl.forsys_of({0: fr_})
        with impl.quiet():
            f_.build_force_matrix(when=0, angle_limit=np.inf)
        used = sorted(f_.force_matrices[0].map_vid_to_row)
        if used and 0 not in used:
            cur = swap_ids(cur, 0, used[int(rng.integers(0, len(used)))])
    fr = impl.frame(cur)
    f0 = impl.forsys_of({0: fr})
    with impl.quiet():
        f0.build_force_matrix(when=0, angle_limit=np.inf)
    fm = f0.force_matrices[0]
    M = np.array(fm.matrix)
    if M.shape[1] < 6 or M.shape[0] == 0:
        return
    A = np.vstack([np.hstack([M, np.ones((M.shape[0], 1))]), np.hstack([np.ones(M.shape[1]), [0.0]])])
    sv = np.linalg.svd(A, compute_uv=False)
    if A.shape[0] < A.shape[1] or sv[-1] < 1e-3 * sv[0]:
        res.count("augmented matrix not injective (not judged)")
        return
    T = rng.uniform(0.3, 2.5, size=M.shape[1])
    T = T / T.mean()
    F = M @ T
    spacing = gen.min_junction_spacing(cur)
    P = np.array([[x, y] for _, x, y in cur["vertices"]])
    ext = float(max(P[:, 0].max() - P[:, 0].min(), P[:, 1].max() - P[:, 1].min()))
    vmax = float(np.max(np.hypot(F[0::2], F[1::2])))
    dt = float(min(0.3 * spacing, 0.03 * ext) / max(vmax, 1e-9))
    last = where == nframes - 1
    sign = -1.0 if last else 1.0
    disp = {v: (sign * dt * F[r], sign * dt * F[r + 1]) for v, r in fm.map_vid_to_row.items()}
    other = move(cur, disp)                       # the frame the velocity is measured against
    # assemble the series: small random motions elsewhere
    specs = [None] * nframes
    specs[where] = cur
    nb = where - 1 if last else where + 1
    specs[nb] = gen.relabel(other, rng, gaps=not zero_ids, shift=True, flip=0.0)
    if zero_ids:
        # ... and in the neighbouring frame too
        j = sorted(disp)[int(rng.integers(0, len(disp)))]
        tgt = specs[nb]["maps"]["v"][j]
        if tgt != 0:
            specs[nb] = swap_ids(specs[nb], 0, tgt)
    truth_nb = {i: specs[nb]["maps"]["v"][i] for i in disp}
    for t in range(nframes):
        if specs[t] is None:
            src = cur if abs(t - where) < abs(t - nb) else other
            jit = {i: tuple(rng.uniform(-0.05, 0.05, size=2) * spacing) for i, _, _ in src["vertices"]}
            specs[t] = gen.relabel(move(src, jit), rng, gaps=True, shift=True, flip=0.0)
    times = [0.0] * nframes
    for t in range(1, nframes):
        times[t] = times[t - 1] + (dt if {t - 1, t} == {where, nb} else float(rng.uniform(0.3, 3.0)))
    # time stamps relative to an event: some frame other than the first carries the time 0.0 exactly (earlier frames are negative)
    if nframes >= 2 and rng.random() < 0.5:
        anchor = int(rng.integers(1, nframes))
        times = [t_ - times[anchor] for t_ in times]
        res.count("a frame other than the first has time stamp 0.0")
    replay = {"specs": [{k: s[k] for k in ("vertices", "edges", "cells")} for s in specs], "times": times, "where": where, "method": method,
              "T": T.tolist(), "label": label, "presolve": presolve}
    frames = {t: impl.frame(s, t, times[t]) for t, s in enumerate(specs)}
    try:
        f = impl.forsys_of(frames, cm=False)
        with impl.quiet():
            if presolve:
                # the other frames are inferred first on the same object (the statement does not depend on the history)
                for t in range(nframes):
                    if t != where:
                        try:
                            f.build_force_matrix(when=t, angle_limit=np.inf)
                            f.solve_stress(when=t, b_matrix="velocity", allow_negatives=False)
                        except Exception:  # noqa  (those frames carry arbitrary motions; only their side effects matter here)
                            pass
            f.build_force_matrix(when=where, angle_limit=np.inf)
            kw = {"b_matrix": "velocity", "allow_negatives": False}
            if method:
                kw["method"] = method
            with impl.capture_solvers() as rec:
                f.solve_stress(when=where, **kw)
    except Exception as ex:  # noqa
        res.fail("oracle", f"dynamic inference raised {type(ex).__name__}: {str(ex)[:80]}", replay)
        return
    solved = [c_ for c_ in rec.calls if c_.get("x") is not None and c_.get("A") is not None]
    A_s = np.array(solved[-1]["A"], dtype=float) if solved else A
    # tracking sanity (C12's subject): if the tracker lost a junction the case is not judged here
    if last:
        mp = f.mesh.mapping[where - 1] or {}
        inv = {b: a for a, b in mp.items()}
        lost = [v for v in disp if inv.get(v) != truth_nb[v]]
    else:
        mp = f.mesh.mapping[where] or {}
        lost = [v for v in disp if mp.get(v) != truth_nb[v]]
    got = np.array([be.tension for be in frames[where].internal_big_edges])
    cols = [list(e) for e in f.force_matrices[where].big_edges_to_use]
    # perturbation of the least-squares solution by the rounding of b to three decimals: |dx|_inf <= |pinv(A)|_inf * 5e-4
    tol = rounding_tolerance(A_s, method)
    err = float(np.max(np.abs(got - T))) if len(got) == len(T) else float("inf")
    res.case((tuple(tuple(x[1:]) for x in cur["vertices"][:4]), nframes, where, method), nontrivial=M.shape[1] >= 6)
    res.count(f"method={method or 'default'}")
    res.count("last frame (backward)" if last else ("first frame" if where == 0 else "middle frame"))
    res.count("ids include 0" if zero_ids else "ids with gaps")
    res.count("other frames solved first on the same object" if presolve else "fresh object")
    res.sample({"label": label, "frames": nframes, "where": where, "method": method, "max_error": err, "tolerance": tol, "dt": dt})
    if lost and not (last and 0 in [truth_nb[v] for v in lost] + lost):
        res.count("tracker lost a junction (C12's subject; not judged)")
        return
    if err > tol:
        k = int(np.argmax(np.abs(got - T))) if len(got) == len(T) else -1
        res.fail("oracle", f"inference at frame {where} of {nframes} ({'backward' if last else 'forward'} difference, method {method or 'default'}): "
                 f"interface {k} reported {got[k] if k >= 0 else None}, true {T[k] if k >= 0 else None} (max error {err:.3g}, rounding tolerance {tol:.2g})", replay)


def cases(rng, tier):
    n = 5 if tier == "quick" else 60
    for k in range(n):
        base = gen.voronoi_tissue(rng, n=int(rng.integers(45, 80)), npts=int(rng.integers(0, 4)),
                                  mob_strength=float(rng.choice([0.0, 0.6])))
        if len(base["cells"]) >= 10:
            yield base, f"t{k}"


def run(res, tier, seed):
    rng = np.random.default_rng(seed)
    for base, label in cases(rng, tier):
        nf = int(rng.integers(2, 6))
        wheres = sorted({0, nf - 1, int(rng.integers(0, nf))})
        for where in wheres:
            for method in ((None, "lsq_linear") if tier == "quick" else (None, "lsq", "lsq_linear")):
                check_case(res, base, rng, nf, where, method, label, zero_ids=bool(rng.integers(0, 2)) or where == nf - 1)
        # histories: a series of three or more frames, every other frame inferred first on the same object
        nf = int(rng.integers(3, 6))
        for where in (nf - 1, nf - 2):
            check_case(res, base, rng, nf, where, None, label + "/history", zero_ids=bool(rng.integers(0, 2)), presolve=True)
    res.traces = res.evaluations


def search(res, tier, seed, broken):
    rng = np.random.default_rng(seed + 43)
    r2 = C.Result(res.pid)
    for base, label in cases(rng, "thorough"):
        for where, nf in ((0, 2), (2, 3), (1, 3)):
            check_case(r2, base, rng, nf, where, None, label, zero_ids=True)
        if [f for f in r2.failures if f["kind"] == "oracle"] or r2.evaluations > 40:
            break
    res.failures.extend(f for f in r2.failures if f["kind"] == "oracle")
    res.notes.append(f"search: {r2.evaluations} extra oracle cases")


def replay(res, obj):
    inp = obj.get("input", obj)
    if "case" in inp:
        inp = inp["case"]
    frames = {t: impl.frame(s, t, inp["times"][t]) for t, s in enumerate(inp["specs"])}
    f = impl.forsys_of(frames, cm=False)
    w = inp["where"]
    with impl.quiet():
        if inp.get("presolve"):
            for t in range(len(inp["specs"])):
                if t != w:
                    try:
                        f.build_force_matrix(when=t, angle_limit=np.inf)
                        f.solve_stress(when=t, b_matrix="velocity", allow_negatives=False)
                    except Exception:  # noqa
                        pass
        f.build_force_matrix(when=w, angle_limit=np.inf)
        kw = {"b_matrix": "velocity", "allow_negatives": False}
        if inp["method"]:
            kw["method"] = inp["method"]
        with impl.capture_solvers() as rec:
            f.solve_stress(when=w, **kw)
    got = np.array([be.tension for be in frames[w].internal_big_edges])
    T = np.array(inp["T"])
    M = np.array(f.force_matrices[w].matrix)
    A = np.vstack([np.hstack([M, np.ones((M.shape[0], 1))]), np.hstack([np.ones(M.shape[1]), [0.0]])])
    solved = [c_ for c_ in rec.calls if c_.get("x") is not None and c_.get("A") is not None]
    tol = rounding_tolerance(np.array(solved[-1]["A"], dtype=float) if solved else A, inp["method"])
    res.case(("replay",), True)
    if len(got) != len(T) or float(np.max(np.abs(got - T))) > tol:
        res.fail("oracle", f"replay: max error {float(np.max(np.abs(got - T))) if len(got) == len(T) else 'n/a'} > {tol:.2g}", inp)
