"""C18 -- coarse-grained stress tensor: symmetric, linear, isotropic for pure pressure."""
import math
import numpy as np
import common as C
import gen
import impl

RULE = ("tissues with arbitrary assigned pressures and tensions (zero and negative included), grid sizes 1..12, radii 0.5..6 cell radii; "
        "the same Frame object is evaluated repeatedly with different assignments (linearity, pure pressure); non-trivial = at least "
        "one grid cell selects a tissue cell; distinct = (tissue, grid, radius)")
TRUSTED = ["Model/StressGrid.v (np.histogram's bin edges, grid centres, the cells within the radius of a grid centre, the interfaces touching them; binary64 instance) tied to the whole "
           "analysis: bin edges and grid centres bit for bit, every grid cell's tensor within 1e-9 (grids up to 10 x 10; min_distance^2 is the implementation's own expression "
           "evaluated on its own table of areas)",
           "Model/Stress.v sigma (PrimFloat instance) tied to stress_tensor.stress_tensor by correspondence with tolerance 1e-9; cell centroids, "
           "|areas|, histogram edges and the interface vectors (circle fit) are taken from the implementation as oracle values by the model "
           "side and recomputed independently by the oracle (except the fitted vectors)"]
ASSUMPTIONS = ["np.linalg.eig is an oracle; eigenpairs are checked by residual"]
TESTED_NOT_PROVED = ["'the principal stresses are the eigen-decomposition of the tensor at each grid centre': the closed form of the eigenvalues is proved to be the roots of the "
                     "characteristic polynomial (C18_principal_are_eigenvalues) and compared with numpy's eig (PrimFloat, 1e-9); the eigenvectors are checked by residual"]
IMPORTS = "From Forsys Require Import Model.Num Model.CaseUtil Model.Stress Model.StressGrid.\n"


def own_sigma(fr, grid, radius, vectors):
    """independent evaluation of the statement's formula"""
    cells = list(fr.cells.values())
    xcm = np.array([np.mean([v.x for v in c.vertices]) for c in cells])
    ycm = np.array([np.mean([v.y for v in c.vertices]) for c in cells])
    area = []
    for c in cells:
        P = [(v.x, v.y) for v in c.vertices]
        area.append(abs(0.5 * sum(P[i][0] * P[(i + 1) % len(P)][1] - P[(i + 1) % len(P)][0] * P[i][1] for i in range(len(P)))))
    area = np.array(area)
    pres = np.array([c.pressure for c in cells], dtype=float)
    ids = [c.id for c in cells]
    xb = np.linspace(xcm.min(), xcm.max(), grid + 1) if xcm.max() > xcm.min() else np.linspace(xcm.min() - 0.5, xcm.max() + 0.5, grid + 1)
    yb = np.linspace(ycm.min(), ycm.max(), grid + 1) if ycm.max() > ycm.min() else np.linspace(ycm.min() - 0.5, ycm.max() + 0.5, grid + 1)
    rmin = radius * math.sqrt(area.mean() / math.pi)
    out = {}
    for r in range(grid):
        for c in range(grid):
            cx, cy = (xb[r] + xb[r + 1]) / 2, (yb[c] + yb[c + 1]) / 2
            sel = (cx - xcm) ** 2 + (cy - ycm) ** 2 <= rmin ** 2
            A = area[sel].sum()
            if A == 0:
                out[(r, c)] = (np.zeros((2, 2)), [], [])
                continue
            P = -float(np.sum(pres[sel] * area[sel]))
            selids = {ids[i] for i in np.nonzero(sel)[0]}
            txx = tyy = txy = 0.0
            used = []
            for be, vec in zip(fr.big_edges.values(), vectors):
                c1 = be.own_cells[0]
                c2 = be.own_cells[1] if len(be.own_cells) > 1 else -1
                if c1 in selids or c2 in selids:
                    n = math.hypot(vec[0], vec[1])
                    txx += be.tension * vec[0] * vec[0] / n
                    tyy += be.tension * vec[1] * vec[1] / n
                    txy += be.tension * vec[0] * vec[1] / n
                    used.append((be.tension, vec[0], vec[1], n))
            out[(r, c)] = (np.array([[(P + txx) / A, txy / A], [txy / A, (P + tyy) / A]]), [(float(a), float(p)) for a, p in zip(area[sel], pres[sel])], used)
    return out, (xb, yb)


def assign(fr, pres, tens):
    for c, p in zip(fr.cells.values(), pres):
        c.pressure = float(p)
    for b, t in zip(fr.big_edges.values(), tens):
        b.tension = float(t)


def grid_model_case(res, fr, grid, radius, pres, tens, sig, centres, bins, exprs, replay):
    """Model/StressGrid.v (binary64 instance) against the whole analysis: the tables the implementation works on (get_cells_df /
    get_big_edges_df: centroids, |areas|, cell pairs, fitted vectors - oracle values) and min_distance^2 (the implementation's own
    expression evaluated on its own table) go in; bin edges and grid centres must come out bit for bit, the tensor of every grid cell -
    i.e. which cells and interfaces each grid centre selects - within 1e-9"""
    if grid > 10 or sum(1 for e_, _ in exprs if e_.startswith("grid_matches")) >= 4:
        return                                   # above 10 x 10 the dictionary keys collide (D10)
    assign(fr, pres, tens)
    with impl.quiet():
        cdf = impl.fs.stress_tensor.get_cells_df(fr)
        edf = impl.fs.stress_tensor.get_big_edges_df(fr)
    md = radius * np.sqrt(cdf["area"].mean() / np.pi)
    md2 = float(md ** 2)
    cells_l = "[" + "; ".join(f"({C.zlit(int(i))}, ({C.flit(x)}, {C.flit(y)}), ({C.flit(a)}, {C.flit(p)}))"
                              for i, x, y, a, p in zip(cdf["ids"], cdf["xcm"], cdf["ycm"], cdf["area"], cdf["pressure"])) + "]"
    edges_l = "[" + "; ".join(f"(({C.zlit(int(c1))}, {C.zlit(int(c2))}), ({C.flit(t)}, ({C.flit(v[0])}, {C.flit(v[1])}, {C.flit(float(np.linalg.norm(v)))})))"
                              for c1, c2, t, v in zip(edf["cell1"], edf["cell2"], edf["stress"], edf["vector"])) + "]"
    fl = lambda arr: "[" + "; ".join(C.flit(float(x)) for x in arr) + "]"   # noqa
    sig_l = "[" + "; ".join(f"({C.flit(sig[f'{r}{c}'][0, 0])}, {C.flit(sig[f'{r}{c}'][0, 1])}, {C.flit(sig[f'{r}{c}'][1, 1])})"
                            for r in range(grid) for c in range(grid)) + "]"
    exprs.append((f"grid_matches {C.flit(1e-9)} {grid} {C.flit(md2)} {cells_l} {edges_l} {fl(bins[0])} {fl(bins[1])} {fl(centres[0])} {fl(centres[1])} {sig_l}", replay))
    res.count("whole analysis against Model/StressGrid.v (bins and centres bit for bit, every grid cell's selection through its tensor)")


def check_case(res, spec, grid, radius, rng, exprs, label):
    fr = impl.frame(spec)
    replay = {"spec": {k: spec[k] for k in ("vertices", "edges", "cells")}, "grid": grid, "radius": radius, "label": label}
    ncell, nbe = len(fr.cells), len(fr.big_edges)
    p1, p2 = rng.normal(0, 1, ncell), rng.normal(0, 2, ncell)
    t1, t2 = rng.normal(1, 1, nbe), rng.uniform(-1, 3, nbe)
    # "including zero": some cells and interfaces carry exactly 0.0 in one of the two states (a gauge cell, a slack interface)
    if ncell >= 3:
        p1[rng.choice(ncell, size=max(1, ncell // 4), replace=False)] = 0.0
        p2[int(rng.integers(0, ncell))] = 0.0
    if nbe >= 3:
        t1[rng.choice(nbe, size=max(1, nbe // 5), replace=False)] = 0.0
    t1[rng.integers(0, nbe)] = 0.0
    a, b = 0.7, -1.9
    vectors = []
    with impl.quiet():
        for be in fr.big_edges.values():
            orient = np.dot(be.xs, np.roll(be.ys, 1)) - np.dot(be.ys, np.roll(be.xs, 1))
            vectors.append(be.get_vector_from_vertex(be.vertices[0].id if orient > 0 else be.vertices[-1].id))
    bad = []

    def evaluate(pres, tens):
        assign(fr, pres, tens)
        with impl.quiet():
            sig, centres, bins = impl.fs.stress_tensor.stress_tensor(fr, grid, radius)
        return sig, centres, bins
    try:
        s1, centres, bins = evaluate(p1, t1)
        exp1, (xb, yb) = own_sigma(fr, grid, radius, vectors)
        s2, _, _ = evaluate(p2, t2)
        s3, _, _ = evaluate(a * p1 + b * p2, a * t1 + b * t2)
        p0 = float(rng.normal(0, 1))
        s4, _, _ = evaluate(np.full(ncell, p0), np.zeros(nbe))
        exp4, _ = own_sigma(fr, grid, radius, vectors)
    except Exception as ex:  # noqa
        res.fail("oracle", f"stress_tensor raised {type(ex).__name__}: {str(ex)[:80]}", replay)
        return
    grid_model_case(res, fr, grid, radius, p1, t1, s1, centres, bins, exprs, replay)
    nonempty = 0
    collide = {}
    for r in range(grid):
        for c in range(grid):
            collide.setdefault(f"{r}{c}", []).append((r, c))
    for (r, c), (E, cells_sel, edges_sel) in exp1.items():
        key = f"{r}{c}"
        dup = len(collide[key]) > 1
        if key not in s1:
            bad.append(f"no tensor reported for grid cell ({r},{c})")
            continue
        S = np.array(s1[key])
        scale = 1 + float(np.max(np.abs(E)))
        if np.max(np.abs(S - E)) > 1e-9 * scale:
            msg = f"grid cell ({r},{c}) of a {grid}x{grid} grid: reported tensor {S.tolist()} is not the one of the statement {E.tolist()}"
            if dup:
                res.fail("oracle", msg + f"; the key '{key}' is shared by grid cells {collide[key]}", replay, tag="D10-stress-key-collision")
            else:
                bad.append(msg)
            continue
        if abs(S[0, 1] - S[1, 0]) > 0:
            bad.append(f"tensor of grid cell ({r},{c}) is not symmetric")
        if cells_sel:
            nonempty += 1
        elif np.any(S != 0):
            bad.append(f"grid cell ({r},{c}) selects no cell centre but its tensor is {S.tolist()}")
        if dup:
            continue
        L = a * np.array(s1[key]) + b * np.array(s2[key])
        if np.max(np.abs(np.array(s3[key]) - L)) > 1e-9 * (1 + float(np.max(np.abs(L)))):
            bad.append(f"grid cell ({r},{c}): tensor is not jointly linear in pressures and tensions (off by {np.max(np.abs(np.array(s3[key]) - L)):.3g})")
        if cells_sel and np.max(np.abs(np.array(s4[key]) + p0 * np.eye(2))) > 1e-9 * (1 + abs(p0)):
            bad.append(f"grid cell ({r},{c}): all tensions zero and every pressure {p0}: tensor {np.array(s4[key]).tolist()} is not -p times the identity")
    if len(centres[0]) != grid or len(centres[1]) != grid or np.max(np.abs(np.array(bins[0]) - xb)) > 1e-9 * (1 + np.max(np.abs(xb))):
        bad.append("grid centres / bin edges are not the equal-width partition of the centroid range")
    # principal stresses
    assign(fr, p1, t1)
    try:
        with impl.quiet():
            fr.calculate_stress_tensor(coarsing=grid, radius=radius)
        for r in range(grid):
            for c in range(grid):
                if len(collide[f"{r}{c}"]) > 1:
                    continue
                val, vec = fr.principal_stress[(centres[0][r], centres[1][c])]
                S = np.array(s1[f"{r}{c}"])
                if np.max(np.abs(S @ vec - vec * val)) > 1e-9 * (1 + np.max(np.abs(S))):
                    bad.append(f"principal stresses at grid centre ({r},{c}) are not an eigen-decomposition of its tensor")
                    break
                # the reported eigenvalues against the closed form of Model/Stress.v (PrimFloat, relative to the size of the tensor)
                if sum(1 for x in exprs if "principal FOps" in x[0]) < 12 and np.all(np.isreal(val)):
                    hi, lo = sorted((float(np.real(val[0])), float(np.real(val[1]))), reverse=True)
                    sc = 1.0 + float(np.max(np.abs(S)))
                    exprs.append((f"let pr := principal FOps ({C.flit(S[0, 0])}, {C.flit(S[0, 1])}, {C.flit(S[1, 1])}) in "
                                  f"fclose {C.flit(1e-9)} (PrimFloat.div (fst pr) {C.flit(sc)}) {C.flit(hi / sc)} && "
                                  f"fclose {C.flit(1e-9)} (PrimFloat.div (snd pr) {C.flit(sc)}) {C.flit(lo / sc)}", replay))
                    res.count("principal stresses against the closed form (PrimFloat)")
        # the reported principal stresses are those of THIS analysis: one entry per grid centre, also when the same frame was analysed
        # before with another grid
        if len(collide) == grid * grid and len(fr.principal_stress) != grid * grid:
            bad.append(f"{len(fr.principal_stress)} principal stresses reported for the {grid}x{grid} grid")
        g2 = grid + 1 if grid < 9 else grid - 1
        with impl.quiet():
            fr.calculate_stress_tensor(coarsing=g2, radius=radius)
        if g2 <= 10 and len(fr.principal_stress) != g2 * g2:
            bad.append(f"after a second analysis of the same frame with a {g2}x{g2} grid, {len(fr.principal_stress)} principal stresses are reported "
                       f"(entries of the earlier {grid}x{grid} analysis survive)")
    except Exception as ex:  # noqa
        bad.append(f"calculate_stress_tensor raised {type(ex).__name__}: {str(ex)[:60]}")
    for m in bad[:3]:
        res.fail("oracle", m, replay)
    res.case((tuple(tuple(x[1:]) for x in spec["vertices"][:4]), len(spec["cells"]), grid, radius), nontrivial=nonempty > 0)
    res.count(f"grid={grid}")
    res.sample({"label": label, "grid": grid, "radius": radius, "cells": ncell, "nonempty_grid_cells": nonempty})
    # correspondence: a few grid cells through the PrimFloat instance of Model/Stress.v
    picks = [k for k, v in exp1.items() if v[1]][:3] + [k for k, v in exp1.items() if not v[1]][:1]
    for (r, c) in picks:
        if len(collide[f"{r}{c}"]) > 1:
            continue
        E, cells_sel, edges_sel = exp1[(r, c)]
        S = np.array(s1[f"{r}{c}"])
        cl = "[" + "; ".join(f"({C.flit(x)}, {C.flit(p)})" for x, p in cells_sel) + "]"
        el = "[" + "; ".join(f"({C.flit(t)}, ({C.flit(vx)}, {C.flit(vy)}, {C.flit(n)}))" for t, vx, vy, n in edges_sel) + "]"
        exprs.append((f"let '(xx, xy, yy) := sigma FOps {cl} {el} in fclose 1e-9 xx {C.flit(S[0, 0])} && fclose 1e-9 xy {C.flit(S[0, 1])} && "
                      f"fclose 1e-9 xy {C.flit(S[1, 0])} && fclose 1e-9 yy {C.flit(S[1, 1])}", replay))


def cases(rng, tier):
    n = 4 if tier == "quick" else 50
    for k in range(n):
        spec = gen.voronoi_tissue(rng, n=int(rng.integers(20, 60)), npts=int(rng.integers(1, 4)), mob_strength=float(rng.choice([0.0, 0.8])))
        if len(spec["cells"]) >= 4:
            yield spec, f"t{k}"


def run(res, tier, seed):
    rng = np.random.default_rng(seed)
    exprs = []
    # the same kind of tissue in very small and very large length units (cells of 1e-5 / 1e7 length units: areas far from 1)
    for sc in (1e-6, 1e6):
        small = gen.similarity(gen.voronoi_tissue(rng, n=int(rng.integers(20, 40)), npts=2), scale=sc)
        if len(small["cells"]) >= 4:
            check_case(res, small, int(rng.integers(2, 7)), float(rng.uniform(0.8, 3.0)), rng, exprs, f"unit-scale{sc:g}")
    for spec, label in cases(rng, tier):
        grids = sorted({int(rng.integers(1, 11)), int(rng.integers(1, 11)), 12 if label == "t0" else int(rng.integers(1, 13))})
        for g in grids:
            check_case(res, spec, g, float(rng.uniform(0.5, 6.0)), rng, exprs, label)
    bools, outs = C.coq_eval_bools("C18", IMPORTS, [e for e, _ in exprs], chunk=20)
    for (e, rp), b in zip(exprs, bools):
        res.traces += 1
        if b is not True:
            res.fail("correspondence", "model != implementation (tensor of one grid cell)" if b is False else "case did not evaluate",
                     {"correspondence": "Model/Stress.v vs stress_tensor.stress_tensor", "case": {"label": rp["label"], "grid": rp["grid"]}})


def search(res, tier, seed, broken):
    rng = np.random.default_rng(seed + 59)
    r2 = C.Result(res.pid)
    sink = []
    for spec, label in cases(rng, "thorough"):
        check_case(r2, spec, int(rng.integers(1, 11)), float(rng.uniform(0.5, 6.0)), rng, sink, label)
        if [f for f in r2.failures if f["kind"] == "oracle" and not f.get("tag")] or r2.evaluations > 30:
            break
    res.failures.extend(f for f in r2.failures if f["kind"] == "oracle")
    res.notes.append(f"search: {r2.evaluations} extra oracle cases")


def replay(res, obj):
    inp = obj.get("input", obj)
    if "case" in inp:
        inp = inp["case"]
    check_case(res, inp["spec"], inp["grid"], inp["radius"], np.random.default_rng(0), [], "replay")
