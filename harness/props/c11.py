"""C11 -- mesh resampling keeps junctions, topology and interface shape."""
import numpy as np
import common as C
import gen
import impl
from props.c08 import brute_interfaces, canon

RULE = ("tissues (Voronoi / Moebius / exact lattices / sub-tissues, 0..40 interior points per interface, dyadic coordinates, "
        "relabelled ids) x ne in 1..12 x replace_short_edges on/off; non-trivial = at least one interface longer than ne; "
        "distinct = (cell cycles, ne, flag)")
TRUSTED = ["hand-written model Model/Resample.v (value level) tied to virtual_edges.generate_mesh / join_two_vertices by exact correspondence",
           "int(len/ne*i) is modelled bit-exactly with PrimFloat (float_index); the theorems hold for every admissible index function"]
ASSUMPTIONS = ["input meshes are consistent (C09); the harness keeps no extra references to edges / cells so that __del__ runs as in the model"]
TESTED_NOT_PROVED = ["junction / cell / adjacency preservation and the cyclic-subsequence clause are evaluated by the oracle on every case",
                     "idempotence with replace_short_edges=True is tested only when the first pass leaves no two-point border interface"]
IMPORTS = "From Forsys Require Import Model.CaseUtil Model.PyList Model.Interfaces Model.Resample.\n"


def is_subseq(small, big):
    it = iter(big)
    return all(any(x == y for y in it) for x in small)


def is_cyclic_subseq(small, big):
    if not small:
        return True
    n = len(big)
    for k in range(n):
        if big[k] == small[0] and is_subseq(small, big[k:] + big[:k]):
            return True
    return False


def snapshot_state(v, e, c):
    return {"v": [[k, w.x, w.y] for k, w in v.items()], "e": [[k, x.v1.id, x.v2.id] for k, x in e.items()],
            "c": [[k, [w.id for w in x.vertices]] for k, x in c.items()]}


PENDING_CHAIN = []


def settle_chain_cases(res, bools):
    for idx, msg, rp in PENDING_CHAIN:
        if idx < len(bools) and bools[idx] is True:
            res.fail("oracle", msg, rp, tag="D7-short-edge-chain")
        else:
            res.fail("oracle", msg + " -- and it is not the mesh the modelled merge cascade of known finding D7 produces", rp)
    del PENDING_CHAIN[:]


def run_case(res, spec, ne, flag, exprs, label):
    v, e, c = impl.build(spec)
    before = snapshot_state(v, e, c)
    ncells0 = {k: len(w.ownCells) for k, w in v.items()}
    L = impl.mesh_literals(v, c)
    pos0 = {k: (w.x, w.y) for k, w in v.items()}
    paths, junc = brute_interfaces(spec)
    cyc0 = dict(spec["cells"])
    replay = {"spec": {k: spec[k] for k in ("vertices", "edges", "cells")}, "ne": ne, "flag": flag, "label": label}
    # chains of two-point border interfaces (D7 scope)
    short = [p for p in paths if len(p) == 2 and ne >= 2 and ncells0[p[0]] < 3 and ncells0[p[1]] < 3]
    ends = [x for p in short for x in p]
    chain = len(set(ends)) != len(ends)
    raised = None
    try:
        with impl.quiet():
            # e is cleared by generate_mesh; no other reference to the old edge objects exists
            v2, e2, c2, narr = impl.ve.generate_mesh(v, e, c, ne=ne, replace_short_edges=flag)
    except impl.fs.exceptions.SegmentationArtifactException:
        raised = "SegmentationArtifactException"
    except Exception as ex:  # noqa
        raised = type(ex).__name__
    res.case((tuple(tuple(x) for _, x in spec["cells"]), ne, flag), nontrivial=any(len(p) > ne for p in paths))
    res.count(f"ne={ne}")
    res.count("flag=on" if flag else "flag=off")
    res.count("chain-of-short-border-edges" if (chain and flag) else "no-chain")
    pre = impl.MESH_LET.format(**L)
    st = ("mkV [" + "; ".join(f"({C.zlit(k)}, ({C.qlit(x)}, {C.qlit(y)}))" for k, x, y in before["v"]) + "] [" +
          "; ".join(f"({C.zlit(k)}, ({C.zlit(a)}, {C.zlit(b)}))" for k, a, b in before["e"]) + "] cells")
    if raised:
        if chain and flag:
            res.fail("oracle", f"generate_mesh raises {raised} on a tissue whose border has consecutive two-point interfaces",
                     replay, tag="D7-short-edge-chain")
        else:
            res.fail("oracle", f"generate_mesh raised {raised}", replay)
            exprs.append((pre + f"match generate_mesh float_index junc ncells ({st}) {ne} {C.blit(flag)} with None => true | Some _ => false end", replay))
        return
    if chain and flag:
        # outside the model's scope (stale id map with reused ids); only consistency of the result is looked at
        cons = impl.consistency_errors(v2, e2, c2)
        res.count("chain case: shape clauses skipped (known finding D7), correspondence kept")
        # the model follows the id map and get_unused_id exactly, so the merge cascade itself is still tied to the code
        after = snapshot_state(v2, e2, c2)
        vs_l = "[" + "; ".join(f"({C.zlit(k)}, ({C.qlit(x)}, {C.qlit(y)}))" for k, x, y in after["v"]) + "]"
        es_l = "[" + "; ".join(f"({C.zlit(k)}, ({C.zlit(a)}, {C.zlit(b)}))" for k, a, b in after["e"]) + "]"
        cs_l = "[" + "; ".join(f"({C.zlit(k)}, {C.zlist(cy)})" for k, cy in after["c"]) + "]"
        exprs.append((pre + f"match generate_mesh float_index junc ncells ({st}) {ne} {C.blit(flag)} with None => false | Some (st2, narr) => "
                      f"listlistZ_eqb narr {C.zlistlist(narr)} && vs_eqb (vs st2) {vs_l} && es_eqb (es st2) {es_l} && cs_eqb (cs st2) {cs_l} end", replay))
        if cons:
            # attributed to known finding D7 only if the inconsistent mesh is exactly what the modelled cascade (id map, re-used ids) produces;
            # decided once the Coq evaluation of the expression just appended is known
            PENDING_CHAIN.append((len(exprs) - 1, "chain of two-point border interfaces: resampled mesh inconsistent: " + cons[0], replay))
        return
    after = snapshot_state(v2, e2, c2)
    bad = []
    cons = impl.consistency_errors(v2, e2, c2)
    if cons:
        bad.append("resampled mesh inconsistent: " + cons[0])
    pos2 = {k: (x, y) for k, x, y in after["v"]}
    cyc2 = dict(after["c"])
    merged_new = [k for k in pos2 if k not in pos0 or pos2[k] != pos0[k]]
    edge_owner = {}
    for cid, cy in cyc0.items():
        for i in range(len(cy)):
            edge_owner.setdefault(frozenset((cy[i], cy[(i + 1) % len(cy)])), set()).add(cid)
    short_internal = [p for p in short if len(edge_owner.get(frozenset(p), ())) == 2]
    short_border = [p for p in short if len(edge_owner.get(frozenset(p), ())) == 1]
    # 1. junctions shared by >= 3 cells keep id and position
    for k, n in ncells0.items():
        if n >= 3 and pos2.get(k) != pos0[k]:
            bad.append(f"junction {k} (in {n} cells) moved or vanished: {pos2.get(k)} vs {pos0[k]}")
            break
    # 2. cells with a junction are kept
    for cid, cy in cyc0.items():
        if any(x in junc for x in cy) and not cyc2.get(cid):
            bad.append(f"cell {cid} with a junction was dropped")
            break
    # 3. interfaces: ordered subsequence retaining both ends with at most ne+1 points; short ones unchanged
    old = {canon(p): p for p in paths}
    if len(narr) != len(old):
        bad.append(f"{len(narr)} resampled interfaces for {len(old)} interfaces")
    avail = [list(p) for p in paths]
    for ne_e in sorted(narr, key=len, reverse=True):
        cands = []
        for p in avail:
            for q in (p, p[::-1]):
                if (q[0], q[-1]) == (ne_e[0], ne_e[-1]) and is_subseq(ne_e, q):
                    cands.append((len(q), q, p))
        src = None
        if cands:
            _, src, used = min(cands, key=lambda t: t[0])
            avail.remove(used)
        if src is None:
            bad.append(f"resampled interface {ne_e} is not an end-preserving ordered subsequence of an interface")
            break
        if len(ne_e) > ne + 1 and len(src) > ne:
            bad.append(f"resampled interface has {len(ne_e)} points for ne={ne}")
            break
        if len(src) <= ne + 1 and list(ne_e) != list(src):
            bad.append(f"interface with {len(src)} <= ne+1 points was changed")
            break
        if len(set(ne_e)) != len(ne_e):
            bad.append(f"resampled interface repeats a vertex: {ne_e}")
            break

    def adjacency(cycs):
        owner = {}
        for cid, cy in cycs.items():
            for i in range(len(cy)):
                owner.setdefault(frozenset((cy[i], cy[(i + 1) % len(cy)])), set()).add(cid)
        import itertools
        return {frozenset(pq) for x in owner.values() for pq in itertools.combinations(sorted(x), 2)}
    lost = adjacency(cyc0) - adjacency(cyc2)
    if flag and short_internal:
        # known finding D16: an internal two-point interface whose ends are both border junctions is contracted
        res.count("D16 internal two-point interface between border junctions")
        if lost:
            res.fail("oracle", f"internal two-point interface(s) {short_internal[:2]} between two border junctions contracted; "
                     f"adjacency {[sorted(x) for x in lost][:2]} lost", replay, tag="D16-internal-short-interface-contracted")
    else:
        if lost:
            bad.append(f"a cell-to-cell adjacency was lost: {[sorted(x) for x in lost][:2]}")
        if not flag and merged_new:
            bad.append("vertices were created or moved although replace_short_edges is off")
        if not (flag and chain):
            # merged vertices are the midpoints of the two-point border interfaces
            exp_mid = sorted(((pos0[a][0] + pos0[b][0]) / 2, (pos0[a][1] + pos0[b][1]) / 2) for a, b in (short_border if flag else []))
            got_mid = sorted(pos2[k] for k in merged_new)
            if exp_mid != got_mid:
                bad.append(f"merged vertices {got_mid[:2]} are not the midpoints {exp_mid[:2]} of the two-point border interfaces")
            # 4. cycles are cyclic subsequences, each merged pair replaced by its midpoint vertex
            mid_id = {pos2[k]: k for k in merged_new}
            ren = {}
            for a, b in (short_border if flag else []):
                m = mid_id.get(((pos0[a][0] + pos0[b][0]) / 2, (pos0[a][1] + pos0[b][1]) / 2))
                ren[a] = m
                ren[b] = m
            for cid, cy in cyc2.items():
                oldc = []
                for x in cyc0[cid]:
                    y = ren.get(x, x)
                    if not oldc or oldc[-1] != y:
                        oldc.append(y)
                if len(oldc) > 1 and oldc[0] == oldc[-1]:
                    oldc.pop()
                if not is_cyclic_subseq(cy, oldc):
                    bad.append(f"cell {cid}: new cycle is not a cyclic subsequence of the old one")
                    break
    # 7. idempotence
    second_short = False
    if flag:
        spec2 = {"vertices": after["v"], "edges": after["e"], "cells": after["c"]}
        p2, _ = brute_interfaces(spec2)
        nc2 = {k: len(w.ownCells) for k, w in v2.items()}
        second_short = any(len(p) == 2 and nc2[p[0]] < 3 and nc2[p[1]] < 3 for p in p2)
    if not second_short:
        try:
            with impl.quiet():
                v3, e3, c3, narr3 = impl.ve.generate_mesh(v2, e2, c2, ne=ne, replace_short_edges=flag)
            again = snapshot_state(v3, e3, c3)
            if again["v"] != after["v"] or again["c"] != after["c"] or \
                    {frozenset(x[1:]) for x in again["e"]} != {frozenset(x[1:]) for x in after["e"]}:
                bad.append("resampling an already resampled mesh changed it")
        except Exception as ex:  # noqa
            bad.append(f"second resampling raised {type(ex).__name__}")
    else:
        res.count("idempotence-skipped(first pass leaves a two-point border interface)")
    for b in bad[:3]:
        res.fail("oracle", b, replay)
    res.sample({"label": label, "ne": ne, "flag": flag, "interfaces": len(paths), "narr0": narr[:1], "merged": len(merged_new)})
    vs_l = "[" + "; ".join(f"({C.zlit(k)}, ({C.qlit(x)}, {C.qlit(y)}))" for k, x, y in after["v"]) + "]"
    es_l = "[" + "; ".join(f"({C.zlit(k)}, ({C.zlit(a)}, {C.zlit(b)}))" for k, a, b in after["e"]) + "]"
    cs_l = "[" + "; ".join(f"({C.zlit(k)}, {C.zlist(cy)})" for k, cy in after["c"]) + "]"
    exprs.append((pre + f"match generate_mesh float_index junc ncells ({st}) {ne} {C.blit(flag)} with None => false | Some (st2, narr) => "
                  f"listlistZ_eqb narr {C.zlistlist(narr)} && vs_eqb (vs st2) {vs_l} && es_eqb (es st2) {es_l} && cs_eqb (cs st2) {cs_l} end", replay))
    if not flag and len(HYP_EXPRS) < 40:
        # premises of theorem C09_resample_hyps_cycles_joined (Props/C09.v) on this mesh, and its conclusion on the model's result
        hyp = f"resample_hyps float_index {L['juncs']} {ne} ({st})"
        HYP_EXPRS.append((pre + hyp, pre + f"implb ({hyp}) match generate_mesh float_index junc ncells ({st}) {ne} false with "
                          "None => false | Some (st2, _) => cycles_joined st2 end"))


HYP_EXPRS = []


def settle_hyps(res):
    """how many of the resampled meshes meet the executable premises of the cycle-edge theorem (evidence of non-vacuity, not a verdict)"""
    if not HYP_EXPRS:
        return
    exprs = [h for h, _ in HYP_EXPRS] + [i for _, i in HYP_EXPRS]
    n = len(HYP_EXPRS)
    del HYP_EXPRS[:]
    bools, _ = C.coq_eval_bools("C11h", IMPORTS, exprs, chunk=10)
    hold = sum(1 for b in bools[:n] if b is True)
    res.extra["resample_cycle_edge_theorem"] = {"meshes_evaluated": n, "premises_hold": hold,
                                                "conclusion_holds_where_premises_hold": sum(1 for b in bools[n:] if b is True)}
    if any(b is False for b in bools[n:]):
        res.fail("proof", "premises of C09_resample_hyps_cycles_joined hold on a mesh whose modelled result has an unjoined cycle step",
                 {"obligation": "C09_resample_hyps_cycles_joined (evaluated instance contradicts the theorem)"})


def tissues(rng, tier):
    n = 8 if tier == "quick" else 100
    for k in range(n):
        kind = k % 4
        if kind == 0:
            spec = gen.voronoi_tissue(rng, n=int(rng.integers(8, 30)), npts_range=(0, 40 if tier != "quick" else 14), npts=0, snap=8)
        elif kind == 1:
            spec = gen.voronoi_tissue(rng, n=int(rng.integers(8, 30)), npts=int(rng.integers(0, 16)), mob_strength=1.0, snap=8)
        elif kind == 2:
            spec = gen.lattice_tissue(int(rng.integers(2, 5)), int(rng.integers(2, 5)), ["square", "brick"][k % 8 // 4], npts=int(rng.integers(0, 3)))
        else:
            spec = gen.voronoi_tissue(rng, n=int(rng.integers(8, 30)), npts_range=(0, 3), npts=0, snap=8)
            subs = gen.connected_subsets(spec, rng, 1, min_cells=2)
            spec = gen.sub_tissue(spec, subs[0])
        if len(spec["cells"]) == 0:
            continue
        if k % 3 == 0:
            spec = gen.relabel(spec, rng, flip=0.3)
        yield spec, f"t{k}"


def run(res, tier, seed):
    rng = np.random.default_rng(seed)
    exprs = []
    for spec, label in tissues(rng, tier):
        nes = sorted(set(int(x) for x in rng.integers(1, 13, size=3 if tier == "quick" else 5)))
        for ne in nes:
            for flag in (False, True):
                run_case(res, spec, ne, flag, exprs, label)
        # small sub-tissues: two or three adjacent cells (cells bounded by exactly two junctions), smallest ne
        adj = gen.cell_adjacency(spec)
        pairs = [(a, b) for a in adj for b in adj[a] if a < b]
        if pairs:
            for _ in range(1 if tier == "quick" else 3):
                a, b = pairs[int(rng.integers(0, len(pairs)))]
                group = [a, b] + ([sorted(adj[b] - {a})[0]] if (adj[b] - {a}) and rng.random() < 0.4 else [])
                small = gen.sub_tissue(spec, group)
                for ne in (1, 2, int(rng.integers(3, 7))):
                    run_case(res, small, ne, bool(rng.integers(0, 2)), exprs, label + "/small")
    # float index sweep against CPython (the one float-dependent step)
    sweep_bad = 0
    nsweep = 0
    for ln in (range(2, 400) if tier == "quick" else range(2, 3001)):
        for ne in range(1, 13):
            if ln > ne:
                idx = [int(ln / ne * i) for i in range(ne)]
                nsweep += 1
                if idx[0] != 0 or any(b <= a for a, b in zip(idx, idx[1:])) or idx[-1] > ln - 2:
                    sweep_bad += 1
    res.extra["float_index_sweep"] = {"pairs": nsweep, "not_strictly_increasing_within_bounds": sweep_bad}
    if sweep_bad:
        res.fail("oracle", "int(len/ne*i) is not strictly increasing within [0,len-2] for some (len,ne)", {"sweep": True})
    bools, outs = C.coq_eval_bools("C11", IMPORTS, [e for e, _ in exprs], chunk=12)
    settle_chain_cases(res, bools)
    settle_hyps(res)
    for (e, rp), b in zip(exprs, bools):
        res.traces += 1
        if b is not True:
            res.fail("correspondence", "model != implementation (generate_mesh)" if b is False else "case did not evaluate",
                     {"correspondence": "Model/Resample.v vs virtual_edges.generate_mesh", "case": rp})


def search(res, tier, seed, broken):
    rng = np.random.default_rng(seed + 3)
    r2 = C.Result(res.pid)
    sink = []
    for spec, label in tissues(rng, "thorough"):
        for ne in range(1, 13):
            for flag in (False, True):
                run_case(r2, spec, ne, flag, sink, label)
        if [f for f in r2.failures if f["kind"] == "oracle" and not f.get("tag")]:
            break
    if PENDING_CHAIN:
        pend = list(PENDING_CHAIN)
        del PENDING_CHAIN[:]
        bools, _ = C.coq_eval_bools("C11s", IMPORTS, [sink[i][0] for i, _, _ in pend], chunk=12)
        PENDING_CHAIN.extend((k, m, rp) for k, (_, m, rp) in enumerate(pend))
        settle_chain_cases(r2, bools)
    res.failures.extend(f for f in r2.failures if f["kind"] == "oracle")
    res.notes.append(f"search: {r2.evaluations} extra oracle cases")


def replay(res, obj):
    inp = obj.get("input", obj)
    if "case" in inp:
        inp = inp["case"]
    sink = []
    run_case(res, inp["spec"], inp["ne"], inp["flag"], sink, "replay")
    bools, _ = C.coq_eval_bools("C11r", IMPORTS, [e for e, _ in sink], chunk=12)
    settle_chain_cases(res, bools)
    for (e, rp), b in zip(sink, bools):
        if b is not True:
            res.fail("correspondence", "model != implementation", {"correspondence": "Model/Resample.v", "case": rp})
