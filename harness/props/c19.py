"""C19 -- tessellation lattices match the Voronoi diagram of the given centres."""
import itertools
import math
import numpy as np
from scipy.spatial import Voronoi
import common as C
import gen
import impl

RULE = ("random, jittered-lattice, exactly square and exactly hexagonal centre sets of 6..300 points (axis-parallel ridges included), "
        "almost four-fold corners (one centre of a square grid moved by a few thousandths), with and without the ring of helper centres, "
        "max_distance from tight to infinite; non-trivial = at least 3 cells; distinct = the centre set and cut-off")
TRUSTED = ["Model/Tessellation.v (vertex / edge interning, signed cell key, reversal) tied to tessellation.create_lattice_elements / "
           "create_lattice by exact correspondence; Qhull (scipy.spatial.Voronoi) is an oracle: the harness calls it with the same "
           "centres and hands its regions to the model",
           "Model/Round.v ridge_vertex (numpy's rounding of Qhull's corner, the line through the rounded ends, rounding of the ordinate; binary64) tied bit for bit to the two lattice points "
           "create_lattice_elements makes for every ridge of every kept region, rounding ties and near-degenerate corners included",
           "Model/RegionFilter.v tied exactly (over Q, squared distances) to tessellation.remove_infinite_regions on Qhull's regions and vertices; cut-offs "
           "within 1e-9 of a region's diameter are skipped"]
ASSUMPTIONS = ["regions in which two consecutive corners round to the same point (zero-length ridge after rounding) are not judged"]
TESTED_NOT_PROVED = ["which regions survive the cut-off is proved for the model (C19_cells_are_the_regions_below_the_cut_off, order independence, monotonicity) and tied "
                     "exactly to remove_infinite_regions on Qhull's output; that each surviving region becomes one cell with the region's rounded corners as cycle is evaluated by the oracle against "
                     "scipy's diagram; 'all cells in the same rotational sense' is proved over the reals for the rule of the model "
                     "(C19_stored_cycles_share_one_sense: sign taken on the doubled vertex list, reversal when positive) and re-checked on the "
                     "implementation by the oracle"]
IMPORTS = "From Forsys Require Import Model.Num Model.CaseUtil Model.PyList Model.Geometry Model.Tessellation Model.RegionFilter Model.Round.\n"


def kept_regions(centres, max_distance, raw=False):
    vor = Voronoi(centres)
    out = []
    for c in vor.regions:
        if len(c) == 0 or -1 in c:
            continue
        P = vor.vertices[c]
        d = max(math.hypot(*(P[i] - P[j])) for i in range(len(c)) for j in range(len(c)))
        if d > max_distance:
            continue
        if raw:
            out.append([(float(vor.vertices[i][0]), float(vor.vertices[i][1])) for i in c])
        else:
            out.append([(round(float(vor.vertices[i][0]), 3), round(float(vor.vertices[i][1]), 3)) for i in c])
    return out


def cyc_close(a, b, tol=1.001e-3):
    if len(a) != len(b):
        return False
    n = len(a)
    for bb in (b, b[::-1]):
        for k in range(n):
            rot = bb[k:] + bb[:k]
            if all(abs(p[0] - q[0]) <= tol and abs(p[1] - q[1]) <= tol for p, q in zip(a, rot)):
                return True
    return False


def cyc_equal(a, b):
    if len(a) != len(b):
        return False
    n = len(a)
    for bb in (b, b[::-1]):
        for k in range(n):
            if bb[k:] + bb[:k] == a:
                return True
    return False


def region_filter_case(res, centres, max_distance, exprs, replay):
    """Model/RegionFilter.v against tessellation.remove_infinite_regions on Qhull's own output (regions and vertices as scipy returns them for
    the centres): which regions are left after the cut-off, exact over the rationals; cut-offs within 1e-9 of a region's diameter are skipped"""
    import copy
    from fractions import Fraction
    if not np.isfinite(max_distance) or sum(1 for _, rp_ in exprs if isinstance(rp_, dict) and rp_.get("what") == "region filter") >= 12:
        return
    vor = Voronoi([tuple(c) for c in centres])
    regs = [[int(i) for i in c] for c in vor.regions]
    if sum(len(c) for c in regs) > 1500:
        return
    V = [(Fraction(float(x)), Fraction(float(y))) for x, y in vor.vertices]
    m2 = Fraction(float(max_distance)) ** 2
    for c in regs:
        if c and -1 not in c:
            d2 = max((V[i][0] - V[j][0]) ** 2 + (V[i][1] - V[j][1]) ** 2 for i in c for j in c)
            if abs(d2 - m2) <= Fraction(1, 10 ** 9) * m2:
                res.count("region filter: cut-off on a diameter (tie, skipped)")
                return
    try:
        kept = impl.fs.tessellation.remove_infinite_regions(vor, copy.deepcopy(vor.regions), max_distance=max_distance)
    except Exception as ex:  # noqa
        res.fail("oracle", f"remove_infinite_regions raised {type(ex).__name__}: {str(ex)[:80]}", replay)
        return
    kept = [[int(i) for i in c] for c in kept]
    tbl = "[" + "; ".join(f"({k}, ({C.qlit(x)}, {C.qlit(y)}))" for k, (x, y) in enumerate(V)) + "]"
    exprs.append((f"let verts := assoc_def (0, 0)%Q {tbl} in listlistZ_eqb (remove_infinite_regions verts {C.qlit(m2)} {C.zlistlist(regs)}) {C.zlistlist(kept)}",
                  dict(replay, what="region filter")))
    res.count("region filter correspondence" + (" (cut-off active)" if len(kept) < len(regs) else ""))


def corner_point_case(res, rawreg, els, exprs, replay):
    """Model/Round.v ridge_vertex (Python round, numpy around and the line through the rounded ends, all in binary64) against the two lattice
    points create_lattice_elements made for every ridge of every kept region, bit for bit - rounding ties and near-degenerate corners included"""
    if sum(1 for _, rp_ in exprs if isinstance(rp_, dict) and rp_.get("what") == "corner points") >= 10:
        return
    verts, edges, cells = els
    bykey = {abs(int(k)): k for k in cells}
    items = []
    for k, reg in enumerate(rawreg):
        key = bykey.get(k + 1)
        if key is None or len(cells[key]) != len(reg):
            continue
        for i in range(len(reg)):
            en = int(cells[key][i])
            a, b = edges[abs(en)]
            if en < 0:
                a, b = b, a
            p, q = reg[i], reg[(i + 1) % len(reg)]
            pa, pb = verts[a], verts[b]
            items.append(f"(({C.flit(p[0])}, {C.flit(p[1])}), ({C.flit(q[0])}, {C.flit(q[1])}), (({C.flit(pa[0])}, {C.flit(pa[1])}), ({C.flit(pb[0])}, {C.flit(pb[1])})))")
            if len(items) >= 600:
                break
        if len(items) >= 600:
            break
    if not items:
        return
    exprs.append(("forallb ridge_ok [" + "; ".join(items) + "]", dict(replay, what="corner points")))
    res.count("corner point correspondence")
    res.count("corner point correspondence: ridges", len(items))


def check_set(res, centres, max_distance, exprs, label):
    replay = {"centres": [list(map(float, c)) for c in centres], "max_distance": max_distance, "label": label}
    region_filter_case(res, centres, max_distance, exprs, replay)
    regions = kept_regions(centres, max_distance)
    rawreg = kept_regions(centres, max_distance, raw=True)
    tie = any(abs(((abs(x) * 1000) % 1) - 0.5) < 1e-4 for r in rawreg for p in r for x in p)
    degenerate = any(math.hypot(r[i][0] - r[(i + 1) % len(r)][0], r[i][1] - r[(i + 1) % len(r)][1]) < 1.5e-3 and
                     ((round(r[i][0], 3), round(r[i][1], 3)) == (round(r[(i + 1) % len(r)][0], 3), round(r[(i + 1) % len(r)][1], 3)) or
                      (tie and abs(r[i][0] - r[(i + 1) % len(r)][0]) < 1.001e-3 and abs(r[i][1] - r[(i + 1) % len(r)][1]) < 1.001e-3))
                     for r in rawreg for i in range(len(r)))
    res.case((tuple(map(tuple, np.round(np.array(centres), 6)[:6].tolist())), len(centres), max_distance), nontrivial=len(regions) >= 3)
    res.count(label.split("/")[0])
    try:
        with impl.quiet():
            els = impl.fs.tessellation.create_lattice_elements([tuple(c) for c in centres], max_distance=max_distance)
            v, e, c = impl.fs.tessellation.create_lattice(*els)
    except AssertionError as ex:
        if degenerate and "same vertex twice" in str(ex):
            res.count("zero-length ridge after rounding: SmallEdge rejects it (not judged)")
            return
        res.fail("oracle", f"tessellation raised AssertionError: {str(ex)[:80]}", replay)
        return
    except Exception as ex:  # noqa
        res.fail("oracle", f"tessellation raised {type(ex).__name__}: {str(ex)[:80]}", replay)
        return
    if degenerate:
        res.count("near-degenerate corner pair (judged with tolerance)")
        tie = True
    bad = []
    if len(c) != len(regions):
        bad.append(f"{len(c)} cells for {len(regions)} bounded regions below the cut-off")
    if sorted(c) != list(range(1, len(c) + 1)):
        bad.append(f"cell ids {sorted(c)[:5]}... are not 1..{len(c)}")
    for k, reg in enumerate(regions):
        cell = c.get(k + 1)
        if cell is None:
            continue
        cyc = [(w.x, w.y) for w in cell.vertices]
        if not (cyc_close(cyc, reg) if tie else cyc_equal(cyc, reg)):
            bad.append(f"cell {k + 1}: vertex cycle {cyc[:3]}... is not the region's rounded corners {reg[:3]}...")
            break
    signs = {cc.get_area_sign() for cc in c.values()}
    if len(signs) > 1 or 0 in signs:
        bad.append(f"cells are not all stored in the same rotational sense: area signs {sorted(signs)}")
    cons = impl.consistency_errors(v, e, c)
    if cons:
        bad.append("mesh inconsistent: " + cons[0])
    ridges = set()
    for reg in regions:
        for i in range(len(reg)):
            ridges.add(frozenset((reg[i], reg[(i + 1) % len(reg)])))
    if tie:
        res.count("a corner coordinate sits on a three-decimal rounding tie (coordinates compared with tolerance 1e-3, counts not judged)")
    if len(e) != len(ridges) and not tie:
        bad.append(f"{len(e)} mesh edges for {len(ridges)} distinct ridges: neighbouring regions do not share the edge of their common ridge")
    if len(v) != len({p for reg in regions for p in reg}) and not tie:
        bad.append(f"{len(v)} vertices for {len({p for reg in regions for p in reg})} distinct rounded corners")
    for b in bad[:3]:
        res.fail("oracle", b, replay)
    res.sample({"label": label, "centres": len(centres), "max_distance": max_distance, "cells": len(c), "edges": len(e)})
    corner_point_case(res, rawreg, els, exprs, replay)
    if tie:
        return
    # correspondence
    regs_l = "[" + "; ".join("[" + "; ".join(f"({C.qlit(x)}, {C.qlit(y)})" for x, y in reg) + "]" for reg in regions) + "]"
    raw_cells = els[2]
    keys = list(raw_cells.keys())
    cells_l = "[" + "; ".join(f"({C.zlit(k)}, {C.zlist([int(x) for x in raw_cells[k]])})" for k in keys) + "]"
    verts_l = "[" + "; ".join(f"({C.zlit(k)}, ({C.qlit(p[0])}, {C.qlit(p[1])}))" for k, p in els[0].items()) + "]"
    edges_l = "[" + "; ".join(f"({C.zlit(k)}, ({C.zlit(p[0])}, {C.zlit(p[1])}))" for k, p in els[1].items()) + "]"
    final_l = "[" + "; ".join(f"({C.zlit(k)}, {C.zlist([w.id for w in cc.vertices])})" for k, cc in c.items()) + "]"
    exprs.append((f"let st := lattice_elements {regs_l} in vs_eqb (tv st) {verts_l} && es_eqb (te st) {edges_l} && cs_eqb (tc st) {cells_l} && "
                  f"cs_eqb (lattice_cells st) {final_l}", replay))


def centre_sets(rng, tier):
    n = 5 if tier == "quick" else 60
    for k in range(n):
        m = int(rng.integers(6, 60 if tier == "quick" else 300))
        yield rng.uniform(0, 100, size=(m, 2)).tolist(), f"random/{k}"
        q = int(rng.integers(3, 8 if tier == "quick" else 17))
        yield gen.jittered_sites(rng, q, box=100.0, jitter=0.25).tolist(), f"jittered/{k}"
        yield [(float(i) * 10, float(j) * 10) for i in range(q) for j in range(q)], f"square/{k}"
        yield [(10.0 * i + 5.0 * (j % 2), 10.0 * j * math.sqrt(3) / 2) for i in range(q) for j in range(q)], f"hexagonal/{k}"
        sq = [(float(i) * 10 + 0.00037, float(j) * 10 + 0.00041) for i in range(q) for j in range(q)]
        idx = int(rng.integers(0, len(sq)))
        sq[idx] = (sq[idx][0] + float(rng.uniform(0.002, 0.004)), sq[idx][1] - float(rng.uniform(0.001, 0.004)))
        yield sq, f"almost-square/{k}"
        # a four-fold corner split into two corners about 0.001 apart, sitting near a rounding boundary
        oy = float(rng.choice([0.0005, 0.0003]))
        g = [(10.0 * i + 0.0005, 10.0 * j + oy) for i in range(6) for j in range(6)]
        idx = 6 * int(rng.integers(1, 5)) + int(rng.integers(1, 5))
        dx, dy = [(-0.003, -0.003), (-0.002, -0.002), (0.0, 0.002), (-0.002, 0.0), (-0.003, 0.001)][int(rng.integers(0, 5))]
        g[idx] = (g[idx][0] + dx, g[idx][1] + dy)
        yield g, f"near-fourfold/{k}"


def run(res, tier, seed):
    rng = np.random.default_rng(seed)
    exprs = []
    for centres, label in centre_sets(rng, tier):
        md = float(rng.choice([75.0, 25.0, 40.0, 1e9]))
        check_set(res, centres, md, exprs, label)
        if rng.random() < 0.5:
            with impl.quiet():
                ring = impl.fs.tessellation.add_voronoi_centers([tuple(c) for c in centres])
            check_set(res, list(centres) + [list(c) for c in ring], md, exprs, label + "+ring")
    bools, outs = C.coq_eval_bools("C19", IMPORTS, [e for e, _ in exprs], chunk=6)
    for (e, rp), b in zip(exprs, bools):
        res.traces += 1
        if b is not True:
            res.fail("correspondence", ("model != implementation (regions left after the distance cut-off, Model/RegionFilter.v)" if isinstance(rp, dict) and rp.get("what") == "region filter"
                                        else "model != implementation (lattice point of a corner, Model/Round.v ridge_vertex)" if isinstance(rp, dict) and rp.get("what") == "corner points"
                                        else "model != implementation (lattice elements)") if b is False else "case did not evaluate",
                     {"correspondence": "Model/Tessellation.v vs tessellation.create_lattice_elements / create_lattice", "case": rp})


def search(res, tier, seed, broken):
    rng = np.random.default_rng(seed + 53)
    r2 = C.Result(res.pid)
    sink = []
    for centres, label in centre_sets(rng, "thorough"):
        check_set(r2, centres, 75.0, sink, label)
        if [f for f in r2.failures if f["kind"] == "oracle"] or r2.evaluations > 80:
            break
    res.failures.extend(f for f in r2.failures if f["kind"] == "oracle")
    res.notes.append(f"search: {r2.evaluations} extra centre sets")


def replay(res, obj):
    inp = obj.get("input", obj)
    if "case" in inp:
        inp = inp["case"]
    check_set(res, inp["centres"], inp["max_distance"], [], "replay")
