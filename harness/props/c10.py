"""C10 -- results are a pure function of frame data and the last call's arguments."""
import math
import warnings
import numpy as np
import common as C
import gen
import impl

RULE = ("random histories (length <= 12) of build_force_matrix / solve_stress / build_pressure_matrix / solve_pressure / "
        "get_system_velocity_per_frame over the frames of a 2..4-frame series, any frame order, mixed methods, b_matrix modes, "
        "circle fits and angle limits; after every step the implementation's stores are compared with fresh objects solved once; "
        "non-trivial = the history re-solves or re-builds some frame; distinct = the operation sequence")
TRUSTED = ["Model/Session.v (stores as functions of frames, results as symbolic tokens) tied to forsys.py by comparing, after every "
           "operation, the implementation's stores with the values a fresh object produces for the model's token (bitwise equality)",
           "the harness's token bookkeeping is checked against Model/Session.v inside Coq for every history",
           "Model/WriteBack.v tied exactly to the tensions of all mesh edges before / after a solve; which element of set(ownEdges(a)) & set(ownEdges(b)) "
           "comes first is learnt by evaluating the same expression in the same process (CPython set order)"]
ASSUMPTIONS = ["solvers and circle fits are deterministic functions of their inputs (checked: fresh objects reproduce bitwise)"]
TESTED_NOT_PROVED = ["the write-back onto the mesh edges is proved for the model (C10_used_edges_carry_their_entry, C10_excluded_edges_are_zero, "
                     "C10_other_edges_unchanged, C10_write_back_forgets_history) and tied exactly to the implementation on ten solves per run; the interface-level "
                     "value (mean of equal mesh-edge values), external interfaces at zero and the tension table = internal interfaces in order are evaluated by the oracle after every solve"]
IMPORTS = "From Forsys Require Import Model.CaseUtil Model.PyList Model.Resample Model.Session Model.WriteBack.\n"

BUILD_ARGS = [
    {},
    {"angle_limit": np.inf},
    {"angle_limit": 0.86 * math.pi},
    {"circle_fit_method": "taubinSVD"},
    {"metadata": {"ignore_four": True}, "angle_limit": np.inf},
    {"angle_limit": 0.8 * math.pi, "circle_fit_method": "taubinSVD"},
]
SYSVEL_BASE = 100      # build-arg ids of get_system_velocity_per_frame(angle_limit=L): 100 + index
SYSVEL_LIMITS = [np.inf, 0.9 * math.pi]
SOLVE_ARGS = [
    {},
    {"allow_negatives": False},
    {"method": "lsq", "allow_negatives": False},
    {"b_matrix": "velocity", "allow_negatives": False},
    {"b_matrix": "velocity", "adimensional_velocity": True, "allow_negatives": False},
    {"method": "lsq_linear"},
]
PSOLVE_ARGS = [{"method": "lagrange_pressure"}, {"method": "lagrange_pressure", "allow_negatives": True}]


def build_kwargs(a):
    if a >= SYSVEL_BASE:
        return {"angle_limit": SYSVEL_LIMITS[a - SYSVEL_BASE]}
    return dict(BUILD_ARGS[a])


class Fresh:
    """values a fresh object reports for a token"""
    def __init__(self, specs, times):
        self.specs, self.times = specs, times
        self.cache = {}

    def forsys(self):
        frames = {t: impl.frame(s, t, self.times[t]) for t, s in enumerate(self.specs)}
        return impl.forsys_of(frames, cm=False)

    def tensions(self, tok):
        key = ("T", tok)
        if key not in self.cache:
            t, a, b = tok
            f = self.forsys()
            with impl.quiet():
                f.build_force_matrix(when=t, **build_kwargs(a))
                try:
                    f.solve_stress(when=t, **SOLVE_ARGS[b])
                    val = ("ok", dict(f.forces[t]), [be.tension for be in f.frames[t].big_edges.values()],
                           [list(e) for e in f.force_matrices[t].big_edges_to_use])
                except Exception as ex:  # noqa
                    val = ("exc", type(ex).__name__)
            self.cache[key] = val
        return self.cache[key]

    def pressures(self, tok):
        key = ("P", tok)
        if key not in self.cache:
            t, tk, c = tok
            f = self.forsys()
            with impl.quiet():
                try:
                    if tk is not None:
                        f.build_force_matrix(when=t, **build_kwargs(tk[1]))
                        f.solve_stress(when=t, **SOLVE_ARGS[tk[2]])
                    f.build_pressure_matrix(when=t)
                    f.solve_pressure(when=t, **PSOLVE_ARGS[c])
                    val = ("ok", list(f.pressures[t]), [cell.pressure for cell in f.frames[t].cells.values()])
                except Exception as ex:  # noqa
                    val = ("exc", type(ex).__name__)
            self.cache[key] = val
        return self.cache[key]


def tok_lit(tk):
    return "None" if tk is None else f"(Some ({tk[0]}, {tk[1]}, {tk[2]})%nat)"


def ptok_lit(pk):
    if pk is None:
        return "None"
    inner = "None" if pk[1] is None else f"Some ({pk[1][0]}, {pk[1][1]}, {pk[1][2]})%nat"
    return f"(Some ({pk[0]}%nat, {inner}, {pk[2]}%nat))"


def op_lit(o):
    k = o[0]
    if k == "BuildF":
        return f"BuildF {o[1]} {o[2]}"
    if k == "SolveS":
        return f"SolveS {o[1]} {o[2]}"
    if k == "BuildP":
        return f"BuildP {o[1]}"
    if k == "SolveP":
        return f"SolveP {o[1]} {o[2]}"
    return f"SysVel {o[1]}"


def fresh_raises(fresh, op, tk):
    """does a fresh object raise on this build operation (after the solve its tensions token stands for)?"""
    key = ("R", tuple(op), tk)
    if key not in fresh.cache:
        f = fresh.forsys()
        val = None
        with impl.quiet(), warnings.catch_warnings():
            warnings.simplefilter("ignore")
            try:
                if op[0] == "BuildF":
                    f.build_force_matrix(when=op[1], **build_kwargs(op[2]))
                elif op[0] == "BuildP":
                    if tk is not None:
                        f.build_force_matrix(when=tk[0], **build_kwargs(tk[1]))
                        f.solve_stress(when=tk[0], **SOLVE_ARGS[tk[2]])
                    f.build_pressure_matrix(when=op[1])
                else:
                    f.get_system_velocity_per_frame(angle_limit=SYSVEL_LIMITS[op[1] - SYSVEL_BASE])
            except Exception as ex:  # noqa
                val = type(ex).__name__
        fresh.cache[key] = val
    return fresh.cache[key]


def write_back_case(f, t, pre_t, exprs, replay, step):
    """Model/WriteBack.v against ForceMatrix.solve: the tensions of all mesh edges of frame t after the solve, from the tensions before it, the
    internal interfaces, the interfaces in the system and the reported solution"""
    fr = f.frames[t]
    fmx = f.force_matrices[t]
    post = {eid: x.tension for eid, x in fr.edges.items()}
    if len(post) > 600 or not all(isinstance(x, (int, float)) and not isinstance(x, bool) for x in list(pre_t.values()) + list(post.values())):
        return
    used = [[int(x) for x in el] for el in fmx.big_edges_to_use]
    internal = [([int(x) for x in be.get_vertices_ids()], [int(x) for x in be.edges]) for be in fr.internal_big_edges]
    ivs = [iv for iv, _ in internal]
    got = f.forces[t]
    try:
        xs = [float(got[ivs.index(el)]) for el in used]
    except (ValueError, KeyError):
        return
    tbl = []
    for el in used:
        for a, b in zip(el, el[1:]):
            # the same expression as in the source: which element of the set intersection comes first is CPython's business
            tbl.append((a, b, int(list(set(fr.vertices[a].ownEdges) & set(fr.vertices[b].ownEdges))[0])))
    ids = sorted(post)
    e = ("let tbl := [" + "; ".join(f"(({C.zlit(a)}, {C.zlit(b)}), {C.zlit(c)})" for a, b, c in tbl) + "] in "
         "let pick := fun p : Z * Z => match find (fun kv => Z.eqb (fst (fst kv)) (fst p) && Z.eqb (snd (fst kv)) (snd p)) tbl with Some kv => snd kv | None => (-1)%Z end in "
         "let W := write_back pick 0%float (-1)%float [" + "; ".join(f"({C.zlist(a)}, {C.zlist(b)})" for a, b in internal) + "] " + C.zlistlist(used) +
         " [" + "; ".join(C.flit(x) for x in xs) + "] (assoc_def 0%float [" + "; ".join(f"({C.zlit(k)}, {C.flit(v)})" for k, v in sorted(pre_t.items())) + "]) in "
         "listF_close 0%float (map W " + C.zlist(ids) + ") [" + "; ".join(C.flit(post[k]) for k in ids) + "]")
    exprs.append((e, {"what": "write-back", "frame": t, "step": step, "history": replay["history"], "label": replay["label"],
                      "used": len(used), "internal": len(internal)}))


def run_history(res, specs, times, hist, exprs, label):
    n = len(specs)
    frames = {t: impl.frame(s, t, times[t]) for t, s in enumerate(specs)}
    f = impl.forsys_of(frames, cm=False)
    fresh = Fresh(specs, times)
    replay = {"specs": [{k: s[k] for k in ("vertices", "edges", "cells")} for s in specs], "times": times, "history": hist, "label": label}
    # token mirror of Model/Session.v
    fm, forces, tens, pm, pres = {}, {}, {}, {}, {}
    excl_ever = {t: False for t in range(n)}
    bad = []
    for step, o in enumerate(hist):
        k = o[0]
        err = None
        pre_t = None
        if k == "SolveS" and o[1] in fm and sum(1 for _, rp_ in exprs if isinstance(rp_, dict) and rp_.get("what") == "write-back") < 10:
            pre_t = {eid: x.tension for eid, x in f.frames[o[1]].edges.items()}
        try:
            with impl.quiet(), warnings.catch_warnings():
                warnings.simplefilter("ignore")
                if k == "BuildF":
                    f.build_force_matrix(when=o[1], **build_kwargs(o[2]))
                elif k == "SolveS":
                    f.solve_stress(when=o[1], **SOLVE_ARGS[o[2]])
                elif k == "BuildP":
                    f.build_pressure_matrix(when=o[1])
                elif k == "SolveP":
                    f.solve_pressure(when=o[1], **PSOLVE_ARGS[o[2]])
                else:
                    f.get_system_velocity_per_frame(angle_limit=SYSVEL_LIMITS[o[1] - SYSVEL_BASE])
        except Exception as ex:  # noqa
            import traceback
            err = type(ex).__name__ + ": " + str(ex)[:120] + " @ " + " <- ".join(traceback.format_exc().strip().splitlines()[-6:-1:2])[-300:]
        # a build operation that raises is an aborted call (get_system_velocity_per_frame may have rebuilt some frames and not others):
        # it must be rejected by a fresh object alike, and the history is judged up to this point only
        if err and k in ("BuildF", "BuildP", "SysVel"):
            if fresh_raises(fresh, o, tens.get(o[1]) if k == "BuildP" else None) == err.split(":")[0]:
                res.count("history cut at a build operation rejected by fresh and used object alike")
            else:
                bad.append(f"step {step} {o}: raised {err} although a fresh object accepts the same call")
            hist = hist[:step]
            break
        if pre_t is not None and err is None:
            write_back_case(f, o[1], pre_t, exprs, replay, step)
        # mirror
        if k == "BuildF":
            fm[o[1]] = o[2]
        elif k == "SolveS" and o[1] in fm:
            forces[o[1]] = tens[o[1]] = (o[1], fm[o[1]], o[2])
        elif k == "BuildP":
            pm[o[1]] = tens.get(o[1])
        elif k == "SolveP" and o[1] in pm:
            pres[o[1]] = (o[1], pm[o[1]], o[2])
        elif k == "SysVel":
            for t in range(n):
                fm[t] = o[1]
        # compare the stores of every frame with fresh objects
        for t in range(n):
            tk = forces.get(t)
            got = f.forces.get(t) if isinstance(f.forces, dict) else None
            if tk is None:
                if got is not None:
                    bad.append(f"step {step} {o}: forces[{t}] holds a result although frame {t} was never solved")
                continue
            exp = fresh.tensions(tk)
            if exp[0] == "exc":
                continue
            if got is None or dict(got) != exp[1]:
                bad.append(f"step {step} {o}: forces[{t}] differs from a fresh object solved once with the same arguments")
                continue
            fr = f.frames[t]
            used = exp[3]
            internal = [list(e) for e in fr.internal_big_edges_vertices]
            if len(used) != len(internal):
                excl_ever[t] = True
            vals = [got[i] for i in range(len(internal))]
            for i, be in enumerate(fr.internal_big_edges):
                if internal[i] in used:
                    if abs(be.tension - vals[i]) > 1e-12 * (1 + abs(vals[i])) or any(fr.edges[e].tension != vals[i] for e in be.edges):
                        bad.append(f"step {step} {o}: frame {t}: reported tension {i} = {vals[i]} but interface stores {be.tension}")
                        break
            if any(be.tension != 0 for be in fr.big_edges.values() if be.external):
                bad.append(f"step {step} {o}: frame {t}: an external interface has non-zero tension")
            with impl.quiet():
                tab = fr.get_tensions()
            if [int(x) for x in tab["id"]] != [be.big_edge_id for be in fr.internal_big_edges]:
                bad.append(f"step {step} {o}: frame {t}: tension table does not list the internal interfaces in order")
            pk = pres.get(t)
            gotp = f.pressures.get(t) if isinstance(f.pressures, dict) else "not-a-dict"
            if pk is not None:
                expp = fresh.pressures(pk)
                if expp[0] == "ok":
                    cellp = [cell.pressure for cell in fr.cells.values()]
                    if gotp == "not-a-dict" or gotp is None or list(gotp) != expp[1] or cellp != expp[2]:
                        msg = f"step {step} {o}: pressures of frame {t} differ from a fresh object"
                        if excl_ever[t]:
                            res.fail("oracle", msg + " (an angle limit excluded interfaces in this frame's history: their stale tensions enter the pressure equations)",
                                     replay, tag="D20-pressure-uses-stale-excluded-tensions")
                        else:
                            bad.append(msg)
        if err and not (k == "SolveS" and o[1] not in fm) and not (k == "SolveP" and o[1] not in pm):
            exp_exc = False
            if k == "SolveS":
                exp_exc = fresh.tensions((o[1], fm[o[1]], o[2]))[0] == "exc"
            if k == "SolveP":
                exp_exc = fresh.pressures((o[1], pm[o[1]], o[2]))[0] == "exc"
            if not exp_exc:
                bad.append(f"step {step} {o}: raised {err} although a fresh object accepts the same call")
        if bad:
            break
    for b in bad[:3]:
        res.fail("oracle", b, replay)
    res.case(tuple(tuple(o) for o in hist), nontrivial=len(hist) >= 4)
    res.count(f"len={len(hist)}")
    for o in hist:
        res.count("op=" + o[0])
    res.sample({"label": label, "history": hist[:6], "frames": n})
    # the token bookkeeping above must be what Model/Session.v computes
    h = "[" + "; ".join(op_lit(o) for o in hist) + "]"
    chk = " && ".join(f"ottok_eqb (forces s {t}) {tok_lit(forces.get(t))} && ottok_eqb (tens s {t}) {tok_lit(tens.get(t))} && "
                      f"optok_eqb (pres s {t}) {ptok_lit(pres.get(t))}" for t in range(n))
    exprs.append((f"let s := run {n} {h} in {chk}", replay))


def random_history(rng, n, length):
    hist = []
    for _ in range(length):
        r = rng.random()
        t = int(rng.integers(0, n))
        if r < 0.3:
            hist.append(["BuildF", t, int(rng.integers(0, len(BUILD_ARGS)))])
        elif r < 0.62:
            hist.append(["SolveS", t, int(rng.integers(0, len(SOLVE_ARGS)))])
        elif r < 0.77:
            hist.append(["BuildP", t])
        elif r < 0.92:
            hist.append(["SolveP", t, int(rng.integers(0, len(PSOLVE_ARGS)))])
        else:
            hist.append(["SysVel", SYSVEL_BASE + int(rng.integers(0, len(SYSVEL_LIMITS)))])
    return hist


def cases(rng, tier):
    # rosettes (one cell with its full ring of neighbours): the augmented system is square, the exact-inversion path runs and falls back to
    # the non-negative solver only when negatives are disallowed -- the same frame solved with one option after the other
    from props.c05 import rosette, noisy
    for j in range(2 if tier == "quick" else 8):
        for _ in range(20):
            ro = rosette(gen.voronoi_tissue(rng, n=int(rng.integers(25, 45)), npts=int(rng.integers(1, 4)), snap=8), rng)
            if ro is not None and len(ro["cells"]) >= 5:
                break
        else:
            continue
        ro = noisy(ro, rng, float(rng.choice([0.5, 3.0])))
        nf = 2
        specs, times, truth = gen.series(rng, ro, nf, field="random", amp_frac=0.3, renumber=False)
        t0 = int(rng.integers(0, nf))
        hist = [["BuildF", t0, 1], ["SolveS", t0, 1], ["SolveS", t0, 0], ["BuildP", t0], ["SolveP", t0, 0], ["SolveS", t0, 3], ["SolveS", t0, 0],
                ["SolveS", t0, 2], ["SolveS", t0, 0]]
        yield specs, times, hist, f"rosette{j}/negatives-then-default"
    n = 6 if tier == "quick" else 40
    for k in range(n):
        base = gen.voronoi_tissue(rng, n=int(rng.integers(16, 30)), npts=int(rng.integers(1, 4)), snap=8,
                                  mob_strength=float(rng.choice([0.0, 0.8])))
        if len(base["cells"]) < 5:
            continue
        nf = int(rng.integers(2, 5))
        specs, times, truth = gen.series(rng, base, nf, field="random", amp_frac=0.4, renumber=False)
        # directed histories (always included): every store-writing call between a build with non-default options and a solve of the
        # same frame -- a matrix that survives get_system_velocity_per_frame, a pressure matrix built before a re-solve, a re-build
        # with other options between solve and pressure step
        t0 = int(rng.integers(0, nf))
        a0 = int(rng.integers(1, len(BUILD_ARGS)))
        sv = SYSVEL_BASE + int(rng.integers(0, len(SYSVEL_LIMITS)))
        b0 = int(rng.integers(0, len(SOLVE_ARGS)))
        directed = [[["BuildF", t0, a0], ["SysVel", sv], ["SolveS", t0, b0], ["BuildP", t0], ["SolveP", t0, 0]],
                    [["BuildF", t0, a0], ["SolveS", t0, b0], ["SysVel", sv], ["SolveS", t0, b0], ["BuildP", t0], ["SolveP", t0, 0]],
                    [["BuildF", t0, 0], ["SolveS", t0, b0], ["BuildP", t0], ["BuildF", t0, a0], ["SolveS", t0, b0], ["SolveP", t0, 0],
                     ["BuildP", t0], ["SolveP", t0, 0]]]
        yield specs, times, directed[k % 3], f"s{k}/directed{k % 3}"
        for j in range(3 if tier == "quick" else 4):
            hist = random_history(rng, nf, int(rng.integers(4, 13)))
            # make sure there is something to solve
            hist = [["BuildF", 0, int(rng.integers(0, len(BUILD_ARGS)))]] + hist
            yield specs, times, hist, f"s{k}/h{j}"


def run(res, tier, seed):
    rng = np.random.default_rng(seed)
    exprs = []
    for specs, times, hist, label in cases(rng, tier):
        run_history(res, specs, times, hist, exprs, label)
    bools, outs = C.coq_eval_bools("C10", IMPORTS, [e for e, _ in exprs], chunk=8)
    res.count("write-back correspondences", sum(1 for _, rp in exprs if rp.get("what") == "write-back"))
    for (e, rp), b in zip(exprs, bools):
        res.traces += 1
        if b is not True:
            if rp.get("what") == "write-back":
                res.fail("correspondence", "mesh-edge tensions after the solve != Model/WriteBack.v" if b is False else "case did not evaluate",
                         {"correspondence": "Model/WriteBack.v vs ForceMatrix.solve (write-back onto the mesh edges)", "case": rp})
                continue
            res.fail("correspondence", "token bookkeeping != Model/Session.v" if b is False else "case did not evaluate",
                     {"correspondence": "Model/Session.v vs harness mirror", "case": {"history": rp["history"]}})


def search(res, tier, seed, broken):
    rng = np.random.default_rng(seed + 23)
    r2 = C.Result(res.pid)
    sink = []
    for specs, times, hist, label in cases(rng, "thorough"):
        run_history(r2, specs, times, hist, sink, label)
        if [f for f in r2.failures if f["kind"] == "oracle" and not f.get("tag")] or r2.evaluations > 30:
            break
    res.failures.extend(f for f in r2.failures if f["kind"] == "oracle")
    res.notes.append(f"search: {r2.evaluations} extra histories")


def replay(res, obj):
    inp = obj.get("input", obj)
    if "case" in inp:
        inp = inp["case"]
    sink = []
    run_history(res, inp["specs"], inp["times"], inp["history"], sink, "replay")
