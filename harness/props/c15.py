"""C15 -- skeleton images are parsed into the tissue's true topology (PARTIAL: OpenCV's contour tracing is a black box)."""
import os
import numpy as np
from PIL import Image
import common as C
import gen
import impl

RULE = ("one-pixel-wide skeleton images: square lattices (four-fold junction pixels) and honeycombs whose sides are vertical or exactly diagonal "
        "(three-fold Y junction pixels, angles 90/135/135 degrees), 4..56 cells, minimal by construction, and every shipped skeleton, each under the 8 symmetries of the square, "
        "padding and mirror_y; ne in 3..9; non-trivial = at least 4 cells; distinct = (image, symmetry, ne)")
TRUSTED = ["cv2.findContours is a black box: no model of it is attempted; what ForSys does with the contours (vertex interning by pixel position, "
           "one cell per contour, mesh edges, border / external flags, the large-area filter) is modelled in Model/Skeleton.v and compared on the actual OpenCV "
           "output; the contours and the hierarchy handed to the filter model and to the D26 predicate are traced by the harness with the parser's own OpenCV call",
           "the clean-up: Model/SkeletonT3.v get_artifacts / t3 tied exactly to Skeleton.get_artifacts / do_t3_transition, step by step, on value snapshots taken "
           "around the real calls while the images are parsed (up to 24 contractions and 3 artefact searches per run; a contraction is given the vertex ids and the "
           "tables restricted to the artefact's neighbourhood, and the harness checks that nothing outside it changed); for three parses per run (meshes of at most 900 pixels) the "
           "grouping of the artefact vertices, the state after all contractions and the mesh create_lattice returns (after the removal of isolated cells) = `artefacts` / `clean_up` / "
           "`finish_lattice` of the model on the whole state (five parses per run, meshes of at most 900 pixels), and the state the clean-up starts from = `mesh_of_lattice (lattice contours)` - "
           "and the inner-triangle pass (`inner_triangles`: Counter's first-occurrence order, setdiff1d, deletion under a live iterator) on the snapshot taken when create_lattice calls "
           "create_edges_new, with the external flags (set between that call and the pass) recomputed by the harness: on those parses create_lattice is modelled end to end, "
           "`create_lattice_full`, from the kept contours to the returned mesh (six parses per run, at most two per image and symmetry)",
           "expected topology of the generated images comes from the lattice generator, not from forsys"]
ASSUMPTIONS = ["generated images follow the convention of the shipped ones: white frame on the image border, skeleton not touching it; framed images are also padded "
               "literally (frame inside the picture), where tissues of few cells fall under known finding D26"]
TESTED_NOT_PROVED = ["one cell per enclosed region, border flags, internal interfaces, junction count and their equality under the 8 symmetries / "
                     "padding / mirror_y are evaluated by the oracle (they depend on OpenCV's contour tracing)",
                     "rasterised oblique Voronoi tissues are not generated (no thinning library is installed); oblique lines are covered by the shipped images only"]
IMPORTS = "From Forsys Require Import Model.CaseUtil Model.PyList Model.Skeleton Model.SkeletonT3.\n"
WORKDIR = os.path.join(C.WORK, "skeletons")

SYMS = [("id", lambda a: a), ("rot90", lambda a: np.rot90(a, 1)), ("rot180", lambda a: np.rot90(a, 2)), ("rot270", lambda a: np.rot90(a, 3)),
        ("flipud", np.flipud), ("fliplr", np.fliplr), ("transpose", lambda a: a.T), ("antitranspose", lambda a: np.rot90(a, 2).T)]


def lattice_image(nx, ny, kind, px, margin=6):
    """inner image (without frame) of an nx x ny lattice with px pixels per cell side; bricks are 2*px wide"""
    w = (2 * px if kind == "brick" else px)
    W = nx * w + (w // 2 if kind == "brick" else 0) + 1 + 2 * margin
    H = ny * px + 1 + 2 * margin
    a = np.zeros((H, W), dtype=np.uint8)
    for j in range(ny):
        off = (w // 2 if (kind == "brick" and j % 2 == 1) else 0)
        y0, y1 = margin + j * px, margin + (j + 1) * px
        for i in range(nx):
            x0, x1 = margin + off + i * w, margin + off + (i + 1) * w
            a[y0, x0:x1 + 1] = 255
            a[y1, x0:x1 + 1] = 255
            a[y0:y1 + 1, x0] = 255
            a[y0:y1 + 1, x1] = 255
    return a


def hex_cells(nx, ny, a, b):
    """pointy-top hexagons on the pixel grid whose sides are vertical or exactly diagonal (slope +-1): every junction is a
    three-fold Y with angles 90/135/135 degrees and its pixel is minimal"""
    h = a + b // 2
    cid_of, corners, cells, sites = {}, [], [], []

    def corner(x, y):
        if (x, y) not in cid_of:
            cid_of[(x, y)] = len(corners)
            corners.append([float(x), float(y)])
        return cid_of[(x, y)]
    for j in range(ny):
        for i in range(nx):
            cx, cy = 2 * a * i + a * (j % 2) + a, j * (a + 2 * (h - a)) + h
            pts = [(cx, cy - h), (cx + a, cy - h + a), (cx + a, cy + h - a), (cx, cy + h), (cx - a, cy + h - a), (cx - a, cy - h + a)]
            cells.append((len(sites), [corner(x, y) for x, y in pts]))
            sites.append((float(cx), float(cy)))
    return np.array(corners), cells, np.array(sites)


def hex_image(nx, ny, a, b, margin=6):
    import cv2
    corners, cells, _ = hex_cells(nx, ny, a, b)
    W = int(corners[:, 0].max()) + 1 + 2 * margin
    H = int(corners[:, 1].max()) + 1 + 2 * margin
    img = np.zeros((H, W), dtype=np.uint8)
    for _, cyc in cells:
        for k in range(len(cyc)):
            p, q = corners[cyc[k]], corners[cyc[(k + 1) % len(cyc)]]
            cv2.line(img, (int(p[0]) + margin, int(p[1]) + margin), (int(q[0]) + margin, int(q[1]) + margin), 255, 1, cv2.LINE_8)
    return img


def expected_from(corners, cells, sites):
    spec = gen.build_spec(corners, cells, sites, npts=0)
    return expected_of_spec(spec)


def with_frame(inner, pad=0):
    a = np.zeros((inner.shape[0] + 2 * pad + 2, inner.shape[1] + 2 * pad + 2), dtype=np.uint8)
    a[1 + pad:1 + pad + inner.shape[0], 1 + pad:1 + pad + inner.shape[1]] = inner
    a[0, :] = a[-1, :] = 255
    a[:, 0] = a[:, -1] = 255
    return a


def literal_pad(arr, pad):
    """the framed image put inside a larger black canvas: the white frame is then inside the picture, not on its border"""
    a = np.zeros((arr.shape[0] + 2 * pad, arr.shape[1] + 2 * pad), dtype=arr.dtype)
    a[pad:pad + arr.shape[0], pad:pad + arr.shape[1]] = arr
    return a


def outline_survives_area_filter(arr):
    """known finding D26, decided from the image alone (OpenCV, not forsys): with the frame inside the picture the region between frame and
    tissue and the tissue's own outline are traced as two extra contours; the parser drops contours of more than five times the trimmed mean
    area, which the outline of a tissue of few cells is not"""
    import cv2
    cs, hier = cv2.findContours(np.ascontiguousarray(arr[1:-1, 1:-1]), cv2.RETR_TREE, cv2.CHAIN_APPROX_NONE)
    if hier is None or len(cs) < 4:
        return False
    hier = hier[0]
    areas = []
    for c_ in cs[1:]:
        pts = [(int(p_[0]), int(p_[1])) for p_ in np.vstack(c_).reshape(-1, 2)]
        areas.append(abs(sum(pts[k][0] * pts[k - 1][1] - pts[k][1] * pts[k - 1][0] for k in range(len(pts)))))      # twice the area, exact
    n, rest = len(areas), sum(areas) - max(areas)

    def depth(i):
        d = 0
        while hier[i][3] >= 0:
            i, d = hier[i][3], d + 1
        return d
    # an outer boundary of a white component nested inside another one (even depth >= 2: the tissue inside the frame) that the exact
    # integer form of 'area < 5 * mean of all areas but the largest' does not drop (<=: on an exact tie the float comparison may go either way)
    return any(depth(i) >= 2 and depth(i) % 2 == 0 and areas[i - 1] * (n - 1) <= 5 * rest for i in range(1, len(cs)))


def expected_lattice(nx, ny, kind):
    corners, cells, sites = gen.lattice_cells(nx, ny, kind)
    return expected_of_spec(gen.build_spec(corners, cells, sites, npts=0))


def expected_of_spec(spec):
    adj = gen.cell_adjacency(spec)
    member = {}
    for cid, v in spec["cells"]:
        for x in v:
            member.setdefault(x, set()).add(cid)
    owner = {}
    for cid, v in spec["cells"]:
        for k in range(len(v)):
            owner.setdefault(frozenset((v[k], v[(k + 1) % len(v)])), set()).add(cid)
    border = {cid for e_, s in owner.items() if len(s) == 1 for cid in s}
    deg = {}
    for _, a_, b_ in spec["edges"]:
        deg[a_] = deg.get(a_, 0) + 1
        deg[b_] = deg.get(b_, 0) + 1
    internal = set()
    for it in spec["ifaces"]:
        if len(it["cells"]) == 2 and (len(member[it["pts"][0]]) >= 3 or len(member[it["pts"][-1]]) >= 3):
            internal.add(tuple(sorted(it["cells"])))
    return {"cells": len(spec["cells"]), "border": len(border), "junctions": sum(1 for v, n in deg.items() if n >= 3),
            "internal": len(internal), "degrees": sorted(len(adj[c]) for c in adj)}


# ------------------------------------------------------------------ the artefact clean-up against Model/SkeletonT3.v
T3REC = []          # records of this run: ("ga", pre, result) / ("t3", pre, artefact, post, label)
T3CAP = {"t3": 24, "ga": 5}
T3CUR = {}          # the Skeleton being parsed (create_edges_new is a module function and does not see it)
T3RAW = {}          # id(skeleton) -> snapshot taken when create_lattice calls create_edges_new (before flags and clean-up)


def _snap(S):
    return {"verts": {int(k): (float(v.x), float(v.y)) for k, v in S.vertices.items()},
            "ownE": {int(k): [int(x) for x in v.ownEdges] for k, v in S.vertices.items()},
            "ownC": {int(k): [int(x) for x in v.ownCells] for k, v in S.vertices.items()},
            "edges": {int(k): (int(e.v1.id), int(e.v2.id), bool(getattr(e, "external", False))) for k, e in S.edges.items()},
            "cells": {int(k): [int(w.id) for w in c.vertices] for k, c in S.cells.items()}}


class t3_recorder:
    """wraps Skeleton.get_artifacts / do_t3_transition for the duration of a parse and keeps value snapshots of the state before and after
    (a bounded number per run; the wrapped methods are called unchanged)"""
    def __enter__(self):
        cls = impl.fs.skeleton.Skeleton
        self.cls, self.o_t3, self.o_ga = cls, cls.do_t3_transition, cls.get_artifacts
        o_t3, o_ga = self.o_t3, self.o_ga

        def rec_t3(sk_, artifact):
            whole = next((r for r in T3REC if r[0] == "ga" and r[3]["sk"] == id(sk_)), None)
            if whole is not None:
                # a parse whose artefact search was recorded: the groups handed to the contraction, in order, and the state after the last one
                o_t3(sk_, artifact)
                whole[3]["groups"].append([int(a) for a in artifact])
                whole[3]["final"] = _snap(sk_)
                return
            if sum(1 for r in T3REC if r[0] == "t3") >= T3CAP["t3"] or sum(1 for r in T3REC if r[0] == "t3" and r[4] == id(sk_)) >= 2:
                return o_t3(sk_, artifact)
            pre = _snap(sk_)
            o_t3(sk_, artifact)
            T3REC.append(("t3", pre, [int(a) for a in artifact], _snap(sk_), id(sk_)))

        def rec_ga(sk_):
            r = o_ga(sk_)
            if sum(1 for x in T3REC if x[0] == "ga") < T3CAP["ga"] and len(sk_.vertices) <= 900 and \
                    sum(1 for x in T3REC if x[0] == "ga" and x[3].get("key") == T3CUR.get("key")) < 2:
                T3REC.append(("ga", _snap(sk_), [int(a) for a in r], {"sk": id(sk_), "groups": [], "final": None, "raw": T3RAW.pop(id(sk_), None), "key": T3CUR.get("key")}))
            return r
        cls.do_t3_transition, cls.get_artifacts = rec_t3, rec_ga
        mod = impl.fs.skeleton.fvedges
        self.mod, self.o_cen = mod, mod.create_edges_new
        o_cen = self.o_cen

        def rec_cen(vertices, cells):
            sk_ = T3CUR.get("sk")
            if sk_ is not None and vertices is sk_.vertices and len(vertices) <= 900 and sum(1 for x in T3REC if x[0] == "ga") < T3CAP["ga"] and \
                    sum(1 for x in T3REC if x[0] == "ga" and x[3].get("key") == T3CUR.get("key")) < 2:
                T3RAW.clear()
                T3RAW[id(sk_)] = _snap(sk_)
            return o_cen(vertices, cells)
        mod.create_edges_new = rec_cen
        return self

    def __exit__(self, *a):
        self.cls.do_t3_transition, self.cls.get_artifacts = self.o_t3, self.o_ga
        self.mod.create_edges_new = self.o_cen
        T3CUR.clear()
        return False


def _mesh_lit(s, vkeys=None, ekeys=None, ckeys=None):
    own = lambda d, ks: "[" + "; ".join(f"({C.zlit(k)}, {C.zlist(v)})" for k, v in d.items() if ks is None or k in ks) + "]"   # noqa
    ed = "[" + "; ".join(f"({C.zlit(k)}, ({C.zlit(a)}, {C.zlit(b)}, {C.blit(x)}))" for k, (a, b, x) in s["edges"].items() if ekeys is None or k in ekeys) + "]"
    return f"(mkM {C.zlist(list(s['verts'].keys()))} {own(s['ownE'], vkeys)} {own(s['ownC'], vkeys)} {ed} {own(s['cells'], ckeys)})"


def t3_cases(res, exprs):
    """every recorded clean-up step against the model.  A T3 contraction reads and writes only the artefact's neighbourhood (its vertices,
    the mesh edges at them and their other ends, the cells at them): the model is given the vertex ids (for the new id) and the tables
    restricted to that neighbourhood, its result is compared there, and the harness checks that nothing outside it changed"""
    from fractions import Fraction
    for rec in T3REC:
        if rec[0] == "ga":
            _, pre, got, whole = rec
            e_ = f"let m := {_mesh_lit(pre)} in listZ_eqb (get_artifacts m) {C.zlist(got)} && listlistZ_eqb (artefacts m) {C.zlistlist(whole['groups'])}"
            if whole["groups"]:
                # the premises of theorem C15_contraction_leaves_no_artefact_vertex_in_a_cell on the state the first contraction starts from
                e_ += f" && t3_hyps m {C.zlist(whole['groups'][0])}"
                res.count("premises of the contraction theorem (t3_hyps) evaluated on a recorded state")
            if whole["final"] is not None:
                e_ += f" && mesh_eqb (clean_up m) {_mesh_lit(whole['final'])}"
                res.count("whole clean-up pass (all contractions of a parse) against Model/SkeletonT3.v")
            start = "m"
            if whole.get("raw") is not None:
                # the state before the inner-triangle pass; the external flags are set between the snapshot and the pass: an end in one cell only
                raw = whole["raw"]
                raw = dict(raw, edges={k: (a, b, len(raw["ownC"][a]) == 1 or len(raw["ownC"][b]) == 1) for k, (a, b, _) in raw["edges"].items()})
                e_ = f"let raw := {_mesh_lit(raw)} in " + e_ + " && mesh_eqb (inner_triangles raw) m"
                start = "raw"
                res.count("inner-triangle pass against Model/SkeletonT3.v")
                if len(raw["verts"]) != len(pre["verts"]):
                    res.count("parse in which the inner-triangle pass removed a vertex")
            if whole.get("contours") is not None:
                cl_ = "[" + "; ".join("[" + "; ".join(f"({p[0]}, {p[1]})" for p in c_) + "]" for c_ in whole["contours"]) + "]"
                e_ += f" && mesh_eqb (mesh_of_lattice (Skeleton.lattice {cl_})) {start}"
                res.count("state create_lattice starts from = mesh_of_lattice of the kept contours (end to end with Model/Skeleton.v)")
            if whole.get("returned") is not None:
                e_ += f" && mesh_eqb (finish_lattice m) {_mesh_lit(whole['returned'])}"
                res.count("returned mesh = finish_lattice of the model (contractions, then removal of isolated cells)")
                if whole["returned"] != (whole["final"] or pre):
                    res.count("parse in which the removal of isolated cells removed something")
            exprs.append((e_, {"what": "get_artifacts", "vertices": len(pre["verts"]), "artefact vertices": got[:12], "groups": whole["groups"][:6]}))
            res.count("get_artifacts and the grouping of the artefact vertices against Model/SkeletonT3.v")
            continue
        _, pre, art, post, _ = rec
        ek = {e for v in art for e in pre["ownE"][v]}
        vk = set(art) | {w for e in ek for w in pre["edges"][e][:2]}
        ck = {c for v in art for c in pre["ownC"][v]}
        new = [k for k in post["verts"] if k not in pre["verts"]]
        rp = {"what": "do_t3_transition", "artefact": art, "edges at the artefact": {str(e): list(pre["edges"][e]) for e in sorted(ek)},
              "cells at the artefact": {str(c): pre["cells"][c] for c in sorted(ck)}}
        bad = []
        if len(new) != 1:
            bad.append(f"T3 contraction of {art} created {len(new)} vertices")
        else:
            vk2 = vk | set(new)
            # frame condition: nothing outside the neighbourhood changed
            for key, ks in (("ownE", vk2), ("ownC", vk2), ("edges", ek), ("cells", ck)):
                out_pre = {k: v for k, v in pre[key].items() if k not in ks}
                out_post = {k: v for k, v in post[key].items() if k not in ks}
                if out_pre != out_post:
                    k = next(k for k in set(out_pre) | set(out_post) if out_pre.get(k) != out_post.get(k))
                    bad.append(f"T3 contraction of {art} changed {key}[{k}] outside the artefact's neighbourhood: {out_pre.get(k)} -> {out_post.get(k)}")
            mx = Fraction(sum(Fraction(pre["verts"][v][0]) for v in art), len(art))
            my = Fraction(sum(Fraction(pre["verts"][v][1]) for v in art), len(art))
            px, py = post["verts"][new[0]]
            if abs(Fraction(px) - mx) > Fraction(1, 10 ** 9) * (1 + abs(mx)) or abs(Fraction(py) - my) > Fraction(1, 10 ** 9) * (1 + abs(my)):
                bad.append(f"the vertex made from artefact {art} sits at ({px}, {py}), the mean position is ({float(mx)}, {float(my)})")
            if any(v in post["verts"] for v in art):
                bad.append(f"artefact vertices {[v for v in art if v in post['verts']]} survive their contraction")
            post_r = dict(post, verts={k: post["verts"][k] for k in post["verts"]})
            exprs.append((f"mesh_eqb (t3 {_mesh_lit(pre, vk, ek, ck)} {C.zlist(art)}) {_mesh_lit(post_r, vk2, ek, ck)}", rp))
            res.count("T3 contraction against Model/SkeletonT3.v")
        for b in bad[:2]:
            res.fail("oracle", b, rp)
    del T3REC[:]


def observe(path, mirror_y, ne):
    with impl.quiet(), t3_recorder():
        sk = impl.fs.skeleton.Skeleton(path, mirror_y=mirror_y)
        contours = [np.array(c) for c in sk.contours]
        T3CUR["sk"] = sk
        T3CUR["key"] = "_".join(os.path.basename(path).split("_")[:2])      # image and symmetry: at most two whole-state records each
        v, e, c = sk.create_lattice()
        for r_ in T3REC:
            if r_[0] == "ga" and r_[3]["sk"] == id(sk):
                r_[3]["returned"] = _snap(sk)      # what create_lattice returns: after the removal of isolated cells
                if not mirror_y and (r_[3].get("raw") is not None or
                                     (len(r_[1]["verts"]) == sk.vertex_id and len(r_[1]["edges"]) == sk.edge_id and len(r_[1]["cells"]) == sk.cell_id)):
                    r_[3]["contours"] = [[(int(p[0]), int(p[1])) for p in c_] for c_ in contours]
                r_[3]["sk"] = None                 # (the id may be re-used by a later object)
    with impl.quiet():
        raw = {"vertices": int(sk.vertex_id), "cells": int(sk.cell_id), "cycles": [[w.id for w in cc.vertices] for cc in c.values()],
               "untouched": len(v) == sk.vertex_id and len(c) == sk.cell_id and len(e) == sk.edge_id,
               "edges": [[x.v1.id, x.v2.id] for _, x in sorted(e.items())], "border": [bool(cc.is_border) for _, cc in sorted(c.items())],
               "external": [bool(x.external) for _, x in sorted(e.items())]}
        nborder = sum(1 for cc in c.values() if cc.is_border)
        from props.c09 import chain_present
        chain = chain_present(v, e, c, ne)
        d7 = None
        if chain:
            # known finding D7: consecutive two-point interfaces (one-pixel artefact edges next to a T-junction) make the default
            # replace_short_edges=True merge cascade; it is exercised on a second parse, the topology is read with the option off
            sk2 = impl.fs.skeleton.Skeleton(path, mirror_y=mirror_y)
            v2, e2, c2 = sk2.create_lattice()
            try:
                v2, e2, c2, _ = impl.ve.generate_mesh(v2, e2, c2, ne=ne)
                errs = impl.consistency_errors(v2, e2, c2)
                if errs:
                    d7 = "inconsistent mesh: " + errs[0]
                else:
                    impl.fframes.Frame(0, v2, e2, c2)
            except Exception as ex:  # noqa
                d7 = f"{type(ex).__name__}"
        v, e, c, _ = impl.ve.generate_mesh(v, e, c, ne=ne, replace_short_edges=not chain)
        fr = impl.fframes.Frame(0, v, e, c)
    pairs = {tuple(sorted(be.own_cells)) for be in fr.internal_big_edges if len(be.own_cells) == 2}
    adj = {}
    for be in fr.big_edges.values():
        if len(be.own_cells) == 2:
            a, b = be.own_cells
            adj.setdefault(a, set()).add(b)
            adj.setdefault(b, set()).add(a)
    return {"cells": len(c), "border": nborder, "junctions": sum(1 for w in v.values() if len(w.ownEdges) >= 3), "internal": len(pairs),
            "degrees": sorted(len(adj.get(k, ())) for k in c), "consistent": impl.consistency_errors(v, e, c), "d7": d7}, contours, raw


def save(arr, name):
    os.makedirs(WORKDIR, exist_ok=True)
    path = os.path.join(WORKDIR, name)
    Image.fromarray(arr).save(path)
    return path


def filter_case(res, exprs, arr, path, mirror, label, sname, lit):
    """correspondence of the large-area filter: the contours OpenCV returns for this image (traced here exactly as the parser does) through
    Model/Skeleton.v parse_contours, against the contours the parser kept"""
    import cv2
    nf = sum(1 for _, rp_ in exprs if rp_.get("what") == "area filter")
    nl = sum(1 for _, rp_ in exprs if rp_.get("what") == "area filter" and rp_.get("literal_pad"))
    if nf >= 14 or (not lit and nf - nl >= 4):
        return
    allc, _ = cv2.findContours(np.ascontiguousarray(arr[1:-1, 1:-1]), cv2.RETR_TREE, cv2.CHAIN_APPROX_NONE)
    allc = [np.vstack(p_).squeeze().reshape(-1, 2) for p_ in allc]
    if sum(len(c_) for c_ in allc) >= 6000:
        return
    try:
        with impl.quiet():
            sk = impl.fs.skeleton.Skeleton(path, mirror_y=mirror)
        kept = [np.array(c_).reshape(-1, 2) for c_ in sk.contours]
    except Exception:  # noqa  (the judged parse reports it)
        return
    al = "[" + "; ".join("[" + "; ".join(f"({int(p_[0])}, {int(p_[1])})" for p_ in c_) + "]" for c_ in allc) + "]"
    # (with mirror_y nothing is reflected before create_lattice: the stored contours are still in image coordinates)
    sig = "[" + "; ".join(f"[{len(c_)}; {int(c_[0][0])}; {int(c_[0][1])}]" for c_ in kept) + "]"
    msig = "map (fun c => [Z.of_nat (length c); fst (hd (0, 0) c); snd (hd (0, 0) c)]) (parse_contours all)"
    exprs.append((f"let all := {al} in area_tie (tl all) || listlistZ_eqb ({msig}) {sig}",
                  {"label": label, "symmetry": sname, "literal_pad": lit, "what": "area filter"}))
    res.count("area-filter correspondence" + (" (filter active)" if len(kept) < len(allc) - 1 else ""))


def check_image(res, inner, expected, rng, exprs, label, syms, ne_match=False):
    base = None
    for sname, fsym in syms:
        for pad, mirror, lit in ((0, False, 0), (int(rng.integers(1, 9)), False, 0), (0, True, 0), (int(rng.integers(0, 4)), False, int(rng.integers(1, 12)))):
            ne = int(rng.integers(3, 10))
            arr = with_frame(np.ascontiguousarray(fsym(inner)), pad)
            if lit:
                # the framed image as it is, padded literally (the frame ends up inside the picture)
                arr = literal_pad(arr, lit)
            path = save(arr, f"{label.replace('/', '_')}_{sname}_{pad}_{int(mirror)}_{lit}.tif")
            if ne_match:
                # ne equal to the number of vertices of one of the parsed interfaces (the boundary case of 'at most ne segments')
                try:
                    with impl.quiet():
                        sk0 = impl.fs.skeleton.Skeleton(path, mirror_y=mirror)
                        v0, e0, c0 = sk0.create_lattice()
                        lens = sorted({len(b) for b in impl.ve.create_edges_new(v0, c0) if 3 <= len(b) <= 9})
                    if lens:
                        ne = int(lens[int(rng.integers(0, len(lens)))])
                        res.count("ne equals the length of an interface")
                except Exception:  # noqa  (the judged parse below reports it)
                    pass
            replay = {"label": label, "symmetry": sname, "pad": pad, "literal_pad": lit, "mirror_y": mirror, "ne": ne,
                      "image_rows": ["".join("#" if x else "." for x in row) for row in arr[:80, :120]]}
            d26 = bool(lit) and outline_survives_area_filter(arr)
            if lit:
                res.count("framed image padded literally (frame inside the picture)" + (", outline below the area filter (D26)" if d26 else ""))
            filter_case(res, exprs, arr, path, mirror, label, sname, lit)
            try:
                got, contours, raw = observe(path, mirror, ne)
            except Exception as ex:  # noqa
                if d26:
                    res.fail("oracle", f"{label} [{sname}, frame inside the picture by {lit} pixels]: pipeline raised {type(ex).__name__}: the outline of the tissue is "
                             "kept as a cell because it is below five times the trimmed mean area", replay, tag="D26-outline-below-area-filter")
                else:
                    res.fail("oracle", f"{label} [{sname}, pad {pad}, literal pad {lit}, mirror_y {mirror}, ne {ne}]: pipeline raised {type(ex).__name__}: {str(ex)[:60]}", replay)
                continue
            if d26:
                # the outline is traced as one more cell: the topology is within known finding D26 whatever it is
                key26 = {k: got[k] for k in ("cells", "border", "junctions", "internal", "degrees")}
                if base is not None and key26 != base:
                    res.fail("oracle", f"{label} [{sname}, frame inside the picture by {lit} pixels]: topology differs from the unpadded image: the outline of the "
                             "tissue is kept as a cell because it is below five times the trimmed mean area", replay, tag="D26-outline-below-area-filter")
                continue
            res.case((label, sname, pad, lit, mirror, ne), nontrivial=got["cells"] >= 4)
            res.count(f"symmetry={sname}")
            if got.get("d7"):
                res.fail("oracle", f"{label} [{sname}]: parsing followed by the default resampling fails on one-pixel artefact edges next to a junction: {got['d7']}",
                         replay, tag="D7-short-edge-chain")
            if got["consistent"]:
                res.fail("oracle", f"{label} [{sname}]: mesh inconsistent: {got['consistent'][0]}", replay)
            key = {k: got[k] for k in ("cells", "border", "junctions", "internal", "degrees")}
            cmpkeys = [k for k in key if not (k == "junctions" and label.startswith("brick"))]   # an axis-aligned T-junction is traced as a small triangle
            if expected is not None and any(key[k] != expected[k] for k in cmpkeys):
                diff = {k: (key[k], expected[k]) for k in cmpkeys if key[k] != expected[k]}
                res.fail("oracle", f"{label} [{sname}, pad {pad}, literal pad {lit}, mirror_y {mirror}, ne {ne}]: parsed topology differs from the tissue's (got, expected): {str(diff)[:200]}", replay)
            if base is None:
                base = key
            elif key != base:
                diff = {k: (key[k], base[k]) for k in key if key[k] != base[k]}
                res.fail("oracle", f"{label}: topology under {sname} / pad {pad} / literal pad {lit} / mirror_y {mirror} differs from the unchanged image: {str(diff)[:200]}", replay)
            res.sample({"label": label, "symmetry": sname, "pad": pad, "literal_pad": lit, "mirror_y": mirror, "ne": ne, **{k: key[k] for k in ("cells", "border", "junctions", "internal")}})
            # correspondence of the post-contour logic: vertex interning by pixel position, one cell per contour
            if sum(1 for _, rp_ in exprs if rp_.get("what") != "area filter") < 12 and not mirror and not lit and sum(len(c_) for c_ in contours) < 3000:
                cl = "[" + "; ".join("[" + "; ".join(f"({int(p[0])}, {int(p[1])})" for p in c_) + "]" for c_ in contours) + "]"
                cyc = ""
                if raw["untouched"]:
                    # no clean-up pass changed anything: cycles, mesh edges (creation order), border / external flags, no isolated cell
                    cyc = (f" && listlistZ_eqb (sk_cells st) {C.zlistlist(raw['cycles'])}"
                           f" && listlistZ_eqb (map (fun e => [fst e; snd e]) (edges_of_cells (sk_cells st))) {C.zlistlist(raw['edges'])}"
                           f" && listB_eqb (map (is_border (sk_cells st)) (sk_cells st)) {C.blist(raw['border'])}"
                           f" && listB_eqb (map (is_external (sk_cells st)) (edges_of_cells (sk_cells st))) {C.blist(raw['external'])}"
                           " && negb (existsb (is_isolated (sk_cells st)) (sk_cells st))")
                    res.count("lattice correspondence with cycles, edges and flags")
                exprs.append((f"let st := lattice {cl} in (length (sk_vertices st) =? {raw['vertices']})%nat && "
                              f"(length (sk_cells st) =? {raw['cells']})%nat" + cyc, {"label": label, "symmetry": sname}))


def run(res, tier, seed):
    rng = np.random.default_rng(seed)
    exprs = []
    del T3REC[:]
    T3CAP.update({"t3": 24, "ga": 6} if tier == "quick" else {"t3": 120, "ga": 24})
    syms_quick = [SYMS[0], SYMS[int(rng.integers(1, 8))]]
    shapes = [(2, 2, "square"), (3, 3, "square"), (2, 2, "hex"), (3, 3, "hex"), (4, 3, "square"), (4, 4, "hex")] if tier == "quick" else \
        [(2, 2, "square"), (1, 4, "square"), (3, 3, "square"), (5, 4, "square"), (7, 6, "square"), (2, 2, "hex"), (3, 2, "hex"), (3, 3, "hex"), (5, 4, "hex"), (7, 8, "hex")]
    for nx, ny, kind in shapes:
        px = int(rng.integers(35, 91)) if tier != "quick" else int(rng.integers(35, 50))
        if kind == "hex":
            a, b = px // 2, 2 * (px // 4)
            inner = hex_image(nx, ny, a, b)
            exp = expected_from(*hex_cells(nx, ny, a, b))
        else:
            inner = lattice_image(nx, ny, kind, px)
            exp = expected_lattice(nx, ny, kind)
        syms_here = SYMS if tier != "quick" else syms_quick
        if tier == "quick" and (nx, ny, kind) == (2, 2, "square") and not any(n_ in ("rot90", "transpose") for n_, _ in syms_here):
            # the transposed / quarter-turned 2 x 2 square image is where OpenCV's tracing makes the inner-triangle pass and the removal of
            # isolated cells do something: always parsed, so that every run ties those passes while they are active
            syms_here = syms_here + [SYMS[6]]
        check_image(res, inner, exp, rng, exprs, f"{kind}{nx}x{ny}", syms_here)
    # a honeycomb of 36..44 pixel wide cells whose vertical sides consist of 9 pixels (ridges longer than 8 pixels), resampled with ne
    # equal to the number of vertices of one of its interfaces (the boundary case of 'at most ne segments')
    a_s, b_s = int(rng.integers(18, 23)), 8
    check_image(res, hex_image(3, 3, a_s, b_s), expected_from(*hex_cells(3, 3, a_s, b_s)), rng, exprs, f"hex3x3-short-sides{a_s}-{b_s}",
                SYMS if tier != "quick" else syms_quick, ne_match=True)
    shipped = [os.path.join(impl.REPO, "tests", "data", "test_nonzero.tif")]
    if tier != "quick":
        shipped.append(os.path.join(impl.REPO, "tests", "data", "experimental", "exp_1.tif"))
    for path in shipped:
        if os.path.exists(path):
            a = np.array(Image.open(path).convert("L"))
            check_image(res, a[1:-1, 1:-1], None, rng, exprs, "shipped/" + os.path.basename(path), SYMS if tier != "quick" else syms_quick)
    t3_cases(res, exprs)
    bools, outs = C.coq_eval_bools("C15", IMPORTS, [e for e, _ in exprs], chunk=3)
    for (e, rp), b in zip(exprs, bools):
        res.traces += 1
        if b is not True:
            t3 = isinstance(rp, dict) and rp.get("what") in ("get_artifacts", "do_t3_transition")
            res.fail("correspondence", (f"model != implementation ({rp['what']}, Model/SkeletonT3.v)" if t3 else "model != implementation (vertex interning / one cell per contour)")
                     if b is False else "case did not evaluate",
                     {"correspondence": "Model/SkeletonT3.v vs skeleton.get_artifacts / do_t3_transition" if t3 else "Model/Skeleton.v vs skeleton.create_lattice (before clean-up)", "case": rp})


def search(res, tier, seed, broken):
    r2 = C.Result(res.pid)
    rng = np.random.default_rng(seed + 71)
    sink = []
    for nx, ny, kind in [(2, 2, "square"), (3, 3, "brick"), (4, 4, "square")]:
        check_image(r2, lattice_image(nx, ny, kind, 40), expected_lattice(nx, ny, kind), rng, sink, f"{kind}{nx}x{ny}", SYMS)
    res.failures.extend(f for f in r2.failures if f["kind"] == "oracle")
    res.notes.append(f"search: {r2.evaluations} extra images")


def replay(res, obj):
    inp = obj.get("input", obj)
    if "lattice" in inp:
        nx, ny, kind, px = inp["lattice"]
        check_image(res, lattice_image(nx, ny, kind, px), expected_lattice(nx, ny, kind), np.random.default_rng(0), [], f"{kind}{nx}x{ny}", [SYMS[0]])
        return
    if "shipped" in inp:
        # a shipped skeleton as it is (frame on its border) against the same image inside a larger black canvas
        a = np.array(Image.open(os.path.join(impl.REPO, inp["shipped"])).convert("L"))
        lit, ne = int(inp.get("literal_pad", 3)), int(inp.get("ne", 5))
        ref, _, _ = observe(save(a, "replay_ref.tif"), False, ne)
        arr = literal_pad(a, lit)
        rp = dict(inp)
        res.case(("replay", inp["shipped"], lit, ne), True)
        d26 = outline_survives_area_filter(arr)
        tag = {"tag": "D26-outline-below-area-filter"} if d26 else {}
        try:
            got, _, _ = observe(save(arr, "replay_lit.tif"), False, ne)
        except Exception as ex:  # noqa
            res.fail("oracle", f"{inp['shipped']} with the frame inside the picture by {lit} pixels: pipeline raised {type(ex).__name__}" +
                     (": the outline of the tissue is kept as a cell because it is below five times the trimmed mean area" if d26 else ""), rp, **tag)
            return
        keys = ("cells", "border", "junctions", "internal", "degrees")
        if any(got[k] != ref[k] for k in keys):
            res.fail("oracle", f"{inp['shipped']} with the frame inside the picture by {lit} pixels: topology differs from the unpadded image: "
                     f"{ {k: (got[k], ref[k]) for k in keys if got[k] != ref[k]} }", rp, **tag)
        return
    res.notes.append("skeleton replays store the first 80x120 pixels of the image for inspection; re-run with the same VERIF_SEED to reproduce")
    res.case(("replay",), True)
