"""C02 -- force-balance equations use outward unit tangents at the right junctions."""
import math
from fractions import Fraction
import numpy as np
import common as C
import gen
import impl

RULE = ("arc/line tissues (Voronoi, Moebius images, exact square/brick lattices), whole and connected sub-tissues, rotations "
        "a lattice mixing three- and four-fold junctions and a square lattice with ragged border (vertices that collect coefficients but get no equations), incl. within a fraction of a degree of axis alignment, 2..17 points per interface, both circle fits, ignore_four on/off; "
        "non-trivial = the matrix has at least one row pair; distinct = (tissue fingerprint, fit, ignore_four)")
TRUSTED = ["hand-written model Model/ForceSys.v tied to fmatrix._build_matrix/get_vertex_equation/eid_from_vertex and "
           "edge.get_vector_from_vertex by exact (rational) correspondence; the fitted circle centre and the normalised "
           "versor are taken from the implementation (circle fit and np.linalg.norm are oracles)",
           "row order follows the implementation's tj_vertices (iteration order of a Python set; the property does not fix it)",
           "Model/CircleFit.v: the nested function objective_f of dlite_circle_method is rebuilt from the function's code object and closed over the "
           "test points (PrimFloat, 1e-11); the shortcut for collinear points is observed through calculate_circle_center's return value (decision exact "
           "over Q on dyadic points, far centre in PrimFloat)"]
ASSUMPTIONS = ["circle-fit accuracy (fit_delta, calibrated by tools/calibrate_fit.py after the fix of D25): 1e-5 (dlite) / 1e-6 (taubinSVD) on arcs, 1e-3 on "
               "straight interfaces with >= 3 points, 1e-12 for two-point interfaces"]
TESTED_NOT_PROVED = ["that leastsq / taubinSVD reach the centre of the arc is checked numerically per interface (c02.fit_delta); that the centre is the only global "
                     "minimiser of the 'dlite' cost on concyclic points is proved (C02_dlite_cost_minimised_exactly_at_the_centre); no such statement is proved for taubinSVD"]
IMPORTS = "From Forsys Require Import Model.Num Model.CaseUtil Model.PyList Model.Interfaces Model.ForceSys Model.CircleFit.\n"


def iface_theta(it):
    """total turning of an interface from its two outward end tangents"""
    t0, t1 = it["tan0"], it["tan1"]
    c = max(-1.0, min(1.0, -(t0[0] * t1[0] + t0[1] * t1[1])))
    return math.acos(c)


def fit_delta(fit, npts, theta, straight):
    """accuracy of the circle fits, calibrated on 40000 exact arcs / lines (tools/calibrate_fit.py, after the fix of D25): 'dlite' (scipy leastsq
    with the exact Jacobian) is within 3e-7 on arcs of any turning, taubinSVD within 6e-11; lines that are collinear only up to rounding
    (the exact-collinearity shortcut of D23 does not fire) come out within 7e-5 with both; exactly collinear points within 1e-8"""
    if npts == 2:
        return 1e-12
    if straight:
        return 1e-3
    return 1e-5 if fit == "dlite" else 1e-6


def hquad(t, d):
    """H_quad of DESIGN 4/C02: every non-zero component of the true tangent has the sign the code forces
    (sign of the chord component, +1 when the chord component vanishes)"""
    for ti, di in zip(t, d):
        if abs(ti) < 1e-15:
            continue
        forced = 1.0 if di == 0 else math.copysign(1.0, di)
        if math.copysign(1.0, ti) != forced:
            return False
    return True


def expected_structure(spec, ignore_four):
    member = {}
    for cid, v in spec["cells"]:
        for x in v:
            member.setdefault(x, set()).add(cid)
    internal = []
    for it in spec["ifaces"]:
        p = it["pts"]
        if len(it["cells"]) == 2 and all(len(member.get(x, ())) >= 2 for x in p) and \
                (len(member[p[0]]) >= 3 or len(member[p[-1]]) >= 3):
            internal.append(it)
    ends = {}
    for it in internal:
        ends.setdefault(it["pts"][0], []).append((it, 0))
        ends.setdefault(it["pts"][-1], []).append((it, 1))
    juncs = {}
    for v, lst in ends.items():
        if len(member[v]) >= 3 and len(lst) >= 3 and (len(lst) < 4 or not ignore_four):
            juncs[v] = lst
    return internal, juncs


def check_case(res, spec, fit, ignore_four, exprs, label, prebuild=None):
    fr = impl.frame(spec)
    f = impl.forsys_of({0: fr})
    replay = {"spec": {k: spec[k] for k in ("vertices", "edges", "cells", "ifaces", "meta")}, "fit": fit, "ignore_four": ignore_four, "label": label,
              "prebuild": prebuild}
    if prebuild is not None:
        # the same Frame was assembled before with an opening-angle limit that leaves interfaces out: the judged (unrestricted) system
        # must not remember it
        try:
            with impl.quiet():
                f.build_force_matrix(when=0, metadata={"ignore_four": ignore_four}, angle_limit=prebuild, circle_fit_method=fit)
            left_out = len(fr.internal_big_edges) - len(f.force_matrices[0].big_edges_to_use)
            res.count("assembled before with an angle limit" + (" that left interfaces out" if left_out else ""))
        except Exception:  # noqa  (restricted systems are C16's subject)
            res.count("assembled before with an angle limit: rejected")
    try:
        with impl.quiet():
            f.build_force_matrix(when=0, metadata={"ignore_four": ignore_four}, angle_limit=np.inf, circle_fit_method=fit)
    except Exception as ex:  # noqa
        res.fail("oracle", f"build_force_matrix raised {type(ex).__name__}: {str(ex)[:80]}", replay)
        return
    fm = f.force_matrices[0]
    M = np.array(fm.matrix)
    pos = {v[0]: (v[1], v[2]) for v in spec["vertices"]}
    internal, juncs = expected_structure(spec, ignore_four)
    cols = [list(e) for e in fm.big_edges_to_use]
    bad = []
    tagged = []
    if len(cols) != len(internal):
        bad.append(f"{len(cols)} unknowns for {len(internal)} internal interfaces")
    colof = {}
    for k, e in enumerate(cols):
        colof[tuple(e)] = k
        colof[tuple(e[::-1])] = k
    if M.shape != (2 * len(fm.map_vid_to_row), len(cols)):
        bad.append(f"matrix shape {M.shape} but {len(fm.map_vid_to_row)} junction rows, {len(cols)} columns")
    if set(fm.map_vid_to_row) != set(juncs):
        bad.append(f"equations for junctions {sorted(set(fm.map_vid_to_row) - set(juncs))[:3]} unexpected / "
                   f"{sorted(set(juncs) - set(fm.map_vid_to_row))[:3]} missing")
    if sorted(fm.map_vid_to_row.values()) != list(range(0, 2 * len(fm.map_vid_to_row), 2)):
        bad.append("row indices are not 0,2,4,...")
    expected_nz = set()
    worst = 0.0
    for v, lst in juncs.items():
        if v not in fm.map_vid_to_row:
            continue
        r = fm.map_vid_to_row[v]
        for it, end in lst:
            p = it["pts"]
            k = colof.get(tuple(p))
            if k is None:
                bad.append(f"internal interface {p[0]}..{p[-1]} has no column")
                continue
            expected_nz.add((r, k))
            t = it["tan0"] if end == 0 else it["tan1"]
            got = (M[r, k], M[r + 1, k])
            q = p if end == 0 else p[::-1]
            d = (pos[q[1]][0] - pos[q[0]][0], pos[q[1]][1] - pos[q[0]][1])
            if len(p) == 2:
                # two points define a line: its tangent is the segment direction
                t = [d[0] / math.hypot(*d), d[1] / math.hypot(*d)]
            straight = spec["meta"].get("mobius") is None
            tol = fit_delta(fit, len(p), iface_theta(it), straight)
            err = max(abs(got[0] - t[0]), abs(got[1] - t[1]))
            if abs(math.hypot(*got) - 1) > 1e-9:
                bad.append(f"coefficient pair at junction {v} is not a unit vector: {got}")
            if err > tol:
                if len(p) > 2 and not hquad(t, d):
                    tagged.append((v, p[0], p[-1], got, t))
                else:
                    bad.append(f"junction {v}, interface {p[0]}..{p[-1]} ({len(p)} pts): coefficient {got} but tangent {tuple(t)} (err {err:.2e})")
            else:
                worst = max(worst, err)
    # the same ForSys object assembled again with only the ignore-four option changed, and back: each assembly follows its own options
    try:
        with impl.quiet():
            f.build_force_matrix(when=0, metadata={"ignore_four": not ignore_four}, angle_limit=np.inf, circle_fit_method=fit)
        fm2 = f.force_matrices[0]
        _, juncs2 = expected_structure(spec, not ignore_four)
        if set(fm2.map_vid_to_row) != set(juncs2) or np.array(fm2.matrix).shape[0] != 2 * len(juncs2):
            bad.append(f"re-assembled on the same object with ignore_four={not ignore_four}: equations for {len(fm2.map_vid_to_row)} junctions, "
                       f"{len(juncs2)} expected (matrix {np.array(fm2.matrix).shape})")
        with impl.quiet():
            f.build_force_matrix(when=0, metadata={"ignore_four": ignore_four}, angle_limit=np.inf, circle_fit_method=fit)
        if not np.array_equal(np.array(f.force_matrices[0].matrix), M):
            bad.append("re-assembling with the original options does not reproduce the first matrix")
    except Exception as ex:  # noqa
        bad.append(f"re-assembling on the same object raised {type(ex).__name__}: {str(ex)[:60]}")
    nz = {(int(i), int(j)) for i, j in zip(*np.nonzero(M))}
    allowed = expected_nz | {(r + 1, k) for r, k in expected_nz}
    if not nz <= allowed:
        bad.append(f"non-zero coefficient at {sorted(nz - allowed)[:3]} where none is expected")
    for b in bad[:3]:
        res.fail("oracle", b, replay)
    if tagged:
        res.fail("oracle", f"{len(tagged)} coefficient pair(s) mirrored in an axis: tangent and first segment lie in different quadrants, e.g. "
                 f"junction {tagged[0][0]} got {tagged[0][3]} true {tuple(tagged[0][4])}", replay, tag="D1-tangent-sign-forcing")
        res.count("D1 cases (tangent/chord in different quadrants)")
    res.case((tuple(tuple(x[1:]) for x in spec["vertices"][:6]), len(spec["cells"]), fit, ignore_four), nontrivial=M.shape[0] > 0)
    res.count(f"fit={fit}")
    res.count(f"rows={min(M.shape[0] // 20 * 20, 100)}+")
    res.sample({"label": label, "fit": fit, "ignore_four": ignore_four, "shape": list(M.shape), "worst_tangent_error": worst})
    res.extra["worst_tangent_error"] = max(res.extra.get("worst_tangent_error", 0.0), worst)
    # ---- correspondence: structure + placement (exact), vector orientation (exact given the fitted centre)
    L = impl.mesh_literals(fr.vertices, fr.cells)
    tj = list(fm.tj_vertices)
    inc_defs = []
    vec_checks = []
    for v in tj:
        items = []
        for b in fr.vertices[v].own_big_edges:
            be = fr.big_edges[b]
            vs_ = be.get_versor_from_vertex(v, fit_method=fit)
            items.append(f"mkInc {C.zlist(be.get_vertices_ids())} {C.blit(be.external)} {C.qlit(vs_[0])} {C.qlit(vs_[1])}")
            if not be.external and len(vec_checks) < 40:
                xc, yc = impl.ve.calculate_circle_center(be.vertices, method=fit)
                vo = be.get_vertex_object_by_id(v)
                ux, uy = vo.x - xc, vo.y - yc
                dd = be.get_straight_edge_versor_from_vid(v)
                vec = be.get_vector_from_vertex(v, fit_method=fit)
                if len(be.vertices) > 2:
                    vec_checks.append(f"(let r := vector_from_vertex QOps {len(be.vertices)} {C.qlit(ux)} {C.qlit(uy)} {C.qlit(dd[0])} {C.qlit(dd[1])} in "
                                      f"Qeq_bool (fst r) {C.qlit(vec[0])} && Qeq_bool (snd r) {C.qlit(vec[1])})")
                else:
                    vec_checks.append(f"(let r := vector_from_vertex FOps 2 {C.flit(ux)} {C.flit(uy)} {C.flit(dd[0])} {C.flit(dd[1])} in "
                                      f"fclose 1e-12 (fst r) {C.flit(vec[0])} && fclose 1e-12 (snd r) {C.flit(vec[1])})")
        inc_defs.append(f"({C.zlit(v)}, [{'; '.join(items)}])")
    rows_l = "[" + "; ".join("[" + "; ".join(C.qlit(x) for x in row) + "]" for row in M.tolist()) + "]"
    map_l = "[" + "; ".join(f"({C.zlit(k)}, {C.zlit(r)})" for k, r in fm.map_vid_to_row.items()) + "]"
    internal_l = C.zlistlist([list(e) for e in fr.internal_big_edges_vertices])
    e = (f"let ncells := assoc_def 0 {L['ncells']} in let incs := assoc_def [] [{'; '.join(inc_defs)}] in "
         f"let to_use := angle_limited_edges [] {internal_l} in "
         f"let fm := build_matrix {C.blit(ignore_four)} to_use {C.zlist(tj)} ncells incs in "
         f"listlistZ_eqb to_use {C.zlistlist(cols)} && "
         f"forallb (fun p => listQ_eqb (fst p) (snd p)) (combine (fm_rows fm) {rows_l}) && (length (fm_rows fm) =? {M.shape[0]})%nat && "
         f"es_eqb (map (fun kv => (fst kv, (snd kv, 0))) (fm_map fm)) (map (fun kv => (fst kv, (snd kv, 0))) {map_l})"
         + ("".join(" && " + c for c in vec_checks)))
    exprs.append((e, replay))


def tissues(rng, tier):
    # exact lattices whose tangents have exactly vanishing / exactly cancelling components: always included
    for kind in ("square", "brick"):
        for diamond in (False, True):
            yield gen.lattice_tissue(4, 4, kind, npts=0, diamond=diamond), f"exact-{kind}{'-diamond' if diamond else ''}"
    # straight interfaces with an even number of evenly spaced, exactly collinear points (D23: the circle fit used to stall on the line)
    yield gen.lattice_tissue(3, 3, "square", npts=2, w=30.0, h=10.0), "exact-rect-4pts"
    yield gen.lattice_tissue(3, 4, "brick", npts=int(rng.choice([2, 4, 6])), w=float(rng.integers(8, 40)), h=float(rng.integers(4, 20))), "exact-brick-even-pts"
    # curved interfaces whose first segment at a junction is exactly axis-parallel (a component of the segment is 0.0)
    def curved(npts_lo, npts_hi):
        for _ in range(20):
            t = gen.voronoi_tissue(rng, n=int(rng.integers(30, 50)), npts=int(rng.integers(npts_lo, npts_hi)), mob_strength=float(rng.uniform(0.8, 1.5)))
            if len(t["cells"]) >= 8 and max((iface_theta(it) for it in t["ifaces"] if len(it.get("cells", [])) == 2), default=0.0) >= 0.1:
                return t
        return t
    for j in range(2 if tier == "quick" else 12):
        al, who = gen.align_first_segment(curved(1, 4), rng)
        if who is not None:
            yield al, f"aligned-first-segment{j}"
    # the same tissue in very small and very large length units
    base = curved(2, 6)
    for sc in (1e-6, 1e6):
        yield gen.similarity(base, sc, float(rng.uniform(0, 6.28)), False, 0.0, 0.0), f"unit-scale{sc:g}"
    n = 8 if tier == "quick" else 150
    for k in range(n):
        kind = k % 6
        theta = 0.0
        if kind == 0:
            spec = gen.voronoi_tissue(rng, n=int(rng.integers(12, 40)), npts=int(rng.integers(0, 16)))
        elif kind == 1:
            spec = gen.voronoi_tissue(rng, n=int(rng.integers(12, 40)), npts=int(rng.integers(1, 16)), mob_strength=float(rng.uniform(0.3, 1.5)))
        elif kind == 2:
            spec = gen.lattice_tissue(int(rng.integers(3, 6)), int(rng.integers(3, 6)), ["square", "brick"][(k // 6) % 2], npts=int(rng.integers(0, 3)),
                                      diamond=bool((k // 12) % 2 == 0 and rng.random() < 0.7))
            if rng.random() < 0.3:
                theta = float(rng.choice([0.0, math.pi / 2, 1e-3, -2e-4, math.pi / 2 + 5e-4]))
        elif kind == 3:
            spec = gen.voronoi_tissue(rng, n=int(rng.integers(12, 30)), npts_range=(0, 15), npts=0, mob_strength=float(rng.uniform(0.3, 1.0)))
            theta = float(rng.uniform(0, 2 * math.pi))
        elif kind == 4:
            spec = gen.voronoi_tissue(rng, n=int(rng.integers(12, 30)), npts=int(rng.integers(0, 4)))
            sub = gen.connected_subsets(spec, rng, 1, min_cells=3)[0]
            spec = gen.sub_tissue(spec, sub)
        else:
            spec = gen.voronoi_tissue(rng, sites=gen.jittered_sites(rng, int(rng.integers(3, 6)), jitter=0.15, kind="square"),
                                      npts=int(rng.integers(0, 3)))
        if theta:
            spec = gen.similarity(spec, theta=theta)
        if len(spec["cells"]) < 3:
            continue
        yield spec, f"t{k}/kind{kind}"
    # vertices that collect coefficient pairs and are then left without equations, followed by junctions that keep theirs:
    # a lattice with four-fold junctions below and three-fold junctions above (assembled with and without ignore_four), and a square lattice
    # with two corner cells taken away (the inner corners have three cells but only two internal interfaces)
    yield gen.lattice_tissue(4, 3, "mixed", npts=int(rng.integers(1, 4)), rng=rng), "mixed-3-4-fold"
    sq = gen.lattice_tissue(4, 4, "square", npts=int(rng.integers(1, 4)), rng=rng)
    ids = [c[0] for c in sq["cells"]]
    yield gen.sub_tissue(sq, ids[1:-1]), "ragged-square"


def nested_function(fn, name, cells):
    """the function object of a nested def of fn (its code constant), closed over the given cell contents"""
    import types
    code = next(c_ for c_ in fn.__code__.co_consts if isinstance(c_, types.CodeType) and c_.co_name == name)
    return types.FunctionType(code, fn.__globals__, name, None, tuple(types.CellType(cells[v]) for v in code.co_freevars))


def fit_cases(res, rng, exprs, n):
    """Model/CircleFit.v against virtual_edges.py: the residual vector of the 'dlite' fit (PrimFloat, 1e-11) and the decision / result of the
    shortcut for collinear points (decision exact over Q on dyadic points, far centre in PrimFloat)"""
    from types import SimpleNamespace as V
    from fractions import Fraction
    for k in range(n):
        m = int(rng.integers(3, 11))
        ang = np.sort(rng.uniform(0, float(rng.uniform(0.2, 3.0)), m)) + rng.uniform(0, 6.28)
        rad = float(rng.uniform(1, 50))
        xs = rad * np.cos(ang) + rng.uniform(-50, 50) + rng.normal(0, 0.01 * rad * (k % 2), m)
        ys = rad * np.sin(ang) + rng.uniform(-50, 50) + rng.normal(0, 0.01 * rad * (k % 2), m)
        c = (float(rng.uniform(-100, 100)), float(rng.uniform(-100, 100)))
        try:
            obj = nested_function(impl.ve.dlite_circle_method, "objective_f", {"xs": np.asarray(xs, dtype=float), "ys": np.asarray(ys, dtype=float)})
            vals = [float(x) for x in obj(c)]
        except Exception as ex:  # noqa
            res.fail("correspondence", f"objective_f of dlite_circle_method could not be evaluated: {type(ex).__name__}: {str(ex)[:80]}",
                     {"correspondence": "Model/CircleFit.v objective vs virtual_edges.dlite_circle_method.objective_f"})
            return
        pts = "[" + "; ".join(f"({C.flit(x)}, {C.flit(y)})" for x, y in zip(xs, ys)) + "]"
        exprs.append((f"listF_close {C.flit(1e-11)} (objective FOps ({C.flit(c[0])}, {C.flit(c[1])}) {pts}) [" + "; ".join(C.flit(x) for x in vals) + "]",
                      {"what": "dlite residual vector", "xs": [float(x) for x in xs], "ys": [float(y) for y in ys], "c": c}))
        res.count("dlite residual vector (PrimFloat)")
    for k in range(n):
        # dyadic points on / near a chord of length 2^10 (axis-aligned or diagonal): offsets of 0, 1, 2, 3 quanta of 2^-30 straddle 1e-12 x chord^2
        m = int(rng.integers(3, 8))
        L = 1024
        diag = bool(k % 3 == 1)
        x0, y0 = int(rng.integers(-512, 512)), int(rng.integers(-512, 512))
        ts = sorted(int(t_) for t_ in rng.choice(np.arange(1, L), size=m - 2, replace=False))
        es = [int(rng.integers(-3, 4)) if k % 2 else 0 for _ in ts]
        if k % 5 == 4:
            es = [int(rng.integers(-2 ** 20, 2 ** 20)) for _ in ts]          # clearly not collinear
        q = Fraction(1, 2 ** 30)
        P = [(Fraction(x0), Fraction(y0))]
        for t_, e_ in zip(ts, es):
            P.append((x0 + t_ - (e_ * q if diag else 0), y0 + (t_ if diag else 0) + e_ * q))
        P.append((Fraction(x0 + L), Fraction(y0 + (L if diag else 0))))
        if k % 7 == 6:
            P = [(b_, a_) for a_, b_ in P]
        verts = [V(x=float(a_), y=float(b_)) for a_, b_ in P]
        assert all(Fraction(w.x) == a_ and Fraction(w.y) == b_ for w, (a_, b_) in zip(verts, P))
        fit = ("dlite", "taubinSVD")[k % 2]
        with impl.quiet():
            cx, cy = impl.ve.calculate_circle_center(verts, method=fit)
        fx = [w.x for w in verts]
        fy = [w.y for w in verts]
        dx, dy = fx[-1] - fx[0], fy[-1] - fy[0]
        taken = (float(cx), float(cy)) == (float(np.mean(fx) - 1e8 * dy), float(np.mean(fy) + 1e8 * dx))
        qpts = "[" + "; ".join(f"({C.qlit(a_)}, {C.qlit(b_)})" for a_, b_ in P) + "]"
        fpts = "[" + "; ".join(f"({C.flit(w.x)}, {C.flit(w.y)})" for w in verts) + "]"
        e = f"Bool.eqb (shortcut_taken QOps (1 # 1000000000000) {qpts}) {C.blit(taken)}"
        if taken:
            e += (f" && (let c := far_centre FOps {C.flit(1e8)} {fpts} in fclose {C.flit(1e-12)} (fst c) {C.flit(cx)} && fclose {C.flit(1e-12)} (snd c) {C.flit(cy)})")
        exprs.append((e, {"what": "collinear shortcut", "points": [[float(a_), float(b_)] for a_, b_ in P], "fit": fit, "taken": taken}))
        res.count("collinear shortcut: taken" if taken else "collinear shortcut: not taken")


def run(res, tier, seed):
    rng = np.random.default_rng(seed)
    exprs = []
    fit_cases(res, rng, exprs, 12 if tier == "quick" else 120)
    for spec, label in tissues(rng, tier):
        for fit in ("dlite", "taubinSVD"):
            ig = bool(rng.integers(0, 2))
            if label == "mixed-3-4-fold":
                ig = fit == "dlite"          # once with, once without ignore_four
            check_case(res, spec, fit, ig, exprs, label, prebuild=float(rng.uniform(1.9, 2.5)) if rng.random() < 0.4 else None)
    bools, outs = C.coq_eval_bools("C02", IMPORTS, [e for e, _ in exprs], chunk=4)
    for (e, rp), b in zip(exprs, bools):
        res.traces += 1
        if b is not True:
            if isinstance(rp, dict) and rp.get("what") in ("dlite residual vector", "collinear shortcut"):
                res.fail("correspondence", f"model != implementation ({rp['what']})" if b is False else "case did not evaluate",
                         {"correspondence": "Model/CircleFit.v vs virtual_edges.calculate_circle_center / dlite_circle_method", "case": rp})
                continue
            res.fail("correspondence", "model != implementation (matrix structure / placement / orientation)" if b is False else "case did not evaluate",
                     {"correspondence": "Model/ForceSys.v vs fmatrix._build_matrix / edge.get_vector_from_vertex", "case": rp})


def search(res, tier, seed, broken):
    rng = np.random.default_rng(seed + 5)
    r2 = C.Result(res.pid)
    sink = []
    for spec, label in tissues(rng, "thorough"):
        for fit in ("dlite", "taubinSVD"):
            check_case(r2, spec, fit, bool(rng.integers(0, 2)), sink, label)
        if [f for f in r2.failures if f["kind"] == "oracle" and not f.get("tag")]:
            break
        if r2.evaluations > 120:
            break
    res.failures.extend(f for f in r2.failures if f["kind"] == "oracle")
    res.notes.append(f"search: {r2.evaluations} extra oracle cases")


def replay(res, obj):
    inp = obj.get("input", obj)
    if "case" in inp:
        inp = inp["case"]
    sink = []
    spec = dict(inp["spec"])
    spec.setdefault("meta", inp.get("meta", {"mobius": inp.get("mobius")}))
    check_case(res, spec, inp["fit"], inp["ignore_four"], sink, "replay", prebuild=inp.get("prebuild"))
    bools, _ = C.coq_eval_bools("C02r", IMPORTS, [e for e, _ in sink], chunk=4)
    for (e, rp), b in zip(sink, bools):
        if b is not True:
            res.fail("correspondence", "model != implementation", {"correspondence": "Model/ForceSys.v", "case": rp})
