"""C16 -- angle-limit exclusion drops exactly the flagged interfaces and solves the rest."""
import itertools
import math
import numpy as np
import scipy.optimize
import common as C
import gen
import impl
from props.c05 import noisy

RULE = ("equilibrium / noisy Voronoi and Moebius tissues, jittered and exact square lattices (four-fold junctions) with random "
        "cell-cycle shifts and relabelling, angle limits 0.5*pi..pi and the defaults, static mode, default and 'lsq' back-ends "
        "with user-supplied initial conditions; every tissue also as a scan of the limit on one object (assembled and solved with lower limits first, then a higher one; and back down); non-trivial = at least one interface is excluded; distinct = (tissue, limit, method)")
TRUSTED = ["Model/ForceSys.v angle_limited_edges / reinsert tied to fmatrix.get_angle_limited_edges / get_solution_no_discarded by "
           "exact correspondence; Model/AngleLimit.v flagged_junctions (all pairs of directions, clipped dot <= cos(limit)) tied to fm.deletes by a "
           "PrimFloat correspondence on the implementation's versors (circle fit, arccos and cos are oracles)"]
ASSUMPTIONS = ["restricted-system solution compared with an independent scipy NNLS solve of the restricted augmented system, tolerance 1e-6; for method='lsq' (bounded "
               "Levenberg-Marquardt, which stops near the constrained optimum): the back-end received exactly the restricted system, the residual it reached is within 1 % (+ 1e-7 (1 + |b|)) of "
               "the optimum and the distance to the optimum is within sqrt(r_x^2 - r_z^2)/sigma_min + 5e-3"]
TESTED_NOT_PROVED = ["'every other position holds the solution of the restricted system' is compared numerically with an independent solve",
                     "default-limit clause: checked on tissues without exactly straight-through interface pairs (arccos(-1) = pi ties excluded)"]
IMPORTS = "From Forsys Require Import Model.Num Model.CaseUtil Model.PyList Model.ForceSys Model.AngleLimit.\n"


def check_case(res, spec, limit, method, exprs, label, prior=()):
    """`prior`: limits with which the same frame was assembled (and solved) before - what is excluded must depend on the last limit only"""
    fr = impl.frame(spec)
    f = impl.forsys_of({0: fr})
    replay = {"spec": {k: spec[k] for k in ("vertices", "edges", "cells")}, "limit": limit, "method": method, "label": label, "prior": list(prior)}
    kw = {} if limit is None else {"angle_limit": limit}
    lim = math.pi if limit is None else limit
    for k_, pl in enumerate(prior):
        try:
            with impl.quiet():
                f.build_force_matrix(when=0, **({} if pl is None else {"angle_limit": pl}))
                if k_ % 2 == 0:
                    f.solve_stress(when=0, allow_negatives=False)
        except Exception:  # noqa  (the earlier assemblies are judged as cases of their own)
            pass
    if prior:
        res.count("frame assembled with other limits before (scan on one object)")
    try:
        with impl.quiet():
            f.build_force_matrix(when=0, **kw)
    except FloatingPointError as ex:
        res.fail("oracle", f"build_force_matrix raises FloatingPointError ({str(ex)[:60]}): arccos of a dot product outside [-1,1]",
                 replay, tag="D18-arccos-domain")
        return
    fm = f.force_matrices[0]
    internal = [list(e) for e in fr.internal_big_edges_vertices]
    # flags recomputed from the versors: all pairs of interface directions at each end junction
    ends = sorted({e[0] for e in internal} | {e[-1] for e in internal})
    flagged = set()
    tie = False
    exact_tie = False
    for v in ends:
        vs_ = [fr.big_edges[b].get_versor_from_vertex(v, fit_method="dlite") for b in fr.vertices[v].own_big_edges]
        angs = [float(np.arccos(np.clip(np.dot(a, b), -1.0, 1.0))) for a, b in itertools.combinations(vs_, 2)]
        if angs and max(angs) >= lim:
            flagged.add(v)
        if angs and max(angs) == lim:
            exact_tie = True       # 'opens by AT LEAST the limit': an opening equal to the limit is flagged (judged; only the PrimFloat tie is skipped)
        elif angs and abs(max(angs) - lim) < 1e-9:
            tie = True             # within rounding of the limit but not equal: arccos / cos are oracles, not judged
    bad = []
    if tie:
        res.count("angle exactly at the limit (tie, not judged)")
    elif not exact_tie:
        # correspondence of the flagging rule (PrimFloat instance of Model/AngleLimit.v): the junctions' versors and cos(limit) go in, the
        # flagged set must come out.  arccos is decreasing, so angle >= limit <=> clipped dot <= cos(limit); margins of 1e-9 rad are
        # guaranteed by the tie test above
        coslim = math.cos(lim) if lim <= math.pi else -2.0
        juncs_l = "[" + "; ".join(
            f"({C.zlit(v)}, [" + "; ".join(f"({C.flit(float(a[0]))}, {C.flit(float(a[1]))})" for a in
                                           [fr.big_edges[b].get_versor_from_vertex(v, fit_method="dlite") for b in fr.vertices[v].own_big_edges]) + "])"
            for v in ends) + "]"
        exprs.append((f"setZ_eqb (flagged_junctions FOps {C.flit(coslim)} {juncs_l}) {C.zlist(sorted(fm.deletes))}", replay))
    exp_excl = [i for i, e in enumerate(internal) if e[0] in flagged and e[-1] in flagged]
    exp_used = [e for i, e in enumerate(internal) if i not in exp_excl]
    got_used = [list(e) for e in fm.big_edges_to_use]
    if not tie:
        if set(fm.deletes) != flagged:
            bad.append(f"flagged junctions {sorted(set(fm.deletes) ^ flagged)[:4]} differ from 'some pair opens by at least the limit'")
        if got_used != exp_used:
            bad.append(f"{len(got_used)} interfaces used, expected {len(exp_used)} (excluded positions {exp_excl[:5]})")
        if limit is None and exp_excl:
            bad.append("default limit excludes interfaces")
    res.case((tuple(tuple(x[1:]) for x in spec["vertices"][:5]), len(spec["cells"]), limit, method, tuple(prior)), nontrivial=bool(exp_excl))
    res.count(f"limit={'default' if limit is None else round(limit / math.pi, 2)}pi")
    res.count(f"excluded={min(len(exp_excl), 5)}{'+' if len(exp_excl) >= 5 else ''}")
    M = np.array(fm.matrix, dtype=float)
    if M.shape[1] >= 2 and M.shape[0] >= 2 and not tie:
        kws = {"allow_negatives": False}
        if method == "lsq":
            kws["method"] = "lsq"
            kws["initial_condition"] = list(np.ones(len(internal)) if len(internal) % 2 else np.linspace(0.5, 1.5, len(internal)))
        try:
            with impl.quiet(), impl.capture_solvers() as rec:
                f.solve_stress(when=0, **kws)
        except Exception as ex:  # noqa
            bad.append(f"solve_stress raised {type(ex).__name__}: {str(ex)[:80]}")
            for b in bad[:3]:
                res.fail("oracle", b, replay)
            return
        forces = f.forces[0]
        x = [float(forces[i]) for i in range(len(forces))]
        if len(x) != len(internal):
            bad.append(f"{len(x)} values reported for {len(internal)} internal interfaces")
        else:
            if [i for i, v in enumerate(x) if v == -1] != exp_excl:
                bad.append(f"-1 at positions {[i for i, v in enumerate(x) if v == -1][:6]}, expected {exp_excl[:6]}")
            # independent restricted system: keep columns of used interfaces, NNLS on the augmented system
            A = np.vstack([np.hstack([M, np.ones((M.shape[0], 1))]), np.hstack([np.ones(M.shape[1]), [0.0]])])
            b = np.concatenate([np.zeros(M.shape[0]), [float(M.shape[1])]])
            z, _ = scipy.optimize.nnls(A, b)
            kept = [v for i, v in enumerate(x) if i not in exp_excl]
            sv = np.linalg.svd(A, compute_uv=False)
            determined = A.shape[0] >= A.shape[1] and sv[-1] > 1e-6 * sv[0]
            if not determined:
                res.count("restricted system does not determine the tensions uniquely (value comparison skipped)")
            elif method == "lsq" and sv[-1] <= 1e-3 * sv[0]:
                # an almost singular restricted system (smallest singular value 1e-6..1e-3 of the largest): Levenberg-Marquardt creeps along
                # the flat valley and stops on its relative-reduction test far from the optimum although the residual is tiny (seen: residual
                # 5.7e-4 against 1.5e-14, sigma_min / sigma_max = 1.8e-6).  What that back-end reaches is C05's subject (D27); here the
                # positions of the -1 entries, the system handed to the back-end and the re-alignment are still judged
                determined = False
                res.count("restricted system almost singular (Levenberg-Marquardt value comparison skipped)")
                solved_ = [c_ for c_ in rec.calls if c_.get("x") is not None and c_.get("solver") == "lmfit"]
                if solved_ and (np.array(solved_[-1]["A"]).shape != A.shape or np.max(np.abs(np.array(solved_[-1]["A"]) - A)) > 0):
                    bad.append("the system handed to the Levenberg-Marquardt back-end is not the restricted augmented system")
            if len(kept) == M.shape[1] and determined:
                diff = float(np.max(np.abs(np.array(kept) - z[:-1])))
                if method != "lsq":
                    if diff > 1e-6 * (1 + np.max(np.abs(z))):
                        bad.append(f"kept positions differ from the restricted-system solution by {diff:.3g}")
                else:
                    # Levenberg-Marquardt with bounded parameters stops near, not at, the constrained optimum when many tensions sit at zero
                    # (what "within solver tolerance" means for it is C05's subject: its certificate accepts these points).  Here: the
                    # residual it reached on the restricted system is within 1 % of the optimum, and since z minimises over a convex set,
                    # |A(x - z)|^2 <= |Ax - b|^2 - |Az - b|^2, so |x - z| <= sqrt(r_x^2 - r_z^2) / sigma_min
                    solved = [c_ for c_ in rec.calls if c_.get("x") is not None and c_.get("solver") == "lmfit"]
                    xs = np.array(solved[-1]["x"], dtype=float) if solved else np.concatenate([np.array(kept), [z[-1]]])
                    r_x, r_z = float(np.linalg.norm(A @ xs - b)), float(np.linalg.norm(A @ z - b))
                    if solved and (np.array(solved[-1]["A"]).shape != A.shape or np.max(np.abs(np.array(solved[-1]["A"]) - A)) > 0):
                        bad.append("the system handed to the Levenberg-Marquardt back-end is not the restricted augmented system")
                    elif r_x > 1.01 * r_z + 1e-7 * (1.0 + float(np.linalg.norm(b))):
                        bad.append(f"kept positions leave a residual of {r_x:.6g} on the restricted system, its non-negative optimum is {r_z:.6g}")
                    elif diff > math.sqrt(max(r_x * r_x - r_z * r_z, 0.0)) / float(sv[-1]) + 5e-3 * (1 + np.max(np.abs(z))):
                        bad.append(f"kept positions differ from the restricted-system solution by {diff:.3g}, more than the residual they leave allows")
            # the matrix must be the restricted one: columns = used interfaces
            if M.shape[1] != len(exp_used):
                bad.append(f"matrix has {M.shape[1]} columns for {len(exp_used)} used interfaces")
            be_t = [fr.big_edges[b.big_edge_id].tension for b in fr.internal_big_edges]
            # correspondence for the re-alignment
            raw = kept
            exprs.append((f"listQ_eqb (solution_no_discarded {C.zlist(sorted(fm.deletes))} {C.zlistlist(internal)} "
                          f"[{'; '.join(C.qlit(v) for v in raw)}]) [{'; '.join(C.qlit(v) for v in x)}]", replay))
    for b in bad[:3]:
        res.fail("oracle", b, replay)
    res.sample({"label": label, "limit": limit, "method": method, "internal": len(internal), "excluded": exp_excl[:6], "flagged": len(flagged)})
    exprs.append((f"listlistZ_eqb (angle_limited_edges {C.zlist(sorted(fm.deletes))} {C.zlistlist(internal)}) {C.zlistlist(got_used)}", replay))


def tissues(rng, tier):
    n = 6 if tier == "quick" else 80
    for k in range(n):
        kind = k % 4
        if kind == 0:
            spec = noisy(gen.voronoi_tissue(rng, n=int(rng.integers(25, 70)), npts=int(rng.integers(1, 5))), rng, 0.4)
        elif kind == 1:
            spec = gen.voronoi_tissue(rng, n=int(rng.integers(25, 70)), npts=int(rng.integers(1, 5)), mob_strength=1.0)
        elif kind == 2:
            spec = gen.voronoi_tissue(rng, sites=gen.jittered_sites(rng, int(rng.integers(4, 7)), jitter=0.04, kind="square"), npts=1)
            spec = gen.relabel(spec, rng, flip=0.0, gaps=False)
        else:
            spec = gen.lattice_tissue(int(rng.integers(3, 6)), int(rng.integers(3, 6)), "square", npts=1)
            spec = noisy(gen.relabel(spec, rng, flip=0.0, gaps=False), rng, 0.05)
        if len(spec["cells"]) >= 4:
            yield spec, f"t{k}/kind{kind}"


def tie_limit(spec, rng):
    """a limit equal (bit for bit) to the widest opening of one end junction of an internal interface whose other end opens at least as wide:
    'at least the limit' then excludes that interface"""
    fr = impl.frame(spec)
    wide = {}
    with impl.quiet():
        for e in fr.internal_big_edges_vertices:
            for v in (e[0], e[-1]):
                if v not in wide:
                    vs_ = [fr.big_edges[b].get_versor_from_vertex(v, fit_method="dlite") for b in fr.vertices[v].own_big_edges]
                    angs = [float(np.arccos(np.clip(np.dot(a, b), -1.0, 1.0))) for a, b in itertools.combinations(vs_, 2)]
                    wide[v] = max(angs) if angs else 0.0
    cands = [min(wide[e[0]], wide[e[-1]]) for e in fr.internal_big_edges_vertices if 0.5 * math.pi < min(wide[e[0]], wide[e[-1]]) < math.pi]
    return cands[int(rng.integers(0, len(cands)))] if cands else None


def run(res, tier, seed):
    rng = np.random.default_rng(seed)
    exprs = []
    for spec, label in tissues(rng, tier):
        lims = [None, math.pi, float(rng.uniform(0.5, 0.8)) * math.pi, float(rng.uniform(0.8, 0.99)) * math.pi]
        tl = tie_limit(spec, rng)
        if tl is not None:
            lims.append(tl)
            res.count("limit equal to a junction's widest opening")
        for lim in lims:
            check_case(res, spec, lim, "lsq" if rng.random() < 0.35 else None, exprs, label)
        # scans of the limit on one object: increasing (the excluded set shrinks), and back down
        asc = sorted(l_ for l_ in lims if l_ is not None)
        check_case(res, spec, asc[1], None, exprs, label + "/scan-up", prior=asc[:1])
        check_case(res, spec, asc[2], "lsq" if rng.random() < 0.35 else None, exprs, label + "/scan-up", prior=asc[:2])
        check_case(res, spec, asc[0], None, exprs, label + "/scan-down", prior=[asc[-1], None])
    bools, outs = C.coq_eval_bools("C16", IMPORTS, [e for e, _ in exprs], chunk=20)
    for (e, rp), b in zip(exprs, bools):
        res.traces += 1
        if b is not True:
            res.fail("correspondence", "model != implementation (exclusion / re-alignment)" if b is False else "case did not evaluate",
                     {"correspondence": "Model/ForceSys.v angle_limited_edges / reinsert vs fmatrix.py", "case": rp})


def search(res, tier, seed, broken):
    rng = np.random.default_rng(seed + 13)
    r2 = C.Result(res.pid)
    sink = []
    for spec, label in tissues(rng, "thorough"):
        for lim in (None, 0.6 * math.pi, 0.75 * math.pi, 0.9 * math.pi):
            check_case(r2, spec, lim, None, sink, label)
        check_case(r2, spec, 0.9 * math.pi, None, sink, label, prior=[0.6 * math.pi, 0.75 * math.pi])
        if [f for f in r2.failures if f["kind"] == "oracle" and not f.get("tag")] or r2.evaluations > 150:
            break
    res.failures.extend(f for f in r2.failures if f["kind"] == "oracle")
    res.notes.append(f"search: {r2.evaluations} extra oracle cases")


def replay(res, obj):
    inp = obj.get("input", obj)
    if "case" in inp:
        inp = inp["case"]
    sink = []
    check_case(res, inp["spec"], inp["limit"], inp["method"], sink, "replay", prior=inp.get("prior", ()))
    bools, _ = C.coq_eval_bools("C16r", IMPORTS, [e for e, _ in sink], chunk=20)
    for (e, rp), b in zip(sink, bools):
        if b is not True:
            res.fail("correspondence", "model != implementation", {"correspondence": "Model/ForceSys.v", "case": rp})
