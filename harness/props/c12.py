"""C12 -- vertex tracking between frames is injective and follows small motions."""
from fractions import Fraction
import math
import numpy as np
import common as C
import gen
import impl

RULE = ("series of 2..6 frames of one tissue under random / affine / flowing displacement fields inside the stated bounds, a growing tissue (9.5 % stretch per step over 5-6 frames), every "
        "frame renumbered independently, optional partial initial_guess (consistent with or overriding proximity), cm on/off; "
        "non-trivial = the series has at least 4 tracked junctions; distinct = (tissue, field, frames, guess kind, cm)")
TRUSTED = ["Model/Tracking.v (exact rational arithmetic on dyadic coordinates) tied to time_series.create_mapping / find_best / "
           "get_point_id_by_map by exact correspondence (cm=False); radius products spread*maxcoord are exact rationals in the model "
           "and rounded doubles in the code (ties excluded by the generator)"]
ASSUMPTIONS = ["the 'externals' pass of create_mapping compares ids with BigEdge objects and never matches (dead code); the model omits it"]
TESTED_NOT_PROVED = ["'each junction is mapped to its true successor under the stated motion bounds' is proved for the model over the rationals "
                     "(C12_small_motions_are_followed: motion < d <= half the spacing of the next frame's end points and <= the largest search "
                     "radius); for the floating-point implementation, and for the bounding-box clause (too_different), it is evaluated by the "
                     "oracle on every series"]
IMPORTS = "From Forsys Require Import Model.CaseUtil Model.PyList Model.Tracking.\n"

SPREADS = []
_s = 0.005
while _s < 0.1:
    SPREADS.append(_s)
    _s += _s


def mapping_lit(m):
    return "[" + "; ".join(f"({C.zlit(k)}, {'None' if v is None else 'Some ' + C.zlit(v)})" for k, v in m.items()) + "]"


def pool_lit(frame):
    ends = set()
    for e in frame.big_edges_list:
        ends.add(e[0])
        ends.add(e[-1])
    return "[" + "; ".join(f"({C.zlit(k)}, ({C.qlit(v.x)}, {C.qlit(v.y)}))" for k, v in frame.vertices.items() if k in ends) + "]", ends


def check_series(res, specs, times, truth, cm, guess_kind, rng, exprs, label):
    frames = {t: impl.frame(s, t, times[t]) for t, s in enumerate(specs)}
    guess = {t: {} for t in range(len(specs))}
    ends0 = [set(x for e in frames[t].big_edges_list for x in (e[0], e[-1])) for t in range(len(specs))]
    override = None
    if guess_kind != "none":
        for t in range(len(specs) - 1):
            keys = sorted(ends0[t])
            if len(keys) < 4:
                continue
            pick = [keys[int(i)] for i in rng.choice(len(keys), size=min(3, len(keys)), replace=False)]
            for k in pick:
                guess[t][k] = truth[t][k]
            if guess_kind == "override" and t == 0:
                # pair a with the true successor of another junction b (b not in the guess)
                a = pick[0]
                others = [k for k in keys if k not in pick]
                b = others[int(rng.integers(0, len(others)))]
                guess[t][a] = truth[t][b]
                override = (a, b)
    replay = {"specs": [{k: s[k] for k in ("vertices", "edges", "cells")} for s in specs], "times": times, "cm": cm,
              "guess": {str(t): {str(k): v for k, v in g.items()} for t, g in guess.items()}, "label": label}
    try:
        f = impl.forsys_of(frames, cm=cm, initial_guess=guess)
    except Exception as ex:  # noqa
        res.fail("oracle", f"ForSys(frames) raised {type(ex).__name__}: {str(ex)[:80]}", replay)
        return
    ts = f.mesh
    bad = []
    ntracked = 0
    for t in range(len(specs) - 1):
        m = ts.mapping[t]
        if m is None:
            bad.append(f"frames {t},{t + 1} declared too different although the motion is within bounds")
            continue
        tg = [v for v in m.values() if v is not None]
        if len(set(tg)) != len(tg):
            dup = sorted(x for x in set(tg) if tg.count(x) > 1)
            bad.append(f"mapping {t}: two vertices sent to the same target {dup[:3]}")
        for k, v in guess[t].items():
            if m.get(k) != v:
                bad.append(f"mapping {t}: user pairing {k}->{v} not honoured (got {m.get(k)})")
        if not set(m) >= ends0[t]:
            bad.append(f"mapping {t}: interface end points {sorted(ends0[t] - set(m))[:3]} are not mapped")
        for k, v in m.items():
            if v is not None and v not in ends0[t + 1] and k not in guess[t]:
                bad.append(f"mapping {t}: {k} sent to {v}, which is not an interface end point of frame {t + 1}")
                break
        # the premise of the 'true successor' clause for THIS pair of frames: every end point moves by less than half the smallest end-point
        # spacing (of either frame) and by less than 8 % of the extent.  The generator bounds the motion by the spacing of the FIRST frame;
        # random fields can bring two junctions together over several steps, after which a later pair is outside the premise
        pos0 = {r_[0]: (r_[1], r_[2]) for r_ in specs[t]["vertices"]}
        pos1 = {r_[0]: (r_[1], r_[2]) for r_ in specs[t + 1]["vertices"]}
        move = max((math.hypot(pos1[truth[t][k]][0] - pos0[k][0], pos1[truth[t][k]][1] - pos0[k][1]) for k in ends0[t]), default=0.0)

        def min_spacing(P):
            P = sorted(P)
            best = float("inf")
            for i_, a_ in enumerate(P):
                for b_ in P[i_ + 1:]:
                    if b_[0] - a_[0] >= best:
                        break
                    best = min(best, math.hypot(b_[0] - a_[0], b_[1] - a_[1]))
            return best
        sp = min(min_spacing([pos0[k] for k in ends0[t]]), min_spacing([pos1[k] for k in ends0[t + 1]]))
        allp = list(pos0.values()) + list(pos1.values())
        ext = max(max(p_[0] for p_ in allp) - min(p_[0] for p_ in allp), max(p_[1] for p_ in allp) - min(p_[1] for p_ in allp))
        if not (move < 0.5 * sp and move < 0.08 * ext):
            res.count("pair of frames outside the motion bounds of the statement (true-successor clause not judged)")
            continue
        for k in ends0[t]:
            if k in guess[t]:
                continue
            if override and t == 0:
                continue          # a user pairing overriding proximity displaces its neighbours: only injectivity is required
            ntracked += 1
            if m.get(k) != truth[t][k]:
                bad.append(f"mapping {t}: junction {k} sent to {m.get(k)}, true successor {truth[t][k]}")
                break
    # forward then backward returns the start
    if not any(m is None for m in ts.mapping.values()) and not override:
        for k in sorted(ends0[0])[:12]:
            for t1 in range(1, len(specs)):
                try:
                    fw = ts.get_point_id_by_map(k, 0, t1)
                    bw = ts.get_point_id_by_map(fw, t1, 0) if fw is not None else None
                except KeyError:
                    fw, bw = "KeyError", "KeyError"
                if fw is not None and bw != k:
                    bad.append(f"forward 0->{t1} then backward: {k} -> {fw} -> {bw}")
                    break
    for b in bad[:3]:
        res.fail("oracle", b, replay)
    res.case((tuple(tuple(v[1:]) for v in specs[0]["vertices"][:4]), len(specs), cm, guess_kind, label), nontrivial=ntracked >= 4)
    res.count(f"frames={len(specs)}")
    res.count(f"guess={guess_kind}")
    res.count(f"cm={cm}")
    res.sample({"label": label, "frames": len(specs), "cm": cm, "guess": guess_kind, "tracked_junctions": ntracked,
                "mapping0": dict(list(ts.mapping[0].items())[:4]) if ts.mapping[0] else None})
    if not cm:
        spreads = "[" + "; ".join(C.qlit(s) for s in SPREADS) + "]"
        maps_l = []
        for t in range(len(specs) - 1):
            p0, _ = pool_lit(frames[t])
            p1, _ = pool_lit(frames[t + 1])
            m = ts.mapping[t]
            g = "[" + "; ".join(f"({C.zlit(k)}, Some {C.zlit(v)})" for k, v in guess[t].items()) + "]"
            if m is None:
                exprs.append((f"too_different {p0} {p1}", replay))
            else:
                exprs.append((f"let p0 := {p0} in let p1 := {p1} in negb (too_different p0 p1) && "
                              f"(let m := create_mapping {spreads} {g} p0 p1 (maxcoord_of p0 p1) in "
                              f"listZ_eqb (map fst m) {C.zlist(list(m.keys()))} && "
                              f"forallb (fun p => optZ_eqb (snd (fst p)) (snd (snd p))) (combine m {mapping_lit(m)}))", replay))
                maps_l.append(f"Some {mapping_lit(m)}")
        # get_point_id_by_map on random triples
        if len(maps_l) == len(specs) - 1:
            keys = sorted(ends0[0])
            qs = []
            for _ in range(6):
                t0, t1 = int(rng.integers(0, len(specs))), int(rng.integers(0, len(specs)))
                if t0 == t1:
                    continue
                p = sorted(ends0[t0])[int(rng.integers(0, len(ends0[t0])))]
                try:
                    r = ts.get_point_id_by_map(p, t0, t1)
                    lit = "Found None" if r is None else f"Found (Some {C.zlit(r)})"
                except KeyError:
                    lit = "KeyError"
                qs.append(f"(match get_point_id_by_map maps {C.zlit(p)} {t0} {t1}, {lit} with Found a, Found b => optZ_eqb a b | KeyError, KeyError => true | _, _ => false end)")
            if qs:
                exprs.append((f"let maps := [{'; '.join(maps_l)}] in " + " && ".join(qs), replay))


def cases(rng, tier):
    n = 5 if tier == "quick" else 60
    for k in range(n):
        base = gen.voronoi_tissue(rng, n=int(rng.integers(14, 40)), npts=int(rng.integers(0, 4)), snap=8,
                                  mob_strength=float(rng.choice([0.0, 0.8])))
        if len(base["cells"]) < 4:
            continue
        field = ["random", "affine", "flow"][k % 3]
        nf = int(rng.integers(2, 7))
        specs, times, truth = gen.series(rng, base, nf, field=field, amp_frac=float(rng.uniform(0.2, 0.9)), zero_junction=bool(k % 2 == 0))
        yield specs, times, truth, f"s{k}/{field}"
    # a growing tissue: a small brick lattice (junction spacing 11 % of the extent) stretched by 9.5 % per step over five or six frames; every
    # step is inside the bounds measured on its own pair of frames, the extent of the last pair is 1.4 times that of the first
    base = gen.lattice_tissue(4, 4, "brick", npts=int(rng.integers(0, 3)), rng=rng)
    specs, times, truth = gen.series(rng, base, int(rng.integers(5, 7)), field="grow", zero_junction=True)
    yield specs, times, truth, "growing/brick"


def run(res, tier, seed):
    rng = np.random.default_rng(seed)
    exprs = []
    for specs, times, truth, label in cases(rng, tier):
        for cm, gk in ((False, "none"), (False, "consistent"), (False, "override"), (True, "none")):
            check_series(res, specs, times, truth, cm, gk, rng, exprs, label)
    bools, outs = C.coq_eval_bools("C12", IMPORTS, [e for e, _ in exprs], chunk=10)
    for (e, rp), b in zip(exprs, bools):
        res.traces += 1
        if b is not True:
            res.fail("correspondence", "model != implementation (create_mapping / get_point_id_by_map)" if b is False else "case did not evaluate",
                     {"correspondence": "Model/Tracking.v vs time_series.py", "case": rp})


def search(res, tier, seed, broken):
    rng = np.random.default_rng(seed + 17)
    r2 = C.Result(res.pid)
    sink = []
    for specs, times, truth, label in cases(rng, "thorough"):
        for cm, gk in ((False, "none"), (False, "override"), (True, "consistent")):
            check_series(r2, specs, times, truth, cm, gk, rng, sink, label)
        if [f for f in r2.failures if f["kind"] == "oracle"] or r2.evaluations > 90:
            break
    res.failures.extend(f for f in r2.failures if f["kind"] == "oracle")
    res.notes.append(f"search: {r2.evaluations} extra oracle cases")


def replay(res, obj):
    inp = obj.get("input", obj)
    if "case" in inp:
        inp = inp["case"]
    res.notes.append("replay of a tracking series re-runs the oracle only (guess / truth are regenerated from the stored specs)")
    frames = {t: impl.frame(s, t, inp["times"][t]) for t, s in enumerate(inp["specs"])}
    guess = {int(t): {int(k): v for k, v in g.items()} for t, g in inp["guess"].items()}
    f = impl.forsys_of(frames, cm=inp["cm"], initial_guess=guess)
    for t, m in f.mesh.mapping.items():
        tg = [v for v in m.values() if v is not None] if m else []
        if len(set(tg)) != len(tg):
            res.fail("oracle", f"mapping {t}: two vertices sent to the same target", inp)
        for k, v in guess.get(t, {}).items():
            if m and m.get(k) != v:
                res.fail("oracle", f"mapping {t}: user pairing {k}->{v} not honoured", inp)
    res.case(("replay",), True)
