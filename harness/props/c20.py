"""C20 -- cell geometry primitives: signed area, perimeter, orientation, neighbours."""
import math
from fractions import Fraction
import numpy as np
import common as C
import gen
import impl

RULE = ("simple polygons (star-shaped, convex and non-convex, 3..80 vertices, both orientations, random cyclic shift) "
        "with dyadic coordinates; Voronoi tissues and connected sub-tissues for additivity / neighbours; a case is "
        "non-trivial if the polygon has >=3 distinct vertices and non-zero area; distinct = distinct vertex tuples")
TRUSTED = ["hand-written model Model/Geometry.v tied to forsys/cell.py by the correspondence below",
           "QOps/ROps/FOps instances of one polymorphic definition (coherence by parametricity, unproved)",
           "numpy float arithmetic is exact on the dyadic inputs used for the exact comparisons"]
ASSUMPTIONS = ["perimeter compared with tolerance 1e-12 (sqrt, summation order)"]
TESTED_NOT_PROVED = ["areas_add_up hypothesis (directed edges of the cells = outline + cancelling pairs) is checked per case by the oracle"]
IMPORTS = "From Forsys Require Import Model.Num Model.CaseUtil Model.Geometry.\n"


def shoelace(pts):
    """independent exact shoelace: counter-clockwise positive"""
    s = Fraction(0)
    n = len(pts)
    for i in range(n):
        x0, y0 = map(Fraction, pts[i])
        x1, y1 = map(Fraction, pts[(i + 1) % n])
        s += x0 * y1 - x1 * y0
    return s / 2


def make_cell(pts, ids=None):
    ids = ids or list(range(len(pts)))
    vs = [impl.fvertex.Vertex(i, x, y) for i, (x, y) in zip(ids, pts)]
    return impl.fcell.Cell(0, vs, center_method="none"), vs


def poly_case(res, pts, ids, exprs, meta):
    """oracle on the implementation + a Coq correspondence expression"""
    cell, vs = make_cell(pts, ids)
    n = len(pts)
    a = cell.get_area()
    sg = cell.get_area_sign()
    per = cell.get_perimeter()
    nxt = [cell.get_next_vertex(v).id for v in vs]
    prv = [cell.get_previous_vertex(v).id for v in vs]
    sh = shoelace(pts)
    bad = []
    if Fraction(a) != -sh:
        bad.append(f"area {a} != -shoelace {float(-sh)}")
    exp_sign = (sh < 0) - (sh > 0)
    if sg != exp_sign:
        bad.append(f"area sign {sg} expected {exp_sign}")
    per_ref = math.fsum(math.hypot(pts[i][0] - pts[(i + 1) % n][0], pts[i][1] - pts[(i + 1) % n][1]) for i in range(n))
    if abs(per - per_ref) > 1e-12 * (1 + per_ref):
        bad.append(f"perimeter {per} vs {per_ref}")
    if sg != 0:
        for i in range(n):
            if nxt[i] != ids[(i + sg) % n] or prv[i] != ids[(i - sg) % n]:
                bad.append(f"navigation at index {i}: next {nxt[i]} prev {prv[i]} sign {sg}")
                break
    # invariances on the implementation itself
    rc, _ = make_cell(pts[::-1], ids[::-1])
    if Fraction(rc.get_area()) != -Fraction(a):
        bad.append("reversal does not flip the area sign")
    if abs(rc.get_perimeter() - per) > 1e-9 * (1 + per):
        bad.append("perimeter changes under reversal")
    k = meta["shift"] % n
    sc, _ = make_cell(pts[k:] + pts[:k], ids[k:] + ids[:k])
    if Fraction(sc.get_area()) != Fraction(a) or abs(sc.get_perimeter() - per) > 1e-9 * (1 + per):
        bad.append(f"cyclic shift by {k} changes area or perimeter")
    tx, ty = meta["t"]
    tc, _ = make_cell([(x + tx, y + ty) for x, y in pts], ids)
    if Fraction(tc.get_area()) != Fraction(a) or abs(tc.get_perimeter() - per) > 1e-9 * (1 + per):
        bad.append("translation changes area or perimeter")
    s = meta["s"]
    zc, _ = make_cell([(x * s, y * s) for x, y in pts], ids)
    if Fraction(zc.get_area()) != Fraction(a) * Fraction(s) ** 2 or abs(zc.get_perimeter() - abs(s) * per) > 1e-9 * abs(s) * per:
        bad.append(f"scaling law violated for factor {s}")
    if zc.get_area_sign() != sg or [zc.get_next_vertex(w).id for w in zc.vertices] != nxt:
        bad.append(f"area sign / navigation change under scaling by {s}")
    # the same Cell object after its cycle was reversed in place (and restored): the answers follow the current cycle, not an earlier query
    cell.vertices.reverse()
    if Fraction(cell.get_area()) != -Fraction(a) or cell.get_area_sign() != -sg:
        bad.append(f"after reversing the cycle of the same cell in place: area {cell.get_area()} (was {a}), area sign {cell.get_area_sign()} (was {sg})")
    elif sg != 0:
        rids = ids[::-1]
        rn = [cell.get_next_vertex(v).id for v in cell.vertices]
        if rn != [rids[(i - sg) % n] for i in range(n)]:
            bad.append("after reversing the cycle of the same cell in place, next-vertex navigation does not follow the new area sign")
    cell.vertices.reverse()
    if cell.get_area_sign() != sg or [cell.get_next_vertex(v).id for v in vs] != nxt:
        bad.append("after restoring the cycle in place, area sign / navigation differ from the first answers")
    replay = {"pts": [[float(x).hex(), float(y).hex()] for x, y in pts], "ids": ids, "meta": meta}
    for b in bad:
        res.fail("oracle", b, replay)
    res.case(tuple(pts), nontrivial=(sh != 0 and n >= 3))
    res.count(f"n={min(n // 10 * 10, 80)}+")
    res.count("ccw" if sh > 0 else "cw")
    res.sample({"pts": pts[:6], "n": n, "area": a, "sign": sg, "perimeter": per})
    # correspondence expression
    zids = C.zlist(ids)
    nav = " && ".join(
        [f"listZ_eqb (map (fun v => match next_vertex {zids} {C.zlit(sg)} v with Some w => w | None => -1 end) {zids}) {C.zlist(nxt)}",
         f"listZ_eqb (map (fun v => match prev_vertex {zids} {C.zlit(sg)} v with Some w => w | None => -1 end) {zids}) {C.zlist(prv)}"])
    e = (f"(let pts := {C.qplist(pts)} in Qeq_bool (area QOps pts) {C.qlit(a)} && Z.eqb (area_sign QOps pts) {C.zlit(sg)}) && "
         f"fclose 1e-12 (perimeter FOps [{'; '.join('(' + C.flit(x) + ', ' + C.flit(y) + ')' for x, y in pts)}]) {C.flit(per)} && {nav}")
    exprs.append((e, replay, "polygon"))


def outline_loops(spec):
    owner = {}
    for cid, v in spec["cells"]:
        for k in range(len(v)):
            a, b = v[k], v[(k + 1) % len(v)]
            owner.setdefault(frozenset((a, b)), []).append((a, b))
    bnd = [e[0] for e in owner.values() if len(e) == 1]
    nxt = {}
    for a, b in bnd:
        nxt.setdefault(a, []).append(b)
    if any(len(v) != 1 for v in nxt.values()):
        return None
    loops = []
    seen = set()
    for start in nxt:
        if start in seen:
            continue
        loop = []
        cur = start
        while cur not in seen:
            seen.add(cur)
            loop.append(cur)
            cur = nxt[cur][0]
        loops.append(loop)
    return loops


def tissue_case(res, spec, exprs):
    v, e, c = impl.build(spec)
    pos = {k: (w.x, w.y) for k, w in v.items()}
    bad = []
    loops = outline_loops(spec)
    tot = sum(abs(cc.get_area()) for cc in c.values())
    if loops is not None and len(loops) == 1:
        out_a = abs(float(shoelace([pos[i] for i in loops[0]])))
        if abs(tot - out_a) > 1e-9 * (1 + out_a):
            bad.append(f"sum of |areas| {tot} != outline area {out_a}")
        res.count("additivity-checked")
    else:
        res.count("additivity-skipped(holes or pinch)")
    member = {}
    for cid, vids in spec["cells"]:
        for i in vids:
            member.setdefault(i, set()).add(cid)
    for cid, vids in spec["cells"]:
        got = c[cid].calculate_neighbors()
        exp = set()
        for i in vids:
            exp |= member[i]
        exp.discard(cid)
        if sorted(got) != sorted(exp) or len(set(got)) != len(got):
            bad.append(f"neighbours of cell {cid}: {sorted(got)} expected {sorted(exp)}")
            break
        own = [list(v[i].ownCells) for i in vids]
        exprs.append((f"setZ_eqb (neighbours {C.zlit(cid)} {C.zlistlist(own)}) {C.zlist(got)}",
                      {"cell": cid, "own": own, "got": got}, "neighbours"))
    replay = {"spec": {k: spec[k] for k in ("vertices", "edges", "cells")}}
    for b in bad:
        res.fail("oracle", b, replay)
    res.case(("tissue", len(spec["cells"]), tuple(spec["vertices"][0])), nontrivial=len(spec["cells"]) > 1)


def removal_case(res, spec, rng):
    """a sub-tissue obtained on the live objects (ForSys.remove_cell, which rebuilds the frame from the surviving Cell objects): the
    neighbours of every surviving cell are the other surviving cells sharing a vertex with it"""
    import gc
    f = impl.forsys_of({0: impl.frame(spec)})
    cyc = dict(spec["cells"])
    for cid in list(cyc):
        f.frames[0].cells[cid].calculate_neighbors()        # asked once before the tissue changes
    victim = int(rng.choice(sorted(cyc)))
    replay = {"spec": {k: spec[k] for k in ("vertices", "edges", "cells")}, "removed_cell": victim}
    try:
        with impl.quiet():
            f.remove_cell(0, victim)
    except Exception:  # noqa  (what remove_cell accepts is not C20's subject)
        res.count("remove_cell rejected")
        return
    gc.collect()
    res.count("sub-tissue by remove_cell on the live objects")
    fr = f.frames[0]
    member = {}
    for cid, cc in fr.cells.items():
        for w in cc.vertices:
            member.setdefault(w.id, set()).add(cid)
    for cid, cc in fr.cells.items():
        got = cc.calculate_neighbors()
        exp = set()
        for w in cc.vertices:
            exp |= member[w.id]
        exp.discard(cid)
        if sorted(got) != sorted(exp) or len(set(got)) != len(got):
            res.fail("oracle", f"after removing cell {victim}: neighbours of cell {cid}: {sorted(got)} but the cells sharing a vertex with it are {sorted(exp)}", replay)
            break
    res.case(("removal", len(cyc), victim), nontrivial=len(cyc) > 2)


def run(res, tier, seed):
    rng = np.random.default_rng(seed)
    npoly = 60 if tier == "quick" else 1500
    ntis = 6 if tier == "quick" else 120
    exprs = []
    for k in range(npoly):
        n = int(rng.integers(3, 81)) if k % 3 else int(rng.integers(3, 9))
        kind = "convex" if k % 4 == 0 else "star"
        pts = gen.polygon(rng, n, kind=kind, snap=8, scale=64.0)
        if len(set(pts)) < n:
            continue
        if rng.random() < 0.5:
            pts = pts[::-1]
        sh = int(rng.integers(0, n))
        pts = pts[sh:] + pts[:sh]
        ids = [int(x) for x in rng.permutation(3 * n)[:n]]
        meta = {"shift": int(rng.integers(1, n)), "t": [float(rng.integers(-2 ** 12, 2 ** 12)) / 16, float(rng.integers(-2 ** 12, 2 ** 12)) / 16],
                "s": float(2.0 ** int(rng.integers(-6, 7) if k % 2 else rng.integers(-40, 41))) * (1 if rng.random() < 0.8 else -1)}
        poly_case(res, pts, ids, exprs, meta)
    for k in range(ntis):
        spec = gen.voronoi_tissue(rng, n=int(rng.integers(8, 40)), npts=int(rng.integers(0, 4)), snap=8,
                                  mob_strength=(1.0 if k % 2 else 0.0))
        if len(spec["cells"]) < 2:
            continue
        tissue_case(res, spec, exprs)
        subs = gen.connected_subsets(spec, rng, 2)
        for s in subs:
            tissue_case(res, gen.sub_tissue(spec, s), exprs)
        removal_case(res, spec, rng)
    bools, outs = C.coq_eval_bools("C20", IMPORTS, [e for e, _, _ in exprs], chunk=100)
    for (e, rp, kind), b in zip(exprs, bools):
        res.traces += 1
        if b is not True:
            res.fail("correspondence", f"model != implementation ({kind})" if b is False else f"case did not evaluate ({kind})",
                     {"correspondence": "Model/Geometry.v vs forsys/cell.py", "case": rp, "expr": e[:2000]})


def search(res, tier, seed, broken):
    """bigger oracle budget when a proof or the correspondence broke"""
    before = len(res.failures)
    r2 = C.Result(res.pid)
    rng = np.random.default_rng(seed + 1)
    sink = []
    for k in range(600):
        n = int(rng.integers(3, 81))
        pts = gen.polygon(rng, n, kind="star", snap=8, scale=64.0)
        if len(set(pts)) < n:
            continue
        if rng.random() < 0.5:
            pts = pts[::-1]
        ids = [int(x) for x in rng.permutation(3 * n)[:n]]
        meta = {"shift": int(rng.integers(1, n)), "t": [1.5, -2.25], "s": 2.0}
        poly_case(r2, pts, ids, sink, meta)
    for k in range(40):
        spec = gen.voronoi_tissue(rng, n=int(rng.integers(8, 60)), npts=int(rng.integers(0, 4)), snap=8)
        if len(spec["cells"]) >= 2:
            tissue_case(r2, spec, sink)
    res.failures.extend(f for f in r2.failures if f["kind"] == "oracle")
    res.notes.append(f"search: {r2.evaluations} extra oracle cases, {len(res.failures) - before} failing")


def replay(res, obj):
    inp = obj.get("input", obj)
    sink = []
    if "pts" in inp:
        pts = [(float.fromhex(x), float.fromhex(y)) for x, y in inp["pts"]]
        poly_case(res, pts, inp["ids"], sink, inp["meta"])
    elif "spec" in inp:
        tissue_case(res, inp["spec"], sink)
