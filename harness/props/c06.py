"""C06 -- inference is invariant under similarity transforms and changes of units."""
import math
import numpy as np
import common as C
import gen
import impl
from props.c02 import hquad, fit_delta, iface_theta
from props.c05 import noisy

RULE = ("tissues (equilibrium straight / Moebius, noisy) compared with their images under translations (up to 1e4 tissue sizes), "
        "rotations by arbitrary angles, reflections and scalings 1e-3..1e3: static tensions per physical interface, pressures per "
        "cell, coefficient pairs rotated; two-frame series with adimensional velocities under time-unit and length-unit factors "
        "1e-3..1e3; non-trivial = at least 6 inferred interfaces; distinct = (tissue, transform)")
TRUSTED = ["theorems oriented_tangent_equivariant / rhs_scale_invariant (Proofs/ForceSysProofs.v) for the stated orientation rule; the code's "
           "per-component rule is refuted (known finding D1); tolerances scale with the conditioning of the augmented system",
           "the multiplier value is captured from the solver by proxy (known finding D3 is attributed by multiplier > 1e-9)"]
ASSUMPTIONS = ["static: coefficient pairs may differ by twice the circle-fit accuracy (c02.fit_delta) plus coordinate rounding (ulp(max |coord|) / "
               "shortest edge); tensions by (1e-9 + rounding) * cond + 3 (|E| |x| / smin + |E| |r| / smin^2) with E the measured change of the "
               "coefficient pairs; dynamic: 20 * 5e-4 * sqrt(rows) * |pinv|"]
TESTED_NOT_PROVED = ["end-to-end invariance of tensions and pressures is evaluated by the oracle; only the tangent equivariance and the adimensional "
                     "scaling of the right-hand side are proved"]
IMPORTS = "From Forsys Require Import Model.CaseUtil.\n"


def solve_static(spec, fit, movie=False):
    fr = impl.frame(spec)
    if movie:
        # the frame is the first of a two-frame movie handed to ForSys(cm=True): the time series then moves every vertex in place by the
        # (rounded) centre of mass before anything is inferred - one more translation the static result must not notice
        f = impl.forsys_of({0: fr, 1: impl.frame(spec, 1, 1.0)}, cm=True)
    else:
        f = impl.forsys_of({0: fr})
    with impl.quiet():
        f.build_force_matrix(when=0, circle_fit_method=fit, angle_limit=np.inf)
        with impl.capture_solvers() as rec:
            f.solve_stress(when=0, allow_negatives=False)
        lam, xvec = None, None
        for c in rec.calls[::-1]:
            if c["x"] is not None:
                lam = float(c["x"][-1])
                xvec = np.array(c["x"], dtype=float).ravel()
                break
        fm = f.force_matrices[0]
        M = np.array(fm.matrix)
        out = {"frame": fr, "lam": lam, "M": M, "fm": fm, "xvec": xvec}
        out["tension"] = {(tuple(sorted(be.own_cells)), tuple(sorted((be.vertices[0].id, be.vertices[-1].id)))): be.tension for be in fr.internal_big_edges}
        try:
            f.build_pressure_matrix(when=0)
            f.solve_pressure(when=0, method="lagrange_pressure")
            out["pressure"] = {cid: c.pressure for cid, c in fr.cells.items()}
        except ValueError:
            out["pressure"] = None
        # pressures are determined only on a tissue whose internal interfaces link the cells into one group (C04)
        if out["pressure"] is not None and not impl.pressure_connected(fr):
            out["pressure"] = None
            out["pressure_undetermined"] = True
    A = np.vstack([np.hstack([M, np.ones((M.shape[0], 1))]), np.hstack([np.ones(M.shape[1]), [0.0]])]) if M.size else np.zeros((1, 1))
    sv = np.linalg.svd(A, compute_uv=False)
    out["cond"] = float(sv[0] / sv[-1]) if sv[-1] > 0 else float("inf")
    out["smin"] = float(sv[-1])
    if out["xvec"] is not None and M.size and len(out["xvec"]) == A.shape[1]:
        rhs = np.concatenate([np.zeros(M.shape[0]), [float(M.shape[1])]])
        out["xnorm"] = float(np.linalg.norm(out["xvec"]))
        out["rnorm"] = float(np.linalg.norm(A @ out["xvec"] - rhs))
    else:
        out["xnorm"] = out["rnorm"] = None
    out["determined"] = bool(M.size and A.shape[0] >= A.shape[1] and sv[-1] > 1e-6 * sv[0])
    return out


def d1_count(fr, fit):
    """interface ends where the code's per-component sign forcing differs from orienting the fitted tangent by its dot product
    with the first segment (known finding D1); uses the implementation's own fitted centre"""
    n = 0
    for be in fr.internal_big_edges:
        if len(be.vertices) < 3:
            continue
        xc, yc = impl.ve.calculate_circle_center(be.vertices, method=fit)
        for a, b in ((be.vertices[0], be.vertices[1]), (be.vertices[-1], be.vertices[-2])):
            w = np.array([-(a.y - yc), a.x - xc])
            d = np.array([b.x - a.x, b.y - a.y])
            t = w if np.dot(w, d) >= 0 else -w
            if not hquad(t / (np.linalg.norm(t) + 1e-300), d):
                n += 1
    return n


def check_static(res, spec, tr, fit, label, analytic):
    img = gen.similarity(spec, **{k: v for k, v in tr.items() if k != "movie"})
    replay = {"spec": {k: spec[k] for k in ("vertices", "edges", "cells", "ifaces", "meta")}, "transform": tr, "fit": fit, "label": label}
    movie = bool(tr.get("movie"))
    tr = {k: v for k, v in tr.items() if k != "movie"}
    try:
        A = solve_static(spec, fit, movie)
        B = solve_static(img, fit, movie)
    except Exception as ex:  # noqa
        res.fail("oracle", f"inference raised {type(ex).__name__}: {str(ex)[:80]}", replay)
        return
    if movie:
        res.count("static inference on the first frame of a movie with cm=True")
    res.case((tuple(tuple(x[1:]) for x in spec["vertices"][:5]), len(spec["cells"]), tuple(sorted(tr.items())), fit), nontrivial=len(A["tension"]) >= 6)
    res.count(f"fit={fit}")
    for k in tr:
        res.count(f"transform:{k}")
    if not (A["determined"] and B["determined"]):
        res.count("system does not determine the tensions uniquely (not judged)")
        return
    two_point = all(len(be.vertices) == 2 for be in A["frame"].internal_big_edges)
    cond = max(A["cond"], B["cond"])
    # rounding of the transformed coordinates: each is off by <= ulp/2, which turns a segment of length L by <= 2 sqrt(2) ulp / L
    eps_dir = 0.0
    posA = {v[0]: (v[1], v[2]) for v in spec["vertices"]}
    maxabs_all = 0.0
    for sp in (spec, img):
        pos = {v[0]: (v[1], v[2]) for v in sp["vertices"]}
        maxabs = max(max(abs(x), abs(y)) for x, y in pos.values())
        maxabs_all = max(maxabs_all, maxabs)
        lmin = min(math.hypot(pos[e[1]][0] - pos[e[2]][0], pos[e[1]][1] - pos[e[2]][1]) for e in sp["edges"])
        eps_dir += 8 * 2.3e-16 * maxabs / lmin
    amp = 1.0 if two_point else 1e3          # a circle fit amplifies point perturbations
    base_tol = (1e-9 + amp * eps_dir) * cond
    straight = spec.get("meta", {}).get("mobius") is None
    theta_of = {}
    for it in spec.get("ifaces", []):
        if "tan0" in it and "tan1" in it:
            theta_of[frozenset((it["pts"][0], it["pts"][-1]))] = iface_theta(it)
    nd1 = d1_count(A["frame"], fit) + d1_count(B["frame"], fit)
    lam = max(abs(A["lam"] or 0.0), abs(B["lam"] or 0.0))
    worst, who = 0.0, None
    for k, t in A["tension"].items():
        d = abs(B["tension"].get(k, float("nan")) - t)
        if not d <= worst:
            worst, who = d, k
    pw = 0.0
    if A["pressure"] is not None and B["pressure"] is not None:
        pw = max(abs(B["pressure"][c] - p) for c, p in A["pressure"].items()) / (1 + max(abs(p) for p in A["pressure"].values()))
    # coefficient pairs rotate / reflect with the tissue
    c_, s_ = math.cos(tr.get("theta", 0.0)), math.sin(tr.get("theta", 0.0))
    refl = -1.0 if tr.get("reflect") else 1.0
    cw, cexcess, fro2 = 0.0, 0.0, 0.0
    colB = {tuple(e): k for k, e in enumerate(B["fm"].big_edges_to_use)}
    for v, r in A["fm"].map_vid_to_row.items():
        rb = B["fm"].map_vid_to_row.get(v)
        if rb is None:
            cw = float("inf")
            break
        for k, e in enumerate(A["fm"].big_edges_to_use):
            kb = colB.get(tuple(e))
            if kb is None:
                cw = float("inf")
                break
            x, y = A["M"][r, k], refl * A["M"][r + 1, k]
            if x == 0 and y == 0 and B["M"][rb, kb] == 0 and B["M"][rb + 1, kb] == 0:
                continue
            d0, d1 = abs(B["M"][rb, kb] - (c_ * x - s_ * y)), abs(B["M"][rb + 1, kb] - (s_ * x + c_ * y))
            cw = max(cw, d0, d1)
            fro2 += d0 * d0 + d1 * d1
            # accuracy of the circle fit in either pose (c02.fit_delta; exact arcs / lines only) plus coordinate rounding
            lsq_term = 0.0
            if fit == "dlite" and len(e) > 2:
                # leastsq stops on a relative change of the unknowns (xtol 1.49e-8): the fitted centre of a tissue sitting at coordinates of
                # size |c| is only good to ~1.5e-8 |c|, which turns the tangent by at most that over the radius (>= half the chord)
                chord = math.hypot(posA[e[0]][0] - posA[e[-1]][0], posA[e[0]][1] - posA[e[-1]][1]) * min(1.0, float(tr.get("scale", 1.0)))
                lsq_term = 6e-8 * maxabs_all / max(chord, 1e-300)
            if len(e) == 2 or fit == "taubinSVD" and analytic is not False:
                ctol_e = 1e-9 + amp * eps_dir
            elif analytic is not False and frozenset((e[0], e[-1])) in theta_of:
                ctol_e = 2 * fit_delta(fit, len(e), theta_of[frozenset((e[0], e[-1]))], straight) + amp * eps_dir + lsq_term
            else:
                ctol_e = (1e-9 + amp * eps_dir) if fit == "taubinSVD" else 2e-3 + lsq_term
            cexcess = max(cexcess, max(d0, d1) - ctol_e)
    # a solution of a (constrained) least-squares problem moves by at most |E| |x| / smin + |E| |r| / smin^2 (first order) when its
    # matrix moves by E; E is the measured change of the coefficient pairs (bounded entry by entry above)
    fro = math.sqrt(fro2)
    smin = min(A["smin"], B["smin"])
    if A["xnorm"] is not None and smin > 0:
        tol = base_tol + 3 * (fro * A["xnorm"] / smin + fro * max(A["rnorm"], B["rnorm"] or 0.0) / smin ** 2)
    else:
        tol = base_tol if (two_point or fit == "taubinSVD") else 1e-3 * (1 + cond / 100)
    res.sample({"label": label, "transform": tr, "fit": fit, "tension_change": worst, "pressure_change": pw, "coefficient_change": cw,
                "tolerance": tol, "multiplier": lam, "d1_ends": nd1, "cond": cond})
    msgs = []
    if cexcess > 0:
        msgs.append(f"coefficient pairs do not rotate with the tissue (off by {cw:.3g})")
    if not worst <= tol:
        msgs.append(f"tension of interface {who} changes by {worst:.3g} under {tr} (tolerance {tol:.2g})")
    if pw > 100 * tol:
        msgs.append(f"pressures change by {pw:.3g} (relative) under {tr}")
    # known findings D1 (per-component sign forcing) and D3 (multiplier column of ones) can only explain a change under a rotation or a
    # reflection: both rules see the same signs and the same column after a translation or a positive scaling
    turned = bool(tr.get("theta")) or bool(tr.get("reflect"))
    for m in msgs[:2]:
        if not turned:
            res.fail("oracle", m, replay)
        elif nd1:
            res.fail("oracle", m + f"; {nd1} interface end(s) with tangent and first segment in different quadrants in one of the two poses",
                     replay, tag="D1-tangent-sign-forcing")
        elif lam > 1e-9 and "coefficient" not in m:
            res.fail("oracle", m + f"; the non-negative optimum has multiplier {lam:.3g} > 0 (the column of ones is not rotation covariant)",
                     replay, tag="D3-multiplier-not-covariant")
        elif analytic is False and "coefficient" in m and fit == "dlite":
            res.fail("oracle", m, replay)
        else:
            res.fail("oracle", m, replay)
    if nd1:
        res.count("D1-affected pair")
    elif lam > 1e-9:
        res.count("multiplier>0 pair")
    else:
        res.count("strict pair")


def check_dynamic(res, base, rng, label, amp_frac=0.6):
    """two-frame series, adimensional velocities: factor on all time stamps / on all lengths"""
    specs, times, truth = gen.series(rng, base, 2, field="random", amp_frac=amp_frac, renumber=False, times=[0.0, 1.0], snap=30)
    replay = {"specs": [{k: s[k] for k in ("vertices", "edges", "cells")} for s in specs], "label": label}

    def solve(scale_len, scale_time):
        sp = [gen.similarity(s, scale=scale_len) for s in specs]
        frames = {t: impl.frame(s, t, times[t] * scale_time) for t, s in enumerate(sp)}
        f = impl.forsys_of(frames, cm=False)
        with impl.quiet():
            f.build_force_matrix(when=0, angle_limit=np.inf)
            f.solve_stress(when=0, b_matrix="velocity", adimensional_velocity=True, allow_negatives=False)
        M = np.array(f.force_matrices[0].matrix)
        return np.array([be.tension for be in frames[0].internal_big_edges]), M
    try:
        ref, M = solve(1.0, 1.0)
    except Exception as ex:  # noqa
        res.fail("oracle", f"dynamic inference raised {type(ex).__name__}: {str(ex)[:80]}", replay)
        return
    A = np.vstack([np.hstack([M, np.ones((M.shape[0], 1))]), np.hstack([np.ones(M.shape[1]), [0.0]])])
    if A.shape[0] < A.shape[1]:
        res.count("dynamic: under-determined (not judged)")
        return
    sv = np.linalg.svd(A, compute_uv=False)
    if sv[-1] < 1e-6 * sv[0]:
        res.count("dynamic: under-determined (not judged)")
        return
    tol = 20 * 5e-4 * math.sqrt(A.shape[0]) / sv[-1]
    rl, rt = float(10 ** rng.uniform(-3, 3)), float(10 ** rng.uniform(-3, 3))
    for what, sl, st in (("time stamps x 1e3", 1.0, 1e3), ("time stamps x 1e-3", 1.0, 1e-3), ("lengths x 1e-3", 1e-3, 1.0),
                         ("lengths x 1e3", 1e3, 1.0), (f"lengths x {rl:.3g} and time stamps x {rt:.3g}", rl, rt),
                         ("lengths x 1e-3 and time stamps x 1e3", 1e-3, 1e3), ("lengths x 1e3 and time stamps x 1e-3", 1e3, 1e-3)):
        try:
            got, _ = solve(sl, st)
        except Exception as ex:  # noqa
            res.fail("oracle", f"dynamic inference (adimensional velocities) raises {type(ex).__name__} ({str(ex)[:60]}) when {what}, although it succeeds in the "
                     f"original units", dict(replay, change=what))
            continue
        d = float(np.max(np.abs(got - ref)))
        res.evaluations += 1
        res.count("dynamic unit changes")
        if d > tol:
            res.fail("oracle", f"dynamic tensions (adimensional velocities) change by {d:.3g} when {what} (bound from the three-decimal rounding {tol:.2g})",
                     dict(replay, change=what))


def cases(rng, tier):
    n = 5 if tier == "quick" else 80
    for k in range(n):
        kind = k % 4
        if kind == 0:
            spec, analytic = gen.voronoi_tissue(rng, n=int(rng.integers(40, 70)), npts=0), True
        elif kind == 1:
            spec, analytic = gen.voronoi_tissue(rng, n=int(rng.integers(40, 70)), npts=int(rng.integers(1, 6)), mob_strength=float(rng.uniform(0.05, 1.2))), True
        elif kind == 2:
            spec, analytic = noisy(gen.voronoi_tissue(rng, n=int(rng.integers(40, 70)), npts=0), rng, 0.4), False
        else:
            spec, analytic = noisy(gen.voronoi_tissue(rng, n=int(rng.integers(40, 70)), npts=int(rng.integers(1, 4))), rng, 0.3), False
        if len(spec["cells"]) >= 8:
            yield spec, analytic, f"t{k}/kind{kind}"


def transforms(rng, spec):
    P = np.array([[x, y] for _, x, y in spec["vertices"]])
    ext = float(max(P[:, 0].max() - P[:, 0].min(), P[:, 1].max() - P[:, 1].min()))
    big = float(10 ** rng.uniform(0, 4)) * ext
    return [{"tx": big * float(rng.uniform(-1, 1)), "ty": big * float(rng.uniform(-1, 1))},
            {"theta": float(rng.uniform(0, 2 * math.pi))},
            {"reflect": True, "theta": float(rng.uniform(0, 2 * math.pi))},
            {"scale": float(10 ** rng.uniform(-3, 3))},
            {"scale": float(10 ** rng.uniform(-2, 2)), "theta": float(rng.uniform(0, 2 * math.pi)), "tx": float(rng.uniform(-1, 1)) * ext, "ty": 0.0},
            # the same tissue moved by a few extents, both poses inferred as the first frame of a two-frame movie with cm=True
            {"tx": 3.0 * ext * float(rng.uniform(-1, 1)), "ty": 3.0 * ext * float(rng.uniform(-1, 1)), "movie": True}]


def run(res, tier, seed):
    rng = np.random.default_rng(seed)
    for spec, analytic, label in cases(rng, tier):
        for tr in transforms(rng, spec):
            check_static(res, spec, tr, "taubinSVD" if rng.random() < 0.5 else "dlite", label, analytic)
        check_dynamic(res, spec, rng, label)
        if label.endswith("kind0") or label.endswith("kind2"):
            # a slowly creeping tissue: displacements of a thousandth of the usual ones (speeds of 1e-3 length units per time unit)
            check_dynamic(res, spec, rng, label + "/slow", amp_frac=0.6e-3)
    res.traces = res.evaluations


def search(res, tier, seed, broken):
    rng = np.random.default_rng(seed + 41)
    r2 = C.Result(res.pid)
    for spec, analytic, label in cases(rng, "thorough"):
        for tr in transforms(rng, spec)[:3]:
            check_static(r2, spec, tr, "taubinSVD", label, analytic)
        if [f for f in r2.failures if f["kind"] == "oracle" and not f.get("tag")] or r2.evaluations > 60:
            break
    res.failures.extend(f for f in r2.failures if f["kind"] == "oracle")
    res.notes.append(f"search: {r2.evaluations} extra oracle cases")


def replay(res, obj):
    inp = obj.get("input", obj)
    if "case" in inp:
        inp = inp["case"]
    if "transform" in inp:
        check_static(res, inp["spec"], inp["transform"], inp["fit"], "replay", bool(inp["spec"].get("ifaces")) and not inp["spec"].get("meta", {}).get("noise"))
    else:
        res.notes.append("dynamic replays are regenerated from the seed")
        res.case(("replay",), True)
