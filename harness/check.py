#!/venv/bin/python
"""./check Cxx [--tier quick|thorough] [--replay file] | --setup | --all

Verdict logic (DESIGN 2.1):
  build Coq, compile Props/Cxx.v (obligations)      fail -> proof broken
  correspondence model == implementation             fail -> correspondence broken
  property oracle on the implementation              fail -> failing input
  any of the first two broken -> search the implementation for a failing input (module.search)
      found -> VIOLATION property=Cxx replay=<input>
      none  -> VIOLATION property=Cxx replay=<file naming the obligation / correspondence> no-failing-input-found
  failing inputs matching a listed known finding are printed as KNOWN-FINDING and not counted.
"""
import argparse
import importlib
import json
import os
import sys
import time
import traceback

os.environ.setdefault("PYTHONHASHSEED", "0")
HERE = os.path.dirname(os.path.abspath(__file__))
sys.path.insert(0, HERE)
import common  # noqa: E402

ALL = [f"C{i:02d}" for i in range(1, 21)]


def setup():
    t0 = time.time()
    hits = common.forbidden_scan()
    if hits:
        print("forbidden vernacular found:\n  " + "\n  ".join(hits))
        return 1
    ok, out = common.coq_build()
    print(out[-3000:])
    if not ok:
        print("SETUP: coq build failed")
        return 1
    print(f"setup ok in {time.time() - t0:.1f}s")
    return 0


def run_check(pid, tier, seed, replay=None):
    t0 = time.time()
    os.makedirs(common.EVID, exist_ok=True)
    os.makedirs(common.WORK, exist_ok=True)
    res = common.Result(pid)
    known = [k for k in common.load_known() if k["property"] == pid]
    # 0. forbidden words, build
    hits = common.forbidden_scan()
    build_ok, build_out = common.coq_build()
    proof_ok, names, axioms, pout, ptime = (False, [], [], "", 0.0)
    if hits:
        res.fail("proof", "forbidden vernacular: " + "; ".join(hits), {"obligation": "forbidden-scan", "hits": hits})
    if not build_ok:
        res.fail("proof", "coq build (Model/Proofs) failed", {"obligation": "make", "output": build_out[-2000:]})
    else:
        proof_ok, names, axioms, pout, ptime = common.props_compile(pid)
        if not proof_ok:
            res.fail("proof", f"Props/{pid}.v no longer checks", {"obligation": f"Props/{pid}.v", "output": pout[-2000:]})
    # 1. property module: correspondence + oracle
    mod = importlib.import_module(f"props.{pid.lower()}")
    try:
        if replay:
            mod.replay(res, json.load(open(replay)))
        else:
            # corpus first: stored replays of listed findings (known ones must still be attributed, fixed ones must pass)
            for k in known:
                rp = k.get("replay")
                if rp and os.path.exists(os.path.join(common.VERIF, rp)) and rp.endswith(".json"):
                    mod.replay(res, json.load(open(os.path.join(common.VERIF, rp))))
                    res.count("corpus-replays")
                elif rp and rp.endswith(".py") and os.path.exists(os.path.join(common.VERIF, rp)):
                    # demonstration script of a repaired defect: exit status 1 = the defect is back
                    rc, out = common.sh(f"/venv/bin/python {os.path.join(common.VERIF, rp)}", timeout=600,
                                        env=dict(os.environ, VERIF_REPO=os.environ.get("VERIF_REPO", "/repo")))
                    res.count("corpus-demonstrations")
                    res.evaluations += 1
                    if rc != 0:
                        res.fail("oracle", f"repaired defect is back ({k['tag']}): " + out.strip()[-300:], {"demonstration": rp, "output": out[-1500:]})
            mod.run(res, tier, seed)
    except Exception:
        res.fail("correspondence", "harness crashed: " + traceback.format_exc()[-1500:],
                 {"correspondence": "harness", "trace": traceback.format_exc()[-3000:]})
    # 2. if something other than an oracle failure broke, search for a failing input
    broken = [f for f in res.failures if f["kind"] != "oracle"]
    oracle = [f for f in res.failures if f["kind"] == "oracle"]
    if broken and not oracle and hasattr(mod, "search") and not replay:
        try:
            mod.search(res, tier, seed, broken)
        except Exception:
            res.notes.append("search crashed: " + traceback.format_exc()[-800:])
        oracle = [f for f in res.failures if f["kind"] == "oracle"]
    # 3. verdict
    lines = []
    violations = 0
    known_tags = {k["tag"]: k for k in known if k.get("status") == "known"}
    suppressed = {}
    real = []
    for f in oracle:
        if f.get("tag") in known_tags:
            suppressed.setdefault(f["tag"], []).append(f)
        else:
            real.append(f)
    for k in known:
        if k.get("status") == "known":
            n = len(suppressed.get(k["tag"], []))
            lines.append(f"KNOWN-FINDING: property={pid} {k['what']} [{k['tag']}; reproduced {n}x this run]")
    seen_what = set()
    import glob
    for old in glob.glob(os.path.join(common.REPLAYS, f"{pid}_*.json")):
        os.unlink(old)
    for i, f in enumerate(real):
        key = f["what"][:60]
        if key in seen_what:
            continue
        seen_what.add(key)
        path = common.write_replay(pid, violations + 1, {"property": pid, "kind": f["kind"], "what": f["what"], "tag": f.get("tag"), "input": f["replay"]})
        lines.append(f"VIOLATION property={pid} replay={path}")
        violations += 1
        if violations >= 5:
            break
    if not real and broken:
        path = common.write_replay(pid, "broken", {"property": pid, "broken": [
            {"kind": b["kind"], "what": b["what"], "detail": b["replay"]} for b in broken[:5]]})
        lines.append(f"VIOLATION property={pid} replay={path} no-failing-input-found")
        violations += 1
    wall = time.time() - t0
    # 4. evidence
    cov = {
        "obligations": len(names),
        "discharged": len(names) if proof_ok else 0,
        "checker_cmd": f"make -C coq (coqc 8.16.1, full .vo) && coqc -Q . Forsys Props/{pid}.v",
        "trusted_base": ["Coq 8.16.1 kernel + vm_compute (no native_compute)"] + [f"axiom: {a}" for a in axioms] +
                        list(getattr(mod, "TRUSTED", [])),
        "obligation_names": names,
        "evaluations": res.evaluations,
        "distinct_nontrivial": len(res.distinct),
        "rule": getattr(mod, "RULE", ""),
        "samples": common.jsonable(res.samples) or [{"note": "no sample recorded"}],
        "traces_validated_against_impl": res.traces,
        "input_distribution": res.dist,
        "tested_not_proved": list(getattr(mod, "TESTED_NOT_PROVED", [])) + res.tested_not_proved,
        "notes": res.notes,
        "props_compile_s": round(ptime, 1),
    }
    cov.update(common.jsonable(res.extra))
    # which of the /repo functions the models mirror have changed since the models were written (fingerprints in harness/anchors.json,
    # tools/mkanchors.py): informative only - whether model and code still agree is decided by the correspondence above
    try:
        sys.path.insert(0, os.path.join(os.path.dirname(os.path.abspath(__file__)), "..", "tools"))
        import mkanchors
        base = json.load(open(os.path.join(os.path.dirname(os.path.abspath(__file__)), "anchors.json")))
        cur = mkanchors.current()
        changed = sorted(f"{m}: {sp}" for m, d in base.items() for sp, h in d.items() if cur.get(m, {}).get(sp) != h)
        cov["modelled_source"] = {"functions_fingerprinted": sum(len(d) for d in base.values()), "changed_since_the_models_were_written": changed}
        if changed:
            lines.append(f"note: {len(changed)} modelled function(s) of /repo differ from the source the models were written against: " + "; ".join(changed[:4]))
    except Exception as ex:  # noqa
        cov["modelled_source"] = {"error": repr(ex)[:200]}
    ev = {"property_id": pid, "tier": tier, "seed": int(seed), "level": "proof", "coverage": cov,
          "assumptions": list(getattr(mod, "ASSUMPTIONS", [])), "wall_s": round(wall, 2), "violations": violations}
    evdir = common.EVID if not os.environ.get("VERIF_NO_EVIDENCE") else os.path.join(common.WORK, "evidence_scratch")
    os.makedirs(evdir, exist_ok=True)
    with open(os.path.join(evdir, f"{pid}.json"), "w") as f:
        json.dump(ev, f, indent=1)
    for ln in lines:
        print(ln)
    print(f"{pid} tier={tier} seed={seed}: obligations {cov['discharged']}/{cov['obligations']}, "
          f"evaluations {res.evaluations}, distinct {len(res.distinct)}, traces {res.traces}, "
          f"violations {violations}, {wall:.1f}s")
    for n in res.notes[:10]:
        print("  note:", n)
    return 1 if violations else 0


def main():
    ap = argparse.ArgumentParser()
    ap.add_argument("pid", nargs="?")
    ap.add_argument("--tier", default=os.environ.get("VERIF_TIER", "quick"))
    ap.add_argument("--replay")
    ap.add_argument("--setup", action="store_true")
    ap.add_argument("--all", action="store_true")
    a = ap.parse_args()
    seed = int(os.environ.get("VERIF_SEED", "20261001"))
    if a.setup:
        sys.exit(setup())
    if a.all:
        rc = 0
        for p in ALL:
            if os.path.exists(os.path.join(HERE, "props", f"{p.lower()}.py")):
                rc |= run_check(p, a.tier, seed)
        sys.exit(rc)
    sys.exit(run_check(a.pid.upper(), a.tier, seed, a.replay))


if __name__ == "__main__":
    main()
