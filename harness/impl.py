"""Drive the implementation in /repo's working tree."""
import os
import sys
import io
import contextlib
import warnings

REPO = os.environ.get("VERIF_REPO", "/repo")
if REPO not in sys.path:
    sys.path.insert(0, REPO)
os.environ.setdefault("FORSYS_VERIF", "1")

with contextlib.redirect_stdout(io.StringIO()):
    import numpy as np  # noqa
    import forsys as fs  # noqa
    import forsys.vertex as fvertex
    import forsys.edge as fedge
    import forsys.cell as fcell
    import forsys.frames as fframes
    import forsys.virtual_edges as ve
    import forsys.fmatrix as fmatrix
    import forsys.pmatrix as pmatrix

assert os.path.realpath(os.path.dirname(fs.__file__)) == os.path.realpath(os.path.join(REPO, "forsys")), fs.__file__


@contextlib.contextmanager
def quiet():
    buf = io.StringIO()
    with contextlib.redirect_stdout(buf), warnings.catch_warnings():
        warnings.simplefilter("ignore")
        yield buf


def build(spec, center_method="none"):
    """spec -> (vertices, edges, cells) dictionaries of forsys objects, in spec order.
    center_method 'none' makes Cell.__post_init__ use the plain centroid (cheap)."""
    vertices, edges, cells = {}, {}, {}
    for vid, x, y in spec["vertices"]:
        vertices[vid] = fvertex.Vertex(vid, x, y)
    for eid, a, b in spec["edges"]:
        edges[eid] = fedge.SmallEdge(eid, vertices[a], vertices[b])
    for cid, vids in spec["cells"]:
        cells[cid] = fcell.Cell(cid, [vertices[v] for v in vids], center_method=center_method)
    return vertices, edges, cells


def frame(spec, fid=0, time=0.0, gt=False):
    v, e, c = build(spec)
    with quiet():
        fr = fframes.Frame(fid, v, e, c, time=time, gt=gt)
    return fr


def forsys_of(frames, **kw):
    with quiet():
        return fs.ForSys(frames, **kw)


def snapshot(vertices, edges, cells):
    """value snapshot of the three dictionaries (ids and list orders as stored)"""
    return {
        "vertices": [[k, v.id, v.x, v.y, list(v.ownEdges), list(v.ownCells)] for k, v in vertices.items()],
        "edges": [[k, e.id, e.v1.id, e.v2.id] for k, e in edges.items()],
        "cells": [[k, c.id, [w.id for w in c.vertices]] for k, c in cells.items()],
    }


def consistency_errors(vertices, edges, cells, limit=5):
    """the five clauses of C09, evaluated on implementation objects (forsys-independent logic)"""
    errs = []

    def add(msg):
        if len(errs) < limit:
            errs.append(msg)
    for k, v in vertices.items():
        if k != v.id:
            add(f"vertex key {k} != id {v.id}")
        if len(set(v.ownEdges)) != len(v.ownEdges):
            add(f"vertex {k} lists an edge twice {v.ownEdges}")
        if len(set(v.ownCells)) != len(v.ownCells):
            add(f"vertex {k} lists a cell twice {v.ownCells}")
        for eid in v.ownEdges:
            if eid not in edges:
                add(f"vertex {k} lists missing edge {eid}")
            elif edges[eid].v1 is not v and edges[eid].v2 is not v:
                add(f"vertex {k} lists edge {eid} which does not end at it")
        for cid in v.ownCells:
            if cid not in cells:
                add(f"vertex {k} lists missing cell {cid}")
            elif not any(w is v for w in cells[cid].vertices):
                add(f"vertex {k} lists cell {cid} which does not contain it")
    for k, e in edges.items():
        if k != e.id:
            add(f"edge key {k} != id {e.id}")
        for w in (e.v1, e.v2):
            if vertices.get(w.id) is not w:
                add(f"edge {k} references vertex {w.id} not stored (same object) in vertices")
            elif k not in w.ownEdges:
                add(f"edge {k} ends at vertex {w.id} which does not list it")
        if e.v1.id == e.v2.id:
            add(f"edge {k} is a loop")
        if list(e.verticesArray) != [e.v1, e.v2] or e.verticesArray[0] is not e.v1 or e.verticesArray[1] is not e.v2:
            add(f"edge {k} verticesArray out of sync")
    for k, c in cells.items():
        if k != c.id:
            add(f"cell key {k} != id {c.id}")
        ids = [w.id for w in c.vertices]
        if len(set(ids)) != len(ids):
            add(f"cell {k} repeats a vertex {ids}")
        for w in c.vertices:
            if vertices.get(w.id) is not w:
                add(f"cell {k} references vertex {w.id} not stored (same object)")
            elif k not in w.ownCells:
                add(f"cell {k} contains vertex {w.id} which does not list it")
        n = len(c.vertices)
        for i in range(n):
            a, b = c.vertices[i], c.vertices[(i + 1) % n]
            if n > 1 and not (set(a.ownEdges) & set(b.ownEdges)):
                add(f"cell {k}: consecutive vertices {a.id},{b.id} share no mesh edge")
    return errs


def iface_key(be):
    """unordered pair of cells an interface separates (internal interfaces)"""
    return tuple(sorted(be.own_cells))


# ---------------------------------------------------------------- mesh -> Coq literals
def mesh_literals(vertices, cells):
    """Coq definitions describing the mesh bookkeeping the decomposition reads"""
    import common as C
    juncs = [k for k, v in vertices.items() if len(v.ownEdges) > 2]
    nc = "[" + "; ".join(f"({C.zlit(k)}, {len(v.ownCells)})" for k, v in vertices.items()) + "]"
    oc = "[" + "; ".join(f"({C.zlit(k)}, {C.zlist(v.ownCells)})" for k, v in vertices.items()) + "]"
    oe = "[" + "; ".join(f"({C.zlit(k)}, {C.zlist(v.ownEdges)})" for k, v in vertices.items()) + "]"
    cl = "[" + "; ".join(f"({C.zlit(k)}, {C.zlist([w.id for w in c.vertices])})" for k, c in cells.items()) + "]"
    return {"juncs": C.zlist(juncs), "ncells": nc, "own_cells": oc, "own_edges": oe, "cells": cl}


MESH_LET = ("let junc := fun v => memZ v {juncs} in let ncells := assoc_def 0 {ncells} in "
            "let ownc := assoc_def [] {own_cells} in let owne := assoc_def [] {own_edges} in let cells := {cells} in ")


# ---------------------------------------------------------------- solver capture (no source hook: proxies in this process)
class _Recorder:
    def __init__(self):
        self.calls = []   # dicts: {"solver": name, "A": ndarray, "b": ndarray, "x": ndarray or None, "error": str or None}


class _ScopProxy:
    def __init__(self, real, rec):
        self._real, self._rec = real, rec

    def __getattr__(self, k):
        return getattr(self._real, k)

    def nnls(self, A, b, *a, **kw):
        try:
            r = self._real.nnls(A, b, *a, **kw)
        except Exception as ex:
            self._rec.calls.append({"solver": "nnls", "A": np.array(A, dtype=float), "b": np.array(b, dtype=float), "x": None, "error": repr(ex)})
            raise
        self._rec.calls.append({"solver": "nnls", "A": np.array(A, dtype=float), "b": np.array(b, dtype=float), "x": np.array(r[0], dtype=float), "error": None})
        return r

    def lsq_linear(self, A, b, *a, **kw):
        try:
            r = self._real.lsq_linear(A, b, *a, **kw)
        except Exception as ex:
            self._rec.calls.append({"solver": "lsq_linear", "A": np.array(A, dtype=float), "b": np.array(b, dtype=float), "x": None, "error": repr(ex)})
            raise
        self._rec.calls.append({"solver": "lsq_linear", "A": np.array(A, dtype=float), "b": np.array(b, dtype=float), "x": np.array(r["x"], dtype=float), "error": None})
        return r


class _LinalgProxy:
    def __init__(self, real, rec):
        self._real, self._rec = real, rec

    def __getattr__(self, k):
        return getattr(self._real, k)

    def inv(self, A):
        try:
            r = self._real.inv(A)
        except Exception as ex:
            self._rec.calls.append({"solver": "inv", "A": np.array(A, dtype=float), "b": None, "x": None, "error": type(ex).__name__})
            raise
        self._rec.calls.append({"solver": "inv", "A": np.array(A, dtype=float), "b": None, "x": None, "inv": r, "error": None})
        return r


class _NpProxy:
    def __init__(self, real, rec):
        self._real = real
        self.linalg = _LinalgProxy(real.linalg, rec)

    def __getattr__(self, k):
        return getattr(self._real, k)


@contextlib.contextmanager
def capture_solvers():
    """record every call ForceMatrix.solve makes to scipy.optimize.nnls / lsq_linear, numpy.linalg.inv and lmfit.minimize"""
    rec = _Recorder()
    old_scop, old_np = fmatrix.scop, fmatrix.np
    fmatrix.scop = _ScopProxy(old_scop, rec)
    fmatrix.np = _NpProxy(old_np, rec)
    try:
        import lmfit
        old_min = lmfit.minimize

        def minimize(fcn, params, args=(), **kw):
            try:
                sol = old_min(fcn, params, args=args, **kw)
            except Exception as ex:
                rec.calls.append({"solver": "lmfit", "A": np.array(args[0], dtype=float), "b": np.array(args[1], dtype=float), "x": None, "error": repr(ex)[:200]})
                raise
            rec.calls.append({"solver": "lmfit", "A": np.array(args[0], dtype=float), "b": np.array(args[1], dtype=float),
                              "x": np.array([sol.params[n].value for n in sol.params], dtype=float), "error": None})
            return sol
        lmfit.minimize = minimize
    except ImportError:
        lmfit = None
    try:
        yield rec
    finally:
        fmatrix.scop, fmatrix.np = old_scop, old_np
        if lmfit is not None:
            lmfit.minimize = old_min


def pressure_connected(fr):
    """do the internal interfaces link all cells that have one into a single group?  (only then are the pressures determined: theorem
    C04_connected_pressures_are_the_zero_sum_least_squares; otherwise the bordered pressure matrix is singular)"""
    adj = {}
    for be in fr.internal_big_edges:
        if len(be.own_cells) == 2:
            a_, b_ = be.own_cells
            adj.setdefault(a_, set()).add(b_)
            adj.setdefault(b_, set()).add(a_)
    if not adj:
        return False
    start = next(iter(adj))
    seen, stack = {start}, [start]
    while stack:
        u_ = stack.pop()
        for w_ in adj[u_]:
            if w_ not in seen:
                seen.add(w_)
                stack.append(w_)
    return seen == set(adj)
