"""Shared plumbing: paths, Coq build / case evaluation, evidence, verdicts, known findings."""
import json
import os
import re
import shutil
import subprocess
import sys
import time
from fractions import Fraction

VERIF = os.path.dirname(os.path.dirname(os.path.abspath(__file__)))
COQ = os.path.join(VERIF, "coq")
WORK = os.path.join(VERIF, ".work")
EVID = os.path.join(VERIF, "evidence")
REPLAYS = os.path.join(VERIF, ".work", "replays")
KNOWN = os.path.join(VERIF, "known_findings.json")
NPROC = min(16, os.cpu_count() or 4)

FORBIDDEN = re.compile(r"\b(Admitted|admit|Axiom|Axioms|Parameter|Parameters|Conjecture|Conjectures|"
                       r"Unset\s+Guard|bypass_check|Admit\s+Obligations|type-in-type|impredicative-set)\b")


def sh(cmd, timeout=600, cwd=None, env=None):
    p = subprocess.run(cmd, shell=isinstance(cmd, str), cwd=cwd, env=env, timeout=timeout,
                       stdout=subprocess.PIPE, stderr=subprocess.STDOUT, text=True)
    return p.returncode, p.stdout


def forbidden_scan():
    """grep the development for declarations that would add to the trusted base"""
    hits = []
    for root, _, files in os.walk(COQ):
        for fn in files:
            if fn.endswith(".v"):
                path = os.path.join(root, fn)
                txt = open(path).read()
                # strip comments (non-nested is enough for our files)
                txt2 = re.sub(r"\(\*.*?\*\)", lambda m: " " * len(m.group(0)), txt, flags=re.S)
                for m in FORBIDDEN.finditer(txt2):
                    hits.append(f"{os.path.relpath(path, VERIF)}: {m.group(0)}")
                for m in re.finditer(r"^\s*(Variable|Variables|Hypothesis|Hypotheses|Context)\b", txt2, flags=re.M):
                    # allowed only inside a Section: check that a Section is open at that point
                    before = txt2[:m.start()]
                    opened = len(re.findall(r"^\s*Section\s+\w+", before, flags=re.M))
                    closed = len(re.findall(r"^\s*End\s+\w+\s*\.", before, flags=re.M))
                    mods = len(re.findall(r"^\s*Module\s+(Type\s+)?\w+", before, flags=re.M))
                    if opened - (closed - mods) <= 0:
                        hits.append(f"{os.path.relpath(path, VERIF)}: {m.group(1)} outside a Section")
    return hits


def coq_build(log=None):
    """full .vo build of Model/ and Proofs/ (incremental).  returns (ok, output)"""
    if not os.path.exists(os.path.join(COQ, "Makefile")) or \
            os.path.getmtime(os.path.join(COQ, "Makefile")) < os.path.getmtime(os.path.join(COQ, "_CoqProject")):
        rc, out = sh("coq_makefile -f _CoqProject -o Makefile", cwd=COQ)
        if rc != 0:
            return False, out
    rc, out = sh(f"timeout 1500 make -j{NPROC}", cwd=COQ, timeout=1600)
    return rc == 0, out


def props_compile(pid):
    """compile Props/<pid>.v now; returns (ok, obligations, axioms, output)"""
    src = os.path.join(COQ, "Props", f"{pid}.v")
    txt = open(src).read()
    txt_nc = re.sub(r"\(\*.*?\*\)", "", txt, flags=re.S)
    names = re.findall(r"^\s*(?:Theorem|Lemma|Example|Corollary)\s+(\w+)", txt_nc, flags=re.M)
    t0 = time.time()
    rc, out = sh(f"timeout 900 coqc -Q . Forsys Props/{pid}.v", cwd=COQ, timeout=1000)
    axioms = set()
    closed = 0
    for blk in re.split(r"(?=^Axioms:|^Closed under the global context)", out, flags=re.M):
        if blk.startswith("Closed under"):
            closed += 1
        elif blk.startswith("Axioms:"):
            for m in re.finditer(r"^([A-Za-z_][\w\.]*)\s*(?::|$)", blk[len("Axioms:"):], flags=re.M):
                axioms.add(m.group(1))
    return rc == 0, names, sorted(axioms), out, time.time() - t0


# ------------------------------------------------------------------ literals
def qlit(x):
    """exact rational literal of a float / int / Fraction"""
    f = Fraction(x)
    return f"({f.numerator} # {f.denominator})"


def zlit(n):
    n = int(n)
    return f"({n})" if n < 0 else str(n)


def flit(x):
    """PrimFloat hexadecimal literal"""
    x = float(x)
    if x != x:
        return "nan"
    if x in (float("inf"), float("-inf")):
        return "infinity" if x > 0 else "neg_infinity"
    h = x.hex()
    if h.startswith("-"):
        return f"(-{h[1:]})%float"
    return f"({h})%float"


def zlist(l):
    return "[" + "; ".join(zlit(x) for x in l) + "]"


def zlistlist(ll):
    return "[" + "; ".join(zlist(l) for l in ll) + "]"


def qpair(p):
    return f"({qlit(p[0])}, {qlit(p[1])})"


def qplist(l):
    return "[" + "; ".join(qpair(p) for p in l) + "]"


def blist(bs):
    return "[" + "; ".join("true" if b else "false" for b in bs) + "]"


def blit(b):
    return "true" if b else "false"


# ------------------------------------------------------------------ cases.v evaluation
HEADER = """From Coq Require Import ZArith QArith Qabs List Bool.
From Coq Require Import PrimFloat.
Import ListNotations.
Open Scope Z_scope.
Set Printing Width 1000000.
Set Printing Depth 1000000.
"""


def coq_eval_bools(name, imports, exprs, chunk=150, extra_defs="", timeout=900):
    """exprs: list of Coq terms of type bool.  Evaluates them with vm_compute in parallel coqc runs.
    returns list of True/False/None (None = the chunk failed to compile/evaluate) and the raw outputs."""
    d = os.path.join(WORK, "cases", name)
    shutil.rmtree(d, ignore_errors=True)
    os.makedirs(d, exist_ok=True)
    files = []
    for ci in range(0, len(exprs), chunk):
        part = exprs[ci:ci + chunk]
        fn = os.path.join(d, f"c{ci // chunk}.v")
        with open(fn, "w") as f:
            f.write(HEADER)
            f.write(imports + "\n")
            f.write(extra_defs + "\n")
            for k, e in enumerate(part):
                f.write(f"Definition case_{k} : bool := {e}.\n")
            f.write("Definition results : list nat := map (fun b : bool => if b then 1%nat else 0%nat) [" +
                    "; ".join(f"case_{k}" for k in range(len(part))) + "].\n")
            f.write("Eval vm_compute in results.\n")
        files.append((fn, len(part)))
    procs = []
    outs = [None] * len(files)
    results = []
    running = []
    idx = 0
    while idx < len(files) or running:
        while idx < len(files) and len(running) < NPROC:
            fn, _ = files[idx]
            p = subprocess.Popen(f"ulimit -s unlimited 2>/dev/null; timeout {timeout} coqc -Q {COQ} Forsys {fn}", shell=True,
                                 stdout=subprocess.PIPE, stderr=subprocess.STDOUT, text=True, cwd=d)
            running.append((idx, p))
            idx += 1
        i, p = running.pop(0)
        out, _ = p.communicate()
        outs[i] = (p.returncode, out)
    for (fn, n), (rc, out) in zip(files, outs):
        m = re.search(r"=\s*\[([0-9;\s]*)\]\s*:\s*list nat", out.replace("%nat", ""))
        if rc != 0 or not m:
            results.extend([None] * n)
        else:
            vals = [v.strip() for v in m.group(1).split(";") if v.strip()]
            if len(vals) != n:
                results.extend([None] * n)
            else:
                results.extend([v == "1" for v in vals])
    return results, outs


def coq_eval_terms(name, imports, exprs, extra_defs="", timeout=600):
    """evaluate arbitrary terms and return Coq's printed values (for replay details; small counts only)"""
    d = os.path.join(WORK, "cases", name)
    os.makedirs(d, exist_ok=True)
    fn = os.path.join(d, "detail.v")
    with open(fn, "w") as f:
        f.write(HEADER + imports + "\n" + extra_defs + "\n")
        for k, e in enumerate(exprs):
            f.write(f'Eval vm_compute in ({k}%nat, {e}).\n')
    rc, out = sh(f"ulimit -s unlimited 2>/dev/null; timeout {timeout} coqc -Q {COQ} Forsys {fn}", cwd=d, timeout=timeout + 30)
    return rc, out


# ------------------------------------------------------------------ results
class Result:
    def __init__(self, pid):
        self.pid = pid
        self.evaluations = 0
        self.distinct = set()
        self.samples = []
        self.traces = 0
        self.failures = []       # dicts: kind ('oracle'|'correspondence'|'proof'), what, replay (json-able), tag
        self.notes = []
        self.dist = {}
        self.tested_not_proved = []
        self.extra = {}

    def count(self, key, n=1):
        self.dist[key] = self.dist.get(key, 0) + n

    def case(self, fingerprint, nontrivial=True):
        self.evaluations += 1
        if nontrivial:
            self.distinct.add(fingerprint)

    def sample(self, s, limit=3):
        if len(self.samples) < limit:
            self.samples.append(s)

    def fail(self, kind, what, replay, tag=None):
        self.failures.append({"kind": kind, "what": what, "replay": replay, "tag": tag})


def load_known():
    if not os.path.exists(KNOWN):
        return []
    return json.load(open(KNOWN))["findings"]


def write_replay(pid, idx, obj):
    os.makedirs(REPLAYS, exist_ok=True)
    path = os.path.join(REPLAYS, f"{pid}_{idx}.json")
    with open(path, "w") as f:
        json.dump(obj, f, indent=1, default=str)
    return path


def jsonable(o):
    try:
        json.dumps(o)
        return o
    except TypeError:
        return json.loads(json.dumps(o, default=str))
