"""Tissue generators (forsys-independent).  A *spec* is a plain dict

    {"vertices": [[vid, x, y], ...],        # insertion order
     "edges":    [[eid, v1, v2], ...],
     "cells":    [[cid, [vid, ...]], ...],  # insertion (= construction) order
     "ifaces":   [{"pts": [vid,...], "cells": [c1, c2 or None], "T": float,
                   "tan0": [tx,ty], "tan1": [tx,ty]}, ...],   # ground truth
     "meta": {...}}

All randomness comes from the numpy Generator handed in.
"""
import math
import numpy as np
from scipy.spatial import Voronoi


# --------------------------------------------------------------------------- sites
def random_sites(rng, n, box=100.0):
    return rng.uniform(0.0, box, size=(n, 2))


def jittered_sites(rng, k, box=100.0, jitter=0.3, kind="square"):
    h = box / k
    pts = []
    for i in range(k):
        for j in range(k):
            x = (i + 0.5) * h
            y = (j + 0.5) * h
            if kind == "hex" and j % 2 == 1:
                x += 0.5 * h
            if kind == "brick" and j % 2 == 1:
                x += 0.5 * h
            pts.append((x + rng.uniform(-jitter, jitter) * h, y + rng.uniform(-jitter, jitter) * h))
    return np.array(pts)


def exact_sites(k, box=64.0, kind="square"):
    """exactly representable lattices (binary fractions)"""
    h = box / k
    pts = []
    for i in range(k):
        for j in range(k):
            x = (i + 0.5) * h
            y = (j + 0.5) * h
            if kind == "brick" and j % 2 == 1:
                x += 0.5 * h
            pts.append((x, y))
    return np.array(pts)


# --------------------------------------------------------------------------- Voronoi skeleton
def voronoi_cells(sites, box=None, margin=0.0):
    """Bounded Voronoi regions whose corners all lie inside the box.
    returns (corner coordinates, list of (site index, [corner ids] CCW))"""
    vor = Voronoi(sites)
    if box is None:
        lo = sites.min(axis=0) - margin
        hi = sites.max(axis=0) + margin
    else:
        lo = np.array([0.0 - margin, 0.0 - margin])
        hi = np.array([box + margin, box + margin])
    cells = []
    for si, ri in enumerate(vor.point_region):
        reg = vor.regions[ri]
        if len(reg) < 3 or -1 in reg:
            continue
        P = vor.vertices[reg]
        if np.any(P < lo) or np.any(P > hi):
            continue
        # orientation: make CCW (y up)
        a = 0.0
        for k in range(len(reg)):
            x0, y0 = P[k]
            x1, y1 = P[(k + 1) % len(reg)]
            a += x0 * y1 - x1 * y0
        cyc = list(reg) if a > 0 else list(reg)[::-1]
        cells.append((si, cyc))
    return vor.vertices, cells


def largest_component(cells):
    """keep the largest set of cells connected through shared ridges"""
    ridge_owner = {}
    for idx, (_, cyc) in enumerate(cells):
        for k in range(len(cyc)):
            key = frozenset((cyc[k], cyc[(k + 1) % len(cyc)]))
            ridge_owner.setdefault(key, []).append(idx)
    adj = {i: set() for i in range(len(cells))}
    for own in ridge_owner.values():
        if len(own) == 2:
            adj[own[0]].add(own[1])
            adj[own[1]].add(own[0])
    seen, best = set(), []
    for s in range(len(cells)):
        if s in seen:
            continue
        comp, st = [], [s]
        seen.add(s)
        while st:
            u = st.pop()
            comp.append(u)
            for w in adj[u]:
                if w not in seen:
                    seen.add(w)
                    st.append(w)
        if len(comp) > len(best):
            best = comp
    best = sorted(best)
    return [cells[i] for i in best]


def mobius(params):
    a, b, c, d = params

    def f(z):
        return (a * z + b) / (c * z + d)

    def df(z):
        return (a * d - b * c) / (c * z + d) ** 2

    return f, df


def random_mobius(rng, box=100.0, strength=1.0):
    """pole at distance >= 1.5 box from the tissue centre; strength 0 -> identity"""
    if strength <= 0:
        return (1.0 + 0j, 0j, 0j, 1.0 + 0j)
    ang = rng.uniform(0, 2 * math.pi)
    dist = box * rng.uniform(1.5, 6.0) / strength
    pole = complex(box / 2, box / 2) + dist * complex(math.cos(ang), math.sin(ang))
    # f(z) = z / (1 - z/pole) shifted so that it is ~identity near the centre
    c = -1.0 / pole
    return (1.0 + 0j, 0j, c, 1.0 + 0j)


def build_spec(corners, cells, sites, npts=0, rng=None, mob=None, npts_range=None,
               snap=None, transform=None):
    """corners: array of Voronoi corner coordinates, cells: [(site, [corner ids])]
    npts interior points per ridge (or per-ridge random in npts_range);
    mob: Moebius parameters; snap: number of fractional bits for dyadic snapping;
    transform: function complex->complex applied last (similarity)."""
    f, df = mobius(mob) if mob is not None else ((lambda z: z), (lambda z: 1.0 + 0j))
    vid_of_corner = {}
    verts = []  # [vid, x, y]
    pos = {}

    def fin(z):
        if transform is not None:
            z = transform(z)
        x, y = z.real, z.imag
        if snap is not None:
            s = float(2 ** snap)
            x = round(x * s) / s
            y = round(y * s) / s
        return x, y

    def new_vertex(z):
        vid = len(verts)
        x, y = fin(z)
        verts.append([vid, x, y])
        pos[vid] = (x, y)
        return vid

    ridge_pts = {}   # (a,b) with a<b  -> list of vids from a to b (inclusive)
    ridge_cells = {}
    ifaces = []
    cell_cycles = []
    edges = []
    edge_seen = {}
    for cid, (si, cyc) in enumerate(cells):
        vids = []
        n = len(cyc)
        for k in range(n):
            a, b = cyc[k], cyc[(k + 1) % n]
            key = (min(a, b), max(a, b))
            if key not in ridge_pts:
                for cnr in key:
                    if cnr not in vid_of_corner:
                        vid_of_corner[cnr] = new_vertex(f(complex(*corners[cnr])))
                za, zb = complex(*corners[key[0]]), complex(*corners[key[1]])
                m = npts if npts_range is None else int(rng.integers(npts_range[0], npts_range[1] + 1))
                pts = [vid_of_corner[key[0]]]
                for j in range(1, m + 1):
                    t = j / (m + 1)
                    pts.append(new_vertex(f(za + t * (zb - za))))
                pts.append(vid_of_corner[key[1]])
                ridge_pts[key] = pts
                ridge_cells[key] = []
            ridge_cells[key].append(cid)
            pts = ridge_pts[key]
            seq = pts if a == key[0] else pts[::-1]
            vids.extend(seq[:-1])
        cell_cycles.append([cid, vids])
    for key, pts in ridge_pts.items():
        for j in range(len(pts) - 1):
            edges.append([len(edges), pts[j], pts[j + 1]])
    # ground truth per ridge
    site_of_cell = {cid: si for cid, (si, _) in enumerate(cells)}
    # ridge -> the two sites: find from Voronoi geometry: use cells; for the outer side tension
    # is still |s_i - s_j| but we only need it for internal ridges
    for key, pts in ridge_pts.items():
        own = ridge_cells[key]
        za, zb = complex(*corners[key[0]]), complex(*corners[key[1]])
        T = None
        if len(own) == 2:
            s0 = sites[site_of_cell[own[0]]]
            s1 = sites[site_of_cell[own[1]]]
            T = float(np.hypot(*(s0 - s1)))
        t0 = df(za) * (zb - za)
        t1 = df(zb) * (za - zb)
        t0 /= abs(t0)
        t1 /= abs(t1)
        ifaces.append({"pts": pts, "cells": own, "T": T,
                       "tan0": [t0.real, t0.imag], "tan1": [t1.real, t1.imag]})
    return {"vertices": verts, "edges": edges, "cells": cell_cycles, "ifaces": ifaces,
            "meta": {"npts": npts, "mobius": None if mob is None else [str(p) for p in mob],
                     "snap": snap, "ncells": len(cells)}}


def voronoi_tissue(rng, n=30, box=100.0, npts=3, npts_range=None, mob_strength=0.0, snap=None,
                   sites=None, transform=None, margin=0.0):
    given = sites is not None
    for _ in range(50):
        if not given:
            sites = random_sites(rng, n, box)
        corners, cells = voronoi_cells(sites, box=box, margin=margin)
        cells = largest_component(cells)
        if cells or given:
            break                     # a handful of random sites may have no bounded region inside the box: draw again
    mob = random_mobius(rng, box, mob_strength) if mob_strength > 0 else None
    spec = build_spec(corners, cells, sites, npts=npts, rng=rng, mob=mob, npts_range=npts_range,
                      snap=snap, transform=transform)
    spec["meta"]["sites"] = sites.tolist()
    return spec


# --------------------------------------------------------------------------- spec surgery
def sub_tissue(spec, keep_cells):
    """restrict a spec to a subset of its cells (ids kept)"""
    keep = set(keep_cells)
    cells = [[cid, list(v)] for cid, v in spec["cells"] if cid in keep]
    used = set()
    for _, v in cells:
        used.update(v)
    # an edge survives if it is a consecutive pair of some kept cell
    pairs = set()
    for _, v in cells:
        for k in range(len(v)):
            pairs.add(frozenset((v[k], v[(k + 1) % len(v)])))
    edges = [[eid, a, b] for eid, a, b in spec["edges"] if frozenset((a, b)) in pairs]
    verts = [[vid, x, y] for vid, x, y in spec["vertices"] if vid in used]
    ifaces = []
    for it in spec.get("ifaces", []):
        own = [c for c in it["cells"] if c in keep]
        if not own:
            continue
        d = dict(it)
        d["cells"] = own
        if len(own) < 2:
            d["T"] = None
        ifaces.append(d)
    return {"vertices": verts, "edges": edges, "cells": cells, "ifaces": ifaces,
            "meta": dict(spec.get("meta", {}), sub=sorted(keep))}


def cell_adjacency(spec):
    owner = {}
    for cid, v in spec["cells"]:
        for k in range(len(v)):
            owner.setdefault(frozenset((v[k], v[(k + 1) % len(v)])), set()).add(cid)
    adj = {cid: set() for cid, _ in spec["cells"]}
    for s in owner.values():
        if len(s) == 2:
            a, b = tuple(s)
            adj[a].add(b)
            adj[b].add(a)
    return adj


def connected_subsets(spec, rng, count, min_cells=1):
    """random connected cell subsets (grown from a seed cell)"""
    adj = cell_adjacency(spec)
    ids = [cid for cid, _ in spec["cells"]]
    out = []
    if not ids:
        return [[] for _ in range(count)]
    for _ in range(count):
        size = int(rng.integers(min(min_cells, len(ids)), len(ids) + 1))
        start = ids[int(rng.integers(0, len(ids)))]
        cur = {start}
        frontier = set(adj[start])
        while len(cur) < size and frontier:
            nxt = sorted(frontier)[int(rng.integers(0, len(frontier)))]
            cur.add(nxt)
            frontier |= adj[nxt]
            frontier -= cur
        out.append(sorted(cur))
    return out


def is_connected(spec, subset):
    adj = cell_adjacency(spec)
    subset = set(subset)
    if not subset:
        return False
    s = next(iter(subset))
    seen = {s}
    st = [s]
    while st:
        u = st.pop()
        for w in adj[u]:
            if w in subset and w not in seen:
                seen.add(w)
                st.append(w)
    return seen == subset


def relabel(spec, rng, vertices=True, edges=True, cells=True, gaps=True, shift=True, flip=0.0,
            shuffle_edge_order=True, shuffle_vertex_order=True):
    """random relabelling: id permutations (with gaps), cyclic shifts, orientation flips of a
    random subset of cells (probability flip per cell).  Cells keep their insertion order."""
    def perm(ids):
        ids = list(ids)
        n = len(ids)
        pool = rng.permutation(n * 3 if gaps else n)[:n]
        return {i: int(p) + (1 if gaps else 0) for i, p in zip(ids, pool)}
    vmap = perm([v[0] for v in spec["vertices"]]) if vertices else {v[0]: v[0] for v in spec["vertices"]}
    emap = perm([e[0] for e in spec["edges"]]) if edges else {e[0]: e[0] for e in spec["edges"]}
    cmap = perm([c[0] for c in spec["cells"]]) if cells else {c[0]: c[0] for c in spec["cells"]}
    verts = [[vmap[i], x, y] for i, x, y in spec["vertices"]]
    if shuffle_vertex_order:
        verts = [verts[i] for i in rng.permutation(len(verts))]
    eds = [[emap[i], vmap[a], vmap[b]] if rng.random() < 0.5 else [emap[i], vmap[b], vmap[a]]
           for i, a, b in spec["edges"]]
    if shuffle_edge_order:
        eds = [eds[i] for i in rng.permutation(len(eds))]
    cls = []
    flipped = []
    for cid, v in spec["cells"]:
        w = [vmap[i] for i in v]
        if shift:
            k = int(rng.integers(0, len(w)))
            w = w[k:] + w[:k]
        if rng.random() < flip:
            w = w[::-1]
            flipped.append(cmap[cid])
        cls.append([cmap[cid], w])
    ifaces = []
    for it in spec.get("ifaces", []):
        d = dict(it)
        d["pts"] = [vmap[i] for i in it["pts"]]
        d["cells"] = [cmap[c] for c in it["cells"]]
        ifaces.append(d)
    return {"vertices": verts, "edges": eds, "cells": cls, "ifaces": ifaces,
            "meta": dict(spec.get("meta", {}), relabelled=True, flipped=flipped),
            "maps": {"v": vmap, "e": emap, "c": cmap}}


def transform_spec(spec, fun):
    """apply fun(x,y)->(x,y) to every vertex"""
    out = dict(spec)
    out["vertices"] = [[i, *fun(x, y)] for i, x, y in spec["vertices"]]
    return out


def similarity(spec, scale=1.0, theta=0.0, reflect=False, tx=0.0, ty=0.0):
    """p -> scale * R(theta) * (reflect? conj p : p) + t ; tangents mapped by the linear part"""
    c, s_ = math.cos(theta), math.sin(theta)

    def lin(x, y):
        if reflect:
            y = -y
        return (c * x - s_ * y, s_ * x + c * y)

    out = dict(spec)
    out["vertices"] = [[i, scale * lin(x, y)[0] + tx, scale * lin(x, y)[1] + ty] for i, x, y in spec["vertices"]]
    ifs = []
    for it in spec.get("ifaces", []):
        d = dict(it)
        d["tan0"] = list(lin(*it["tan0"]))
        d["tan1"] = list(lin(*it["tan1"]))
        ifs.append(d)
    out["ifaces"] = ifs
    out["meta"] = dict(spec.get("meta", {}), similarity=[scale, theta, reflect, tx, ty])
    return out


def align_first_segment(spec, rng):
    """turn the tissue so that, at one end of one interface with >= 3 points, the first segment is EXACTLY parallel to a coordinate
    axis (the second point gets exactly the junction's ordinate or abscissa; it moves by about one ulp, staying on its arc to 1e-15).
    returns (spec, (junction id, neighbour id)) or (spec, None)"""
    internal = [it for it in spec.get("ifaces", []) if len(it.get("cells", [])) == 2]
    deg = {}
    for it in internal:
        for v in (it["pts"][0], it["pts"][-1]):
            deg[v] = deg.get(v, 0) + 1
    # ends at junctions that get equations (three or more internal interfaces)
    cands = [(it, end) for it in internal if len(it["pts"]) >= 3 for end in (0, 1) if deg[it["pts"][0 if end == 0 else -1]] >= 3]
    if not cands:
        return spec, None
    it, end = cands[int(rng.integers(0, len(cands)))]
    a, b = (it["pts"][0], it["pts"][1]) if end == 0 else (it["pts"][-1], it["pts"][-2])
    t = it["tan0"] if end == 0 else it["tan1"]
    pos = {i: (x, y) for i, x, y in spec["vertices"]}
    ang = math.atan2(pos[b][1] - pos[a][1], pos[b][0] - pos[a][0])
    # component of the tangent across the first segment; the quarter turn is chosen so that the tangent component along the axis on
    # which the segment component vanishes is positive (the sign the code forces there; the other sign is the known finding D1)
    across = -math.sin(ang) * t[0] + math.cos(ang) * t[1]
    if rng.random() < 0.5:
        quarter = 0 if across > 0 else 2
    else:
        quarter = 3 if across > 0 else 1
    out = similarity(spec, 1.0, -ang + quarter * math.pi / 2, False, 0.0, 0.0)
    pos = {i: (x, y) for i, x, y in out["vertices"]}
    fixed = []
    for i, x, y in out["vertices"]:
        if i == b:
            if quarter % 2 == 0:
                y = pos[a][1]
            else:
                x = pos[a][0]
        fixed.append([i, x, y])
    out["vertices"] = fixed
    out["meta"] = dict(out["meta"], aligned=[a, b, quarter])
    return out, (a, b)


def polygon(rng, n, kind="star", snap=8, scale=64.0):
    """simple polygon with n vertices: star-shaped around the origin (possibly non-convex)"""
    angs = np.sort(rng.uniform(0, 2 * math.pi, size=n))
    # make sure angles are distinct enough
    angs = angs + np.arange(n) * 1e-3
    if kind == "convex":
        rad = np.full(n, scale)
    else:
        rad = rng.uniform(0.3 * scale, scale, size=n)
    s = float(2 ** snap)
    pts = []
    for a, r in zip(angs, rad):
        pts.append((round(r * math.cos(a) * s) / s, round(r * math.sin(a) * s) / s))
    return pts


# --------------------------------------------------------------------------- exact lattices
def lattice_cells(nx, ny, kind="square", w=8.0, h=8.0):
    """axis-aligned lattices built directly (not through Qhull).
    square: nx x ny squares (4-fold junctions); brick: rows of w x h bricks, odd rows shifted by w/2
    (T-junctions); mixed: squares with the last row shifted (4-fold junctions below, T-junctions under the last row).  returns (corners array, [(site idx, [corner ids CCW])], sites array)"""
    cid_of = {}
    corners = []

    def corner(x, y):
        key = (x, y)
        if key not in cid_of:
            cid_of[key] = len(corners)
            corners.append([x, y])
        return cid_of[key]

    rects = []
    for j in range(ny):
        off = (w / 2 if (kind == "brick" and j % 2 == 1) or (kind == "mixed" and j == ny - 1) else 0.0)   # mixed: only the last row is shifted
        for i in range(nx):
            rects.append((off + i * w, j * h, off + (i + 1) * w, (j + 1) * h))
    xs_at_y = {}
    for (x0, y0, x1, y1) in rects:
        for y in (y0, y1):
            xs_at_y.setdefault(y, set()).update((x0, x1))
    cells, sites = [], []
    for (x0, y0, x1, y1) in rects:
        bottom = sorted(x for x in xs_at_y[y0] if x0 <= x <= x1)
        top = sorted((x for x in xs_at_y[y1] if x0 <= x <= x1), reverse=True)
        cyc = [corner(x, y0) for x in bottom] + [corner(x, y1) for x in top]
        sites.append(((x0 + x1) / 2, (y0 + y1) / 2))
        cells.append((len(sites) - 1, cyc))
    return np.array(corners), cells, np.array(sites)


def lattice_tissue(nx, ny, kind="square", npts=0, w=8.0, h=8.0, rng=None, theta=0.0, diamond=False):
    corners, cells, sites = lattice_cells(nx, ny, kind, w, h)
    if diamond:
        # exact 45-degree turn (times sqrt 2): (x, y) -> (x - y, x + y); tangents lie exactly on the diagonals
        corners = np.array([[x - y, x + y] for x, y in corners])
        sites = np.array([[x - y, x + y] for x, y in sites])
    spec = build_spec(corners, cells, sites, npts=npts, rng=rng)
    spec["meta"]["lattice"] = [kind, nx, ny]
    if theta:
        spec = similarity(spec, theta=theta)
    return spec


# --------------------------------------------------------------------------- time series
def swap_ids(spec, a, b):
    """exchange two vertex ids everywhere (b may be unused)"""
    m = {a: b, b: a}
    g = lambda i: m.get(i, i)
    out = dict(spec)
    out["vertices"] = [[g(i), x, y] for i, x, y in spec["vertices"]]
    out["edges"] = [[e, g(u), g(w)] for e, u, w in spec["edges"]]
    out["cells"] = [[c, [g(i) for i in v]] for c, v in spec["cells"]]
    out["ifaces"] = [dict(it, pts=[g(i) for i in it["pts"]]) for it in spec.get("ifaces", [])]
    if "maps" in spec:
        out["maps"] = dict(spec["maps"], v={k: g(v) for k, v in spec["maps"]["v"].items()})
    return out


def junction_ids(spec):
    deg = {}
    for _, a, b in spec["edges"]:
        deg[a] = deg.get(a, 0) + 1
        deg[b] = deg.get(b, 0) + 1
    return [v for v, n in deg.items() if n >= 3]


def min_junction_spacing(spec):
    pos = {v[0]: (v[1], v[2]) for v in spec["vertices"]}
    j = junction_ids(spec)
    P = np.array([pos[v] for v in j])
    if len(P) < 2:
        return 1.0
    d = np.sqrt(((P[:, None, :] - P[None, :, :]) ** 2).sum(-1))
    d[d == 0] = np.inf
    return float(d.min())


def series(rng, base, nframes, field="random", amp_frac=0.3, snap=8, renumber=True, times=None, zero_junction=False):
    """frames of one tissue: frame t+1 = frame t displaced by a field whose junction displacement stays below
    amp_frac * (half the smallest junction spacing) and below 8% of the extent.  Every frame is renumbered independently.
    returns (list of specs, list of times, truth) with truth[t][vid at frame t] = vid at frame t+1"""
    pos = {v[0]: np.array([v[1], v[2]], dtype=float) for v in base["vertices"]}
    P = np.array(list(pos.values()))
    extent = float(max(P[:, 0].max() - P[:, 0].min(), P[:, 1].max() - P[:, 1].min()))
    centre = P.mean(axis=0)
    spacing = min_junction_spacing(base)
    amp = min(amp_frac * 0.5 * spacing, 0.05 * extent)
    specs, maps = [], []
    cur = {k: p.copy() for k, p in pos.items()}
    idmaps = []
    s = float(2 ** snap)
    for t in range(nframes):
        if t > 0:
            if field == "random":
                for k in cur:
                    ang = rng.uniform(0, 2 * math.pi)
                    r = rng.uniform(0, amp)
                    cur[k] = cur[k] + r * np.array([math.cos(ang), math.sin(ang)])
            elif field == "affine":
                A = np.eye(2) + rng.uniform(-1, 1, size=(2, 2)) * (0.5 * amp / extent)
                tvec = rng.uniform(-0.3, 0.3, size=2) * amp
                for k in cur:
                    cur[k] = centre + A @ (cur[k] - centre) + tvec
            elif field == "grow":
                # growth: uniform stretch along x about the current centre by 9.5 % per step - inside the 10 % shape bound of every pair of
                # consecutive frames (measured with that pair's own extent), while the extent itself grows along the series
                c0 = np.array(list(cur.values())).mean(axis=0)
                for k in cur:
                    cur[k] = c0 + np.array([1.095, 1.0]) * (cur[k] - c0)
            else:  # flowing: rotation-like flow
                w = rng.uniform(-1, 1) * amp / extent
                for k in cur:
                    d = cur[k] - centre
                    cur[k] = cur[k] + w * np.array([-d[1], d[0]]) + 0.2 * amp * np.array([1.0, 0.5])
        fr = {"vertices": [[i, round(cur[i][0] * s) / s, round(cur[i][1] * s) / s] for i, _, _ in base["vertices"]],
              "edges": [list(e) for e in base["edges"]], "cells": [[c, list(v)] for c, v in base["cells"]],
              "ifaces": base.get("ifaces", []), "meta": dict(base.get("meta", {}), frame=t)}
        if renumber:
            fr = relabel(fr, rng, gaps=True, shift=True, flip=0.0)
            if zero_junction and rng.random() < 0.7:
                # vertex id 0 is a legitimate id: put it on a junction (a different one in every frame)
                js = junction_ids(fr)
                if js and not any(v[0] == 0 for v in fr["vertices"]):
                    fr = swap_ids(fr, js[int(rng.integers(0, len(js)))], 0)
            idmaps.append(fr["maps"]["v"])
        else:
            idmaps.append({i: i for i, _, _ in base["vertices"]})
        specs.append(fr)
    truth = []
    for t in range(nframes - 1):
        truth.append({idmaps[t][i]: idmaps[t + 1][i] for i in pos})
    if times is None:
        times = [0.0]
        for t in range(1, nframes):
            times.append(times[-1] + float(2.0 ** int(rng.integers(-2, 3))))
        if nframes >= 2 and rng.random() < 0.5:
            # time stamps relative to an event: a frame other than the first carries exactly 0.0 (dyadic steps: the shift is exact)
            anchor = int(rng.integers(1, nframes))
            times = [t_ - times[anchor] for t_ in times]
    return specs, times, truth


def with_dangling(spec, rng, k=2, core_size=6):
    """a connected core plus k cells that each touch exactly one cell of the result (cells without internal interfaces)"""
    adj = cell_adjacency(spec)
    ids = [c for c, _ in spec["cells"]]
    for _ in range(30):
        core = set(connected_subsets(spec, rng, 1, min_cells=min(core_size, len(ids)))[0][:core_size + 3])
        if not is_connected(spec, core):
            continue
        cand = [c for c in ids if c not in core and len(adj[c] & core) == 1]
        rng.shuffle(cand)
        chosen = []
        for c in cand:
            if all(c not in adj[d] for d in chosen):
                chosen.append(c)
            if len(chosen) == k:
                break
        if len(chosen) == k:
            return sub_tissue(spec, sorted(core | set(chosen)))
    return None
