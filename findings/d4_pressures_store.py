"""D4 (C10): ForSys.solve_pressure replaces the whole per-frame `pressures` store by the solution list.
D5 (C10): method='fix_stress' deletes a column of the stored force matrix in place, so a later solve of the same
frame with other options differs from a fresh object. exit 1 if a defect is present."""
import sys, os
sys.path.insert(0, os.environ.get("VERIF_REPO", "/repo"))
sys.path.insert(0, os.path.join(os.path.dirname(__file__), "..", "harness"))
import numpy as np
import gen, impl
rng = np.random.default_rng(3)
spec = gen.voronoi_tissue(rng, n=30, npts=3, mob_strength=1.0)
def fresh():
    frs = {0: impl.frame(spec, 0, 0.0), 1: impl.frame(spec, 1, 1.0)}
    return impl.forsys_of(frs, cm=False)
bad = []
f = fresh()
with impl.quiet():
    for t in (0, 1):
        f.build_force_matrix(when=t); f.solve_stress(when=t)
        f.build_pressure_matrix(when=t); f.solve_pressure(when=t, method="lagrange_pressure")
if not isinstance(f.pressures, dict) or f.pressures.get(0) is None or f.pressures.get(1) is None:
    bad.append(("D4", type(f.pressures).__name__))
g = fresh()
with impl.quiet():
    g.build_force_matrix(when=0)
    try:
        g.solve_stress(when=0, method="fix_stress")
    except Exception as e:      # the back-end itself is broken (known finding under C05)
        print("fix_stress raised", type(e).__name__, file=sys.stderr)
    shape_after = g.force_matrices[0].matrix.shape
    try:
        g.solve_stress(when=0)
    except Exception as e:
        print("solve after fix_stress raised", type(e).__name__, file=sys.stderr)
        g.forces[0] = {}
h = fresh()
with impl.quiet():
    h.build_force_matrix(when=0); shape0 = h.force_matrices[0].matrix.shape; h.solve_stress(when=0)
if shape_after != shape0 or len(g.forces[0]) != len(h.forces[0]) or \
        max(abs(g.forces[0][k] - h.forces[0][k]) for k in h.forces[0]) > 1e-12:
    bad.append(("D5", shape0, shape_after))
print(bad)
sys.exit(1 if bad else 0)
