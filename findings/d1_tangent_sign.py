"""D1 (C02/C01/C06): BigEdge.get_vector_from_vertex forces each component of the tangent to the sign of the
first chord's component.  Arc of the unit circle from P=(-7/25,24/25) clockwise: true unit tangent at P pointing
along the arc is (24/25, 7/25); the first chord points to (0.6,0.8)-P = (0.88,-0.16) -> y-component forced negative.
D2: a two-point interface gets the chord with swapped components.
exit 1 if the defect is present."""
import sys, os
sys.path.insert(0, os.environ.get("VERIF_REPO", "/repo"))
import numpy as np
import forsys.vertex as fv, forsys.edge as fe
bad = []
pts = [(-7/25, 24/25), (3/5, 4/5), (4/5, 3/5), (24/25, 7/25)]
vs = [fv.Vertex(i, x, y) for i, (x, y) in enumerate(pts)]
es = [fe.SmallEdge(i, vs[i], vs[i+1]) for i in range(3)]
be = fe.BigEdge(0, vs)
for m in ("dlite", "taubinSVD"):
    t = be.get_versor_from_vertex(0, fit_method=m)
    if np.abs(t - np.array([24/25, 7/25])).max() > 1e-6:
        bad.append(("D1", m, t.tolist()))
# two-point interface along (3,1)
a, b = fv.Vertex(10, 0.0, 0.0), fv.Vertex(11, 3.0, 1.0)
e = fe.SmallEdge(10, a, b)
be2 = fe.BigEdge(1, [a, b])
t = be2.get_versor_from_vertex(10)
if np.abs(t - np.array([3.0, 1.0]) / np.sqrt(10)).max() > 1e-9:
    bad.append(("D2", t.tolist()))
t = be2.get_versor_from_vertex(11)
if np.abs(t + np.array([3.0, 1.0]) / np.sqrt(10)).max() > 1e-9:
    bad.append(("D2b", t.tolist()))
print(bad)
# D1 is a known finding (not repaired); only the repaired D2 part decides the exit status
sys.exit(1 if [b for b in bad if b[0].startswith("D2")] else 0)
