"""D23 (C02, C01): a straight interface given by an even number (>= 4) of evenly spaced, exactly collinear points can make the
'dlite' circle fit stall at the centroid of the points (a saddle of its objective): the "centre" then lies ON the interface and
the coefficient pair is the normal instead of the tangent.  3x3 rectangular lattice, cells 30 x 10, two interior points per
interface.  exit 1 if the defect is present."""
import sys, os, math
sys.path.insert(0, os.environ.get("VERIF_REPO", "/repo"))
sys.path.insert(0, os.path.join(os.path.dirname(__file__), "..", "harness"))
import numpy as np
import gen, impl
bad = 0
for fit in ("dlite", "taubinSVD"):
    spec = gen.lattice_tissue(3, 3, "square", npts=2, w=30.0, h=10.0)
    fr = impl.frame(spec)
    f = impl.forsys_of({0: fr})
    with impl.quiet():
        f.build_force_matrix(when=0, angle_limit=np.inf, circle_fit_method=fit)
    fm = f.force_matrices[0]
    M = np.array(fm.matrix)
    worst = 0.0
    for v, r in fm.map_vid_to_row.items():
        for j, ids in enumerate(fm.big_edges_to_use):
            ids = list(ids)
            if v not in (ids[0], ids[-1]):
                continue
            q = ids if ids[0] == v else ids[::-1]
            a, b = fr.vertices[q[0]], fr.vertices[q[-1]]
            d = (b.x - a.x, b.y - a.y)
            t = (d[0] / math.hypot(*d), d[1] / math.hypot(*d))
            worst = max(worst, abs(M[r, j] - t[0]), abs(M[r + 1, j] - t[1]))
    print(fit, "worst deviation of a coefficient pair from the direction of its straight interface:", worst)
    bad += worst > 5e-3
sys.exit(1 if bad else 0)
