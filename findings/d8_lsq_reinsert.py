"""D8 (C16): in the 'lsq' branch of ForceMatrix.solve `xres = xres.insert(index, -1)` assigns None as soon as one
interface is excluded by the angle limit.  exit 1 if the defect is present."""
import sys, os
sys.path.insert(0, os.environ.get("VERIF_REPO", "/repo"))
sys.path.insert(0, os.path.join(os.path.dirname(__file__), "..", "harness"))
import numpy as np
import gen, impl
rng = np.random.default_rng(11)
spec = gen.voronoi_tissue(rng, n=int(rng.integers(35, 70)), npts=2)
bad = []
for lim in (0.86,):
    fr = impl.frame(spec)
    f = impl.forsys_of({0: fr})
    with impl.quiet():
        f.build_force_matrix(when=0, angle_limit=lim * np.pi)
    fm = f.force_matrices[0]
    nex = len(fr.internal_big_edges) - len(fm.big_edges_to_use)
    if nex == 0:
        continue
    try:
        with impl.quiet():
            f.solve_stress(when=0, method="lsq")
        res = f.forces[0]
        ex = [i for i, b in enumerate(fr.internal_big_edges_vertices) if b not in fm.big_edges_to_use]
        ok = len(res) == len(fr.internal_big_edges) and all(res[i] == -1 for i in ex) and \
            all(res[i] >= 0 for i in range(len(res)) if i not in ex)
        if not ok:
            bad.append((lim, nex, "misaligned"))
    except Exception as e:
        bad.append((lim, nex, type(e).__name__, str(e)[:60]))
print(bad)
sys.exit(1 if bad else 0)
