"""D25 (C02, C01, C06, C07): the 'dlite' circle fit (scipy leastsq with a finite-difference Jacobian) stalls on flat arcs: the
relative difference step collapses when a coordinate of the trial centre passes near zero, the Jacobian is noise and the fit
stops far from the circle.  On this exact 17-point arc (total turning 1.8e-3 rad, radius 63, found by the thorough tier of C01) the
tangent at the end point came out 6.6e-3 rad off -- four times the whole turning of the arc; on random exact arcs 38% of the
fits were off by more than 1e-6.  exit 1 if the defect is present."""
import sys, os, math
sys.path.insert(0, os.environ.get("VERIF_REPO", "/repo"))
import numpy as np
import forsys.virtual_edges as ve


class V:
    def __init__(self, x, y):
        self.x, self.y = x, y


P = [(1.3609696959253477, -3.451231209913283), (1.3572130855637172, -3.4573687991797035), (1.3534555978345089, -3.463506255044384),
     (1.3496972326975185, -3.46964357734815), (1.3459379901125745, -3.4757807659318045), (1.3421778700395386, -3.4819178206361245),
     (1.3384168724383032, -3.4880547413018625), (1.3346549972687944, -3.4941915277697477), (1.3308922444909699, -3.500328179880485),
     (1.3271286140648202, -3.5064646974747533), (1.3233641059503682, -3.512601080393209), (1.319598720107669, -3.518737328476483),
     (1.3158324564968105, -3.524873441565184), (1.3120653150779127, -3.531009419499893), (1.308297295811128, -3.537145262121169),
     (1.3045283986566418, -3.5432809692695457), (1.300758623574671, -3.5494165407855336)]
true_tangent = (-0.5219944640948104, -0.852948872708307)      # analytic (Moebius image of a straight Voronoi edge), at P[0]
c = ve.calculate_circle_center([V(x, y) for x, y in P], method="dlite")
v = (P[0][0] - c[0], P[0][1] - c[1])
t = (-v[1] / math.hypot(*v), v[0] / math.hypot(*v))
err = min(max(abs(t[0] - true_tangent[0]), abs(t[1] - true_tangent[1])), max(abs(t[0] + true_tangent[0]), abs(t[1] + true_tangent[1])))
print("stored arc: fitted centre", tuple(c), "tangent error", err)
bad = err > 1e-6
# a sweep over exact arcs (fixed seed): none may be off by more than 1e-6
rng = np.random.default_rng(12)
worst, n_bad = 0.0, 0
for k in range(3000):
    sc = 10 ** rng.uniform(-3, 3)
    L = sc * 10 ** rng.uniform(-1.5, 0.5)
    n = int(rng.integers(3, 19))
    off = rng.uniform(-1, 1, 2) * sc * 10 ** rng.uniform(-0.5, 2.5)
    a0 = rng.uniform(0, 2 * math.pi)
    th = 10 ** rng.uniform(-5, 0.3)
    R = L / th
    ang = a0 + np.linspace(0, th, n)
    cx, cy = off[0] - R * math.cos(a0), off[1] - R * math.sin(a0)
    xs, ys = cx + R * np.cos(ang), cy + R * np.sin(ang)
    tt = (-math.sin(ang[0]), math.cos(ang[0]))
    c = ve.calculate_circle_center([V(x, y) for x, y in zip(xs, ys)], method="dlite")
    v = (xs[0] - c[0], ys[0] - c[1])
    t = (-v[1] / math.hypot(*v), v[0] / math.hypot(*v))
    e = min(max(abs(t[0] - tt[0]), abs(t[1] - tt[1])), max(abs(t[0] + tt[0]), abs(t[1] + tt[1])))
    worst = max(worst, e)
    n_bad += e > 1e-6
print(f"3000 exact arcs: worst tangent error {worst:.3g}, {n_bad} off by more than 1e-6")
sys.exit(1 if bad or n_bad else 0)
