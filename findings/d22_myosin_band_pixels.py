"""D22 (C17): with integrate=True the band is collected as a set of *float positions* (interpolated coordinate + layer offset); two
positions that fall into the same pixel are both summed, so the value is not the sum of the distinct pixels of the band divided
by the polyline length.  exit 1 if the defect is present."""
import sys, os
sys.path.insert(0, os.environ.get("VERIF_REPO", "/repo"))
sys.path.insert(0, os.path.join(os.path.dirname(__file__), "..", "harness"))
import numpy as np
from PIL import Image
import impl
import forsys.myosin as my
arr = (np.arange(60 * 60).reshape(60, 60) % 97 + 1).astype(np.uint8)
img = Image.fromarray(arr)
vs = [impl.fvertex.Vertex(i, x, y) for i, (x, y) in enumerate([(5.0, 5.0), (25.0, 14.0), (40.0, 31.0)])]
es = [impl.fedge.SmallEdge(i, vs[i], vs[i + 1]) for i in range(2)]
be = impl.fedge.BigEdge(0, vs)
bad = []
for layers in (0, 1, 2):
    got = my.get_intensities([be], img, integrate=True, normalize=None, layers=layers)[0]
    pos, length = my.get_interpolation(be, layers)
    pix = {(int(p[0]), int(p[1])) for p in pos}
    exp = sum(int(arr[y, x]) for x, y in pix) / length
    if abs(got - exp) > 1e-9 * (1 + abs(exp)):
        bad.append((layers, got, exp, len(pos), len(pix)))
print(bad)
sys.exit(1 if bad else 0)
