"""D18 (C02, C16): get_angle_limited_edges takes np.arccos of the dot product of two unit versors; for two interfaces that leave a
junction in exactly opposite directions the product can round to -1.0000000000000002 and arccos raises FloatingPointError, so
build_force_matrix fails for the whole frame (a square lattice turned by 0.001 rad).  exit 1 if the defect is present."""
import sys, os
sys.path.insert(0, os.environ.get("VERIF_REPO", "/repo"))
sys.path.insert(0, os.path.join(os.path.dirname(__file__), "..", "harness"))
import numpy as np
import gen, impl
bad = 0
for theta in (0.001, 0.7, -2e-4):
    spec = gen.similarity(gen.lattice_tissue(4, 5, "square", npts=0), 1.0, theta, False, 0.0, 0.0)
    fr = impl.frame(spec)
    f = impl.forsys_of({0: fr})
    for limit in (np.inf, np.pi):
        try:
            with impl.quiet():
                f.build_force_matrix(when=0, angle_limit=limit)
            print("theta", theta, "angle_limit", limit, "matrix", f.force_matrices[0].matrix.shape)
        except FloatingPointError as ex:
            print("theta", theta, "angle_limit", limit, "raised FloatingPointError:", ex)
            bad += 1
sys.exit(1 if bad else 0)
