"""D9 (C17): get_intensities keys each interface by big_edges.index(big_edge) (field-wise equality), so an
interface listed twice collapses to one key and the write-back loop raises KeyError.
exit 1 if the defect is present."""
import sys, os
sys.path.insert(0, os.environ.get("VERIF_REPO", "/repo"))
sys.path.insert(0, os.path.join(os.path.dirname(__file__), "..", "harness"))
import numpy as np
from PIL import Image
import gen, impl
import forsys as fs
rng = np.random.default_rng(2)
spec = gen.voronoi_tissue(rng, n=25, npts=2)
fr = impl.frame(spec)
img = Image.fromarray(rng.integers(1, 200, size=(128, 128)).astype(np.uint8))
bes = list(fr.internal_big_edges)[:4]
lst = [bes[0], bes[1], bes[0], bes[2]]
try:
    res = fs.myosin.get_intensities(lst, img, integrate=False, normalize=None, layers=1)
    ok = list(res.keys()) == [0, 1, 2, 3] and res[0] == res[2]
    print(res)
except Exception as e:
    print(type(e).__name__, e)
    ok = False
sys.exit(0 if ok else 1)
