"""D19 (C05): on a square, non-singular augmented system the exact-inversion path only rejects negative *tensions*; a negative
multiplier is accepted with allow_negatives=False, so the reported tensions are not the optimum over non-negative (tension,
multiplier) candidates.  exit 1 if the defect is present."""
import sys, os, json
sys.path.insert(0, os.environ.get("VERIF_REPO", "/repo"))
sys.path.insert(0, os.path.join(os.path.dirname(__file__), "..", "harness"))
import numpy as np
import impl
rp = json.load(open(os.path.join(os.path.dirname(__file__), "d19_replay.json")))
spec = rp["input"]["spec"]
fr = impl.frame(spec)
f = impl.forsys_of({0: fr})
with impl.quiet():
    f.build_force_matrix(when=0, angle_limit=np.inf)
with impl.capture_solvers() as rec, impl.quiet():
    f.solve_stress(when=0, allow_negatives=False)
path = [c["solver"] for c in rec.calls]
last = rec.calls[-1]
if last.get("inv") is not None:
    M = np.array(f.force_matrices[0].matrix)
    z = last["inv"] @ np.concatenate([np.zeros(M.shape[0]), [float(M.shape[1])]])
else:
    z = last["x"]
print("path", path, "multiplier", z[-1], "min tension", z[:-1].min())
sys.exit(1 if z[-1] < -1e-9 else 0)
