"""D12 (C02): _build_matrix keeps a junction only if >=3 coefficients are non-zero in the x row or in the y row.
A T-junction whose three interface tangents are exactly (1,0),(-1,0),(0,-1) has 2 non-zero x and 1 non-zero y
coefficients and gets no equations.  exit 1 if the defect is present."""
import sys, os
sys.path.insert(0, os.environ.get("VERIF_REPO", "/repo"))
sys.path.insert(0, os.path.join(os.path.dirname(__file__), "..", "harness"))
import numpy as np
import gen, impl
bad = 0
for kind in ("brick", "square"):
    for npts in (0, 1):
        spec = gen.lattice_tissue(4, 4, kind, npts=npts)
        fr = impl.frame(spec)
        f = impl.forsys_of({0: fr})
        with impl.quiet():
            f.build_force_matrix(when=0, angle_limit=np.inf)
        fm = f.force_matrices[0]
        exp = [v for v in fm.tj_vertices if len(fr.vertices[v].ownCells) >= 3 and
               sum(1 for b in fr.vertices[v].own_big_edges if not fr.big_edges[b].external) >= 3]
        print(kind, "npts", npts, "junctions with >=3 cells and >=3 internal interfaces:", len(exp), " rows:", fm.matrix.shape[0])
        bad += fm.matrix.shape[0] != 2 * len(exp)
sys.exit(1 if bad else 0)
