"""D6 (C11): join_two_vertices places the merged vertex at abs(x0+x1)/2, abs(y0+y1)/2 -- wrong for negative
coordinates.  A tissue translated into the negative quadrant, resampled with replace_short_edges=True.
exit 1 if the defect is present."""
import sys, os
sys.path.insert(0, os.environ.get("VERIF_REPO", "/repo"))
sys.path.insert(0, os.path.join(os.path.dirname(__file__), "..", "harness"))
import numpy as np
import gen, impl
spec = gen.lattice_tissue(3, 3, "brick", npts=0)
spec = gen.similarity(spec, tx=-100.0, ty=-100.0)
v, e, c = impl.build(spec)
pos = {k: (w.x, w.y) for k, w in v.items()}
with impl.quiet():
    v2, e2, c2, arr = impl.ve.generate_mesh(v, e, c, ne=4)
new = [w for k, w in v2.items() if k not in pos]
bad = [(w.id, w.x, w.y) for w in new if w.x > 0 or w.y > 0]
print("merged vertices:", len(new), "misplaced:", bad[:3])
sys.exit(1 if bad or not new else 0)
