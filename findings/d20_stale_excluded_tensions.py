"""D20 (C10): ForceMatrix.solve assigns tensions only to the mesh edges of the interfaces it used; interfaces excluded by an angle
limit keep the value of an EARLIER solve of the same frame, and the pressure step multiplies exactly those tensions by the
curvature.  Pressures of a frame therefore depended on what had been solved before.  Replays the stored history against a fresh
object that only sees the last build / solve.  exit 1 if the defect is present."""
import sys, os, json, math, warnings
sys.path.insert(0, os.environ.get("VERIF_REPO", "/repo"))
sys.path.insert(0, os.path.join(os.path.dirname(__file__), "..", "harness"))
import numpy as np
import impl
from props import c10
d = json.load(open(os.path.join(os.path.dirname(__file__), "d20_replay.json")))["input"]
specs, times, hist = d["specs"], d["times"], d["history"]


def run(history):
    frames = {t: impl.frame(s, t, times[t]) for t, s in enumerate(specs)}
    f = impl.forsys_of(frames, cm=False)
    with impl.quiet(), warnings.catch_warnings():
        warnings.simplefilter("ignore")
        for o in history:
            if o[0] == "BuildF":
                f.build_force_matrix(when=o[1], **c10.build_kwargs(o[2]))
            elif o[0] == "SolveS":
                f.solve_stress(when=o[1], **c10.SOLVE_ARGS[o[2]])
            elif o[0] == "BuildP":
                f.build_pressure_matrix(when=o[1])
            elif o[0] == "SolveP":
                f.solve_pressure(when=o[1], **c10.PSOLVE_ARGS[o[2]])
            else:
                f.get_system_velocity_per_frame(angle_limit=c10.SYSVEL_LIMITS[o[1] - c10.SYSVEL_BASE])
    return f


t = hist[-1][1]
# the last build / solve / pressure calls of that frame, on a fresh object
last_build = [o for o in hist if o[0] == "BuildF" and o[1] == t][-1]
last_solve = [o for o in hist if o[0] == "SolveS" and o[1] == t][-1]
used = run(hist)
fresh = run([last_build, last_solve, ["BuildP", t], hist[-1]])
a, b = np.array(used.pressures[t]), np.array(fresh.pressures[t])
print("history:", hist)
print("max |pressure(used object) - pressure(fresh object)| =", float(np.max(np.abs(a - b))))
sys.exit(1 if np.max(np.abs(a - b)) > 0 else 0)
