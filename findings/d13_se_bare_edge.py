"""D13 (C14): an edge record without any attribute ("  3   3 1") raises IndexError because the parser looks at
token 3 for 'density'.  exit 1 if the defect is present."""
import sys, os, tempfile
sys.path.insert(0, os.environ.get("VERIF_REPO", "/repo"))
import forsys as fs
dump = """// test
vertices        /*  coordinates  */
  1      0.000000     0.000000
  2      1.000000     0.000000
  3      1.000000     1.000000
  4      0.000000     1.000000

edges  /* endpoints */
  1   1 2 density 0.5
  2   2 3
  3   3 4 density 2
  4   4 1

faces    /* edge loop */
  1   1 2 3 4 /*area 1*/

bodies  /* facets */
  1    1    volume 1  /*actual: 1.0*/ lagrange_multiplier 0.25

read
"""
with tempfile.NamedTemporaryFile("w", suffix=".dmp", delete=False) as f:
    f.write(dump)
try:
    se = fs.surface_evolver.SurfaceEvolver(f.name)
    gts = {k: e.gt for k, e in se.edges.items()}
    print(gts)
    ok = gts == {1: 0.5, 2: 1, 3: 2.0, 4: 1}
except Exception as e:
    print(type(e).__name__, e)
    ok = False
os.unlink(f.name)
sys.exit(0 if ok else 1)
