"""D11 (C19): line_eq divides by the x-extent of a ridge; a ridge parallel to the y axis (every square grid of
centres) raises FloatingPointError (forsys sets np.seterr(all='raise')).  exit 1 if the defect is present."""
import sys, os
sys.path.insert(0, os.environ.get("VERIF_REPO", "/repo"))
import numpy as np
import forsys as fs
bad = []
centres = [(float(i), float(j)) for i in range(6) for j in range(6)]
try:
    els = fs.tessellation.create_lattice_elements(centres)
    v, e, c = fs.tessellation.create_lattice(*els)
    print("cells", len(c))
    if len(c) != 16:
        bad.append(("count", len(c)))
except Exception as ex:
    bad.append((type(ex).__name__, str(ex)[:80]))
print(bad)
sys.exit(1 if bad else 0)
