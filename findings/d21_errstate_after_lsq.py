"""D21 (C10): lmfit leaves numpy's process-wide error state at 'ignore' after solve_stress(method='lsq'); a following
build_force_matrix(circle_fit_method='taubinSVD') on straight (collinear) interfaces then no longer falls back to the dlite fit
(no FloatingPointError is raised) and the frame's result differs from a fresh object / raises.  exit 1 if the defect is present."""
import sys, os, warnings
sys.path.insert(0, os.environ.get("VERIF_REPO", "/repo"))
sys.path.insert(0, os.path.join(os.path.dirname(__file__), "..", "harness"))
import numpy as np
import gen, impl
warnings.simplefilter("ignore")
rng = np.random.default_rng(4)
spec = gen.voronoi_tissue(rng, n=20, npts=2, snap=8)          # straight interfaces with 4 collinear points
def run(pre_lsq):
    frs = {0: impl.frame(spec, 0, 0.0), 1: impl.frame(spec, 1, 1.0)}
    f = impl.forsys_of(frs, cm=False)
    with impl.quiet():
        if pre_lsq:
            f.build_force_matrix(when=1)
            f.solve_stress(when=1, method="lsq")
        f.build_force_matrix(when=0, circle_fit_method="taubinSVD")
        try:
            f.solve_stress(when=0, allow_negatives=False)
            return dict(f.forces[0])
        except Exception as ex:
            return type(ex).__name__
a, b = run(False), run(True)
print("fresh:", str(a)[:80], "| after an lsq solve of another frame:", str(b)[:80], "| errstate now:", np.geterr()["invalid"])
sys.exit(0 if a == b else 1)
