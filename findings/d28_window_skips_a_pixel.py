"""D28 (C17): the (2*layers+1)^2 window of get_intensity is built from float positions (position + offset in floating point): when
the vertex coordinate after rescale / offset is one ulp below an integer (e.g. y = 18.666666666666664, rescale 3, offset 6 -> 61.99999999999999) the
sum position + 3 rounds up to 65.0, so the window takes pixel rows 58..63 and 65 and skips row 64.  exit 1 if the defect is present."""
import sys, os
sys.path.insert(0, os.environ.get("VERIF_REPO", "/repo"))
import numpy as np
from PIL import Image
from types import SimpleNamespace as V
import forsys.myosin as myosin
arr = np.zeros((100, 140), dtype=np.uint8)
for r in range(100):
    arr[r, :] = r                     # the pixel value is its row
img = Image.fromarray(arr)
v = V(x=36.0, y=float(np.nextafter(56.0 / 3.0, 0.0)))       # 18.666666666666664, e.g. the second third of a segment from 0 to 28
y_pos = v.y * 3.0 + 6.0
assert y_pos < 62.0 and int(y_pos) == 61, y_pos
vals = myosin.get_intensity(img, v, layers=3, rescale=[3.0, 3.0], offset=[6.0, 6.0])
rows = sorted(set(int(x) for x in vals))
print("vertex y after rescale / offset:", repr(y_pos), "-> pixel row 61; rows in the window:", rows)
sys.exit(0 if rows == list(range(58, 65)) else 1)
