(* C06 -- inference is invariant under similarity transforms and changes of units.  Statements only.
   PARTIAL: equivariance of the stated tangent orientation, invariance of the squared residual and of the adimensional ratio are
   proved; the end-to-end invariance of tensions and pressures is evaluated by harness/props/c06.py.  Two refutations are
   known findings: the code's per-component sign rule (D1, Props/C02.v) and the multiplier column (D3, below). *)
From Coq Require Import Reals List.
From Forsys Require Import Model.Num Model.Cert Model.ForceSys Model.Velocity Proofs.CertProofs Proofs.ForceSysProofs Proofs.VelocityProofs Proofs.RelabelProofs.

Theorem C06_oriented_tangent_rotation : forall c s ux uy dx dy : R, (c * c + s * s = 1)%R ->
  oriented_tangent ROps (fst (rot c s (ux, uy))) (snd (rot c s (ux, uy))) (fst (rot c s (dx, dy))) (snd (rot c s (dx, dy)))
  = rot c s (oriented_tangent ROps ux uy dx dy).
Proof. exact oriented_tangent_rotation. Qed.
Theorem C06_oriented_tangent_scale : forall k ux uy dx dy : R, (0 < k)%R ->
  oriented_tangent ROps (k * ux) (k * uy) (k * dx) (k * dy)
  = ((k * fst (oriented_tangent ROps ux uy dx dy))%R, (k * snd (oriented_tangent ROps ux uy dx dy))%R).
Proof. exact oriented_tangent_scale. Qed.
Theorem C06_oriented_tangent_reflection : forall ux uy dx dy : R, (- uy * dx + ux * dy <> 0)%R ->
  oriented_tangent ROps ux (- uy) dx (- dy) = (fst (oriented_tangent ROps ux uy dx dy), (- snd (oriented_tangent ROps ux uy dx dy))%R).
Proof. exact oriented_tangent_reflection. Qed.
Theorem C06_rotation_preserves_sqnorm : forall c s a b : R, (c * c + s * s = 1)%R ->
  (fst (rot c s (a, b)) * fst (rot c s (a, b)) + snd (rot c s (a, b)) * snd (rot c s (a, b)) = a * a + b * b)%R.
Proof. exact rotation_preserves_sqnorm. Qed.
Theorem C06_multiplier_column_refuted : exists c s : R, (c * c + s * s = 1)%R /\ rot c s (1%R, 1%R) <> (1%R, 1%R).
Proof. exact multiplier_column_not_covariant. Qed.
(* a change of units multiplies every junction velocity by one factor k > 0 (time stamps divided by k, or lengths multiplied by k):
   the adimensional right-hand side is unchanged and the reported system velocity is multiplied by k *)
Theorem C06_adimensional_rhs_unit_invariant : forall (k : R) (vs : list (R * R)) (b : list R) (vn : R),
  (0 < k)%R -> mean_speed ROps vs <> 0%R -> vs <> nil ->
  velocity_matrix ROps true (map (vscale k) vs) (map (fun x => k * x)%R b) vn
  = (fst (velocity_matrix ROps true vs b vn), (k * snd (velocity_matrix ROps true vs b vn))%R).
Proof. exact adimensional_rhs_unit_invariant. Qed.
Theorem C06_adimensional_ratio_invariant : forall k v m : R, (0 < k)%R -> m <> 0%R -> ((k * v) / (k * m) = v / m)%R.
Proof. exact adimensional_ratio_invariant. Qed.

(* for the whole system: rotating the tissue rotates every junction's two equations together, and the squared residual of the force-balance
   equations (without the multiplier column, see the refutation above) is the same for every candidate tension vector *)
Theorem C06_rotation_preserves_residual : forall n (c s : R) (x : list R) (M : list (list R)), (c * c + s * s = 1)%R ->
  rows_ok n M -> Nat.even (length M) = true -> sqn ROps (mv ROps (rot_rows c s M) x) = sqn ROps (mv ROps M x).
Proof. exact rotation_preserves_residual. Qed.

Print Assumptions C06_oriented_tangent_rotation.
Print Assumptions C06_oriented_tangent_scale.
Print Assumptions C06_oriented_tangent_reflection.
Print Assumptions C06_rotation_preserves_sqnorm.
Print Assumptions C06_multiplier_column_refuted.
Print Assumptions C06_adimensional_ratio_invariant.
Print Assumptions C06_adimensional_rhs_unit_invariant.
Print Assumptions C06_rotation_preserves_residual.
