(* C08 -- interfaces partition the mesh edges; internal/external classification is exact.
   Statements only; proofs in Proofs/InterfacesProofs.v *)
From Coq Require Import ZArith List Bool.
From Forsys Require Import Model.PyList Model.Interfaces Proofs.InterfacesProofs Proofs.ShiftProofs Proofs.UniqueProofs.
Import ListNotations.
Open Scope Z_scope.

(* np.split loses nothing *)
Theorem C08_partition_concat : forall junc l, concat (get_partition junc l) = l.
Proof. exact partition_concat. Qed.
(* every interface runs from a junction to a junction through non-junction vertices *)
Theorem C08_interface_shape : forall junc cells e, In e (create_edges_new junc cells) ->
  exists a mid b, e = a :: mid ++ [b] /\ junc a = true /\ junc b = true /\ nojunc junc mid = true.
Proof. exact create_edges_new_shape. Qed.
(* the interfaces of one cell, without their closing vertices, concatenate to a rotation of the cell cycle:
   every mesh edge of a cell that has a junction lies in exactly one of that cell's interfaces *)
Theorem C08_cell_cover : forall junc ids, existsb junc ids = true ->
  exists l1 l2, ids = l1 ++ l2 /\ concat (map (@removelast Z) (cell_interfaces junc ids)) = l2 ++ l1.
Proof. exact cell_interfaces_cover. Qed.
Theorem C08_no_junction_no_interface : forall junc ids, existsb junc ids = false -> cell_interfaces junc ids = [].
Proof. exact no_junction_no_interface. Qed.
(* no interface is listed twice in either direction, none is lost, none invented *)
(* every mesh edge (two vertices that follow each other on the closed cycle) of a cell that has a junction lies in an interface of the
   frame, in one of the two directions *)
Theorem C08_every_mesh_edge_in_an_interface : forall junc cells c a b,
  In c cells -> existsb junc (snd c) = true -> cyc_adjacent a b (snd c) ->
  exists f, In f (create_edges_new junc cells) /\ (adjacent a b f \/ adjacent b a f).
Proof. exact mesh_edge_in_interface. Qed.
(* ... and in no second one: for a cycle without repeated vertex every mesh edge of the cell lies in exactly one of the cell's interfaces *)
Theorem C08_mesh_edge_in_exactly_one_interface : forall junc ids a b, NoDup ids -> existsb junc ids = true -> cyc_adjacent a b ids ->
  exists i e, nth_error (cell_interfaces junc ids) i = Some e /\ adjacent a b e /\
    forall j e', nth_error (cell_interfaces junc ids) j = Some e' -> adjacent a b e' -> j = i.
Proof. exact mesh_edge_in_exactly_one_interface. Qed.
Theorem C08_dedup_no_repeat : forall l, NoDupRev (dedup_ifaces l).
Proof. exact dedup_no_repeat. Qed.
Theorem C08_dedup_keeps_all : forall l e, In e l -> exists f, In f (dedup_ifaces l) /\ same_iface e f.
Proof. exact dedup_keeps_all. Qed.
Theorem C08_dedup_sound : forall l f, In f (dedup_ifaces l) -> In f l.
Proof. exact dedup_sound. Qed.
(* Frame.internal_big_edges, BigEdge.external and the tension table use the same predicate *)
Theorem C08_three_predicates_agree : forall ncells junc cells,
  let earr := create_edges_new junc cells in
  frame_internal ncells earr = filter (fun ie => negb (big_edge_external ncells (snd ie))) (enumerate_from 0 earr)
  /\ map fst (frame_internal ncells earr) = tension_table_ids ncells earr.
Proof. intros. apply three_predicates_agree, create_edges_new_nodup. Qed.
(* ... and it is the predicate of the statement *)
Theorem C08_internal_characterisation : forall ncells e,
  negb (big_edge_external ncells e) = true <->
  (forall v, In v e -> 2 <= ncells v) /\ (3 <= ncells (headZ e) \/ 3 <= ncells (lastZ e)).
Proof. exact internal_characterisation. Qed.

(* non-vacuity: a cycle with two junctions (1 and 4) gives two interfaces *)
Example C08_example : cell_interfaces (fun v => memZ v [1; 4]) [0; 1; 2; 3; 4; 5] = [[1; 2; 3; 4]; [4; 5; 0; 1]].
Proof. vm_compute. reflexivity. Qed.

Print Assumptions C08_partition_concat.
Print Assumptions C08_interface_shape.
Print Assumptions C08_cell_cover.
Print Assumptions C08_no_junction_no_interface.
Print Assumptions C08_dedup_no_repeat.
Print Assumptions C08_dedup_keeps_all.
Print Assumptions C08_dedup_sound.
Print Assumptions C08_three_predicates_agree.
Print Assumptions C08_internal_characterisation.
Print Assumptions C08_every_mesh_edge_in_an_interface.
Print Assumptions C08_mesh_edge_in_exactly_one_interface.
