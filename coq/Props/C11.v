(* C11 -- mesh resampling keeps junctions, topology and interface shape.  Statements only. *)
From Coq Require Import ZArith QArith List Bool Lia.
From Forsys Require Import Model.PyList Model.Interfaces Model.Resample Proofs.ResampleProofs Proofs.JoinProofs.
Import ListNotations.
Open Scope Z_scope.

(* an interface with at most ne points is unchanged *)
Theorem C11_select_short_identity : forall idx ne e, Z.of_nat (length e) <= ne -> select_iface idx ne e = e.
Proof. exact select_short_identity. Qed.
(* a longer one gets exactly ne+1 points ... *)
Theorem C11_select_length : forall idx ne e, 0 <= ne -> ne < Z.of_nat (length e) ->
  Z.of_nat (length (select_iface idx ne e)) = ne + 1.
Proof. exact select_length. Qed.
(* ... which are the points at strictly increasing positions 0 = j_0 < j_1 < ... < j_ne = len-1 of the old interface:
   an ordered subsequence retaining both ends.  Holds for every admissible index function. *)
Theorem C11_select_positions : forall idx ne e, 1 <= ne -> ne < Z.of_nat (length e) -> admissible idx (Z.of_nat (length e)) ne ->
  let js := map (fun i => Z.to_nat (idx (Z.of_nat (length e)) ne (Z.of_nat i))) (seq 0 (Z.to_nat ne)) ++ [(length e - 1)%nat] in
  select_iface idx ne e = map (fun j => nth j e 0) js /\
  (forall a b, (a < b < length js)%nat -> (nth a js 0 < nth b js 0)%nat) /\
  nth 0 js 0%nat = 0%nat /\ last js 0%nat = (length e - 1)%nat.
Proof. exact select_positions. Qed.
(* the exact floor index is admissible ... *)
Theorem C11_floor_index_admissible : forall len ne, 1 <= ne -> ne < len -> admissible floor_index len ne.
Proof. exact floor_index_admissible. Qed.
(* ... and so is int(len/ne*i) computed in binary64, for interfaces of up to 1500 points and ne in 1..12
   (finite domain, decided inside the kernel by evaluating PrimFloat) *)
Theorem C11_float_index_admissible : forall len ne : nat, (1 <= ne <= 12)%nat -> (ne < len <= 1500)%nat ->
  admissible float_index (Z.of_nat len) (Z.of_nat ne).
Proof. exact float_index_admissible_1500_12. Qed.
(* resampling a resampled interface changes nothing *)
Theorem C11_select_idempotent : forall idx ne e, 1 <= ne -> (forall i, 0 <= i < ne -> idx (ne + 1) ne i = i) ->
  select_iface idx ne (select_iface idx ne e) = select_iface idx ne e.
Proof. exact select_idempotent. Qed.
Theorem C11_float_index_identity : forall ne i : Z, 1 <= ne <= 64 -> 0 <= i < ne -> float_index (ne + 1) ne i = i.
Proof. exact float_index_identity_64. Qed.
Theorem C11_select_idempotent_float : forall ne e, 1 <= ne <= 64 ->
  select_iface float_index ne (select_iface float_index ne e) = select_iface float_index ne e.
Proof. intros ne e H. apply select_idempotent; [lia|]. intros i Hi. apply float_index_identity_64; lia. Qed.
(* both ends of every interface (in particular every junction shared by three or more cells) survive,
   surviving vertices keep id and position, surviving cells keep an ordered subsequence of their cycle *)
Theorem C11_ends_survive : forall idx ne bedges e, 1 <= ne -> In e bedges -> e <> [] ->
  idx (Z.of_nat (length e)) ne 0 = 0 ->
  In (hd 0 e) (concat (n_edge_array idx ne bedges)) /\ In (last e 0) (concat (n_edge_array idx ne bedges)).
Proof. exact ends_survive. Qed.
Theorem C11_resample_vertices : forall st narr k pos,
  In (k, pos) (vs (resample_core st narr)) <-> In (k, pos) (vs st) /\ In k (concat narr).
Proof. exact resample_vertices. Qed.
Theorem C11_resample_cells : forall st narr cid cyc, In (cid, cyc) (cs (resample_core st narr)) ->
  exists old, In (cid, old) (cs st) /\ Subseq cyc old /\ cyc <> [].
Proof. exact resample_cells. Qed.

(* the float quirk the model reproduces: int((122/14)*7) = 60 although floor(122*7/14) = 61 *)
(* ---- contraction of a two-point border interface (join_two_vertices) ---- *)
(* the merged vertex gets an id that is not in use ... *)
Theorem C11_unused_id_fresh : forall ks, ~ In (get_unused_id ks) ks.
Proof. exact get_unused_id_fresh. Qed.
(* ... sits at the midpoint of the two merged vertices (for coordinates of either sign), and replaces them *)
Theorem C11_join_midpoint : forall st mapper a b st' m' (x0 y0 x1 y1 : Q),
  has_key (vs st) a = true -> has_key (vs st) b = true -> a <> b -> join_two st mapper a b = Some (st', m') ->
  assoc (vs st) a = Some (x0, y0) -> assoc (vs st) b = Some (x1, y1) ->
  exists p, In (get_unused_id (keys (vs st)), p) (vs st') /\ (fst p == (x0 + x1) / 2)%Q /\ (snd p == (y0 + y1) / 2)%Q.
Proof. exact join_two_midpoint. Qed.
(* the id handed out can be one that an earlier merge deleted: the root of known finding D7 (stale entries of the id map) *)
Example C11_unused_id_can_repeat_a_deleted_id : get_unused_id [4; 5] = 2.
Proof. vm_compute. reflexivity. Qed.

Example C11_float_quirk : float_index 122 14 7 = 60 /\ floor_index 122 14 7 = 61.
Proof. vm_compute. split; reflexivity. Qed.
Example C11_example : select_iface float_index 4 [10;11;12;13;14;15;16;17;18;19] = [10;12;15;17;19].
Proof. vm_compute. reflexivity. Qed.

Print Assumptions C11_select_short_identity.
Print Assumptions C11_select_length.
Print Assumptions C11_select_positions.
Print Assumptions C11_floor_index_admissible.
Print Assumptions C11_float_index_admissible.
Print Assumptions C11_select_idempotent.
Print Assumptions C11_float_index_identity.
Print Assumptions C11_select_idempotent_float.
Print Assumptions C11_ends_survive.
Print Assumptions C11_resample_vertices.
Print Assumptions C11_resample_cells.
Print Assumptions C11_unused_id_fresh.
Print Assumptions C11_join_midpoint.
