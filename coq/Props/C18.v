(* C18 -- coarse-grained stress tensor: symmetric, linear, isotropic for pure pressure.  Statements only.
   The tensor of a grid cell is reported as [[xx, xy], [xy, yy]] (symmetric by construction of the model's triple). *)
From Coq Require Import List Reals ZArith QArith.
From Coq Require Import Permutation.
From Forsys Require Import Model.Num Model.Stress Proofs.StressProofs Model.StressGrid Proofs.StressGridProofs.
Import ListNotations.

Theorem C18_sigma_zero_when_empty : forall edges, sigma ROps [] edges = (0%R, 0%R, 0%R).
Proof. exact sigma_zero_when_empty. Qed.
Theorem C18_sigma_zero_area : forall cells edges, total_area ROps cells = 0%R -> sigma ROps cells edges = (0%R, 0%R, 0%R).
Proof. exact sigma_zero_area. Qed.
Theorem C18_sigma_linear : forall a b areas ps ps' ts ts' geo,
  length ps = length areas -> length ps' = length areas -> length ts = length geo -> length ts' = length geo -> sum ROps areas <> 0%R ->
  let s := sigma ROps (with_p areas (lin a b ps ps')) (with_t (lin a b ts ts') geo) in
  let s1 := sigma ROps (with_p areas ps) (with_t ts geo) in
  let s2 := sigma ROps (with_p areas ps') (with_t ts' geo) in
  (fst (fst s) = a * fst (fst s1) + b * fst (fst s2) /\ snd (fst s) = a * snd (fst s1) + b * snd (fst s2) /\ snd s = a * snd s1 + b * snd s2)%R.
Proof. exact sigma_linear. Qed.
Theorem C18_sigma_isotropic : forall p0 areas geo, sum ROps areas <> 0%R ->
  sigma ROps (with_p areas (map (fun _ => p0) areas)) (with_t (map (fun _ => 0%R) geo) geo) = ((- p0)%R, 0%R, (- p0)%R).
Proof. exact sigma_isotropic. Qed.
(* the principal stresses are looked up by the key f"{row}{column}": injective up to 10 x 10, colliding from 12 x 12 on (finding D10) *)
Theorem C18_key_injective_le_10 : forall r c r' c', (r < 10)%nat -> (c < 10)%nat -> (r' < 10)%nat -> (c' < 10)%nat -> key r c = key r' c' -> r = r' /\ c = c'.
Proof. exact key_injective_le_10. Qed.
Theorem C18_key_collision_refuted : key 1 10 = key 11 0 /\ (1%nat, 10%nat) <> (11%nat, 0%nat).
Proof. exact key_collision_12. Qed.

(* ---- principal stresses: the closed form of the eigenvalues of the symmetric tensor [[a, b], [b, c]] (compared with numpy's eig by the harness) *)
Theorem C18_principal_are_eigenvalues : forall a b c : R, let '(l1, l2) := principal ROps (a, b, c) in
  ((a - l1) * (c - l1) - b * b = 0 /\ (a - l2) * (c - l2) - b * b = 0 /\ l2 <= l1 /\ l1 + l2 = a + c /\ l1 * l2 = a * c - b * b)%R.
Proof. exact principal_are_eigenvalues. Qed.
Theorem C18_principal_isotropic : forall p : R, principal ROps (- p, 0, - p)%R = (- p, - p)%R.
Proof. exact principal_isotropic. Qed.

(* the tensor of a grid cell does not depend on the order in which the selected cells and interfaces are listed *)
Theorem C18_sigma_order_independent : forall cells cells' edges edges', Permutation cells cells' -> Permutation edges edges' ->
  sigma ROps cells edges = sigma ROps cells' edges'.
Proof. exact sigma_order_independent. Qed.

(* the grid (Model/StressGrid.v): a grid cell's tensor is the tensor above of exactly the cells whose centre lies within the averaging
   radius of the grid centre (squared distance <= min_distance^2) and of exactly the interfaces that have one of those cells as first or
   second cell; where no cell centre lies within the radius it is the zero matrix; a larger radius selects no fewer cells; the bin edges
   run equally spaced from the smallest to the largest cell-centre coordinate and the grid centres are the mid-points of the bins,
   strictly inside that range *)
Theorem C18_grid_cell_is_sigma_of_the_cells_within_the_radius : forall md2 cx cy (cells : list (cellrec (T := R))) edges,
  exists sel esel, grid_cell_sigma ROps md2 cx cy cells edges = sigma ROps (map snd sel) (map snd esel) /\
    (forall c, In c sel <-> In c cells /\ ((cx - fst (snd (fst c))) * (cx - fst (snd (fst c))) + (cy - snd (snd (fst c))) * (cy - snd (snd (fst c))) <= md2)%R) /\
    (forall e, In e esel <-> In e edges /\ exists c, In c sel /\ (fst (fst c) = fst (fst e) \/ fst (fst c) = snd (fst e))).
Proof. exact grid_cell_is_sigma_of_selection. Qed.
Theorem C18_zero_where_no_centre_within_radius : forall md2 cx cy (cells : list (cellrec (T := R))) edges,
  (forall c, In c cells -> (md2 < (cx - fst (snd (fst c))) * (cx - fst (snd (fst c))) + (cy - snd (snd (fst c))) * (cy - snd (snd (fst c))))%R) ->
  grid_cell_sigma ROps md2 cx cy cells edges = (0%R, 0%R, 0%R).
Proof. exact no_centre_within_radius_zero. Qed.
Theorem C18_larger_radius_selects_no_fewer : forall md2 md2' cx cy (cells : list (cellrec (T := R))) c,
  (md2 <= md2')%R -> In c (select_cells ROps md2 cx cy cells) -> In c (select_cells ROps md2' cx cy cells).
Proof. exact larger_radius_selects_more. Qed.
Theorem C18_bins_uniform : forall lo hi g, (0 < g)%nat ->
  bin_edges ROps lo hi g = map (fun i => (lo + INR i * ((hi - lo) / INR g))%R) (seq 0 (S g)) /\
  bin_centres ROps (bin_edges ROps lo hi g) = map (fun i => (lo + (2 * INR i + 1) * ((hi - lo) / (2 * INR g)))%R) (seq 0 g).
Proof. intros lo hi g Hg. exact (conj (bin_edges_uniform lo hi g Hg) (bin_centres_uniform lo hi g Hg)). Qed.
Theorem C18_grid_centres_inside : forall lo hi g c, (0 < g)%nat -> (lo < hi)%R -> In c (bin_centres ROps (bin_edges ROps lo hi g)) -> (lo < c < hi)%R.
Proof. exact bin_centres_inside. Qed.

(* non-vacuity: five bins on [0, 10], a centre at (5, 5) with squared radius 4 selects cells 7 and 9, and with them the interfaces touching them *)
Example C18_grid_example :
  map Qred (bin_edges QOps 0%Q 10%Q 5) = [0; 2; 4; 6; 8; 10]%Q /\ 
  map Qred (bin_centres QOps (bin_edges QOps 0%Q 10%Q 5)) = [1; 3; 5; 7; 9]%Q /\
  map (fun c => fst (fst c)) (select_cells QOps 4%Q 5%Q 5%Q [(7%Z, (4, 4), (1, 1)); (8%Z, (9, 9), (1, 1)); (9%Z, (5, 7), (1, 1))]%Q) = [7%Z; 9%Z] /\
  map fst (select_edges [7%Z; 9%Z] [((7, 8)%Z, (1, (1, 0, 1))); ((8, -1)%Z, (1, (1, 0, 1))); ((3, 9)%Z, (1, (1, 0, 1)))]%Q) = [(7, 8)%Z; (3, 9)%Z].
Proof. vm_compute. repeat split. Qed.

Print Assumptions C18_sigma_zero_when_empty.
Print Assumptions C18_sigma_zero_area.
Print Assumptions C18_sigma_linear.
Print Assumptions C18_sigma_isotropic.
Print Assumptions C18_key_injective_le_10.
Print Assumptions C18_key_collision_refuted.
Print Assumptions C18_principal_are_eigenvalues.
Print Assumptions C18_principal_isotropic.
Print Assumptions C18_sigma_order_independent.
Print Assumptions C18_grid_cell_is_sigma_of_the_cells_within_the_radius.
Print Assumptions C18_zero_where_no_centre_within_radius.
Print Assumptions C18_larger_radius_selects_no_fewer.
Print Assumptions C18_bins_uniform.
Print Assumptions C18_grid_centres_inside.
