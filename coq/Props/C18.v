(* C18 -- coarse-grained stress tensor: symmetric, linear, isotropic for pure pressure.  Statements only.
   The tensor of a grid cell is reported as [[xx, xy], [xy, yy]] (symmetric by construction of the model's triple). *)
From Coq Require Import List Reals.
From Coq Require Import Permutation.
From Forsys Require Import Model.Num Model.Stress Proofs.StressProofs.
Import ListNotations.

Theorem C18_sigma_zero_when_empty : forall edges, sigma ROps [] edges = (0%R, 0%R, 0%R).
Proof. exact sigma_zero_when_empty. Qed.
Theorem C18_sigma_zero_area : forall cells edges, total_area ROps cells = 0%R -> sigma ROps cells edges = (0%R, 0%R, 0%R).
Proof. exact sigma_zero_area. Qed.
Theorem C18_sigma_linear : forall a b areas ps ps' ts ts' geo,
  length ps = length areas -> length ps' = length areas -> length ts = length geo -> length ts' = length geo -> sum ROps areas <> 0%R ->
  let s := sigma ROps (with_p areas (lin a b ps ps')) (with_t (lin a b ts ts') geo) in
  let s1 := sigma ROps (with_p areas ps) (with_t ts geo) in
  let s2 := sigma ROps (with_p areas ps') (with_t ts' geo) in
  (fst (fst s) = a * fst (fst s1) + b * fst (fst s2) /\ snd (fst s) = a * snd (fst s1) + b * snd (fst s2) /\ snd s = a * snd s1 + b * snd s2)%R.
Proof. exact sigma_linear. Qed.
Theorem C18_sigma_isotropic : forall p0 areas geo, sum ROps areas <> 0%R ->
  sigma ROps (with_p areas (map (fun _ => p0) areas)) (with_t (map (fun _ => 0%R) geo) geo) = ((- p0)%R, 0%R, (- p0)%R).
Proof. exact sigma_isotropic. Qed.
(* the principal stresses are looked up by the key f"{row}{column}": injective up to 10 x 10, colliding from 12 x 12 on (finding D10) *)
Theorem C18_key_injective_le_10 : forall r c r' c', (r < 10)%nat -> (c < 10)%nat -> (r' < 10)%nat -> (c' < 10)%nat -> key r c = key r' c' -> r = r' /\ c = c'.
Proof. exact key_injective_le_10. Qed.
Theorem C18_key_collision_refuted : key 1 10 = key 11 0 /\ (1%nat, 10%nat) <> (11%nat, 0%nat).
Proof. exact key_collision_12. Qed.

(* ---- principal stresses: the closed form of the eigenvalues of the symmetric tensor [[a, b], [b, c]] (compared with numpy's eig by the harness) *)
Theorem C18_principal_are_eigenvalues : forall a b c : R, let '(l1, l2) := principal ROps (a, b, c) in
  ((a - l1) * (c - l1) - b * b = 0 /\ (a - l2) * (c - l2) - b * b = 0 /\ l2 <= l1 /\ l1 + l2 = a + c /\ l1 * l2 = a * c - b * b)%R.
Proof. exact principal_are_eigenvalues. Qed.
Theorem C18_principal_isotropic : forall p : R, principal ROps (- p, 0, - p)%R = (- p, - p)%R.
Proof. exact principal_isotropic. Qed.

(* the tensor of a grid cell does not depend on the order in which the selected cells and interfaces are listed *)
Theorem C18_sigma_order_independent : forall cells cells' edges edges', Permutation cells cells' -> Permutation edges edges' ->
  sigma ROps cells edges = sigma ROps cells' edges'.
Proof. exact sigma_order_independent. Qed.

Print Assumptions C18_sigma_zero_when_empty.
Print Assumptions C18_sigma_zero_area.
Print Assumptions C18_sigma_linear.
Print Assumptions C18_sigma_isotropic.
Print Assumptions C18_key_injective_le_10.
Print Assumptions C18_key_collision_refuted.
Print Assumptions C18_principal_are_eigenvalues.
Print Assumptions C18_principal_isotropic.
Print Assumptions C18_sigma_order_independent.
