(* C09 -- every construction or editing path yields a consistent vertex-edge-cell mesh.  Statements only.
   PARTIAL: clauses (1) and (2) -- a vertex lists a mesh edge [cell] exactly when that edge [cell] exists and ends at [contains] it --
   are proved for every sequence of the registration operations (object creation, deletion with __del__, replace_vertex).  The
   composite paths (parsers, generate_mesh, join_two_vertices, Frame) and clauses (3)-(5) are evaluated on the implementation
   objects by harness/props/c09.py after every step. *)
From Coq Require Import ZArith List Bool.
From Forsys Require Import Model.Heap Proofs.HeapProofs.
Import ListNotations.

Theorem C09_step_preserves : forall s o, Inv s -> Inv (hstep s o).
Proof. exact step_inv. Qed.
Theorem C09_histories_consistent : forall ops : list hop, Inv (hrun ops).
Proof. exact histories_consistent. Qed.

Example C09_example :
  let s := hrun [Create 0 [1; 2]; Create 1 [2; 3]; Replace 0 1 4; Delete 1]%Z in
  (own s 1, own s 2, own s 3, own s 4, items s) = ([], [0], [], [0], [(0, [4; 2])])%Z.
Proof. vm_compute. reflexivity. Qed.

Print Assumptions C09_step_preserves.
Print Assumptions C09_histories_consistent.
