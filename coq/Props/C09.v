(* C09 -- every construction or editing path yields a consistent vertex-edge-cell mesh.  Statements only.
   PARTIAL: clauses (1) and (2) -- a vertex lists a mesh edge [cell] exactly when that edge [cell] exists and ends at [contains] it --
   are proved for every sequence of the registration operations (object creation, deletion with __del__, replace_vertex).  For the
   resampling path (generate_mesh without merges) clauses (3)-(5) are proved on Model/Resample.v, clause (5) under premises that are
   evaluated on every mesh harness/props/c11.py resamples.  The other composite paths (parsers, join_two_vertices, Frame) are evaluated
   on the implementation objects by harness/props/c09.py after every step. *)
From Coq Require Import ZArith List Bool.
From Coq Require Import QArith.
From Forsys Require Import Model.PyList Model.Interfaces Model.Resample Model.Heap Proofs.HeapProofs Proofs.ShiftProofs Proofs.ResampleProofs Proofs.ResampleConsistency Proofs.SelectionProofs Proofs.JoinProofs Model.SEParse Proofs.SEParseProofs.
Import ListNotations.

Theorem C09_step_preserves : forall s o, Inv s -> Inv (hstep s o).
Proof. exact step_inv. Qed.
Theorem C09_histories_consistent : forall ops : list hop, Inv (hrun ops).
Proof. exact histories_consistent. Qed.

(* ---- the resampling path (generate_mesh without merges, Model/Resample.v resample_core) *)
(* the rebuilt mesh edges are stored under 0, 1, 2, ... : each under its own id, no id twice *)
Theorem C09_resample_edge_ids : forall st narr,
  map fst (es (resample_core st narr)) = map Z.of_nat (seq 0 (length (es (resample_core st narr)))) /\ NoDup (map fst (es (resample_core st narr))).
Proof. exact resample_edge_ids. Qed.
(* every rebuilt mesh edge joins two vertices named by one resampled interface, and both exist afterwards *)
Theorem C09_resample_edges_reference_vertices : forall st narr i a b,
  (forall v, In v (concat narr) -> In v (map fst (vs st))) -> In (i, (a, b)) (es (resample_core st narr)) ->
  (exists e, In e narr /\ In a e /\ In b e) /\ In a (map fst (vs (resample_core st narr))) /\ In b (map fst (vs (resample_core st narr))).
Proof. exact resample_edges_reference_vertices. Qed.
(* surviving cells: not empty, no repeated vertex if there was none, every vertex still exists *)
Theorem C09_resample_cells_consistent : forall st narr cid cyc, In (cid, cyc) (cs (resample_core st narr)) ->
  exists old, In (cid, old) (cs st) /\ cyc <> [] /\ (NoDup old -> NoDup cyc) /\
    (forall v, In v cyc -> In v old /\ (In v (map fst (vs st)) -> In v (map fst (vs (resample_core st narr))))).
Proof. exact resample_cells_consistent. Qed.
(* consecutive vertices (cyclically) of every resampled cell cycle are joined by a rebuilt mesh edge: given that every junction is named
   by a resampled interface and that the vertices of an interface named by any resampled interface are its own selection *)
Theorem C09_resampled_cycle_joined : forall idx junc ne st,
  let bedges := create_edges_new junc (cs st) in
  let narr := n_edge_array idx ne bedges in
  let keep := fun v => memZ v (concat narr) in
  (forall v, junc v = true -> keep v = true) ->
  (forall f, In f bedges -> filter keep f = select_iface idx ne f) ->
  forall cid cyc a b, In (cid, cyc) (cs (resample_core st narr)) -> (forall old, In (cid, old) (cs st) -> existsb junc old = true) ->
  cyc_adjacent a b cyc -> joined (es (resample_core st narr)) a b.
Proof. exact resampled_cycle_joined. Qed.
(* the two conditions follow from conditions on the mesh and the index function alone: interfaces without repeated vertex, an admissible
   index (C11: the floor index and the binary64 index are), a vertex named by some resampled interface is named by the resampling of every
   interface it lies on (junctions are ends and always kept; interior vertices lie on one interface), every junction is an end *)
Theorem C09_resampled_cycle_joined_on_simple_meshes : forall idx junc ne st,
  let bedges := create_edges_new junc (cs st) in
  let narr := n_edge_array idx ne bedges in
  (1 <= ne)%Z ->
  (forall f, In f bedges -> NoDup f /\ ((ne < Z.of_nat (length f))%Z -> admissible idx (Z.of_nat (length f)) ne)) ->
  (forall f f' v, In f bedges -> In f' bedges -> In v f -> In v (select_iface idx ne f') -> In v (select_iface idx ne f)) ->
  (forall v, junc v = true -> exists f, In f bedges /\ f <> [] /\ (v = hd 0%Z f \/ v = last f 0%Z) /\ idx (Z.of_nat (length f)) ne 0%Z = 0%Z) ->
  forall cid cyc a b, In (cid, cyc) (cs (resample_core st narr)) -> (forall old, In (cid, old) (cs st) -> existsb junc old = true) ->
  cyc_adjacent a b cyc -> joined (es (resample_core st narr)) a b.
Proof. exact resampled_cycle_joined_on_simple_meshes. Qed.
(* the same with the conditions in executable form (evaluated by the harness on every resampled mesh it generates) *)
Theorem C09_resample_hyps_cycles_joined : forall idx jl ne st, resample_hyps idx jl ne st = true ->
  cycles_joined (resample_core st (n_edge_array idx ne (create_edges_new (fun v => memZ v jl) (cs st)))) = true.
Proof. exact resample_hyps_cycles_joined. Qed.

(* two cells sharing a five-point interface, resampled to two segments per interface: the conditions hold and three vertices go *)
Example C09_resample_example :
  let st := mkV (map (fun k => (k, (0, 0)%Q)) [1; 10; 11; 12; 2; 20; 21; 30; 31; 32]) [] [(0, [1; 10; 11; 12; 2; 20; 21]); (1, [2; 12; 11; 10; 1; 30; 31; 32])] in
  let st' := resample_core st (n_edge_array floor_index 2 (create_edges_new (fun v => memZ v [1; 2]) (cs st))) in
  resample_hyps floor_index [1; 2] 2 st = true /\ cs st' = [(0, [1; 11; 2; 21]); (1, [2; 11; 1; 31])] /\
  map snd (es st') = [(1, 11); (11, 2); (2, 21); (21, 1); (1, 31); (31, 2)] /\ cycles_joined st' = true.
Proof. vm_compute. repeat split; reflexivity. Qed.

(* ---- the merge path (join_two_vertices on two present vertices): in a mesh without self-loops whose cycles repeat no vertex, after the
   merge every mesh edge ends at existing vertices, every cycle vertex exists, the two merged vertices are referenced nowhere and no cycle
   repeats a vertex *)
Theorem C09_merge_keeps_references : forall st mapper a b st' m',
  has_key (vs st) a = true -> has_key (vs st) b = true -> a <> b -> refs_ok st ->
  (forall k p q, In (k, (p, q)) (es st) -> p <> q) -> (forall c cyc, In (c, cyc) (cs st) -> NoDup cyc) ->
  join_two st mapper a b = Some (st', m') ->
  refs_ok st' /\ (forall c cyc, In (c, cyc) (cs st') -> NoDup cyc /\ ~ In a cyc /\ ~ In b cyc) /\
  (forall k p q, In (k, (p, q)) (es st') -> p <> a /\ p <> b /\ q <> a /\ q <> b).
Proof. exact join_two_keeps_references. Qed.
Example C09_merge_example :
  let st := mkV [(0, (0, 0)%Q); (1, (1, 0)%Q); (2, (1, 1)%Q); (3, (0, 1)%Q)] [(0, (0, 1)); (1, (1, 2)); (2, (2, 3)); (3, (3, 0))] [(0, [0; 1; 2; 3])] in
  match join_two st [] 1 2 with
  | Some (st', m') => cs st' = [(0, [0; 4; 3])] /\ map snd (es st') = [(0, 4); (4, 3); (3, 0)] /\ keys (vs st') = [0; 3; 4] /\ m' = [(1, 4); (2, 4)]
  | None => False
  end.
Proof. vm_compute. repeat split; reflexivity. Qed.

Example C09_example :
  let s := hrun [Create 0 [1; 2]; Create 1 [2; 3]; Replace 0 1 4; Delete 1]%Z in
  (own s 1, own s 2, own s 3, own s 4, items s) = ([], [0], [], [0], [(0, [4; 2])])%Z.
Proof. vm_compute. reflexivity. Qed.

(* the Surface Evolver parser (Model/SEParse.v, create_lattice): every kept mesh edge joins kept vertices, every vertex of a cell cycle is
   kept (whenever the dump defines those vertices at all), and every kept vertex occurs in some cell - clause (3) for that path *)
Theorem C09_parsed_dump_references_exist : forall vids edges cells,
  (forall k v1 v2, In (k, (v1, v2)) (kept_edges edges cells) -> In v1 vids -> In v2 vids ->
     In v1 (kept_vertices vids cells) /\ In v2 (kept_vertices vids cells)) /\
  (forall c v, In c cells -> In v c -> In v vids -> In v (kept_vertices vids cells)) /\
  (forall v, In v (kept_vertices vids cells) -> exists c, In c cells /\ In v c).
Proof. exact parsed_mesh_references_exist. Qed.

Print Assumptions C09_step_preserves.
Print Assumptions C09_histories_consistent.
Print Assumptions C09_resample_edge_ids.
Print Assumptions C09_resample_edges_reference_vertices.
Print Assumptions C09_resample_cells_consistent.
Print Assumptions C09_resampled_cycle_joined.
Print Assumptions C09_resample_hyps_cycles_joined.
Print Assumptions C09_resampled_cycle_joined_on_simple_meshes.
Print Assumptions C09_merge_keeps_references.
Print Assumptions C09_parsed_dump_references_exist.
