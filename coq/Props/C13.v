(* C13 -- velocities are finite differences of tracked vertices over real elapsed time.  Statements only. *)
From Coq Require Import Reals ZArith QArith List Bool Permutation.
From Forsys Require Import Model.Num Model.PyList Model.Tracking Model.ForceSys Model.Velocity Proofs.TrackingProofs Proofs.ForceSysProofs Proofs.VelocityProofs.
Import ListNotations.

(* not the last frame: forward difference to the tracked successor over the difference of the two time stamps *)
Theorem C13_velocity_forward : forall frames maps p t ti vs0 x0 y0 tf vs1 q x1 y1,
  nth_error frames t = Some (ti, vs0) -> assoc vs0 p = Some (x0, y0) -> t <> (length frames - 1)%nat ->
  nth_error frames (S t) = Some (tf, vs1) -> get_point_id_by_map maps p t (S t) = Found (Some q) -> assoc vs1 q = Some (x1, y1) ->
  calculate_velocity frames maps p t = Some (((x1 - x0) / (tf - ti))%Q, ((y1 - y0) / (tf - ti))%Q).
Proof. exact velocity_forward. Qed.
(* the last frame: the same formula with the predecessor (found through the inverted correspondence) *)
Theorem C13_velocity_backward_last : forall frames maps p t ti vs0 x0 y0 tf vs1 q x1 y1,
  nth_error frames t = Some (ti, vs0) -> assoc vs0 p = Some (x0, y0) -> t = (length frames - 1)%nat ->
  nth_error frames (t - 1) = Some (tf, vs1) -> get_point_id_by_map maps p t (t - 1) = Found (Some q) -> assoc vs1 q = Some (x1, y1) ->
  calculate_velocity frames maps p t = Some (((x1 - x0) / (tf - ti))%Q, ((y1 - y0) / (tf - ti))%Q).
Proof. exact velocity_backward_last. Qed.
(* no tracked partner (missing key, None target, or an id absent from the other frame): velocity zero *)
Theorem C13_velocity_no_partner : forall frames maps p t ti vs0 x0 y0 tf vs1,
  nth_error frames t = Some (ti, vs0) -> assoc vs0 p = Some (x0, y0) ->
  let tt1 := if Nat.eqb t (length frames - 1) then (t - 1)%nat else S t in
  nth_error frames tt1 = Some (tf, vs1) ->
  (get_point_id_by_map maps p t tt1 = KeyError \/ get_point_id_by_map maps p t tt1 = Found None \/
   exists q, get_point_id_by_map maps p t tt1 = Found (Some q) /\ assoc vs1 q = None) ->
  exists vx vy, calculate_velocity frames maps p t = Some (vx, vy) /\ (vx == 0)%Q /\ (vy == 0)%Q.
Proof. exact velocity_no_partner. Qed.
(* dynamic mode: each used junction's velocity components are the right-hand sides of its own x- and y-equation, all else 0 *)
Theorem C13_rhs_placement : forall nrows fmap vel, NoDup (map fst (rhs_writes fmap vel)) ->
  let b := set_velocity_rhs nrows fmap vel in
  length b = nrows /\
  (forall v r, In (v, r) fmap -> (S (Z.to_nat r) < nrows)%nat ->
     nth (Z.to_nat r) b 0%Q = fst (vel v) /\ nth (S (Z.to_nat r)) b 0%Q = snd (vel v)) /\
  (forall k, ~ In k (map fst (rhs_writes fmap vel)) -> nth k b 0%Q = 0%Q).
Proof. exact rhs_placement. Qed.
(* static mode: all zero *)
Theorem C13_rhs_static : forall nrows vel, set_velocity_rhs nrows [] vel = zeros nrows.
Proof. exact rhs_static. Qed.

(* ---- adimensional velocities (over the reals) ---- *)
(* the normaliser is the mean speed of ALL used junctions: n x mean = sum of their speeds ... *)
Theorem C13_mean_speed_counts_every_junction : forall vs : list (R * R), vs <> [] ->
  (mean_speed ROps vs * INR (length vs) = sum ROps (map (speed ROps) vs))%R.
Proof. exact mean_speed_counts_every_junction. Qed.
(* ... in particular a junction at rest, or one without tracked partner (velocity zero), is counted *)
Theorem C13_resting_junction_counts : forall vs : list (R * R),
  (mean_speed ROps ((0, 0) :: vs) * INR (S (length vs)) = sum ROps (map (speed ROps) vs))%R.
Proof. exact resting_junction_counts. Qed.
(* the reported pair: (right-hand side / mean speed x normalisation, mean speed); one in dimensional mode and without junctions *)
Theorem C13_dimensional_normaliser_is_one : forall (vs : list (R * R)) (b : list R) (vn : R),
  velocity_matrix ROps false vs b vn = (map (fun x => x / 1 * vn)%R b, 1%R).
Proof. exact dimensional_normaliser_is_one. Qed.

Example C13_example :
  calculate_velocity [(0%Q, [(1%Z, (0%Q, 0%Q))]); (2%Q, [(5%Z, (1%Q, 4%Q))])] [Some [(1%Z, Some 5%Z)]] 1%Z 0%nat
  = Some ((1 - 0) / (2 - 0), (4 - 0) / (2 - 0))%Q.
Proof. vm_compute. reflexivity. Qed.

(* ... and does not depend on the order in which the junctions are listed (independent numbering of each frame) *)
Theorem C13_mean_speed_order_independent : forall vs vs' : list (R * R), Permutation vs vs' -> mean_speed ROps vs = mean_speed ROps vs'.
Proof. exact mean_speed_order_independent. Qed.

Print Assumptions C13_velocity_forward.
Print Assumptions C13_velocity_backward_last.
Print Assumptions C13_velocity_no_partner.
Print Assumptions C13_rhs_placement.
Print Assumptions C13_rhs_static.
Print Assumptions C13_mean_speed_counts_every_junction.
Print Assumptions C13_resting_junction_counts.
Print Assumptions C13_dimensional_normaliser_is_one.
Print Assumptions C13_mean_speed_order_independent.
