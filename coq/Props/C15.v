(* C15 -- skeleton images are parsed into the tissue's true topology.  Statements only.
   PARTIAL: "one cell per enclosed region" and the invariance under the symmetries of the square depend on what cv2.findContours
   returns for each pixel pattern; that library is a black box.  Proved here is what ForSys does with the contours before its
   clean-up passes, and of the clean-up itself which vertices count as pixel artefacts and what the contraction of an artefact (T3) does to the
   cells; everything else is evaluated by harness/props/c15.py. *)
From Coq Require Import ZArith List Bool Permutation.
From Forsys Require Import Model.Skeleton Proofs.SkeletonProofs Model.PyList Model.SkeletonT3 Proofs.SkeletonT3Proofs.
Import ListNotations.

Theorem C15_interning_by_position : forall st p k st', intern st p = (k, st') ->
  lookup_pix p st' = Some k /\ (forall q j, lookup_pix q st = Some j -> lookup_pix q st' = Some j).
Proof. exact interning_by_position. Qed.
Theorem C15_one_cell_per_contour : forall contours,
  length (sk_cells (lattice contours)) = length contours /\
  map (@length Z) (sk_cells (lattice contours)) = map (@length pix) contours.
Proof. exact one_cell_per_contour. Qed.

(* the large-area filter of Skeleton.__post_init__ (exact on integer pixel coordinates) *)
Theorem C15_contour_kept_by_its_own_area : forall cs c,
  In c (area_filter cs) <-> In c cs /\ keeps (map area2_pix cs) (area2_pix c) = true.
Proof. exact area_filter_spec. Qed.
Theorem C15_filter_independent_of_contour_order : forall cs cs', Permutation cs cs' -> Permutation (area_filter cs) (area_filter cs').
Proof. exact area_filter_perm. Qed.
Theorem C15_filter_keeps_contour_order : forall cs, subseq (area_filter cs) cs.
Proof. exact area_filter_keeps_order. Qed.
Theorem C15_contour_area_isometry : forall m11 m12 m21 m22 tx ty c, Z.abs (m11 * m22 - m12 * m21) = 1%Z ->
  area2_pix (map (affine m11 m12 m21 m22 tx ty) c) = area2_pix c.
Proof. exact area2_isometry. Qed.
Theorem C15_contour_area_start_pixel : forall l1 l2, area2_pix (l2 ++ l1) = area2_pix (l1 ++ l2).
Proof. exact area2_rotate. Qed.
Theorem C15_contour_area_sense : forall c, area2_pix (rev c) = area2_pix c.
Proof. exact area2_reverse. Qed.
Theorem C15_filter_commutes_with_symmetries_and_padding : forall m11 m12 m21 m22 tx ty cs, Z.abs (m11 * m22 - m12 * m21) = 1%Z ->
  area_filter (map (map (affine m11 m12 m21 m22 tx ty)) cs) = map (map (affine m11 m12 m21 m22 tx ty)) (area_filter cs).
Proof. exact area_filter_isometry. Qed.
Theorem C15_threshold_ignores_the_largest_region : forall (rest : list Z) (big big' x : Z),
  (forall y, In y rest -> (0 <= y)%Z) -> (zmax rest <= big)%Z -> (big <= big')%Z -> keeps (big :: rest) x = keeps (big' :: rest) x.
Proof. exact threshold_ignores_the_largest. Qed.

(* mesh edges and flags of create_lattice (before its clean-up passes) *)
Theorem C15_one_mesh_edge_per_vertex_pair : forall cells, nodup_sym (edges_of_cells cells).
Proof. exact edges_no_duplicates. Qed.
Theorem C15_every_contour_step_has_its_edge : forall cells c p, In c cells -> In p (cell_pairs c) ->
  pair_in (fst p) (snd p) (edges_of_cells cells) = true.
Proof. exact edges_complete. Qed.
Theorem C15_no_other_mesh_edge : forall cells e, In e (edges_of_cells cells) -> exists c, In c cells /\ In e (cell_pairs c).
Proof. exact edges_sound. Qed.
Theorem C15_border_cell_has_a_private_vertex : forall cells c, In c cells -> is_border cells c = true ->
  exists v, In v c /\ forall d, In d cells -> In v d -> d = c.
Proof. exact border_vertex_is_private. Qed.
Theorem C15_border_flag_spec : forall cells c, is_border cells c = true <-> exists v, In v c /\ length (filter (memZ v) cells) = 1%nat.
Proof. exact is_border_spec. Qed.
Theorem C15_removed_cell_shares_nothing : forall cells c, In c cells -> is_isolated cells c = true ->
  forall v d, In v c -> In d cells -> In v d -> d = c.
Proof. exact isolated_shares_nothing. Qed.

(* six unit squares, one 10 x 10 region and one 30 x 30 region: the two large ones are dropped, the unit squares stay, whatever the order *)
Example C15_filter_drops_the_oversized :
  let sq (x y s : Z) := [(x, y); (x + s, y); (x + s, y + s); (x, y + s)]%Z in
  let small := [sq 0 0 1; sq 2 0 1; sq 4 0 1; sq 6 0 1; sq 8 0 1; sq 10 0 1]%Z in
  area_filter (sq 20 20 10 :: sq 40 0 30 :: small) = small /\ area_filter (small ++ [sq 40 0 30; sq 20 20 10]) = small
  /\ area_filter ([sq 0 0 1; sq 2 0 1; sq 4 0 1] ++ [sq 40 0 30; sq 20 20 10]) = [sq 0 0 1; sq 2 0 1; sq 4 0 1; sq 20 20 10].
Proof. vm_compute. repeat split; reflexivity. Qed.

Example C15_shared_pixels : sk_cells (lattice [[(0, 0); (1, 0); (1, 1)]; [(1, 0); (2, 0); (1, 1)]]%Z) = [[0; 1; 2]; [1; 3; 2]]%Z.
Proof. vm_compute. reflexivity. Qed.

(* the clean-up (Model/SkeletonT3.v, tied step by step to get_artifacts / do_t3_transition): a vertex is a pixel artefact exactly when it has
   three mesh edges, two cells and lies on no external mesh edge; the vertex that replaces an artefact gets an id no vertex has; the
   contraction loses no cell; and in a cell whose cycle repeats no vertex, Cell.replace_vertex removes the artefact vertex, leaves the new
   vertex in the cycle exactly once, changes no other entry and shortens the cycle by one exactly when the new vertex was already there *)
Theorem C15_artefact_vertices : forall m v,
  In v (get_artifacts m) <->
  In v (vids m) /\ length (aget [] v (ownE m)) = 3%nat /\ length (aget [] v (ownC m)) = 2%nat /\
  ~ exists e a b, In (e, (a, b, true)) (medges m) /\ (v = a \/ v = b).
Proof. exact get_artifacts_spec. Qed.
Theorem C15_contraction_vertex_is_new : forall m, ~ In (new_vid m) (vids m).
Proof. exact new_vid_fresh. Qed.
Theorem C15_contraction_keeps_every_cell : forall m art, incl (map fst (mcells m)) (map fst (mcells (t3 m art))).
Proof. exact t3_keeps_every_cell. Qed.
Theorem C15_cell_cycle_after_replacement : forall v new m c, NoDup (aget [] c (mcells m)) -> In v (aget [] c (mcells m)) -> v <> new ->
  let cyc := aget [] c (mcells m) in
  let cyc' := aget [] c (mcells (replace_in_cell v new m c)) in
  ~ In v cyc' /\ In new cyc' /\ NoDup cyc' /\ (forall z, In z cyc' <-> z = new \/ (In z cyc /\ z <> v)) /\
  length cyc' = (if memZ new cyc then pred (length cyc) else length cyc).
Proof. exact replace_in_cell_cycle. Qed.
(* the artefacts handed to the contraction (grouping of the artefact vertices): none is empty and each consists of artefact vertices only *)
Theorem C15_artefacts_consist_of_artefact_vertices : forall m g, In g (artefacts m) -> g <> [] /\ forall v, In v g -> In v (get_artifacts m).
Proof. exact artefacts_consist_of_artefact_vertices. Qed.
(* in a mesh whose cell cycles repeat no vertex and in which every artefact vertex lists the cells it occurs in (executable premises t3_hyps,
   evaluated on recorded states), the contraction leaves no artefact vertex in any cell cycle - the cells name only vertices that survive it -
   and no cycle repeats a vertex afterwards *)
Theorem C15_contraction_leaves_no_artefact_vertex_in_a_cell : forall m art, t3_hyps m art = true ->
  (forall c, NoDup (aget [] c (mcells (t3 m art)))) /\ forall v c, In v art -> ~ In v (aget [] c (mcells (t3 m art))).
Proof. exact t3_leaves_no_artefact_vertex_in_a_cell. Qed.
(* the last pass (removal of isolated cells, with the iteration over a list that shrinks under the iterator modelled as it runs) invents no cell *)
Theorem C15_removal_of_isolated_cells_invents_no_cell : forall m, incl (map fst (mcells (remove_isolated m))) (map fst (mcells m)).
Proof. exact remove_isolated_invents_no_cell. Qed.
(* the inner-triangle pass (interfaces that share both ends; modelled with collections.Counter's first-occurrence order, numpy's setdiff1d and the
   iteration over a list that shrinks under the iterator) loses no cell *)
Theorem C15_inner_triangle_pass_keeps_every_cell : forall m, incl (map fst (mcells m)) (map fst (mcells (inner_triangles m))).
Proof. exact inner_triangles_keep_every_cell. Qed.
(* the state create_lattice starts from (built from the kept contours) lists every vertex on the cells it occurs in: that premise of the
   contraction theorem holds there by construction *)
Theorem C15_starting_state_registers_cells : forall st v c, In v (vids (mesh_of_lattice st)) ->
  In v (aget [] c (mcells (mesh_of_lattice st))) -> In c (aget [] v (ownC (mesh_of_lattice st))).
Proof. intros st v c Hv. exact (mesh_of_lattice_registered st v Hv c). Qed.
(* non-vacuity: a triangle 1-2-3 between the cells 10, 11, 12 with one outgoing mesh edge per corner is contracted to vertex 7 *)
Example C15_contraction_example :
  let m := mkM [1; 2; 3; 4; 5; 6] [(1, [0; 2; 3]); (2, [0; 1; 4]); (3, [1; 2; 5]); (4, [3]); (5, [4]); (6, [5])]
               [(1, [10; 11]); (2, [10; 12]); (3, [11; 12]); (4, [10; 11]); (5, [10; 12]); (6, [11; 12])]
               [(0, (1, 2, false)); (1, (2, 3, false)); (2, (3, 1, false)); (3, (1, 4, false)); (4, (2, 5, false)); (5, (3, 6, false))]
               [(10, [4; 1; 2; 5]); (11, [6; 3; 1; 4]); (12, [5; 2; 3; 6])] in
  get_artifacts m = [1; 2; 3] /\ artefacts m = [[1; 2; 3]] /\ t3_hyps m [1; 2; 3] = true /\
  mesh_eqb (t3 m [1; 2; 3])
           (mkM [4; 5; 6; 7] [(4, [3]); (5, [4]); (6, [5]); (7, [3; 4; 5])] [(4, [10; 11]); (5, [10; 12]); (6, [11; 12]); (7, [10; 11; 12])]
                [(3, (7, 4, false)); (4, (7, 5, false)); (5, (7, 6, false))] [(10, [4; 7; 5]); (11, [6; 7; 4]); (12, [5; 7; 6])]) = true.
Proof. vm_compute. repeat split; reflexivity. Qed.

Print Assumptions C15_interning_by_position.
Print Assumptions C15_one_cell_per_contour.
Print Assumptions C15_contour_kept_by_its_own_area.
Print Assumptions C15_filter_independent_of_contour_order.
Print Assumptions C15_filter_keeps_contour_order.
Print Assumptions C15_contour_area_isometry.
Print Assumptions C15_contour_area_start_pixel.
Print Assumptions C15_contour_area_sense.
Print Assumptions C15_filter_commutes_with_symmetries_and_padding.
Print Assumptions C15_threshold_ignores_the_largest_region.
Print Assumptions C15_one_mesh_edge_per_vertex_pair.
Print Assumptions C15_every_contour_step_has_its_edge.
Print Assumptions C15_no_other_mesh_edge.
Print Assumptions C15_border_cell_has_a_private_vertex.
Print Assumptions C15_border_flag_spec.
Print Assumptions C15_removed_cell_shares_nothing.
Print Assumptions C15_artefact_vertices.
Print Assumptions C15_contraction_vertex_is_new.
Print Assumptions C15_contraction_keeps_every_cell.
Print Assumptions C15_cell_cycle_after_replacement.
Print Assumptions C15_artefacts_consist_of_artefact_vertices.
Print Assumptions C15_contraction_leaves_no_artefact_vertex_in_a_cell.
Print Assumptions C15_removal_of_isolated_cells_invents_no_cell.
Print Assumptions C15_inner_triangle_pass_keeps_every_cell.
Print Assumptions C15_starting_state_registers_cells.
