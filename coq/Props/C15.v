(* C15 -- skeleton images are parsed into the tissue's true topology.  Statements only.
   PARTIAL: "one cell per enclosed region" and the invariance under the symmetries of the square depend on what cv2.findContours
   returns for each pixel pattern; that library is a black box.  Proved here is what ForSys does with the contours before its
   clean-up passes; everything else is evaluated by harness/props/c15.py. *)
From Coq Require Import ZArith List Bool Permutation.
From Forsys Require Import Model.Skeleton Proofs.SkeletonProofs.
Import ListNotations.

Theorem C15_interning_by_position : forall st p k st', intern st p = (k, st') ->
  lookup_pix p st' = Some k /\ (forall q j, lookup_pix q st = Some j -> lookup_pix q st' = Some j).
Proof. exact interning_by_position. Qed.
Theorem C15_one_cell_per_contour : forall contours,
  length (sk_cells (lattice contours)) = length contours /\
  map (@length Z) (sk_cells (lattice contours)) = map (@length pix) contours.
Proof. exact one_cell_per_contour. Qed.

(* the large-area filter of Skeleton.__post_init__ (exact on integer pixel coordinates) *)
Theorem C15_contour_kept_by_its_own_area : forall cs c,
  In c (area_filter cs) <-> In c cs /\ keeps (map area2_pix cs) (area2_pix c) = true.
Proof. exact area_filter_spec. Qed.
Theorem C15_filter_independent_of_contour_order : forall cs cs', Permutation cs cs' -> Permutation (area_filter cs) (area_filter cs').
Proof. exact area_filter_perm. Qed.
Theorem C15_filter_keeps_contour_order : forall cs, subseq (area_filter cs) cs.
Proof. exact area_filter_keeps_order. Qed.
Theorem C15_contour_area_isometry : forall m11 m12 m21 m22 tx ty c, Z.abs (m11 * m22 - m12 * m21) = 1%Z ->
  area2_pix (map (affine m11 m12 m21 m22 tx ty) c) = area2_pix c.
Proof. exact area2_isometry. Qed.
Theorem C15_contour_area_start_pixel : forall l1 l2, area2_pix (l2 ++ l1) = area2_pix (l1 ++ l2).
Proof. exact area2_rotate. Qed.
Theorem C15_contour_area_sense : forall c, area2_pix (rev c) = area2_pix c.
Proof. exact area2_reverse. Qed.
Theorem C15_filter_commutes_with_symmetries_and_padding : forall m11 m12 m21 m22 tx ty cs, Z.abs (m11 * m22 - m12 * m21) = 1%Z ->
  area_filter (map (map (affine m11 m12 m21 m22 tx ty)) cs) = map (map (affine m11 m12 m21 m22 tx ty)) (area_filter cs).
Proof. exact area_filter_isometry. Qed.
Theorem C15_threshold_ignores_the_largest_region : forall (rest : list Z) (big big' x : Z),
  (forall y, In y rest -> (0 <= y)%Z) -> (zmax rest <= big)%Z -> (big <= big')%Z -> keeps (big :: rest) x = keeps (big' :: rest) x.
Proof. exact threshold_ignores_the_largest. Qed.

(* mesh edges and flags of create_lattice (before its clean-up passes) *)
Theorem C15_one_mesh_edge_per_vertex_pair : forall cells, nodup_sym (edges_of_cells cells).
Proof. exact edges_no_duplicates. Qed.
Theorem C15_every_contour_step_has_its_edge : forall cells c p, In c cells -> In p (cell_pairs c) ->
  pair_in (fst p) (snd p) (edges_of_cells cells) = true.
Proof. exact edges_complete. Qed.
Theorem C15_no_other_mesh_edge : forall cells e, In e (edges_of_cells cells) -> exists c, In c cells /\ In e (cell_pairs c).
Proof. exact edges_sound. Qed.
Theorem C15_border_cell_has_a_private_vertex : forall cells c, In c cells -> is_border cells c = true ->
  exists v, In v c /\ forall d, In d cells -> In v d -> d = c.
Proof. exact border_vertex_is_private. Qed.
Theorem C15_border_flag_spec : forall cells c, is_border cells c = true <-> exists v, In v c /\ length (filter (memZ v) cells) = 1%nat.
Proof. exact is_border_spec. Qed.
Theorem C15_removed_cell_shares_nothing : forall cells c, In c cells -> is_isolated cells c = true ->
  forall v d, In v c -> In d cells -> In v d -> d = c.
Proof. exact isolated_shares_nothing. Qed.

(* six unit squares, one 10 x 10 region and one 30 x 30 region: the two large ones are dropped, the unit squares stay, whatever the order *)
Example C15_filter_drops_the_oversized :
  let sq (x y s : Z) := [(x, y); (x + s, y); (x + s, y + s); (x, y + s)]%Z in
  let small := [sq 0 0 1; sq 2 0 1; sq 4 0 1; sq 6 0 1; sq 8 0 1; sq 10 0 1]%Z in
  area_filter (sq 20 20 10 :: sq 40 0 30 :: small) = small /\ area_filter (small ++ [sq 40 0 30; sq 20 20 10]) = small
  /\ area_filter ([sq 0 0 1; sq 2 0 1; sq 4 0 1] ++ [sq 40 0 30; sq 20 20 10]) = [sq 0 0 1; sq 2 0 1; sq 4 0 1; sq 20 20 10].
Proof. vm_compute. repeat split; reflexivity. Qed.

Example C15_shared_pixels : sk_cells (lattice [[(0, 0); (1, 0); (1, 1)]; [(1, 0); (2, 0); (1, 1)]]%Z) = [[0; 1; 2]; [1; 3; 2]]%Z.
Proof. vm_compute. reflexivity. Qed.

Print Assumptions C15_interning_by_position.
Print Assumptions C15_one_cell_per_contour.
Print Assumptions C15_contour_kept_by_its_own_area.
Print Assumptions C15_filter_independent_of_contour_order.
Print Assumptions C15_filter_keeps_contour_order.
Print Assumptions C15_contour_area_isometry.
Print Assumptions C15_contour_area_start_pixel.
Print Assumptions C15_contour_area_sense.
Print Assumptions C15_filter_commutes_with_symmetries_and_padding.
Print Assumptions C15_threshold_ignores_the_largest_region.
Print Assumptions C15_one_mesh_edge_per_vertex_pair.
Print Assumptions C15_every_contour_step_has_its_edge.
Print Assumptions C15_no_other_mesh_edge.
Print Assumptions C15_border_cell_has_a_private_vertex.
Print Assumptions C15_border_flag_spec.
Print Assumptions C15_removed_cell_shares_nothing.
