(* C15 -- skeleton images are parsed into the tissue's true topology.  Statements only.
   PARTIAL: "one cell per enclosed region" and the invariance under the symmetries of the square depend on what cv2.findContours
   returns for each pixel pattern; that library is a black box.  Proved here is what ForSys does with the contours before its
   clean-up passes; everything else is evaluated by harness/props/c15.py. *)
From Coq Require Import ZArith List Bool.
From Forsys Require Import Model.Skeleton Proofs.SkeletonProofs.
Import ListNotations.

Theorem C15_interning_by_position : forall st p k st', intern st p = (k, st') ->
  lookup_pix p st' = Some k /\ (forall q j, lookup_pix q st = Some j -> lookup_pix q st' = Some j).
Proof. exact interning_by_position. Qed.
Theorem C15_one_cell_per_contour : forall contours,
  length (sk_cells (lattice contours)) = length contours /\
  map (@length Z) (sk_cells (lattice contours)) = map (@length pix) contours.
Proof. exact one_cell_per_contour. Qed.

Example C15_shared_pixels : sk_cells (lattice [[(0, 0); (1, 0); (1, 1)]; [(1, 0); (2, 0); (1, 1)]]%Z) = [[0; 1; 2]; [1; 3; 2]]%Z.
Proof. vm_compute. reflexivity. Qed.

Print Assumptions C15_interning_by_position.
Print Assumptions C15_one_cell_per_contour.
