(* C01 -- static inference recovers the tensions of any tissue in force balance.  Statements only.
   The property composes three facts: (i) the assembled rows are outward unit tangents (C02); (ii) force balance then makes
   (T / mean T, 0) an exact solution of the augmented system; (iii) the solver returns a minimiser over the non-negative orthant (C05),
   and an injective augmented matrix has only one.  (ii) and (iii) are the theorems below, and so is the link from (i) to (ii): the two rows of a junction applied to a
   tension vector are the resultant of the tensions along the assembled versors, so tensions in force balance are in the kernel of the
   assembled matrix.  The composition on floating-point data is exercised end to end by harness/props/c01.py. *)
From Coq Require Import List Reals ZArith QArith.
From Forsys Require Import Model.Num Model.PyList Model.Interfaces Model.ForceSys Model.Cert Proofs.CertProofs Proofs.ForceSysProofs Proofs.BalanceProofs.
Import ListNotations.

Theorem C01_equilibrium_solves_augmented : forall (M : list (list R)) (T b : list R),
  rows_ok (length T) M -> mv ROps M T = b -> vsum ROps T = INR (length T) ->
  mv ROps (raug M (length T)) (T ++ [0%R]) = b ++ [INR (length T)].
Proof. exact equilibrium_solves_augmented. Qed.

Theorem C01_zero_residual_minimiser_unique : forall n (A : list (list R)) (b z zs : list R),
  rows_ok n A -> length b = length A -> length z = n -> length zs = n ->
  (forall d, length d = n -> Forall (fun x => x = 0%R) (mv ROps A d) -> Forall (fun x => x = 0%R) d) ->
  mv ROps A zs = b -> nonneg zs ->
  (forall y, length y = n -> nonneg y -> (sqn ROps (vsub ROps (mv ROps A z) b) <= sqn ROps (vsub ROps (mv ROps A y) b))%R) ->
  z = zs.
Proof. exact zero_residual_minimiser_unique. Qed.

(* the certificate route of C05 supplies the hypothesis "z minimises over the non-negative orthant" for each solve *)
Theorem C01_kkt_exact : forall n A b z y, rows_ok n A -> length b = length A -> length z = n -> length y = n -> nonneg y ->
  let w := tmv ROps n A (vsub ROps (mv ROps A z) b) in
  Forall (fun wi => (0 <= wi)%R) w -> Forall (fun p => (fst p * snd p <= 0)%R) (combine z w) ->
  (sqn ROps (vsub ROps (mv ROps A z) b) <= sqn ROps (vsub ROps (mv ROps A y) b))%R.
Proof. exact kkt_exact. Qed.

(* "up to numerical tolerance", made precise: the assembled matrix A differs from the true one by the error of the fitted tangents, so the
   true tensions xs leave a residual e = A xs - b.  If the reported vector xh fits the assembled equations at least as well as xs does
   (what a minimiser over any set containing xs does) then  sigma2 |xh - xs|^2 <= 4 |e|^2  for every lower bound sigma2 of
   |A d|^2 / |d|^2: the recovery error is at most 2 |e| / sigma_min.  harness/props/c01.py measures e and sigma_min and judges with this bound *)
Theorem C01_perturbation_bound : forall n (A : list (list R)) (b xh xs : list R) (sigma2 : R),
  rows_ok n A -> length b = length A -> length xh = n -> length xs = n ->
  (sqn ROps (vsub ROps (mv ROps A xh) b) <= sqn ROps (vsub ROps (mv ROps A xs) b))%R ->
  (forall d, length d = n -> (sigma2 * sqn ROps d <= sqn ROps (mv ROps A d))%R) ->
  (sigma2 * sqn ROps (vsub ROps xh xs) <= 4 * sqn ROps (vsub ROps (mv ROps A xs) b))%R.
Proof. exact perturbation_bound. Qed.

(* ---- from the assembled system (Model/ForceSys.v, C02) to the algebra: what a junction's two rows compute *)
Theorem C01_junction_rows_are_resultants : forall to_use ncells_v incs (t : list Q),
  NoDup (map fst (writes to_use ncells_v incs)) -> length t = length to_use ->
  (forall w, In w (writes to_use ncells_v incs) -> (fst w < length to_use)%nat) ->
  let eq := vertex_equation to_use ncells_v incs in
  (qdot (fst eq) t == qsum (map (fun w => fst (snd w) * nth (fst w) t 0) (writes to_use ncells_v incs)))%Q /\
  (qdot (snd eq) t == qsum (map (fun w => snd (snd w) * nth (fst w) t 0) (writes to_use ncells_v incs)))%Q.
Proof. exact junction_rows_are_resultants. Qed.
(* tensions that are in force balance at every junction are annihilated by every row of the assembled matrix *)
Theorem C01_balanced_tensions_in_kernel : forall ignore_four to_use tj ncells incidents (t : list Q), length t = length to_use ->
  (forall v, In v tj -> junction_ok to_use (ncells v) (incidents v)) ->
  (forall v, In v tj -> in_balance to_use (ncells v) (incidents v) t) ->
  Forall (fun row => (qdot row t == 0)%Q) (fm_rows (build_matrix ignore_four to_use tj ncells incidents)).
Proof. exact balanced_tensions_in_kernel. Qed.

(* three interfaces meeting at junction 1 along (3/5, 4/5), (-3/5, 4/5), (0, -1) under tensions 5, 5, 8: the premises hold *)
Example C01_balanced_junction :
  let to_use := [[1; 2]; [1; 3]; [4; 1]]%Z in
  let incs := [mkInc [1; 2]%Z false (3 # 5) (4 # 5); mkInc [1; 3]%Z false (-3 # 5) (4 # 5); mkInc [4; 1]%Z false 0 (-1 # 1)]%Q in
  junction_ok to_use 3%Z incs /\ in_balance to_use 3%Z incs [5 # 1; 5 # 1; 8 # 1]%Q /\
  vertex_equation to_use 3%Z incs = ([3 # 5; -3 # 5; 0], [4 # 5; 4 # 5; -1 # 1])%Q.
Proof. cbv zeta. split; [|split].
  - unfold junction_ok. vm_compute. split; [repeat constructor; simpl; intuition discriminate|].
    intros w [<- | [<- | [<- | []]]]; repeat constructor.
  - unfold in_balance. vm_compute. split; reflexivity.
  - vm_compute. reflexivity. Qed.

Print Assumptions C01_equilibrium_solves_augmented.
Print Assumptions C01_zero_residual_minimiser_unique.
Print Assumptions C01_kkt_exact.
Print Assumptions C01_perturbation_bound.
Print Assumptions C01_junction_rows_are_resultants.
Print Assumptions C01_balanced_tensions_in_kernel.
