(* C01 -- static inference recovers the tensions of any tissue in force balance.  Statements only.
   The property composes three facts: (i) the assembled rows are outward unit tangents (C02); (ii) force balance then makes
   (T / mean T, 0) an exact solution of the augmented system; (iii) the solver returns a minimiser over the non-negative orthant (C05),
   and an injective augmented matrix has only one.  (ii) and (iii) are the theorems below; the composition is exercised end to end
   by harness/props/c01.py. *)
From Coq Require Import List Reals.
From Forsys Require Import Model.Num Model.Cert Proofs.CertProofs.
Import ListNotations.

Theorem C01_equilibrium_solves_augmented : forall (M : list (list R)) (T b : list R),
  rows_ok (length T) M -> mv ROps M T = b -> vsum ROps T = INR (length T) ->
  mv ROps (raug M (length T)) (T ++ [0%R]) = b ++ [INR (length T)].
Proof. exact equilibrium_solves_augmented. Qed.

Theorem C01_zero_residual_minimiser_unique : forall n (A : list (list R)) (b z zs : list R),
  rows_ok n A -> length b = length A -> length z = n -> length zs = n ->
  (forall d, length d = n -> Forall (fun x => x = 0%R) (mv ROps A d) -> Forall (fun x => x = 0%R) d) ->
  mv ROps A zs = b -> nonneg zs ->
  (forall y, length y = n -> nonneg y -> (sqn ROps (vsub ROps (mv ROps A z) b) <= sqn ROps (vsub ROps (mv ROps A y) b))%R) ->
  z = zs.
Proof. exact zero_residual_minimiser_unique. Qed.

(* the certificate route of C05 supplies the hypothesis "z minimises over the non-negative orthant" for each solve *)
Theorem C01_kkt_exact : forall n A b z y, rows_ok n A -> length b = length A -> length z = n -> length y = n -> nonneg y ->
  let w := tmv ROps n A (vsub ROps (mv ROps A z) b) in
  Forall (fun wi => (0 <= wi)%R) w -> Forall (fun p => (fst p * snd p <= 0)%R) (combine z w) ->
  (sqn ROps (vsub ROps (mv ROps A z) b) <= sqn ROps (vsub ROps (mv ROps A y) b))%R.
Proof. exact kkt_exact. Qed.

(* "up to numerical tolerance", made precise: the assembled matrix A differs from the true one by the error of the fitted tangents, so the
   true tensions xs leave a residual e = A xs - b.  If the reported vector xh fits the assembled equations at least as well as xs does
   (what a minimiser over any set containing xs does) then  sigma2 |xh - xs|^2 <= 4 |e|^2  for every lower bound sigma2 of
   |A d|^2 / |d|^2: the recovery error is at most 2 |e| / sigma_min.  harness/props/c01.py measures e and sigma_min and judges with this bound *)
Theorem C01_perturbation_bound : forall n (A : list (list R)) (b xh xs : list R) (sigma2 : R),
  rows_ok n A -> length b = length A -> length xh = n -> length xs = n ->
  (sqn ROps (vsub ROps (mv ROps A xh) b) <= sqn ROps (vsub ROps (mv ROps A xs) b))%R ->
  (forall d, length d = n -> (sigma2 * sqn ROps d <= sqn ROps (mv ROps A d))%R) ->
  (sigma2 * sqn ROps (vsub ROps xh xs) <= 4 * sqn ROps (vsub ROps (mv ROps A xs) b))%R.
Proof. exact perturbation_bound. Qed.

Print Assumptions C01_equilibrium_solves_augmented.
Print Assumptions C01_zero_residual_minimiser_unique.
Print Assumptions C01_kkt_exact.
Print Assumptions C01_perturbation_bound.
