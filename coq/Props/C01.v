(* C01 -- static inference recovers the tensions of any tissue in force balance.  Statements only.
   The property composes three facts: (i) the assembled rows are outward unit tangents (C02); (ii) force balance then makes
   (T / mean T, 0) an exact solution of the augmented system; (iii) the solver returns a minimiser over the non-negative orthant (C05),
   and an injective augmented matrix has only one.  (ii) and (iii) are the theorems below; the composition is exercised end to end
   by harness/props/c01.py. *)
From Coq Require Import List Reals.
From Forsys Require Import Model.Num Model.Cert Proofs.CertProofs.
Import ListNotations.

Theorem C01_equilibrium_solves_augmented : forall (M : list (list R)) (T b : list R),
  rows_ok (length T) M -> mv ROps M T = b -> vsum ROps T = INR (length T) ->
  mv ROps (raug M (length T)) (T ++ [0%R]) = b ++ [INR (length T)].
Proof. exact equilibrium_solves_augmented. Qed.

Theorem C01_zero_residual_minimiser_unique : forall n (A : list (list R)) (b z zs : list R),
  rows_ok n A -> length b = length A -> length z = n -> length zs = n ->
  (forall d, length d = n -> Forall (fun x => x = 0%R) (mv ROps A d) -> Forall (fun x => x = 0%R) d) ->
  mv ROps A zs = b -> nonneg zs ->
  (forall y, length y = n -> nonneg y -> (sqn ROps (vsub ROps (mv ROps A z) b) <= sqn ROps (vsub ROps (mv ROps A y) b))%R) ->
  z = zs.
Proof. exact zero_residual_minimiser_unique. Qed.

(* the certificate route of C05 supplies the hypothesis "z minimises over the non-negative orthant" for each solve *)
Theorem C01_kkt_exact : forall n A b z y, rows_ok n A -> length b = length A -> length z = n -> length y = n -> nonneg y ->
  let w := tmv ROps n A (vsub ROps (mv ROps A z) b) in
  Forall (fun wi => (0 <= wi)%R) w -> Forall (fun p => (fst p * snd p <= 0)%R) (combine z w) ->
  (sqn ROps (vsub ROps (mv ROps A z) b) <= sqn ROps (vsub ROps (mv ROps A y) b))%R.
Proof. exact kkt_exact. Qed.

Print Assumptions C01_equilibrium_solves_augmented.
Print Assumptions C01_zero_residual_minimiser_unique.
Print Assumptions C01_kkt_exact.
