(* C12 -- vertex tracking between frames is injective and follows small motions.  Statements only. *)
From Coq Require Import ZArith QArith List Bool.
From Forsys Require Import Model.PyList Model.Tracking Proofs.TrackingProofs.
Import ListNotations.

(* never two vertices on one target, for every pool, every search radius schedule, every (injective) initial guess *)
Theorem C12_mapping_injective : forall spreads guess pool0 pool1 mc, NoDup (targets guess) ->
  NoDup (targets (create_mapping spreads guess pool0 pool1 mc)).
Proof. exact mapping_injective. Qed.
(* user-supplied pairings are honoured *)
Theorem C12_guess_honoured : forall spreads guess pool0 pool1 mc, NoDup (targets guess) ->
  exists rest, create_mapping spreads guess pool0 pool1 mc = guess ++ rest.
Proof. exact guess_honoured. Qed.
(* interface end points are mapped to interface end points of the next frame *)
Theorem C12_targets_are_endpoints : forall spreads guess pool0 pool1 mc, NoDup (targets guess) ->
  forall t, In t (targets (create_mapping spreads guess pool0 pool1 mc)) -> In t (targets guess) \/ exists c, In c pool1 /\ vid c = t.
Proof. exact targets_are_endpoints. Qed.
Theorem C12_every_endpoint_is_mapped : forall spreads guess pool0 pool1 mc, NoDup (targets guess) ->
  forall v0, In v0 pool0 -> has_keyo (create_mapping spreads guess pool0 pool1 mc) (vid v0) = true.
Proof. exact every_endpoint_is_mapped. Qed.
(* a vertex chosen by the proximity search was free *)
Theorem C12_find_best_free : forall spreads m v0 pool mc t, find_best spreads m v0 pool mc = Some t ->
  exists c, In c pool /\ vid c = t /\ ~ In t (targets m).
Proof. exact find_best_free. Qed.
(* following the correspondence forward and then backward returns the starting vertex *)
Theorem C12_forward_backward : forall m k t, NoDup (map fst m) -> NoDup (targets m) -> In (k, Some t) m ->
  follow_forward [Some m] (Some k) = Found (Some t) /\ follow_backward [Some m] (Some t) = Found (Some k).
Proof. exact forward_backward_one_step. Qed.

(* non-vacuity: two vertices, the nearer free one is chosen and the second vertex cannot take it again *)
Example C12_example :
  create_mapping [(1 # 100)%Q; (2 # 100)%Q] [] [(1%Z, (0%Q, 0%Q)); (2%Z, ((1 # 10)%Q, 0%Q))] [(7%Z, ((1 # 100)%Q, 0%Q)); (8%Z, (5%Q, 5%Q))] 10%Q
  = [(1, Some 7); (2, None)]%Z.
Proof. vm_compute. reflexivity. Qed.

Print Assumptions C12_mapping_injective.
Print Assumptions C12_guess_honoured.
Print Assumptions C12_targets_are_endpoints.
Print Assumptions C12_every_endpoint_is_mapped.
Print Assumptions C12_find_best_free.
Print Assumptions C12_forward_backward.
