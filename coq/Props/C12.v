(* C12 -- vertex tracking between frames is injective and follows small motions.  Statements only. *)
From Coq Require Import ZArith QArith List Bool.
From Forsys Require Import Model.PyList Model.Tracking Proofs.TrackingProofs Proofs.TrackingMotionProofs.
Import ListNotations.

(* never two vertices on one target, for every pool, every search radius schedule, every (injective) initial guess *)
Theorem C12_mapping_injective : forall spreads guess pool0 pool1 mc, NoDup (targets guess) ->
  NoDup (targets (create_mapping spreads guess pool0 pool1 mc)).
Proof. exact mapping_injective. Qed.
(* user-supplied pairings are honoured *)
Theorem C12_guess_honoured : forall spreads guess pool0 pool1 mc, NoDup (targets guess) ->
  exists rest, create_mapping spreads guess pool0 pool1 mc = guess ++ rest.
Proof. exact guess_honoured. Qed.
(* interface end points are mapped to interface end points of the next frame *)
Theorem C12_targets_are_endpoints : forall spreads guess pool0 pool1 mc, NoDup (targets guess) ->
  forall t, In t (targets (create_mapping spreads guess pool0 pool1 mc)) -> In t (targets guess) \/ exists c, In c pool1 /\ vid c = t.
Proof. exact targets_are_endpoints. Qed.
Theorem C12_every_endpoint_is_mapped : forall spreads guess pool0 pool1 mc, NoDup (targets guess) ->
  forall v0, In v0 pool0 -> has_keyo (create_mapping spreads guess pool0 pool1 mc) (vid v0) = true.
Proof. exact every_endpoint_is_mapped. Qed.
(* a vertex chosen by the proximity search was free *)
Theorem C12_find_best_free : forall spreads m v0 pool mc t, find_best spreads m v0 pool mc = Some t ->
  exists c, In c pool /\ vid c = t /\ ~ In t (targets m).
Proof. exact find_best_free. Qed.
(* following the correspondence forward and then backward returns the starting vertex *)
Theorem C12_forward_backward : forall m k t, NoDup (map fst m) -> NoDup (targets m) -> In (k, Some t) m ->
  follow_forward [Some m] (Some k) = Found (Some t) /\ follow_backward [Some m] (Some t) = Found (Some k).
Proof. exact forward_backward_one_step. Qed.

(* the proximity search returns a vertex's true successor whenever that successor is free, strictly the nearest free end point and
   inside the largest search radius -- whatever the order of the pool, the earlier sweeps and the stale radius of the second pass *)
Theorem C12_find_best_nearest : forall m v0 pool w, free_in m pool w ->
  (forall c, free_in m pool c -> c = w \/ (sqd v0 w < sqd v0 c)%Q) ->
  forall spreads mc, spreads <> [] -> (sqd v0 w < (last spreads 0%Q * mc) * (last spreads 0%Q * mc))%Q ->
  find_best spreads m v0 pool mc = Some (vid w).
Proof. exact find_best_nearest. Qed.
(* small motions are followed: if every end point moves by less than d, d is at most half the smallest spacing of the next frame's
   end points and at most the largest search radius (0.08 x extent for the shipped schedule), then every end point is mapped to its
   true successor -- for any numbering of either frame (ids are arbitrary, pools are in arbitrary order) *)
Theorem C12_small_motions_are_followed : forall spreads mc pool0 pool1 (succ : vtx -> vtx) (d2 : Q),
  spreads <> [] -> NoDup (map vid pool0) -> NoDup (map vid pool1) ->
  (forall v0, In v0 pool0 -> In (succ v0) pool1) -> NoDup (map (fun v => vid (succ v)) pool0) ->
  (forall v0, In v0 pool0 -> (sqd v0 (succ v0) < d2)%Q) ->
  (forall c c', In c pool1 -> In c' pool1 -> c <> c' -> (4 * d2 <= sqd c c')%Q) ->
  (d2 <= (last spreads 0%Q * mc) * (last spreads 0%Q * mc))%Q ->
  create_mapping spreads [] pool0 pool1 mc = map (fun v0 => (vid v0, Some (vid (succ v0)))) pool0.
Proof. exact small_motions_are_followed. Qed.
(* non-vacuity of the small-motion hypotheses: three end points moving by (1/100, 0), spacing >= 1, extent 10, shipped radii *)
Example C12_small_motion_example :
  let spreads := [(5 # 1000); (1 # 100); (2 # 100); (4 # 100); (8 # 100)]%Q in
  let pool0 := [(4%Z, (0%Q, 0%Q)); (9%Z, (1%Q, 0%Q)); (2%Z, (0%Q, 2%Q))] in
  let pool1 := [(30%Z, ((1 # 100)%Q, 2%Q)); (10%Z, ((101 # 100)%Q, 0%Q)); (20%Z, ((1 # 100)%Q, 0%Q))] in
  create_mapping spreads [] pool0 pool1 10%Q = [(4, Some 20); (9, Some 10); (2, Some 30)]%Z.
Proof. vm_compute. reflexivity. Qed.

(* non-vacuity: two vertices, the nearer free one is chosen and the second vertex cannot take it again *)
Example C12_example :
  create_mapping [(1 # 100)%Q; (2 # 100)%Q] [] [(1%Z, (0%Q, 0%Q)); (2%Z, ((1 # 10)%Q, 0%Q))] [(7%Z, ((1 # 100)%Q, 0%Q)); (8%Z, (5%Q, 5%Q))] 10%Q
  = [(1, Some 7); (2, None)]%Z.
Proof. vm_compute. reflexivity. Qed.

(* the bounding-box test: frames whose bounding boxes have the same width and height are never declared incompatible, whatever moved
   inside and however the frames are numbered; in particular a frame is compatible with itself *)
Theorem C12_same_extent_not_too_different : forall p0 p1 : list vtx,
  (lmax (xs_of p1) - lmin (xs_of p1) == lmax (xs_of p0) - lmin (xs_of p0))%Q ->
  (lmax (ys_of p1) - lmin (ys_of p1) == lmax (ys_of p0) - lmin (ys_of p0))%Q -> too_different p0 p1 = false.
Proof. exact same_extent_not_too_different. Qed.
Theorem C12_frame_compatible_with_itself : forall p : list vtx, too_different p p = false.
Proof. exact frame_not_too_different_from_itself. Qed.

Print Assumptions C12_mapping_injective.
Print Assumptions C12_guess_honoured.
Print Assumptions C12_targets_are_endpoints.
Print Assumptions C12_every_endpoint_is_mapped.
Print Assumptions C12_find_best_free.
Print Assumptions C12_forward_backward.
Print Assumptions C12_find_best_nearest.
Print Assumptions C12_small_motions_are_followed.
Print Assumptions C12_same_extent_not_too_different.
Print Assumptions C12_frame_compatible_with_itself.
