(* C17 -- myosin quantification is a normalised, linear window statistic of the image.  Statements only.
   Proved: window shape, distinctness of the band pixels, linearity of the integrated intensity, positive homogeneity of the window median
   statistic, uniform images, 'average' normalisation and order.  PARTIAL: the polyline length (sqrt) and PIL's pixel access are oracles. *)
From Coq Require Import ZArith QArith List Bool.
From Forsys Require Import Model.Myosin Proofs.MyosinProofs.
Import ListNotations.

Theorem C17_window_is_square : forall x y L,
  length (layer_elements x y L) = ((2 * L + 1) * (2 * L + 1))%nat /\
  (forall p, In p (layer_elements x y L) <-> (Z.abs (fst p - x) <= Z.of_nat L /\ Z.abs (snd p - y) <= Z.of_nat L)%Z) /\
  NoDup (layer_elements x y L).
Proof. exact window_is_square. Qed.
Theorem C17_band_pixels_distinct : forall band, NoDup (dedup_pix band) /\ (forall p, In p (dedup_pix band) <-> In p band).
Proof. exact band_pixels_distinct. Qed.
Theorem C17_average_normalisation_mean_one : forall vals : list Q, ~ (qmean vals == 0)%Q -> (qmean (normalise_average vals) == 1)%Q.
Proof. exact average_normalisation_mean_one. Qed.
Theorem C17_stored_in_order : forall vals : list Q, length (normalise_average vals) = length vals.
Proof. exact stored_in_order. Qed.

(* intensities scale linearly with the image: the integrated intensity is linear, the window median is positively homogeneous *)
Theorem C17_integrated_scale : forall (s : Q) img band len,
  (integrated (fun x y => s * img x y) band len == s * integrated img band len)%Q.
Proof. exact integrated_scale. Qed.
Theorem C17_integrated_add : forall img1 img2 band len,
  (integrated (fun x y => img1 x y + img2 x y) band len == integrated img1 band len + integrated img2 band len)%Q.
Proof. exact integrated_add. Qed.
Theorem C17_non_integrated_scale : forall (s : Q) img layers pixels, (0 < s)%Q ->
  (non_integrated (fun x y => s * img x y) layers pixels == s * non_integrated img layers pixels)%Q.
Proof. exact non_integrated_scale. Qed.
(* a uniformly bright image gives every interface the brightness itself *)
Theorem C17_non_integrated_uniform : forall (c : Q) layers pixels, pixels <> [] ->
  (non_integrated (fun _ _ => c) layers pixels == c)%Q.
Proof. exact non_integrated_uniform. Qed.
Example C17_window_example : layer_elements 5 7 1 = [(4, 6); (4, 7); (4, 8); (5, 6); (5, 7); (5, 8); (6, 6); (6, 7); (6, 8)]%Z.
Proof. vm_compute. reflexivity. Qed.
Example C17_median_example : Qeq_bool (median [3; 9; 1; 7; 5]%Q) 5 = true.
Proof. vm_compute. reflexivity. Qed.

Print Assumptions C17_window_is_square.
Print Assumptions C17_band_pixels_distinct.
Print Assumptions C17_average_normalisation_mean_one.
Print Assumptions C17_stored_in_order.
Print Assumptions C17_integrated_scale.
Print Assumptions C17_integrated_add.
Print Assumptions C17_non_integrated_scale.
Print Assumptions C17_non_integrated_uniform.
