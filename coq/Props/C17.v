(* C17 -- myosin quantification is a normalised, linear window statistic of the image.  Statements only.
   PARTIAL: window shape, distinctness of the band pixels, 'average' normalisation and order are proved; linearity in the image
   (median scaling) and the polyline length are evaluated by harness/props/c17.py. *)
From Coq Require Import ZArith QArith List Bool.
From Forsys Require Import Model.Myosin Proofs.MyosinProofs.
Import ListNotations.

Theorem C17_window_is_square : forall x y L,
  length (layer_elements x y L) = ((2 * L + 1) * (2 * L + 1))%nat /\
  (forall p, In p (layer_elements x y L) <-> (Z.abs (fst p - x) <= Z.of_nat L /\ Z.abs (snd p - y) <= Z.of_nat L)%Z) /\
  NoDup (layer_elements x y L).
Proof. exact window_is_square. Qed.
Theorem C17_band_pixels_distinct : forall band, NoDup (dedup_pix band) /\ (forall p, In p (dedup_pix band) <-> In p band).
Proof. exact band_pixels_distinct. Qed.
Theorem C17_average_normalisation_mean_one : forall vals : list Q, ~ (qmean vals == 0)%Q -> (qmean (normalise_average vals) == 1)%Q.
Proof. exact average_normalisation_mean_one. Qed.
Theorem C17_stored_in_order : forall vals : list Q, length (normalise_average vals) = length vals.
Proof. exact stored_in_order. Qed.

Example C17_window_example : layer_elements 5 7 1 = [(4, 6); (4, 7); (4, 8); (5, 6); (5, 7); (5, 8); (6, 6); (6, 7); (6, 8)]%Z.
Proof. vm_compute. reflexivity. Qed.
Example C17_median_example : Qeq_bool (median [3; 9; 1; 7; 5]%Q) 5 = true.
Proof. vm_compute. reflexivity. Qed.

Print Assumptions C17_window_is_square.
Print Assumptions C17_band_pixels_distinct.
Print Assumptions C17_average_normalisation_mean_one.
Print Assumptions C17_stored_in_order.
