(* C17 -- myosin quantification is a normalised, linear window statistic of the image.  Statements only.
   Proved: window shape, distinctness of the band pixels, linearity of the integrated intensity, positive homogeneity of the window median
   statistic, uniform images, 'average' normalisation and order.  The layered band is characterised for every interpolation rule and instantiated with numpy's.  PARTIAL: the polyline length (sqrt)
   and PIL's pixel access are oracles. *)
From Coq Require Import ZArith QArith List Bool.
From Forsys Require Import Model.Myosin Proofs.MyosinProofs Model.Band Proofs.BandProofs.
Import ListNotations.

Theorem C17_window_is_square : forall x y L,
  length (layer_elements x y L) = ((2 * L + 1) * (2 * L + 1))%nat /\
  (forall p, In p (layer_elements x y L) <-> (Z.abs (fst p - x) <= Z.of_nat L /\ Z.abs (snd p - y) <= Z.of_nat L)%Z) /\
  NoDup (layer_elements x y L).
Proof. exact window_is_square. Qed.
Theorem C17_band_pixels_distinct : forall band, NoDup (dedup_pix band) /\ (forall p, In p (dedup_pix band) <-> In p band).
Proof. exact band_pixels_distinct. Qed.
Theorem C17_average_normalisation_mean_one : forall vals : list Q, ~ (qmean vals == 0)%Q -> (qmean (normalise_average vals) == 1)%Q.
Proof. exact average_normalisation_mean_one. Qed.
Theorem C17_stored_in_order : forall vals : list Q, length (normalise_average vals) = length vals.
Proof. exact stored_in_order. Qed.

(* intensities scale linearly with the image: the integrated intensity is linear, the window median is positively homogeneous *)
Theorem C17_integrated_scale : forall (s : Q) img band len,
  (integrated (fun x y => s * img x y) band len == s * integrated img band len)%Q.
Proof. exact integrated_scale. Qed.
Theorem C17_integrated_add : forall img1 img2 band len,
  (integrated (fun x y => img1 x y + img2 x y) band len == integrated img1 band len + integrated img2 band len)%Q.
Proof. exact integrated_add. Qed.
Theorem C17_non_integrated_scale : forall (s : Q) img layers pixels, (0 < s)%Q ->
  (non_integrated (fun x y => s * img x y) layers pixels == s * non_integrated img layers pixels)%Q.
Proof. exact non_integrated_scale. Qed.
(* a uniformly bright image gives every interface the brightness itself *)
Theorem C17_non_integrated_uniform : forall (c : Q) layers pixels, pixels <> [] ->
  (non_integrated (fun _ _ => c) layers pixels == c)%Q.
Proof. exact non_integrated_uniform. Qed.
Example C17_window_example : layer_elements 5 7 1 = [(4, 6); (4, 7); (4, 8); (5, 6); (5, 7); (5, 8); (6, 6); (6, 7); (6, 8)]%Z.
Proof. vm_compute. reflexivity. Qed.
Example C17_median_example : Qeq_bool (median [3; 9; 1; 7; 5]%Q) 5 = true.
Proof. vm_compute. reflexivity. Qed.

(* the integrated intensity depends on the set of band pixels only, not on their order nor on how often the walk produced a pixel *)
Theorem C17_integrated_depends_on_the_pixel_set : forall img band band' len, (forall p, In p band <-> In p band') ->
  (integrated img band len == integrated img band' len)%Q.
Proof. exact integrated_depends_on_the_pixel_set. Qed.
(* ---- the layered band around the interface polyline (myosin.py get_interpolation / walk_two_vertices, Model/Band.v) *)
(* one walk position per integer step along the axis of larger extent ... *)
Theorem C17_walk_positions_count : forall interp v0 v1,
  length (walk_positions interp v0 v1) = Z.to_nat (Z.max (Z.abs (fst v0 - fst v1)) (Z.abs (snd v0 - snd v1))).
Proof. exact walk_positions_count. Qed.
(* ... from the first vertex (included) to the second (excluded), the other coordinate interpolated *)
Theorem C17_walk_positions_major : forall interp v0 v1 p, In p (walk_positions interp v0 v1) ->
  if (Z.abs (snd v0 - snd v1) <? Z.abs (fst v0 - fst v1))%Z
  then ((fst v0 <= fst p < fst v1 \/ fst v1 < fst p <= fst v0) /\ snd p = interp (fst v0) (snd v0) (fst v1) (snd v1) (fst p))%Z
  else ((snd v0 <= snd p < snd v1 \/ snd v1 < snd p <= snd v0) /\ fst p = interp (snd v0) (fst v0) (snd v1) (fst v1) (snd p))%Z.
Proof. exact walk_positions_major. Qed.
(* a pixel belongs to the band of a segment exactly when it is within [layers] of one of the segment's walk positions ... *)
Theorem C17_walk_band_spec : forall interp layers v0 v1 q, In q (walk_band interp layers v0 v1) <->
  exists p, In p (walk_positions interp v0 v1) /\ (Z.abs (fst q - fst p) <= Z.of_nat layers)%Z /\ (Z.abs (snd q - snd p) <= Z.of_nat layers)%Z.
Proof. exact walk_band_spec. Qed.
(* ... and to the band of the polyline exactly when it belongs to the band of one of its segments *)
Theorem C17_polyline_band_spec : forall interp layers vs q, In q (polyline_band interp layers vs) <->
  exists s, In s (segments vs) /\ In q (walk_band interp layers (fst s) (snd s)).
Proof. exact polyline_band_spec. Qed.
(* a segment that stays in one pixel contributes no pixel; any other contributes the whole window of its first vertex *)
Theorem C17_degenerate_segment_empty : forall interp layers v, walk_band interp layers v v = [].
Proof. exact degenerate_segment_empty. Qed.
Theorem C17_first_vertex_window_in_band : forall layers v0 v1 q, v0 <> v1 ->
  (Z.abs (fst q - fst v0) <= Z.of_nat layers)%Z -> (Z.abs (snd q - snd v0) <= Z.of_nat layers)%Z -> In q (walk_band np_interp layers v0 v1).
Proof. exact first_vertex_window_in_band. Qed.

(* a diagonal step and a flat one, one layer: 3 + 2 walk positions, 23 distinct pixels *)
Example C17_band_example : length (band_of 1 [(0, 0); (3, 1); (3, 3)]%Z) = 23%nat /\
  walk_positions np_interp (0, 0)%Z (3, 1)%Z = [(0, 0); (1, 0); (2, 0)]%Z /\ walk_positions np_interp (3, 1)%Z (3, 3)%Z = [(3, 1); (3, 2)]%Z.
Proof. vm_compute. repeat split; reflexivity. Qed.

Print Assumptions C17_window_is_square.
Print Assumptions C17_band_pixels_distinct.
Print Assumptions C17_average_normalisation_mean_one.
Print Assumptions C17_stored_in_order.
Print Assumptions C17_integrated_scale.
Print Assumptions C17_integrated_add.
Print Assumptions C17_non_integrated_scale.
Print Assumptions C17_non_integrated_uniform.
Print Assumptions C17_walk_positions_count.
Print Assumptions C17_walk_positions_major.
Print Assumptions C17_walk_band_spec.
Print Assumptions C17_polyline_band_spec.
Print Assumptions C17_degenerate_segment_empty.
Print Assumptions C17_first_vertex_window_in_band.
Print Assumptions C17_integrated_depends_on_the_pixel_set.
