(* C03 -- dynamic inference recovers tensions from junction velocities.  Statements only.
   With unit mobility the velocity term of every used junction is the resultant b = M T of the tensions pulling on it (C13 places
   it in the junction's own rows); then (T, 0) solves the augmented system exactly, and an injective augmented matrix has no other
   non-negative minimiser.  The effect of the three-decimal rounding of b is used as a tolerance by harness/props/c03.py. *)
From Coq Require Import List Reals QArith ZArith.
From Forsys Require Import Model.Num Model.PyList Model.Cert Model.Tracking Proofs.CertProofs Proofs.TrackingProofs Model.Round Proofs.RoundProofs.
From Coq Require Import Qabs.
Import ListNotations.

Theorem C03_resultant_velocity_solves : forall (M : list (list R)) (T b : list R),
  rows_ok (length T) M -> mv ROps M T = b -> vsum ROps T = INR (length T) ->
  mv ROps (raug M (length T)) (T ++ [0%R]) = b ++ [INR (length T)].
Proof. exact equilibrium_solves_augmented. Qed.

Theorem C03_unique_minimiser : forall n (A : list (list R)) (b z zs : list R),
  rows_ok n A -> length b = length A -> length z = n -> length zs = n ->
  (forall d, length d = n -> Forall (fun x => x = 0%R) (mv ROps A d) -> Forall (fun x => x = 0%R) d) ->
  mv ROps A zs = b -> nonneg zs ->
  (forall y, length y = n -> nonneg y -> (sqn ROps (vsub ROps (mv ROps A z) b) <= sqn ROps (vsub ROps (mv ROps A y) b))%R) ->
  z = zs.
Proof. exact zero_residual_minimiser_unique. Qed.

(* unit mobility: a junction displaced by (elapsed time) x F has velocity F, for every elapsed time (unequal steps; negative at the
   last frame, which looks back) and whatever id the other frame gives the vertex (q is what the tracking maps say) *)
Theorem C03_unit_mobility_velocity_forward : forall frames maps p t ti vs0 x0 y0 tf vs1 q fx fy,
  nth_error frames t = Some (ti, vs0) -> assoc vs0 p = Some (x0, y0) -> t <> (length frames - 1)%nat ->
  nth_error frames (S t) = Some (tf, vs1) -> get_point_id_by_map maps p t (S t) = Found (Some q) ->
  assoc vs1 q = Some ((x0 + (tf - ti) * fx)%Q, (y0 + (tf - ti) * fy)%Q) -> ~ (tf - ti == 0)%Q ->
  exists vx vy, calculate_velocity frames maps p t = Some (vx, vy) /\ (vx == fx)%Q /\ (vy == fy)%Q.
Proof. exact unit_mobility_velocity_forward. Qed.
Theorem C03_unit_mobility_velocity_backward_last : forall frames maps p t ti vs0 x0 y0 tf vs1 q fx fy,
  nth_error frames t = Some (ti, vs0) -> assoc vs0 p = Some (x0, y0) -> t = (length frames - 1)%nat ->
  nth_error frames (t - 1) = Some (tf, vs1) -> get_point_id_by_map maps p t (t - 1) = Found (Some q) ->
  assoc vs1 q = Some ((x0 + (tf - ti) * fx)%Q, (y0 + (tf - ti) * fy)%Q) -> ~ (tf - ti == 0)%Q ->
  exists vx vy, calculate_velocity frames maps p t = Some (vx, vy) /\ (vx == fx)%Q /\ (vy == fy)%Q.
Proof. exact unit_mobility_velocity_backward_last. Qed.

(* "the tolerance implied by the three-decimal rounding of the velocity term": rounding to three decimals moves every component of the
   right-hand side by at most 0.0005 and to the nearest multiple of 0.001 - the perturbation the harness propagates through the
   pseudo-inverse of the system the back-end receives *)
Theorem C03_rounding_perturbs_by_half_a_thousandth : forall x m,
  (Qabs (x - round_dec 3 x) <= 1 # 2000)%Q /\ (Qabs (x - round_dec 3 x) <= Qabs (x - (m # 1000)))%Q.
Proof. intros x m. exact (conj (round_dec_within_half 3 x) (round_dec_nearest 3 x m)). Qed.

(* a reported tension that depends linearly on the right-hand side (row `row` of the pseudo-inverse of the system the back-end receives)
   moves by at most (sum of |row|) * 0.0005 when every component of the right-hand side is rounded to three decimals: the tolerance
   harness/props/c03.py derives is |pinv|_inf * 5e-4 *)
Theorem C03_rounded_rhs_moves_a_linear_solution_by_at_most : forall (row b : list Q),
  (Qabs (dotQ row (map (round_dec 3) b) - dotQ row b) <= abs_row_sum row * (1 # 2000))%Q.
Proof. exact (rounded_rhs_perturbation 3). Qed.

(* 1.2345 -> 1.234 and 1.2355 -> 1.236 (exact ties to even); a linear image of a rounded right-hand side *)
Example C03_rounding_example : round_num 3 (12345 # 10000) = 1234%Z /\ round_num 3 (12355 # 10000) = 1236%Z /\
  Qeq_bool (dotQ [2; -3]%Q (map (round_dec 3) [12345 # 10000; 1 # 3]%Q)) (2 * (1234 # 1000) - 3 * (333 # 1000))%Q = true.
Proof. vm_compute. repeat split. Qed.

Print Assumptions C03_resultant_velocity_solves.
Print Assumptions C03_unique_minimiser.
Print Assumptions C03_unit_mobility_velocity_forward.
Print Assumptions C03_unit_mobility_velocity_backward_last.
Print Assumptions C03_rounding_perturbs_by_half_a_thousandth.
Print Assumptions C03_rounded_rhs_moves_a_linear_solution_by_at_most.
