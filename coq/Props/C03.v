(* C03 -- dynamic inference recovers tensions from junction velocities.  Statements only.
   With unit mobility the velocity term of every used junction is the resultant b = M T of the tensions pulling on it (C13 places
   it in the junction's own rows); then (T, 0) solves the augmented system exactly, and an injective augmented matrix has no other
   non-negative minimiser.  The effect of the three-decimal rounding of b is used as a tolerance by harness/props/c03.py. *)
From Coq Require Import List Reals.
From Forsys Require Import Model.Num Model.Cert Proofs.CertProofs.
Import ListNotations.

Theorem C03_resultant_velocity_solves : forall (M : list (list R)) (T b : list R),
  rows_ok (length T) M -> mv ROps M T = b -> vsum ROps T = INR (length T) ->
  mv ROps (raug M (length T)) (T ++ [0%R]) = b ++ [INR (length T)].
Proof. exact equilibrium_solves_augmented. Qed.

Theorem C03_unique_minimiser : forall n (A : list (list R)) (b z zs : list R),
  rows_ok n A -> length b = length A -> length z = n -> length zs = n ->
  (forall d, length d = n -> Forall (fun x => x = 0%R) (mv ROps A d) -> Forall (fun x => x = 0%R) d) ->
  mv ROps A zs = b -> nonneg zs ->
  (forall y, length y = n -> nonneg y -> (sqn ROps (vsub ROps (mv ROps A z) b) <= sqn ROps (vsub ROps (mv ROps A y) b))%R) ->
  z = zs.
Proof. exact zero_residual_minimiser_unique. Qed.

Print Assumptions C03_resultant_velocity_solves.
Print Assumptions C03_unique_minimiser.
