(* C02 -- force-balance equations use outward unit tangents at the right junctions.  Statements only. *)
From Coq Require Import ZArith QArith List Bool Reals.
From Forsys Require Import Model.Num Model.PyList Model.Interfaces Model.ForceSys Model.CircleFit Proofs.ForceSysProofs Proofs.CircleFitProofs.
Import ListNotations.

(* one unknown per internal interface (nothing flagged => nothing excluded) *)
Theorem C02_columns_are_internal_interfaces : forall internal, angle_limited_edges [] internal = internal.
Proof. exact nothing_flagged_nothing_excluded. Qed.

(* exactly the visited junctions whose equations received >= 3 (with ignore_four: < 4) coefficient pairs get one x- and one
   y-equation, at rows 2k and 2k+1 in visiting order; no other rows exist *)
Theorem C02_rows_spec : forall ignore_four to_use tj ncells incidents,
  let fm := build_matrix ignore_four to_use tj ncells incidents in
  let kept := filter (fun v => let '(rx, ry) := vertex_equation to_use (ncells v) (incidents v) in keep_junction ignore_four rx ry) tj in
  map fst (fm_map fm) = kept /\
  map snd (fm_map fm) = map (fun i => Z.of_nat (2 * i)) (seq 0 (length kept)) /\
  fm_rows fm = concat (map (fun v => let '(rx, ry) := vertex_equation to_use (ncells v) (incidents v) in [rx; ry]) kept).
Proof. exact rows_spec. Qed.

(* inside a junction's two equations: the column of every internal interface ending there (found by eid_from_vertex) holds that
   interface's versor, every other column holds 0 -- provided no two interfaces at the junction resolve to the same column *)
Theorem C02_entry_is_versor : forall to_use ncells_v incs, NoDup (map fst (writes to_use ncells_v incs)) ->
  let eq := vertex_equation to_use ncells_v incs in
  (forall pos vx vy, In (pos, (vx, vy)) (writes to_use ncells_v incs) -> (pos < length to_use)%nat ->
     nth pos (fst eq) 0%Q = vx /\ nth pos (snd eq) 0%Q = vy) /\
  (forall k, ~ In k (map fst (writes to_use ncells_v incs)) -> nth k (fst eq) 0%Q = 0%Q /\ nth k (snd eq) 0%Q = 0%Q) /\
  length (fst eq) = length to_use /\ length (snd eq) = length to_use.
Proof. exact entry_is_versor. Qed.

(* the orientation the property states (tangent of the circle at P, on the side of the next point Q = P + d) *)
Theorem C02_oriented_tangent_points_along : forall ux uy dx dy : R,
  (ux * ux + uy * uy = (ux + dx) * (ux + dx) + (uy + dy) * (uy + dy))%R ->
  ~ (dx = 0 /\ dy = 0)%R -> ~ (dx = -2 * ux /\ dy = -2 * uy)%R ->
  let t := oriented_tangent ROps ux uy dx dy in
  (fst t * ux + snd t * uy = 0 /\ 0 < fst t * dx + snd t * dy /\ fst t * fst t + snd t * snd t = ux * ux + uy * uy)%R.
Proof. exact oriented_tangent_points_along. Qed.

(* the rule the code uses (per-component sign forcing) returns that tangent whenever the forced signs are the right ones ... *)
Theorem C02_force_rule_correct_under_hquad : forall npts (ux uy dx dy : R), npts <> 2%nat ->
  let t := oriented_tangent ROps ux uy dx dy in
  (fst t <> 0 -> (dx <> 0 /\ (0 < fst t <-> 0 < dx)) \/ (dx = 0 /\ 0 < fst t))%R ->
  (snd t <> 0 -> (dy <> 0 /\ (0 < snd t <-> 0 < dy)) \/ (dy = 0 /\ 0 < snd t))%R ->
  vector_from_vertex ROps npts ux uy dx dy = t.
Proof. exact force_rule_correct_under_hquad. Qed.

(* ... and is refuted otherwise (known finding D1): on the unit circle at P = (-7/25, 24/25) with next point (3/5, 4/5)
   the code's vector is (24/25, -7/25) while the tangent along the arc is (24/25, 7/25) *)
Theorem C02_sign_forcing_refuted : exists npts ux uy dx dy,
  let r := vector_from_vertex QOps npts ux uy dx dy in let t := oriented_tangent QOps ux uy dx dy in
  npts <> 2%nat /\ (ux * ux + uy * uy == (ux + dx) * (ux + dx) + (uy + dy) * (uy + dy))%Q /\
  Qeq_bool (fst r) (fst t) = true /\ Qeq_bool (snd r) (snd t) = false /\ Qeq_bool (snd r) (- snd t) = true.
Proof. exists 4%nat, (-7 # 25)%Q, (24 # 25)%Q, (22 # 25)%Q, (-4 # 25)%Q. vm_compute. repeat split; try reflexivity; discriminate. Qed.

(* non-vacuity of H_quad: a configuration where the rule is right *)
Example C02_hquad_example :
  let r := vector_from_vertex QOps 3 (0 # 1)%Q (1 # 1)%Q (1 # 2)%Q (-1 # 8)%Q in let t := oriented_tangent QOps (0 # 1)%Q (1 # 1)%Q (1 # 2)%Q (-1 # 8)%Q in
  Qeq_bool (fst r) (fst t) = true /\ Qeq_bool (snd r) (snd t) = true.
Proof. vm_compute. split; reflexivity. Qed.

(* ---- the 'dlite' circle fit (virtual_edges.py:285-307): the residual vector handed to leastsq *)
(* on points of one circle every residual vanishes at the circle's centre ... *)
Theorem C02_dlite_residuals_vanish_at_the_centre : forall (c : R * R) pts (rho : R), pts <> [] ->
  (forall p, In p pts -> cdist ROps c p = rho) -> Forall (fun x => x = 0%R) (objective ROps c pts).
Proof. exact objective_zero_at_centre. Qed.
(* ... and, when three of the points are not collinear, the cost leastsq minimises is zero there and positive at every other trial
   centre: the centre is the only global minimiser (what leastsq reaches numerically is measured by the harness, c02.fit_delta) *)
Theorem C02_dlite_cost_minimised_exactly_at_the_centre : forall (c0 : R * R) (rho : R) pts p1 p2 p3,
  (forall p, In p pts -> cdist ROps c0 p = rho) -> In p1 pts -> In p2 pts -> In p3 pts ->
  ((fst p2 - fst p1) * (snd p3 - snd p1) - (fst p3 - fst p1) * (snd p2 - snd p1) <> 0)%R ->
  cost ROps c0 pts = 0%R /\ forall c, c <> c0 -> (0 < cost ROps c pts)%R.
Proof. exact dlite_cost_minimised_exactly_at_the_centre. Qed.

(* ---- the shortcut for collinear points in calculate_circle_center (virtual_edges.py:259-266) *)
(* whether the shortcut is taken does not depend on the position, orientation or (non-zero) scale of the tissue *)
Theorem C02_collinear_shortcut_similarity_invariant : forall (a b tx ty tol : R) pts, (0 < a * a + b * b)%R ->
  shortcut_taken ROps tol (map (simil a b tx ty) pts) = shortcut_taken ROps tol pts.
Proof. exact shortcut_similarity_invariant. Qed.
(* exactly collinear points (three or more, end points apart) always take it ... *)
Theorem C02_collinear_points_take_the_shortcut : forall (tol : R) pts, (0 <= tol)%R -> (2 < length pts)%nat -> (0 < chord2 ROps pts)%R ->
  Forall (fun o => o = 0%R) (offsets ROps pts) -> shortcut_taken ROps tol pts = true.
Proof. exact collinear_points_take_the_shortcut. Qed.
(* ... and get a centre on the normal to the chord through the mean point *)
Theorem C02_far_centre_on_the_normal : forall (far : R) pts,
  let c := far_centre ROps far pts in let d := chord ROps pts in
  ((fst c - mean ROps (map fst pts)) * fst d + (snd c - mean ROps (map snd pts)) * snd d = 0)%R.
Proof. exact far_centre_on_the_normal. Qed.

Print Assumptions C02_columns_are_internal_interfaces.
Print Assumptions C02_rows_spec.
Print Assumptions C02_entry_is_versor.
Print Assumptions C02_oriented_tangent_points_along.
Print Assumptions C02_force_rule_correct_under_hquad.
Print Assumptions C02_sign_forcing_refuted.
Print Assumptions C02_dlite_residuals_vanish_at_the_centre.
Print Assumptions C02_dlite_cost_minimised_exactly_at_the_centre.
Print Assumptions C02_collinear_shortcut_similarity_invariant.
Print Assumptions C02_collinear_points_take_the_shortcut.
Print Assumptions C02_far_centre_on_the_normal.
