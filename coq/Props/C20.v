(* C20 -- cell geometry primitives.  Only statements; proofs are in Proofs/GeometryProofs.v *)
From Coq Require Import Reals List ZArith Permutation QArith.
From Forsys Require Import Model.Num Model.Geometry Proofs.GeometryProofs.
Import ListNotations.

Theorem C20_area_is_minus_shoelace : forall l : list (R * R), area2 ROps l = (- shoelace2 ROps l)%R.
Proof. exact area2_minus_shoelace. Qed.
Theorem C20_area_reverse : forall l : list (R * R), area2 ROps (rev l) = (- area2 ROps l)%R.
Proof. exact area_reverse. Qed.
Theorem C20_area_shift : forall l1 l2 : list (R * R), area2 ROps (l2 ++ l1) = area2 ROps (l1 ++ l2).
Proof. exact area_shift. Qed.
Theorem C20_area_translate : forall t (l : list (R * R)), area2 ROps (map (ptrans ROps t) l) = area2 ROps l.
Proof. exact area_translate. Qed.
Theorem C20_area_scale : forall s (l : list (R * R)), area2 ROps (map (pscale ROps s) l) = (s * s * area2 ROps l)%R.
Proof. exact area_scale. Qed.
Theorem C20_perimeter_reverse : forall l : list (R * R), perimeter ROps (rev l) = perimeter ROps l.
Proof. exact perimeter_reverse. Qed.
Theorem C20_perimeter_shift : forall l1 l2 : list (R * R), perimeter ROps (l2 ++ l1) = perimeter ROps (l1 ++ l2).
Proof. exact perimeter_shift. Qed.
Theorem C20_perimeter_translate : forall t (l : list (R * R)), perimeter ROps (map (ptrans ROps t) l) = perimeter ROps l.
Proof. exact perimeter_translate. Qed.
Theorem C20_perimeter_scale : forall s (l : list (R * R)), perimeter ROps (map (pscale ROps s) l) = (Rabs s * perimeter ROps l)%R.
Proof. exact perimeter_scale. Qed.
Theorem C20_next_vertex_pos : forall (l : list Z) i v, NoDup l -> nth_error l i = Some v ->
  next_vertex l 1 v = nth_error l ((i + 1) mod length l)%nat.
Proof. exact next_vertex_pos. Qed.
Theorem C20_next_vertex_neg : forall (l : list Z) i v, NoDup l -> nth_error l i = Some v ->
  next_vertex l (-1) v = nth_error l ((i + (length l - 1)) mod length l)%nat.
Proof. exact next_vertex_neg. Qed.
Theorem C20_prev_after_next : forall (l : list Z) s v, NoDup l -> In v l -> (s = 1 \/ s = -1)%Z ->
  exists w, next_vertex l s v = Some w /\ prev_vertex l s w = Some v.
Proof. exact prev_after_next. Qed.
Theorem C20_areas_add_up : forall (cells : list (list (R * R))) outline E,
  Permutation (concat (map dir_edges cells)) (dir_edges outline ++ (E ++ map eswap E)) ->
  sumR (map (area2 ROps) cells) = area2 ROps outline.
Proof. exact areas_add_up. Qed.
Theorem C20_neighbours_exact : forall cid (ll : list (list Z)) c,
  In c (neighbours cid ll) <-> c <> cid /\ exists l, In l ll /\ In c l.
Proof. exact neighbours_exact. Qed.

(* non-vacuity / orientation convention: the unit square stored counter-clockwise (y up) has code area -1 *)
Example C20_ccw_square_negative :
  Qeq (area QOps [(0,0); (1,0); (1,1); (0,1)]%Q) (-1) /\ area_sign QOps [(0,0); (1,0); (1,1); (0,1)]%Q = (-1)%Z.
Proof. vm_compute. split; reflexivity. Qed.

Print Assumptions C20_area_is_minus_shoelace.
Print Assumptions C20_area_reverse.
Print Assumptions C20_area_shift.
Print Assumptions C20_area_translate.
Print Assumptions C20_area_scale.
Print Assumptions C20_perimeter_reverse.
Print Assumptions C20_perimeter_shift.
Print Assumptions C20_perimeter_translate.
Print Assumptions C20_perimeter_scale.
Print Assumptions C20_next_vertex_pos.
Print Assumptions C20_next_vertex_neg.
Print Assumptions C20_prev_after_next.
Print Assumptions C20_areas_add_up.
Print Assumptions C20_neighbours_exact.
