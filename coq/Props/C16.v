(* C16 -- angle-limit exclusion drops exactly the flagged interfaces and solves the rest.  Statements only. *)
From Coq Require Import ZArith QArith List Bool.
From Forsys Require Import Model.Num Model.PyList Model.Interfaces Model.ForceSys Model.AngleLimit Proofs.InterfacesProofs Proofs.ForceSysProofs Proofs.AngleProofs Proofs.RestrictedProofs.
Import ListNotations.

(* the unknowns are the internal interfaces minus those flagged at both ends, in the same order *)
Theorem C16_used_is_filter : forall deletes internal, NoDup internal ->
  angle_limited_edges deletes internal = filter (fun e => negb (both_ends_in deletes e)) internal.
Proof. exact used_is_filter. Qed.
(* an interface is excluded exactly when both of its end junctions are flagged *)
Theorem C16_excluded_iff_both_ends : forall deletes internal e, NoDup internal ->
  In e internal -> (In e (angle_limited_edges deletes internal) <-> both_ends_in deletes e = false).
Proof. intros deletes internal e Hnd Hin. rewrite used_is_filter by exact Hnd. rewrite filter_In, negb_true_iff. tauto. Qed.
(* a junction is flagged exactly when SOME pair of its interface directions (any two positions of its interface list, not only
   neighbouring ones) opens by at least the limit: clipped dot product <= cos(limit) *)
Theorem C16_flagged_iff_some_pair : forall {T} (N : NumOps T) coslimit (versors : list (T * T)),
  junction_flagged N coslimit versors = true <->
  exists a b l1 l2 l3, versors = l1 ++ a :: l2 ++ b :: l3 /\ opens_by_limit N coslimit (a, b) = true.
Proof. intros T N. exact (flagged_iff_some_pair N). Qed.
Theorem C16_flagged_junctions_spec : forall {T} (N : NumOps T) coslimit (juncs : list (Z * list (T * T))) v,
  In v (flagged_junctions N coslimit juncs) <-> exists vs, In (v, vs) juncs /\ junction_flagged N coslimit vs = true.
Proof. intros T N. exact (flagged_junctions_spec N). Qed.
(* four directions: all six pairs are tested *)
Example C16_six_pairs_at_a_fourfold_junction : length (all_pairs [1; 2; 3; 4]%Z) = 6%nat.
Proof. reflexivity. Qed.
(* nothing flagged => nothing excluded *)
Theorem C16_nothing_flagged_nothing_excluded : forall internal, angle_limited_edges [] internal = internal.
Proof. exact nothing_flagged_nothing_excluded. Qed.
(* re-insertion: -1 exactly at the excluded positions, the solution of the restricted system in order at the others *)
Theorem C16_reinsert_spec : forall deletes internal x,
  length x = length (filter (fun e => negb (both_ends_in deletes e)) internal) ->
  length (reinsert deletes internal x) = length internal /\
  (forall i e, nth_error internal i = Some e -> both_ends_in deletes e = true -> nth_error (reinsert deletes internal x) i = Some (-1)%Q) /\
  map snd (filter (fun p => negb (both_ends_in deletes (fst p))) (combine internal (reinsert deletes internal x))) = x.
Proof. exact reinsert_spec. Qed.
Theorem C16_reinsert_identity : forall internal x, length internal = length x -> solution_no_discarded [] internal x = x.
Proof. exact reinsert_identity. Qed.
(* the internal-interface list handed to it has no repeats (C08), so the hypotheses above are met by every frame *)
Theorem C16_internal_nodup : forall junc cells, NoDup (create_edges_new junc cells).
Proof. exact create_edges_new_nodup. Qed.

Example C16_example :
  angle_limited_edges [1; 2; 3]%Z [[1; 9; 2]; [2; 8; 5]; [3; 7; 1]]%Z = [[2; 8; 5]]%Z /\
  reinsert [1; 2; 3]%Z [[1; 9; 2]; [2; 8; 5]; [3; 7; 1]]%Z [(7 # 2)%Q] = [(-1)%Q; (7 # 2)%Q; (-1)%Q].
Proof. vm_compute. split; reflexivity. Qed.

(* ---- the restricted system: one junction's two equations for the interfaces left in = the unrestricted equations with the columns of
   the excluded interfaces dropped (each incident interface is recognised by its own id list only: unique_match) *)
Theorem C16_restricted_equations_drop_the_excluded_columns : forall deletes internal ncells_v incs, NoDup internal ->
  (forall inc, In inc incs -> eligible ncells_v inc = true -> unique_match internal (inc_ids inc)) ->
  let mask := map (fun e => negb (both_ends_in deletes e)) internal in
  vertex_equation (angle_limited_edges deletes internal) ncells_v incs =
  (dropf mask (fst (vertex_equation internal ncells_v incs)), dropf mask (snd (vertex_equation internal ncells_v incs))).
Proof. exact angle_limited_equation_drops_columns. Qed.

(* three interfaces at junction 1; the angle limit flagged junctions 1 and 3, so the interface [1; 3] leaves the system *)
Example C16_restricted_example :
  let internal := [[1; 2]; [1; 3]; [1; 4]]%Z in
  let incs := [mkInc [1; 2]%Z false (3 # 5) (4 # 5); mkInc [1; 3]%Z false (-3 # 5) (4 # 5); mkInc [1; 4]%Z false 0 (-1 # 1)]%Q in
  NoDup internal /\ (forall inc, In inc incs -> eligible 3%Z inc = true -> unique_match internal (inc_ids inc)) /\
  angle_limited_edges [1; 3]%Z internal = [[1; 2]; [1; 4]]%Z /\
  vertex_equation (angle_limited_edges [1; 3]%Z internal) 3%Z incs = ([3 # 5; 0], [4 # 5; -1 # 1])%Q /\
  vertex_equation internal 3%Z incs = ([3 # 5; -3 # 5; 0], [4 # 5; 4 # 5; -1 # 1])%Q.
Proof. cbv zeta. split; [repeat constructor; simpl; intuition discriminate|]. split; [|vm_compute; repeat split; reflexivity].
  intros inc [<- | [<- | [<- | []]]] _; (split; [reflexivity|]); intros e [<- | [<- | [<- | []]]]; vm_compute; intros H; try reflexivity; discriminate. Qed.

Print Assumptions C16_used_is_filter.
Print Assumptions C16_excluded_iff_both_ends.
Print Assumptions C16_nothing_flagged_nothing_excluded.
Print Assumptions C16_reinsert_spec.
Print Assumptions C16_reinsert_identity.
Print Assumptions C16_flagged_iff_some_pair.
Print Assumptions C16_flagged_junctions_spec.
Print Assumptions C16_restricted_equations_drop_the_excluded_columns.
