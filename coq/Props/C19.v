(* C19 -- tessellation lattices match the Voronoi diagram of the given centres.  Statements only (after the Qhull oracle and the
   three-decimal rounding: a region is the list of its rounded corners).
   PARTIAL: interning of vertices and edges is proved; "one cell per kept region with the region's corners as cycle" and "all cells in
   one rotational sense" are evaluated by harness/props/c19.py against scipy's diagram. *)
From Coq Require Import Reals ZArith QArith List Bool.
From Forsys Require Import Model.Num Model.Geometry Model.Tessellation Proofs.TessProofs Proofs.GeometryProofs Proofs.OrientationProofs.
Import ListNotations.
Open Scope Z_scope.

(* vertices are identified by their rounded coordinates; ids already handed out never change *)
Theorem C19_vertex_interning : forall v d k d', get_vertex_number v d = (k, d') ->
  find_vertex v d' = Some k /\ (forall w j, find_vertex w d = Some j -> find_vertex w d' = Some j) /\ (exists x, d' = d ++ x).
Proof. exact vertex_interning. Qed.
Theorem C19_same_point_same_id : forall v d k d' k2 d2, get_vertex_number v d = (k, d') -> get_vertex_number v d' = (k2, d2) -> k2 = k /\ d2 = d'.
Proof. exact same_point_same_id. Qed.
(* neighbouring regions share the mesh edge of their common ridge: the second region gets minus the first one's edge id *)
Theorem C19_shared_ridge_shared_edge : forall a b d k d', a <> b -> find_edge (b, a) d = None ->
  get_enum (a, b) d = (k, d') -> 0 < k -> get_enum (b, a) d' = (- k, d').
Proof. exact shared_ridge_shared_edge. Qed.
Theorem C19_same_edge_same_id : forall e d k d', get_enum e d = (k, d') -> 0 < k -> get_enum e d' = (k, d').
Proof. exact same_edge_same_id. Qed.
Theorem C19_lattice_cells_keys : forall st, map fst (lattice_cells st) = map (fun kc => Z.abs (fst kc)) (tc st).
Proof. exact lattice_cells_keys. Qed.

(* two unit squares sharing the ridge (1,0)-(1,1): 6 vertices, 7 edges, two cells stored in the same sense *)
(* all cells are stored in the same rotational sense (over the reals).  add_region evaluates the area sign on the vertex list collected
   by the loop over the closed region -- every step contributes both of its end points: (c0,c1,c1,c2,...,c_{k-1},c0) -- and create_lattice
   reverses the cycle when that sign is positive.  The doubled list has the signed area of the region itself, so the stored cycle has
   signed area -|area|: never positive, for every region *)
Theorem C19_area_of_doubled_list : forall (c0 : R * R) (t : list (R * R)),
  area2 ROps (doubled c0 (t ++ [c0])) = area2 ROps (c0 :: t).
Proof. exact area_doubled. Qed.
Theorem C19_stored_cycles_share_one_sense : forall (c0 : R * R) (t : list (R * R)),
  (area2 ROps (stored_cycle c0 t) <= 0)%R /\ area2 ROps (stored_cycle c0 t) = (- Rabs (area2 ROps (c0 :: t)))%R.
Proof. intros c0 t. split; [apply stored_cycles_share_one_sense|apply stored_cycle_area]. Qed.

(* ... and the vertex list on which add_region takes the sign IS that doubled list: walking a closed region, every step contributes the numbers
   of both of its end points, and a corner gets the same number in the step that ends at it and in the step that starts from it *)
Theorem C19_region_vertex_list_is_doubled : forall c0 rest vs es ens vlist vs' es',
  region_edges (c0 :: rest) vs es = (ens, vlist, vs', es') ->
  exists n0 ns, length ns = length rest /\ vlist = dbl n0 ns /\
                (rest <> [] -> find_vertex c0 vs' = Some n0) /\ Forall2 (fun c n => find_vertex c vs' = Some n) rest ns.
Proof. intros c0 rest vs es ens vlist vs' es' H. exact (proj2 (region_edges_vlist (c0 :: rest) vs es ens vlist vs' es' H)). Qed.

Example C19_two_squares :
  let st := lattice_elements [[(0, 0); (1, 0); (1, 1); (0, 1)]; [(1, 0); (2, 0); (2, 1); (1, 1)]]%Q in
  (length (tv st), length (te st), lattice_cells st) = (6%nat, 7%nat, [(1, [1; 2; 3; 4]); (2, [2; 5; 6; 3])]).
Proof. vm_compute. reflexivity. Qed.

Print Assumptions C19_vertex_interning.
Print Assumptions C19_same_point_same_id.
Print Assumptions C19_shared_ridge_shared_edge.
Print Assumptions C19_same_edge_same_id.
Print Assumptions C19_lattice_cells_keys.
Print Assumptions C19_area_of_doubled_list.
Print Assumptions C19_stored_cycles_share_one_sense.
Print Assumptions C19_region_vertex_list_is_doubled.
