(* C19 -- tessellation lattices match the Voronoi diagram of the given centres.  Statements only (after the Qhull oracle and the
   three-decimal rounding: a region is the list of its rounded corners).
   PARTIAL: interning of vertices and edges, the rotational sense of the stored cycles and which regions survive the distance cut-off are
   proved; "one cell per kept region with the region's corners as cycle" is evaluated by harness/props/c19.py against scipy's diagram. *)
From Coq Require Import Reals ZArith QArith List Bool Permutation.
From Forsys Require Import Model.Num Model.Geometry Model.Tessellation Proofs.TessProofs Proofs.GeometryProofs Proofs.OrientationProofs Model.PyList Model.RegionFilter Proofs.RegionFilterProofs Model.Round Proofs.RoundProofs.
From Coq Require Import Qabs.
Import ListNotations.
Open Scope Z_scope.

(* vertices are identified by their rounded coordinates; ids already handed out never change *)
Theorem C19_vertex_interning : forall v d k d', get_vertex_number v d = (k, d') ->
  find_vertex v d' = Some k /\ (forall w j, find_vertex w d = Some j -> find_vertex w d' = Some j) /\ (exists x, d' = d ++ x).
Proof. exact vertex_interning. Qed.
Theorem C19_same_point_same_id : forall v d k d' k2 d2, get_vertex_number v d = (k, d') -> get_vertex_number v d' = (k2, d2) -> k2 = k /\ d2 = d'.
Proof. exact same_point_same_id. Qed.
(* neighbouring regions share the mesh edge of their common ridge: the second region gets minus the first one's edge id *)
Theorem C19_shared_ridge_shared_edge : forall a b d k d', a <> b -> find_edge (b, a) d = None ->
  get_enum (a, b) d = (k, d') -> 0 < k -> get_enum (b, a) d' = (- k, d').
Proof. exact shared_ridge_shared_edge. Qed.
Theorem C19_same_edge_same_id : forall e d k d', get_enum e d = (k, d') -> 0 < k -> get_enum e d' = (k, d').
Proof. exact same_edge_same_id. Qed.
Theorem C19_lattice_cells_keys : forall st, map fst (lattice_cells st) = map (fun kc => Z.abs (fst kc)) (tc st).
Proof. exact lattice_cells_keys. Qed.

(* two unit squares sharing the ridge (1,0)-(1,1): 6 vertices, 7 edges, two cells stored in the same sense *)
(* all cells are stored in the same rotational sense (over the reals).  add_region evaluates the area sign on the vertex list collected
   by the loop over the closed region -- every step contributes both of its end points: (c0,c1,c1,c2,...,c_{k-1},c0) -- and create_lattice
   reverses the cycle when that sign is positive.  The doubled list has the signed area of the region itself, so the stored cycle has
   signed area -|area|: never positive, for every region *)
Theorem C19_area_of_doubled_list : forall (c0 : R * R) (t : list (R * R)),
  area2 ROps (doubled c0 (t ++ [c0])) = area2 ROps (c0 :: t).
Proof. exact area_doubled. Qed.
Theorem C19_stored_cycles_share_one_sense : forall (c0 : R * R) (t : list (R * R)),
  (area2 ROps (stored_cycle c0 t) <= 0)%R /\ area2 ROps (stored_cycle c0 t) = (- Rabs (area2 ROps (c0 :: t)))%R.
Proof. intros c0 t. split; [apply stored_cycles_share_one_sense|apply stored_cycle_area]. Qed.

(* ... and the vertex list on which add_region takes the sign IS that doubled list: walking a closed region, every step contributes the numbers
   of both of its end points, and a corner gets the same number in the step that ends at it and in the step that starts from it *)
Theorem C19_region_vertex_list_is_doubled : forall c0 rest vs es ens vlist vs' es',
  region_edges (c0 :: rest) vs es = (ens, vlist, vs', es') ->
  exists n0 ns, length ns = length rest /\ vlist = dbl n0 ns /\
                (rest <> [] -> find_vertex c0 vs' = Some n0) /\ Forall2 (fun c n => find_vertex c vs' = Some n) rest ns.
Proof. intros c0 rest vs es ens vlist vs' es' H. exact (proj2 (region_edges_vlist (c0 :: rest) vs es ens vlist vs' es' H)). Qed.

Example C19_two_squares :
  let st := lattice_elements [[(0, 0); (1, 0); (1, 1); (0, 1)]; [(1, 0); (2, 0); (2, 1); (1, 1)]]%Q in
  (length (tv st), length (te st), lattice_cells st) = (6%nat, 7%nat, [(1, [1; 2; 3; 4]); (2, [2; 5; 6; 3])]).
Proof. vm_compute. reflexivity. Qed.

(* ---- which regions survive the distance cut-off (tessellation.remove_infinite_regions, Model/RegionFilter.v) *)
(* the list.remove calls amount to a filter ... *)
Theorem C19_cut_off_is_a_filter : forall verts max2 regions, NoDup regions ->
  remove_infinite_regions verts max2 regions = filter (fun c => negb (deletable verts max2 c)) regions.
Proof. exact remove_infinite_regions_is_filter. Qed.
(* ... the regions that become cells are the bounded, non-empty ones all of whose corners are pairwise within the cut-off ... *)
Theorem C19_cells_are_the_regions_below_the_cut_off : forall verts max2 regions c, NoDup regions ->
  (In c (cell_regions verts max2 regions) <->
   In c regions /\ c <> [] /\ ~ In (-1) c /\ forall i j, In i c -> In j c -> (qsqdist (verts i) (verts j) <= max2)%Q).
Proof. exact cell_regions_spec. Qed.
(* ... and the verdict on a region does not depend on the order in which Qhull lists its corners, nor on which one comes last *)
Theorem C19_cut_off_independent_of_corner_order : forall verts max2 c c', Permutation c c' -> region_wide verts max2 c = region_wide verts max2 c'.
Proof. exact region_wide_permutation. Qed.
Theorem C19_larger_cut_off_drops_no_more : forall verts (m m' : Q) c, (m <= m')%Q -> region_wide verts m' c = true -> region_wide verts m c = true.
Proof. exact region_wide_monotone. Qed.

(* a 3-4-5 triangle whose hypotenuse is listed last: dropped at cut-off 4.5, kept at 5, whatever the order of the corners *)
Example C19_cut_off_example :
  let verts := assoc_def (0, 0)%Q [(0%Z, (0, 0)%Q); (1%Z, (3, 0)%Q); (2%Z, (3, 4)%Q)] in
  cell_regions verts (81 # 4) [[0; 1; 2]; [0; 1; -1]; []]%Z = [] /\ cell_regions verts 25 [[0; 1; 2]; [0; 1; -1]; []]%Z = [[0; 1; 2]]%Z /\
  region_wide verts (81 # 4) [2; 0; 1]%Z = true.
Proof. vm_compute. repeat split; reflexivity. Qed.

Print Assumptions C19_vertex_interning.
Print Assumptions C19_same_point_same_id.
Print Assumptions C19_shared_ridge_shared_edge.
Print Assumptions C19_same_edge_same_id.
Print Assumptions C19_lattice_cells_keys.
Print Assumptions C19_area_of_doubled_list.
Print Assumptions C19_stored_cycles_share_one_sense.
(* corner points: the lattice point made from a corner of a ridge (rounding of the abscissae, line through the rounded ends evaluated there,
   rounding of the ordinate - Model/Round.v ridge_vertex, tessellation.py:64-66,124-140) is, in exact arithmetic, the corner rounded to three
   decimals whatever the other end of the ridge is and whichever end of the ridge the corner is: all ridges and regions that meet in a corner
   produce the same point (which the interning theorems above turn into one shared vertex), and that point is within 0.0005 of the corner
   in each coordinate.  The binary64 evaluation is tied bit for bit to the implementation by the correspondence. *)
Theorem C19_corner_point_is_rounded_corner : forall p q,
  ridge_vertex_Q true p q = (round_dec 3 (fst p), round_dec 3 (snd p)) /\ ridge_vertex_Q false p q = (round_dec 3 (fst q), round_dec 3 (snd q)).
Proof. exact ridge_vertex_is_rounded_corner. Qed.
Theorem C19_corner_point_shared : forall p q q', ridge_vertex_Q true p q = ridge_vertex_Q false q' p.
Proof. intros p q q'. rewrite (proj1 (ridge_vertex_is_rounded_corner p q)), (proj2 (ridge_vertex_is_rounded_corner q' p)). reflexivity. Qed.
Theorem C19_corner_point_within_half_a_thousandth : forall x, (Qabs (x - round_dec 3 x) <= 1 # 2000)%Q.
Proof. exact (round_dec_within_half 3). Qed.

Print Assumptions C19_region_vertex_list_is_doubled.
Print Assumptions C19_cut_off_is_a_filter.
Print Assumptions C19_cells_are_the_regions_below_the_cut_off.
Print Assumptions C19_cut_off_independent_of_corner_order.
Print Assumptions C19_larger_cut_off_drops_no_more.
Print Assumptions C19_corner_point_is_rounded_corner.
Print Assumptions C19_corner_point_shared.
Print Assumptions C19_corner_point_within_half_a_thousandth.
