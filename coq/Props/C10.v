(* C10 -- results are a pure function of frame data and the last call's arguments.  Statements only. *)
From Coq Require Import List Bool Arith.
From Forsys Require Import Model.Session Proofs.SessionProofs.
Import ListNotations.

(* for every history: what frame t reports is decided by the last (re)build of its force matrix preceding its last solve and by
   that solve's arguments; it equals what a fresh object solved once reports *)
Theorem C10_history_independence : forall n t a b h0 B h1 S h2,
  builds n t B = Some a -> Forall (fun o => builds n t o = None) h1 ->
  solves t S = Some b -> Forall (fun o => solves t o = None) h2 ->
  forces (run n (h0 ++ [B] ++ h1 ++ [S] ++ h2)) t = Some (t, a, b) /\
  forces (run n (h0 ++ [B] ++ h1 ++ [S] ++ h2)) t = forces (run n [B; S]) t.
Proof. exact history_independence. Qed.
(* the stores are keyed by frame: an operation on another frame never changes frame t's stores *)
Theorem C10_stores_keyed : forall n s o t t', frame_of o = Some t' -> t' <> t ->
  forces (step n s o) t = forces s t /\ tens (step n s o) t = tens s t /\ pres (step n s o) t = pres s t /\
  pm (step n s o) t = pm s t /\ fm (step n s o) t = fm s t.
Proof. exact stores_keyed. Qed.
(* pressures of frame t: stored under t, computed from the interface tensions present when its pressure matrix was built *)
Theorem C10_pressure_token : forall n s t c tk, pm s t = Some tk -> pres (step n s (SolveP t c)) t = Some (t, tk, c).
Proof. exact pressure_token. Qed.
Theorem C10_pressure_matrix_token : forall n s t, pm (step n s (BuildP t)) t = Some (tens s t).
Proof. exact pressure_matrix_token. Qed.

Example C10_example :
  forces (run 2 [BuildF 0 1; SolveS 0 2; BuildF 1 0; SolveS 1 0; SysVel 7; SolveS 0 3; BuildF 0 4]) 0 = Some (0, 7, 3) /\
  forces (run 2 [BuildF 0 1; SolveS 0 2; BuildF 1 0; SolveS 1 0; SysVel 7; SolveS 0 3; BuildF 0 4]) 1 = Some (1, 0, 0).
Proof. vm_compute. split; reflexivity. Qed.

Print Assumptions C10_history_independence.
Print Assumptions C10_stores_keyed.
Print Assumptions C10_pressure_token.
Print Assumptions C10_pressure_matrix_token.
