(* C10 -- results are a pure function of frame data and the last call's arguments.  Statements only. *)
From Coq Require Import List Bool Arith ZArith.
From Forsys Require Import Model.PyList Model.Resample Model.Session Model.WriteBack Proofs.SessionProofs Proofs.WriteBackProofs.
Import ListNotations.
Close Scope Z_scope.

(* for every history: what frame t reports is decided by the last (re)build of its force matrix preceding its last solve and by
   that solve's arguments; it equals what a fresh object solved once reports *)
Theorem C10_history_independence : forall n t a b h0 B h1 S h2,
  builds n t B = Some a -> Forall (fun o => builds n t o = None) h1 ->
  solves t S = Some b -> Forall (fun o => solves t o = None) h2 ->
  forces (run n (h0 ++ [B] ++ h1 ++ [S] ++ h2)) t = Some (t, a, b) /\
  forces (run n (h0 ++ [B] ++ h1 ++ [S] ++ h2)) t = forces (run n [B; S]) t.
Proof. exact history_independence. Qed.
(* the stores are keyed by frame: an operation on another frame never changes frame t's stores *)
Theorem C10_stores_keyed : forall n s o t t', frame_of o = Some t' -> t' <> t ->
  forces (step n s o) t = forces s t /\ tens (step n s o) t = tens s t /\ pres (step n s o) t = pres s t /\
  pm (step n s o) t = pm s t /\ fm (step n s o) t = fm s t.
Proof. exact stores_keyed. Qed.
(* pressures of frame t: stored under t, computed from the interface tensions present when its pressure matrix was built *)
Theorem C10_pressure_token : forall n s t c tk, pm s t = Some tk -> pres (step n s (SolveP t c)) t = Some (t, tk, c).
Proof. exact pressure_token. Qed.
Theorem C10_pressure_matrix_token : forall n s t, pm (step n s (BuildP t)) t = Some (tens s t).
Proof. exact pressure_matrix_token. Qed.

Example C10_example :
  forces (run 2 [BuildF 0 1; SolveS 0 2; BuildF 1 0; SolveS 1 0; SysVel 7; SolveS 0 3; BuildF 0 4]) 0 = Some (0, 7, 3) /\
  forces (run 2 [BuildF 0 1; SolveS 0 2; BuildF 1 0; SolveS 1 0; SysVel 7; SolveS 0 3; BuildF 0 4]) 1 = Some (1, 0, 0).
Proof. vm_compute. split; reflexivity. Qed.

(* ---- write-back of a solve onto the mesh edges (fmatrix.py:326-341, Model/WriteBack.v), for every list of internal interfaces, every
   sub-list used by the system, every solution vector, every earlier content m of the mesh edges *)
(* the mesh edges of the i-th interface of the system carry the i-th entry of the solution *)
Theorem C10_used_edges_carry_their_entry : forall (T : Type) (pick : Z * Z -> Z) (zero dflt : T) internal used xres m i element e,
  positions_disjoint pick used -> nth_error used i = Some element -> In e (edges_to_use pick element) ->
  write_back pick zero dflt internal used xres m e = nth i xres dflt.
Proof. intros T. exact (@used_edges_carry_their_entry T). Qed.
(* the mesh edges of an internal interface left out of the system (angle limit) carry zero, whatever an earlier solve left there *)
Theorem C10_excluded_edges_are_zero : forall (T : Type) (pick : Z * Z -> Z) (zero dflt : T) internal used xres m be e,
  In be internal -> ~ In (fst be) used -> In e (snd be) -> (forall element, In element used -> ~ In e (edges_to_use pick element)) ->
  write_back pick zero dflt internal used xres m e = zero.
Proof. intros T. exact (@excluded_edges_are_zero T). Qed.
(* every other mesh edge (external interfaces) keeps its value *)
Theorem C10_other_edges_unchanged : forall (T : Type) (pick : Z * Z -> Z) (zero dflt : T) internal used xres m e,
  (forall element, In element used -> ~ In e (edges_to_use pick element)) ->
  (forall be, In be internal -> ~ In (fst be) used -> ~ In e (snd be)) ->
  write_back pick zero dflt internal used xres m e = m e.
Proof. intros T. exact (@other_edges_unchanged T). Qed.
(* what the mesh edges of the internal interfaces held before the solve does not matter *)
Theorem C10_write_back_forgets_history : forall (T : Type) (pick : Z * Z -> Z) (zero dflt : T) internal used xres m1 m2 e,
  positions_disjoint pick used ->
  ((exists element, In element used /\ In e (edges_to_use pick element)) \/ (exists be, In be internal /\ ~ In (fst be) used /\ In e (snd be))) ->
  write_back pick zero dflt internal used xres m1 e = write_back pick zero dflt internal used xres m2 e.
Proof. intros T. exact (@write_back_forgets_history T). Qed.
(* executable sufficient condition for the disjointness premise *)
Theorem C10_nodup_picks_positions_disjoint : forall (pick : Z * Z -> Z) used,
  NoDup (concat (map (edges_to_use pick) used)) -> positions_disjoint pick used.
Proof. exact nodup_picks_positions_disjoint. Qed.

(* two interfaces in the system, one excluded, one external mesh edge: stale values 7 vanish from the internal ones *)
Example C10_write_back_example :
  let pick := fun p : Z * Z => (fst p * 10 + snd p)%Z in
  let W := write_back pick 0%Z (-1)%Z [([1; 2; 3], [12; 23]); ([3; 4], [34]); ([4; 5; 6], [45; 56])]%Z [[1; 2; 3]; [4; 5; 6]]%Z [100; 200]%Z (fun _ => 7%Z) in
  map W [12; 23; 34; 45; 56; 99]%Z = [100; 100; 0; 200; 200; 7]%Z.
Proof. vm_compute. reflexivity. Qed.

Print Assumptions C10_history_independence.
Print Assumptions C10_stores_keyed.
Print Assumptions C10_pressure_token.
Print Assumptions C10_pressure_matrix_token.
Print Assumptions C10_used_edges_carry_their_entry.
Print Assumptions C10_excluded_edges_are_zero.
Print Assumptions C10_other_edges_unchanged.
Print Assumptions C10_write_back_forgets_history.
Print Assumptions C10_nodup_picks_positions_disjoint.
