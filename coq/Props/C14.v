(* C14 -- Surface Evolver dumps are parsed faithfully.  Statements only (token level: lines already split on whitespace). *)
From Coq Require Import ZArith List Bool String.
From Coq Require Import QArith Qabs.
From Forsys Require Import Model.SEParse Proofs.SEParseProofs Model.Round Proofs.RoundProofs.
Import ListNotations.

(* one cell per face, its loop read back whole, however the loop is broken into continuation lines *)
Theorem C14_face_roundtrip : forall ids loops id (chunks : list (list string)) t1 t2, contains_close t2 = true ->
  fold_left face_step (serialise_face id chunks t1 t2) (mkF ids loops [] true) = mkF (ids ++ [id]) (loops ++ [List.concat chunks]) [] true.
Proof. exact face_roundtrip. Qed.
Theorem C14_faces_roundtrip : forall (faces : list (string * list (list string) * (string * string))) ids loops,
  Forall (fun f => contains_close (snd (snd f)) = true) faces ->
  fold_left face_step (List.concat (map (fun f => serialise_face (fst (fst f)) (snd (fst f)) (fst (snd f)) (snd (snd f))) faces)) (mkF ids loops [] true)
  = mkF (ids ++ map (fun f => fst (fst f)) faces) (loops ++ map (fun f => List.concat (snd (fst f))) faces) [] true.
Proof. exact faces_roundtrip. Qed.
Theorem C14_wrapping_irrelevant : forall id chunks chunks' t1 t2, contains_close t2 = true -> List.concat chunks = List.concat chunks' ->
  parse_faces (serialise_face id chunks t1 t2) = parse_faces (serialise_face id chunks' t1 t2).
Proof. exact wrapping_irrelevant. Qed.
(* a positive reference contributes the edge's first vertex, a negative one its second: the cycle follows the signed loop *)
Theorem C14_tail_vertex_sign : forall edges e v1 v2, find (fun kv => Z.eqb (fst kv) (Z.abs e)) edges = Some (Z.abs e, (v1, v2)) ->
  tail_vertex edges e = Some (if (0 <? e)%Z then v1 else v2).
Proof. exact tail_vertex_sign. Qed.
(* in a face whose signed edges are chained head to tail, every step of the vertex cycle (cyclically) is a recorded mesh edge of the loop,
   walked from its tail to its head as its sign says *)
Theorem C14_cycle_steps_are_loop_edges : forall edges first loop, head_to_tail edges first loop = true ->
  forall i e, nth_error loop i = Some e ->
  exists a b, tail_vertex edges e = Some a /\ head_vertex edges e = Some b /\
              nth_error (cell_cycle edges loop) i = Some (Some a) /\
              (match nth_error loop (S i) with Some e' => tail_vertex edges e' | None => tail_vertex edges first end) = Some b.
Proof. exact cycle_steps_are_loop_edges. Qed.
Example C14_closed_loop_example :
  let edges := [(1, (10, 11)); (2, (12, 11)); (3, (12, 10))]%Z in
  closed_loop edges [1; -2; 3]%Z = true /\ cell_cycle edges [1; -2; 3]%Z = [Some 10; Some 11; Some 12]%Z /\ closed_loop edges [1; 2; 3]%Z = false.
Proof. vm_compute. repeat split; reflexivity. Qed.

(* vertices that belong to no face are dropped, and with them every edge that ends at one *)
Theorem C14_orphans_dropped : forall vids edges cells,
  (forall v, In v (kept_vertices vids cells) <-> In v vids /\ in_some_cell cells v = true) /\
  (forall k v1 v2, In (k, (v1, v2)) (kept_edges edges cells) <-> In (k, (v1, v2)) edges /\ in_some_cell cells v1 = true /\ in_some_cell cells v2 = true).
Proof. exact orphans_dropped. Qed.

(* density is read only from a record long enough to carry it: a bare "id v1 v2" record gets the default 1 *)
Example C14_density_rule :
  edge_has_density ["3"; "3"; "1"]%string = false /\ edge_has_density ["3"; "3"; "1"; "fixed"]%string = false /\
  edge_has_density ["3"; "3"; "1"; "density"; "0.5"]%string = true.
Proof. vm_compute. repeat split. Qed.
Example C14_wrapped_face :
  parse_faces [["7"; "1"; "-2"; "\"]; ["3"; "\"]; ["-4"; "/*area"; "-500*/"]]%string = (["7"], [["1"; "-2"; "3"; "-4"]])%string.
Proof. vm_compute. reflexivity. Qed.

(* numeric fields: round(value, k) with k = 3 for coordinates and k = 4 for densities and multipliers (Model/Round.v; the value is the exact
   value of the double that float() made of the token).  The stored number is a k-decimal number, no k-decimal number is nearer to the
   value, it is within half a unit of the k-th decimal, an exact tie goes to the even neighbour, a record that has no more than k decimals
   is stored as written, rounding twice changes nothing, and the order and the sign symmetry of the records are kept. *)
Theorem C14_numeric_field_is_nearest_decimal : forall k x m,
  Zpos (Qden (round_dec k x)) = pow10 k /\ (Qabs (x - round_dec k x) <= Qabs (x - (m # Z.to_pos (pow10 k))))%Q /\ (Qabs (x - round_dec k x) <= 1 # (2 * Z.to_pos (pow10 k)))%Q.
Proof. intros k x m. exact (conj (round_dec_den k x) (conj (round_dec_nearest k x m) (round_dec_within_half k x))). Qed.
Theorem C14_numeric_field_ties_to_even : forall n d, (0 < d)%Z -> (2 * Z.abs (n - d * rhe n d) = d)%Z -> Z.even (rhe n d) = true.
Proof. exact rhe_tie_even. Qed.
Theorem C14_short_record_stored_as_written : forall k m, round_num k (m # Z.to_pos (pow10 k)) = m.
Proof. exact round_dec_exact. Qed.
Theorem C14_numeric_field_stable : forall k x y,
  round_dec k (round_dec k x) = round_dec k x /\ ((x == y)%Q -> round_dec k x = round_dec k y) /\ ((x <= y)%Q -> (round_num k x <= round_num k y)%Z) /\ round_num k (- x) = (- round_num k x)%Z.
Proof. intros k x y. exact (conj (round_dec_idempotent k x) (conj (round_dec_compat k x y) (conj (round_dec_monotone k x y) (round_dec_opp k x)))). Qed.
Example C14_rounding_examples :
  round_num 3 (1 # 16) = 62%Z /\ round_num 3 (3 # 16) = 188%Z /\ round_num 3 (-1 # 16) = (-62)%Z /\ round_num 4 (15 # 32) = 4688%Z.
Proof. exact round_dec_ties. Qed.

Print Assumptions C14_face_roundtrip.
Print Assumptions C14_faces_roundtrip.
Print Assumptions C14_wrapping_irrelevant.
Print Assumptions C14_tail_vertex_sign.
Print Assumptions C14_orphans_dropped.
Print Assumptions C14_cycle_steps_are_loop_edges.
Print Assumptions C14_numeric_field_is_nearest_decimal.
Print Assumptions C14_numeric_field_ties_to_even.
Print Assumptions C14_short_record_stored_as_written.
Print Assumptions C14_numeric_field_stable.
