(* C05 -- reported tensions are the non-negative least-squares optimum with mean one.  Statements only. *)
From Coq Require Import ZArith QArith List Bool Reals Lra.
From Forsys Require Import Model.Num Model.PyList Model.ForceSys Model.Cert Proofs.ForceSysProofs Proofs.CertProofs Proofs.MeanOneProofs.
Import ListNotations.

(* the augmented system of the statement *)
Theorem C05_add_mean_one_shape : forall (m : list (list Q)) (b : list Q) (n : nat),
  fst (add_mean_one m b n) = map (fun r => r ++ [1%Q]) m ++ [repeat 1%Q n ++ [0%Q]] /\
  snd (add_mean_one m b n) = b ++ [inject_Z (Z.of_nat n)].
Proof. exact add_mean_one_shape. Qed.
(* its last row applied to (x, lambda) is the sum of the tensions *)
Theorem C05_mean_row_is_sum : forall (x : list Q) (lam : Q),
  (qdot (repeat 1 (length x) ++ [0]) (x ++ [lam]) == fold_right Qplus 0 x)%Q.
Proof. exact mean_row_is_sum. Qed.

(* sufficiency of the slackened KKT conditions, for every dimension and every non-negative competitor y *)
Theorem C05_kkt_sufficient : forall n (A : list (list R)) (b z y : list R) (eps_w eps_zw : R),
  rows_ok n A -> length b = length A -> length z = n -> length y = n -> nonneg y ->
  let w := tmv ROps n A (vsub ROps (mv ROps A z) b) in
  Forall (fun wi => (- eps_w <= wi)%R) w ->
  Forall (fun p => (fst p * snd p <= eps_zw)%R) (combine z w) ->
  (sqn ROps (vsub ROps (mv ROps A z) b) - 2 * eps_w * vsum ROps y - 2 * INR n * eps_zw <= sqn ROps (vsub ROps (mv ROps A y) b))%R.
Proof. exact kkt_sufficient. Qed.
(* slacks zero: a global minimiser over the non-negative orthant *)
Theorem C05_kkt_exact : forall n A b z y, rows_ok n A -> length b = length A -> length z = n -> length y = n -> nonneg y ->
  let w := tmv ROps n A (vsub ROps (mv ROps A z) b) in
  Forall (fun wi => (0 <= wi)%R) w -> Forall (fun p => (fst p * snd p <= 0)%R) (combine z w) ->
  (sqn ROps (vsub ROps (mv ROps A z) b) <= sqn ROps (vsub ROps (mv ROps A y) b))%R.
Proof. exact kkt_exact. Qed.
(* the executable integer checker is sound for the real-number statement: an accepted certificate is an optimality proof *)
Theorem C05_kkt_check_sound : forall n (A : list (list Z)) (b z : list Z) (eps_w eps_zw : Z),
  kkt_check ZOps n A b z eps_w eps_zw = true ->
  forall y : list R, length y = n -> nonneg y ->
  (sqn ROps (vsub ROps (mv ROps (map (map IZR) A) (map IZR z)) (map IZR b)) - 2 * IZR eps_w * vsum ROps y - 2 * INR n * IZR eps_zw
   <= sqn ROps (vsub ROps (mv ROps (map (map IZR) A) y) (map IZR b)))%R.
Proof. exact kkt_check_sound. Qed.
(* stripping the multiplier and re-aligning: nothing excluded => the reported vector is the solver output without its last entry *)
Theorem C05_reinsert_identity : forall internal x, length internal = length x -> solution_no_discarded [] internal x = x.
Proof. exact reinsert_identity. Qed.

(* "for consistent systems the mean reported tension is one": when some candidate w solves the augmented system exactly, a vector
   (x, lam) whose squared residual is no larger (the reported minimiser) solves it exactly too, and its last row then reads
   sum of the tensions = number of interfaces *)
Theorem C05_consistent_minimiser_is_exact : forall (A : list (list R)) (b z w : list R),
  length b = length A -> mv ROps A w = b -> (sqn ROps (vsub ROps (mv ROps A z) b) <= sqn ROps (vsub ROps (mv ROps A w) b))%R -> mv ROps A z = b.
Proof. exact consistent_minimiser_is_exact. Qed.
Theorem C05_consistent_system_mean_one : forall (M : list (list R)) (x b w : list R) (lam : R),
  length b = length M -> (0 < length x)%nat ->
  mv ROps (raug M (length x)) w = b ++ [INR (length x)] ->
  (sqn ROps (vsub ROps (mv ROps (raug M (length x)) (x ++ [lam])) (b ++ [INR (length x)]))
   <= sqn ROps (vsub ROps (mv ROps (raug M (length x)) w) (b ++ [INR (length x)])))%R ->
  (vsum ROps x / INR (length x) = 1)%R.
Proof. exact consistent_system_mean_one. Qed.

(* non-vacuity: an accepted certificate (A = identity, b = (1,2), z = (1,2)) and a rejected one (z = (0,2)) *)
Example C05_cert_example :
  kkt_check ZOps 2 [[1;0];[0;1]]%Z [1;2]%Z [1;2]%Z 0%Z 0%Z = true /\ kkt_check ZOps 2 [[1;0];[0;1]]%Z [1;2]%Z [0;2]%Z 0%Z 0%Z = false.
Proof. vm_compute. split; reflexivity. Qed.

(* non-vacuity of the consistent case: two interfaces pulling against each other with equal tension *)
Example C05_consistent_example :
  mv ROps (raug [[1; -1]%R] 2) [1; 1; 0]%R = [0%R] ++ [INR 2].
Proof. unfold raug, mv, vdot. cbn. repeat f_equal; lra. Qed.

Print Assumptions C05_add_mean_one_shape.
Print Assumptions C05_mean_row_is_sum.
Print Assumptions C05_kkt_sufficient.
Print Assumptions C05_kkt_exact.
Print Assumptions C05_kkt_check_sound.
Print Assumptions C05_reinsert_identity.
Print Assumptions C05_consistent_minimiser_is_exact.
Print Assumptions C05_consistent_system_mean_one.
