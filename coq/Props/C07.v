(* C07 -- results do not depend on labels, storage order or cell orientation.  Statements only.
   PARTIAL: id renaming is proved; invariance under cyclic shifts / orientation flips is evaluated by the oracle. *)
From Coq Require Import ZArith List Bool.
From Forsys Require Import Model.PyList Model.Interfaces Model.PressureSys Proofs.InterfacesProofs Proofs.PressureProofs.
Import ListNotations.
Open Scope Z_scope.

(* renumbering vertices by any injective map f and cells by any map g renames the interfaces and changes nothing else --
   not even their order; mesh-edge ids do not occur in the decomposition *)
Theorem C07_interfaces_rename : forall (f : Z -> Z) (junc junc' : Z -> bool),
  (forall x, junc' (f x) = junc x) -> (forall x y, f x = f y -> x = y) ->
  forall (g : Z -> Z) cells,
  create_edges_new junc' (map (fun c => (g (fst c), map f (snd c))) cells) = map (map f) (create_edges_new junc cells).
Proof. intros f junc junc' Hj Hinj g cells. apply create_edges_new_rename; assumption. Qed.
(* the partition of one cycle commutes with renaming (no injectivity needed) *)
Theorem C07_cell_interfaces_rename : forall (f : Z -> Z) (junc junc' : Z -> bool),
  (forall x, junc' (f x) = junc x) -> forall ids, cell_interfaces junc' (map f ids) = map (map f) (cell_interfaces junc ids).
Proof. intros. apply cell_interfaces_rename. assumption. Qed.
(* the pressure equation of an interface whose first cell is stored in the opposite sense is the same equation times -1 *)
Theorem C07_pressure_row_orientation : forall keys own sign1 r, (sign1 <> 0)%Z -> get_row keys own sign1 = Some r ->
  get_row keys own (- sign1)%Z = Some (map Z.opp r).
Proof. exact row_orientation. Qed.
(* the interface list never repeats an interface in either direction, whatever the labelling *)
Theorem C07_no_repeat : forall l, NoDupRev (dedup_ifaces l).
Proof. exact dedup_no_repeat. Qed.

Example C07_example :
  create_edges_new (fun v => memZ v [11; 14]) [(5, [10; 11; 12; 13; 14; 15])]
  = map (map (fun x => x + 10)) (create_edges_new (fun v => memZ v [1; 4]) [(0, [0; 1; 2; 3; 4; 5])]).
Proof. vm_compute. reflexivity. Qed.

Print Assumptions C07_interfaces_rename.
Print Assumptions C07_cell_interfaces_rename.
Print Assumptions C07_pressure_row_orientation.
Print Assumptions C07_no_repeat.
