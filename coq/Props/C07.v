(* C07 -- results do not depend on labels, storage order or cell orientation.  Statements only.
   Proved: id renaming; the interface decomposition is invariant (as a set of interfaces up to traversal direction) under starting any
   cell's cycle at another vertex and under storing any subset of cells in the opposite rotational sense.
   A relabelling permutes the unknowns and the equations of the least-squares system; the residual of a permuted candidate against the
   permuted system equals the residual of the candidate against the original system (so the minimisers correspond).
   PARTIAL: that the implementation's assembled systems are such permutations of each other, and the solved values, are evaluated by the oracle. *)
From Coq Require Import ZArith List Bool Reals Permutation.
From Forsys Require Import Model.PyList Model.Interfaces Model.PressureSys Proofs.InterfacesProofs Proofs.PressureProofs Proofs.ShiftProofs Model.Num Model.Cert Proofs.CertProofs Proofs.RelabelProofs.
Import ListNotations.
Open Scope Z_scope.

(* renumbering vertices by any injective map f and cells by any map g renames the interfaces and changes nothing else --
   not even their order; mesh-edge ids do not occur in the decomposition *)
Theorem C07_interfaces_rename : forall (f : Z -> Z) (junc junc' : Z -> bool),
  (forall x, junc' (f x) = junc x) -> (forall x y, f x = f y -> x = y) ->
  forall (g : Z -> Z) cells,
  create_edges_new junc' (map (fun c => (g (fst c), map f (snd c))) cells) = map (map f) (create_edges_new junc cells).
Proof. intros f junc junc' Hj Hinj g cells. apply create_edges_new_rename; assumption. Qed.
(* the partition of one cycle commutes with renaming (no injectivity needed) *)
Theorem C07_cell_interfaces_rename : forall (f : Z -> Z) (junc junc' : Z -> bool),
  (forall x, junc' (f x) = junc x) -> forall ids, cell_interfaces junc' (map f ids) = map (map f) (cell_interfaces junc ids).
Proof. intros. apply cell_interfaces_rename. assumption. Qed.
(* the pressure equation of an interface whose first cell is stored in the opposite sense is the same equation times -1 *)
Theorem C07_pressure_row_orientation : forall keys own sign1 r, (sign1 <> 0)%Z -> get_row keys own sign1 = Some r ->
  get_row keys own (- sign1)%Z = Some (map Z.opp r).
Proof. exact row_orientation. Qed.
(* the interface list never repeats an interface in either direction, whatever the labelling *)
Theorem C07_no_repeat : forall l, NoDupRev (dedup_ifaces l).
Proof. exact dedup_no_repeat. Qed.

(* starting a cell's vertex list at a different vertex: the cell's interface list is rotated, nothing else *)
Theorem C07_cell_shift : forall junc (a b : list Z), exists m,
  cell_interfaces junc (b ++ a) = rotn m (cell_interfaces junc (a ++ b)).
Proof. exact cell_interfaces_shift. Qed.
(* storing a cell in the opposite rotational sense: the same interfaces, each traversed backwards, in rotated reverse order *)
Theorem C07_cell_flip : forall junc (ids : list Z), exists m,
  cell_interfaces junc (rev ids) = rotn m (map (@rev Z) (rev (cell_interfaces junc ids))).
Proof. exact cell_interfaces_reverse. Qed.
(* whole tissue: any per-cell combination of shifts and flips leaves the set of interfaces unchanged up to direction (both inclusions) *)
Theorem C07_tissue_shift_flip : forall junc cells cells',
  Forall2 (fun c c' => same_cycle (snd c) (snd c')) cells cells' ->
  (forall e, In e (create_edges_new junc cells) -> exists f, In f (create_edges_new junc cells') /\ same_iface e f) /\
  (forall f, In f (create_edges_new junc cells') -> exists e, In e (create_edges_new junc cells) /\ same_iface f e).
Proof.
  intros junc cells cells' H. split.
  - now apply create_edges_new_same_cycles.
  - apply create_edges_new_same_cycles. clear -H. induction H; constructor; [now apply same_cycle_sym|assumption].
Qed.
Example C07_shift_flip_example :
  create_edges_new (fun v => memZ v [1; 4]) [(0, [3; 2; 1; 0; 5; 4])] = [[1; 0; 5; 4]; [4; 3; 2; 1]] /\
  create_edges_new (fun v => memZ v [1; 4]) [(0, [0; 1; 2; 3; 4; 5])] = [[1; 2; 3; 4]; [4; 5; 0; 1]].
Proof. vm_compute. split; reflexivity. Qed.

Example C07_example :
  create_edges_new (fun v => memZ v [11; 14]) [(5, [10; 11; 12; 13; 14; 15])]
  = map (map (fun x => x + 10)) (create_edges_new (fun v => memZ v [1; 4]) [(0, [0; 1; 2; 3; 4; 5])]).
Proof. vm_compute. reflexivity. Qed.

(* ---- solved values: the least-squares objective of the relabelled system at a permuted candidate is the objective of the original
   system at the candidate (unknowns taken in the order p, equations in the order q) *)
Theorem C07_residual_invariant_under_relabelling : forall n (p q : list nat) (A : list (list R)) (b x : list R),
  rows_ok n A -> length x = n -> length b = length A -> Permutation p (seq 0 n) -> Permutation q (seq 0 (length A)) ->
  let '(A', b') := relabel_system p q A b in
  sqn ROps (vsub ROps (mv ROps A' (permute 0%R p x)) b') = sqn ROps (vsub ROps (mv ROps A x) b).
Proof. exact residual_of_relabelled_system. Qed.

(* pressures (zero sum) and tensions (mean one) are least-squares solutions under a constraint on the SUM of the unknowns; the sum does not
   depend on the order of the unknowns, so a minimiser among the candidates of a given sum relabels into a minimiser of the relabelled system
   among the (relabelled) candidates of that sum: the same value for every physical interface / cell *)
Theorem C07_sum_invariant_under_relabelling : forall (p : list nat) (x : list R),
  Permutation p (seq 0 (length x)) -> vsum ROps (permute 0%R p x) = vsum ROps x.
Proof. exact sum_invariant_under_relabelling. Qed.
Theorem C07_constrained_minimiser_relabels : forall n (p q : list nat) (A : list (list R)) (b x : list R) (s : R),
  rows_ok n A -> length x = n -> length b = length A -> Permutation p (seq 0 n) -> Permutation q (seq 0 (length A)) ->
  vsum ROps x = s ->
  (forall x', length x' = n -> vsum ROps x' = s -> (sqn ROps (vsub ROps (mv ROps A x) b) <= sqn ROps (vsub ROps (mv ROps A x') b))%R) ->
  let '(A', b') := relabel_system p q A b in
  vsum ROps (permute 0%R p x) = s /\
  forall x', length x' = n -> vsum ROps (permute 0%R p x') = s ->
    (sqn ROps (vsub ROps (mv ROps A' (permute 0%R p x)) b') <= sqn ROps (vsub ROps (mv ROps A' (permute 0%R p x')) b'))%R.
Proof. exact constrained_minimiser_relabels. Qed.

Print Assumptions C07_interfaces_rename.
Print Assumptions C07_cell_interfaces_rename.
Print Assumptions C07_pressure_row_orientation.
Print Assumptions C07_no_repeat.
Print Assumptions C07_cell_shift.
Print Assumptions C07_cell_flip.
Print Assumptions C07_tissue_shift_flip.
Print Assumptions C07_residual_invariant_under_relabelling.
Print Assumptions C07_sum_invariant_under_relabelling.
Print Assumptions C07_constrained_minimiser_relabels.
