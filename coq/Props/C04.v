(* C04 -- pressure step: Young-Laplace equations with a zero-sum least-squares solution.  Statements only.
   PARTIAL: the clauses on the turning estimate (3%), on least-squares optimality of the bordered normal equations and on the
   0.9 correlation are evaluated by the oracle (harness/props/c04.py), not proved. *)
From Coq Require Import ZArith QArith List Bool.
From Forsys Require Import Model.Num Model.PyList Model.PressureSys Proofs.PressureProofs.
Import ListNotations.

(* every equation has exactly one +1 and one -1, at the columns of the interface's two cells *)
Theorem C04_row_shape : forall keys c1 c2 sign1 r p1 p2,
  get_row keys [c1; c2] sign1 = Some r -> position_of c1 keys = Some p1 -> position_of c2 keys = Some p2 -> p1 <> p2 ->
  let s := if (0 <? sign1)%Z then 1%Z else (-1)%Z in
  length r = length keys /\ nth p1 r 0%Z = s /\ nth p2 r 0%Z = (- s)%Z /\ (forall j, j <> p1 -> j <> p2 -> nth j r 0%Z = 0%Z).
Proof. exact row_shape. Qed.
(* storing the first cell in the opposite rotational sense multiplies the row by -1 *)
Theorem C04_row_orientation : forall keys own sign1 r, (sign1 <> 0)%Z -> get_row keys own sign1 = Some r ->
  get_row keys own (- sign1)%Z = Some (map Z.opp r).
Proof. exact row_orientation. Qed.
(* cells touching no internal interface are re-inserted as 0 at their own position; all other cells keep their solution entry, in order *)
Theorem C04_reinsert_zeros_spec : forall (n : nat) (removed : list nat) (sol : list Q),
  length sol = length (filter (fun v => negb (existsb (Nat.eqb v) removed)) (seq 0 n)) ->
  reinsert_zeros 0%Q n removed sol = spread 0%Q (seq 0 n) removed sol.
Proof. intros. apply reinsert_zeros_spec. assumption. Qed.
Theorem C04_spread_spec : forall (removed positions : list nat) (sol : list Q),
  length sol = length (filter (fun v => negb (existsb (Nat.eqb v) removed)) positions) ->
  length (spread 0%Q positions removed sol) = length positions /\
  map snd (filter (fun p => negb (existsb (Nat.eqb (fst p)) removed)) (combine positions (spread 0%Q positions removed sol))) = sol /\
  (forall i v, nth_error positions i = Some v -> existsb (Nat.eqb v) removed = true -> nth_error (spread 0%Q positions removed sol) i = Some 0%Q).
Proof. intros. apply spread_spec. assumption. Qed.
(* each cell receives the entry at its own position of the cells dictionary *)
Theorem C04_assign_follows_mapping : forall (keys : list Z) (pressures : list Q) i k,
  nth_error keys i = Some k -> nth_error (assign_pressures 0%Q keys pressures) i = Some (k, nth i pressures 0%Q).
Proof. intros. apply assign_follows_mapping. assumption. Qed.

(* the turning estimate of a straight two-point interface vanishes (np.gradient of two points has zero second differences) *)
Example C04_two_point_zero : Qeq_bool (sum QOps (map (fun k => k) (curvature QOps [0; 3]%Q [1; 5]%Q))) 0 = true.
Proof. vm_compute. reflexivity. Qed.
Example C04_reinsert_example : reinsert_zeros 0%Q 5 [0; 2]%nat [(7 # 1); (8 # 1); (9 # 1)]%Q = [0; (7 # 1); 0; (8 # 1); (9 # 1)]%Q.
Proof. vm_compute. reflexivity. Qed.

Print Assumptions C04_row_shape.
Print Assumptions C04_row_orientation.
Print Assumptions C04_reinsert_zeros_spec.
Print Assumptions C04_spread_spec.
Print Assumptions C04_assign_follows_mapping.
