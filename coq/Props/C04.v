(* C04 -- pressure step: Young-Laplace equations with a zero-sum least-squares solution.  Statements only.
   The turning estimate is proved zero on collinear points, invariant under translation and uniform scaling, and odd under reversal
   of the storage direction (over the reals).  PARTIAL: the 3% clause, least-squares optimality of the bordered normal equations and on the
   0.9 correlation are evaluated by the oracle (harness/props/c04.py), not proved. *)
From Coq Require Import Reals ZArith QArith List Bool.
From Forsys Require Import Model.Num Model.PyList Model.PressureSys Proofs.PressureProofs Proofs.CurvatureProofs.
Import ListNotations.

(* every equation has exactly one +1 and one -1, at the columns of the interface's two cells *)
Theorem C04_row_shape : forall keys c1 c2 sign1 r p1 p2,
  get_row keys [c1; c2] sign1 = Some r -> position_of c1 keys = Some p1 -> position_of c2 keys = Some p2 -> p1 <> p2 ->
  let s := if (0 <? sign1)%Z then 1%Z else (-1)%Z in
  length r = length keys /\ nth p1 r 0%Z = s /\ nth p2 r 0%Z = (- s)%Z /\ (forall j, j <> p1 -> j <> p2 -> nth j r 0%Z = 0%Z).
Proof. exact row_shape. Qed.
(* storing the first cell in the opposite rotational sense multiplies the row by -1 *)
Theorem C04_row_orientation : forall keys own sign1 r, (sign1 <> 0)%Z -> get_row keys own sign1 = Some r ->
  get_row keys own (- sign1)%Z = Some (map Z.opp r).
Proof. exact row_orientation. Qed.
(* cells touching no internal interface are re-inserted as 0 at their own position; all other cells keep their solution entry, in order *)
Theorem C04_reinsert_zeros_spec : forall (n : nat) (removed : list nat) (sol : list Q),
  length sol = length (filter (fun v => negb (existsb (Nat.eqb v) removed)) (seq 0 n)) ->
  reinsert_zeros 0%Q n removed sol = spread 0%Q (seq 0 n) removed sol.
Proof. intros. apply reinsert_zeros_spec. assumption. Qed.
Theorem C04_spread_spec : forall (removed positions : list nat) (sol : list Q),
  length sol = length (filter (fun v => negb (existsb (Nat.eqb v) removed)) positions) ->
  length (spread 0%Q positions removed sol) = length positions /\
  map snd (filter (fun p => negb (existsb (Nat.eqb (fst p)) removed)) (combine positions (spread 0%Q positions removed sol))) = sol /\
  (forall i v, nth_error positions i = Some v -> existsb (Nat.eqb v) removed = true -> nth_error (spread 0%Q positions removed sol) i = Some 0%Q).
Proof. intros. apply spread_spec. assumption. Qed.
(* each cell receives the entry at its own position of the cells dictionary *)
Theorem C04_assign_follows_mapping : forall (keys : list Z) (pressures : list Q) i k,
  nth_error keys i = Some k -> nth_error (assign_pressures 0%Q keys pressures) i = Some (k, nth i pressures 0%Q).
Proof. intros. apply assign_follows_mapping. assumption. Qed.

(* ---- the turning estimate (edge.py calculate_total_curvature, normalized=False), over the reals ---- *)
Local Open Scope R_scope.
(* zero for straight interfaces: any number (>= 2) of collinear points, however they are spaced *)
Theorem C04_turning_zero_on_straight : forall (x0 y0 u v : R) (ts : list R), (2 <= length ts)%nat ->
  total_curvature ROps (map (fun t => x0 + u * t) ts) (map (fun t => y0 + v * t) ts)%R = 0%R.
Proof. exact total_curvature_collinear. Qed.
(* unchanged by translation and by uniform scaling with any non-zero factor *)
Theorem C04_turning_similarity_invariant : forall (a b s : R) (xs ys : list R), s <> 0%R -> (2 <= length xs)%nat -> (2 <= length ys)%nat ->
  total_curvature ROps (map (fun t => a + s * t) xs) (map (fun t => b + s * t) ys)%R = total_curvature ROps xs ys.
Proof. exact total_curvature_similarity. Qed.
(* storing the interface's points in the opposite direction negates the estimate ... *)
Theorem C04_turning_odd_under_reversal : forall xs ys : list R, length xs = length ys -> (2 <= length xs)%nat ->
  total_curvature ROps (rev xs) (rev ys) = (- total_curvature ROps xs ys)%R.
Proof. exact total_curvature_reversal. Qed.
(* ... and with it the whole equation: when the first cell is stored in the opposite rotational sense (so that its interfaces are
   traversed backwards), row and right-hand side are both negated, i.e. the equation is the same *)
Theorem C04_equation_direction_independent : forall keys own sign1 r (tension : R) (xs ys : list R),
  (sign1 <> 0)%Z -> get_row keys own sign1 = Some r -> length xs = length ys -> (2 <= length xs)%nat ->
  get_row keys own (- sign1)%Z = Some (map Z.opp r) /\
  (tension * total_curvature ROps (rev xs) (rev ys) = - (tension * total_curvature ROps xs ys))%R.
Proof. intros keys own sign1 r tension xs ys Hs Hr Hl Hx. split. - now apply row_orientation. - rewrite total_curvature_reversal by assumption. ring. Qed.
Example C04_turning_straight_example : total_curvature ROps [1; 3; 4; 9]%R [2; 6; 8; 18]%R = 0%R.
Proof.
  replace [1; 3; 4; 9]%R with (map (fun t => 0 + 1 * t)%R [1; 3; 4; 9]%R) by (cbn; repeat f_equal; ring).
  replace [2; 6; 8; 18]%R with (map (fun t => 0 + 2 * t)%R [1; 3; 4; 9]%R) by (cbn; repeat f_equal; ring).
  apply total_curvature_collinear. cbn. auto with arith.
Qed.
Local Close Scope R_scope.

(* the turning estimate of a straight two-point interface vanishes (np.gradient of two points has zero second differences) *)
Example C04_two_point_zero : Qeq_bool (sum QOps (map (fun k => k) (curvature QOps [0; 3]%Q [1; 5]%Q))) 0 = true.
Proof. vm_compute. reflexivity. Qed.
Example C04_reinsert_example : reinsert_zeros 0%Q 5 [0; 2]%nat [(7 # 1); (8 # 1); (9 # 1)]%Q = [0; (7 # 1); 0; (8 # 1); (9 # 1)]%Q.
Proof. vm_compute. reflexivity. Qed.

Print Assumptions C04_row_shape.
Print Assumptions C04_row_orientation.
Print Assumptions C04_reinsert_zeros_spec.
Print Assumptions C04_spread_spec.
Print Assumptions C04_assign_follows_mapping.
Print Assumptions C04_turning_zero_on_straight.
Print Assumptions C04_turning_similarity_invariant.
Print Assumptions C04_turning_odd_under_reversal.
Print Assumptions C04_equation_direction_independent.
