(* C04 -- pressure step: Young-Laplace equations with a zero-sum least-squares solution.  Statements only.
   The turning estimate is proved zero on collinear points, invariant under translation and uniform scaling, and odd under reversal
   of the storage direction (over the reals).  The solve is proved too: a solution of the bordered normal equations is the least-squares solution among the zero-sum
   vectors, and when the interfaces link all cells into one connected group it is the only solution of that system.
   PARTIAL: the 3% clause and the 0.9 correlation are evaluated by the oracle (harness/props/c04.py), not proved; that numpy's inverse
   solves the bordered system is checked numerically against an independent least-squares solve. *)
From Coq Require Import Reals ZArith QArith List Bool Lia Lra.
From Forsys Require Import Model.Num Model.PyList Model.Cert Model.PressureSys Proofs.CertProofs Proofs.PressureProofs Proofs.CurvatureProofs Proofs.PressureLSProofs.
Import ListNotations.

(* every equation has exactly one +1 and one -1, at the columns of the interface's two cells *)
Theorem C04_row_shape : forall keys c1 c2 sign1 r p1 p2,
  get_row keys [c1; c2] sign1 = Some r -> position_of c1 keys = Some p1 -> position_of c2 keys = Some p2 -> p1 <> p2 ->
  let s := if (0 <? sign1)%Z then 1%Z else (-1)%Z in
  length r = length keys /\ nth p1 r 0%Z = s /\ nth p2 r 0%Z = (- s)%Z /\ (forall j, j <> p1 -> j <> p2 -> nth j r 0%Z = 0%Z).
Proof. exact row_shape. Qed.
(* storing the first cell in the opposite rotational sense multiplies the row by -1 *)
Theorem C04_row_orientation : forall keys own sign1 r, (sign1 <> 0)%Z -> get_row keys own sign1 = Some r ->
  get_row keys own (- sign1)%Z = Some (map Z.opp r).
Proof. exact row_orientation. Qed.
(* cells touching no internal interface are re-inserted as 0 at their own position; all other cells keep their solution entry, in order *)
Theorem C04_reinsert_zeros_spec : forall (n : nat) (removed : list nat) (sol : list Q),
  length sol = length (filter (fun v => negb (existsb (Nat.eqb v) removed)) (seq 0 n)) ->
  reinsert_zeros 0%Q n removed sol = spread 0%Q (seq 0 n) removed sol.
Proof. intros. apply reinsert_zeros_spec. assumption. Qed.
Theorem C04_spread_spec : forall (removed positions : list nat) (sol : list Q),
  length sol = length (filter (fun v => negb (existsb (Nat.eqb v) removed)) positions) ->
  length (spread 0%Q positions removed sol) = length positions /\
  map snd (filter (fun p => negb (existsb (Nat.eqb (fst p)) removed)) (combine positions (spread 0%Q positions removed sol))) = sol /\
  (forall i v, nth_error positions i = Some v -> existsb (Nat.eqb v) removed = true -> nth_error (spread 0%Q positions removed sol) i = Some 0%Q).
Proof. intros. apply spread_spec. assumption. Qed.
(* each cell receives the entry at its own position of the cells dictionary *)
Theorem C04_assign_follows_mapping : forall (keys : list Z) (pressures : list Q) i k,
  nth_error keys i = Some k -> nth_error (assign_pressures 0%Q keys pressures) i = Some (k, nth i pressures 0%Q).
Proof. intros. apply assign_follows_mapping. assumption. Qed.

(* ---- the turning estimate (edge.py calculate_total_curvature, normalized=False), over the reals ---- *)
Local Open Scope R_scope.
(* zero for straight interfaces: any number (>= 2) of collinear points, however they are spaced *)
Theorem C04_turning_zero_on_straight : forall (x0 y0 u v : R) (ts : list R), (2 <= length ts)%nat ->
  total_curvature ROps (map (fun t => x0 + u * t) ts) (map (fun t => y0 + v * t) ts)%R = 0%R.
Proof. exact total_curvature_collinear. Qed.
(* unchanged by translation and by uniform scaling with any non-zero factor *)
Theorem C04_turning_similarity_invariant : forall (a b s : R) (xs ys : list R), s <> 0%R -> (2 <= length xs)%nat -> (2 <= length ys)%nat ->
  total_curvature ROps (map (fun t => a + s * t) xs) (map (fun t => b + s * t) ys)%R = total_curvature ROps xs ys.
Proof. exact total_curvature_similarity. Qed.
(* storing the interface's points in the opposite direction negates the estimate ... *)
Theorem C04_turning_odd_under_reversal : forall xs ys : list R, length xs = length ys -> (2 <= length xs)%nat ->
  total_curvature ROps (rev xs) (rev ys) = (- total_curvature ROps xs ys)%R.
Proof. exact total_curvature_reversal. Qed.
(* ... and with it the whole equation: when the first cell is stored in the opposite rotational sense (so that its interfaces are
   traversed backwards), row and right-hand side are both negated, i.e. the equation is the same *)
Theorem C04_equation_direction_independent : forall keys own sign1 r (tension : R) (xs ys : list R),
  (sign1 <> 0)%Z -> get_row keys own sign1 = Some r -> length xs = length ys -> (2 <= length xs)%nat ->
  get_row keys own (- sign1)%Z = Some (map Z.opp r) /\
  (tension * total_curvature ROps (rev xs) (rev ys) = - (tension * total_curvature ROps xs ys))%R.
Proof. intros keys own sign1 r tension xs ys Hs Hr Hl Hx. split. - now apply row_orientation. - rewrite total_curvature_reversal by assumption. ring. Qed.
Example C04_turning_straight_example : total_curvature ROps [1; 3; 4; 9]%R [2; 6; 8; 18]%R = 0%R.
Proof.
  replace [1; 3; 4; 9]%R with (map (fun t => 0 + 1 * t)%R [1; 3; 4; 9]%R) by (cbn; repeat f_equal; ring).
  replace [2; 6; 8; 18]%R with (map (fun t => 0 + 2 * t)%R [1; 3; 4; 9]%R) by (cbn; repeat f_equal; ring).
  apply total_curvature_collinear. cbn. auto with arith.
Qed.
Local Close Scope R_scope.

(* the turning estimate of a straight two-point interface vanishes (np.gradient of two points has zero second differences) *)
Example C04_two_point_zero : Qeq_bool (sum QOps (map (fun k => k) (curvature QOps [0; 3]%Q [1; 5]%Q))) 0 = true.
Proof. vm_compute. reflexivity. Qed.
Example C04_reinsert_example : reinsert_zeros 0%Q 5 [0; 2]%nat [(7 # 1); (8 # 1); (9 # 1)]%Q = [0; (7 # 1); 0; (8 # 1); (9 # 1)]%Q.
Proof. vm_compute. reflexivity. Qed.

(* ---- the solve (general_matrix.py:76-102): [[A^T A, 1], [1^T, 0]] (p, mu) = (A^T r, 0) *)
(* a solution of the bordered normal equations is a least-squares solution among the vectors that sum to zero *)
Theorem C04_bordered_solution_is_zero_sum_least_squares : forall n (A : list (list R)) (r p q : list R) (mu : R),
  rows_ok n A -> length r = length A -> length p = n -> length q = n ->
  stationary n A r p mu -> vsum ROps p = 0%R -> vsum ROps q = 0%R ->
  (sqn ROps (vsub ROps (mv ROps A p) r) <= sqn ROps (vsub ROps (mv ROps A q) r))%R.
Proof. exact zero_sum_normal_equations_minimise. Qed.
(* the row of an interface between two different cells is a difference row: s at one cell, -s at the other, zero elsewhere *)
Theorem C04_row_is_a_difference : forall keys c1 c2 sign1 r p1 p2,
  get_row keys [c1; c2] sign1 = Some r -> position_of c1 keys = Some p1 -> position_of c2 keys = Some p2 -> p1 <> p2 ->
  diff_row (length keys) (map IZR r) p1 p2 (IZR (if (0 <? sign1)%Z then 1%Z else (-1)%Z)).
Proof. exact get_row_is_diff_row. Qed.
(* when the interfaces link every cell to the first one, the equations together with the zero-sum condition determine the pressures *)
Theorem C04_connected_tissue_determines_pressures : forall n A edges,
  diff_matrix n A edges -> (forall i, (i < n)%nat -> linked edges 0%nat i) -> zero_sum_injective n A.
Proof. exact connected_zero_sum_injective. Qed.
Theorem C04_bordered_system_has_one_solution : forall n (A : list (list R)) (r p p' : list R) (mu mu' : R),
  rows_ok n A -> length r = length A -> length p = n -> length p' = n -> zero_sum_injective n A ->
  stationary n A r p mu -> vsum ROps p = 0%R -> stationary n A r p' mu' -> vsum ROps p' = 0%R -> p = p'.
Proof. exact bordered_system_unique. Qed.
(* together: on a connected tissue the reported pressures are THE least-squares solution that sums to zero *)
Theorem C04_connected_pressures_are_the_zero_sum_least_squares : forall n A edges (r p : list R) (mu : R),
  rows_ok n A -> diff_matrix n A edges -> (forall i, (i < n)%nat -> linked edges 0%nat i) ->
  length r = length A -> length p = n -> stationary n A r p mu -> vsum ROps p = 0%R ->
  (forall q, length q = n -> vsum ROps q = 0%R -> (sqn ROps (vsub ROps (mv ROps A p) r) <= sqn ROps (vsub ROps (mv ROps A q) r))%R) /\
  (forall p' mu', length p' = n -> stationary n A r p' mu' -> vsum ROps p' = 0%R -> p' = p).
Proof. exact connected_pressures_are_the_zero_sum_least_squares. Qed.

(* three cells in a row, two interfaces, jumps 1 and 2: the hypotheses are met by p = (4/3, 1/3, -5/3), mu = 0 *)
Example C04_three_cells_in_a_row :
  let A := [[1; -1; 0]; [0; 1; -1]]%R in let edges := [(0, 1); (1, 2)]%nat in
  rows_ok 3 A /\ diff_matrix 3 A edges /\ (forall i, (i < 3)%nat -> linked edges 0%nat i) /\
  stationary 3 A [1; 2]%R [4/3; 1/3; -5/3]%R 0%R /\ vsum ROps [4/3; 1/3; -5/3]%R = 0%R.
Proof. cbv zeta. split; [repeat constructor|]. split.
  - constructor; [exists 1%R|constructor; [exists 1%R|constructor]]; unfold diff_row; cbn [fst snd length nth];
      (repeat split; try lia; try lra; intros [|[|[|k]]] H1 H2; cbn [nth]; try lia; try reflexivity; destruct k; reflexivity).
  - split; [|split].
    + intros [|[|[|i]]] Hi; try lia.
      * apply lk_refl.
      * apply (lk_step _ 0%nat 1%nat 1%nat); [left; left; reflexivity|apply lk_refl].
      * apply (lk_step _ 0%nat 1%nat 2%nat); [left; left; reflexivity|]. apply (lk_step _ 1%nat 2%nat 2%nat); [left; right; left; reflexivity|apply lk_refl].
    + unfold stationary, ones. cbn. f_equal; [lra|f_equal; [lra|f_equal; lra]].
    + cbn. lra. Qed.

Print Assumptions C04_row_shape.
Print Assumptions C04_row_orientation.
Print Assumptions C04_reinsert_zeros_spec.
Print Assumptions C04_spread_spec.
Print Assumptions C04_assign_follows_mapping.
Print Assumptions C04_turning_zero_on_straight.
Print Assumptions C04_turning_similarity_invariant.
Print Assumptions C04_turning_odd_under_reversal.
Print Assumptions C04_equation_direction_independent.
Print Assumptions C04_bordered_solution_is_zero_sum_least_squares.
Print Assumptions C04_row_is_a_difference.
Print Assumptions C04_connected_tissue_determines_pressures.
Print Assumptions C04_bordered_system_has_one_solution.
Print Assumptions C04_connected_pressures_are_the_zero_sum_least_squares.
