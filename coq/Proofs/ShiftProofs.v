(* ShiftProofs.v -- the interfaces of a cell do not depend on the vertex its cycle starts at (C07): cell_interfaces of a rotated
   cycle is a rotation of cell_interfaces of the cycle.  Model/Interfaces.v (virtual_edges.py:14-46). *)
From Coq Require Import ZArith List Bool Lia.
From Forsys Require Import Model.PyList Model.Interfaces Proofs.InterfacesProofs.
Import ListNotations.
Open Scope Z_scope.

(* ------------------------------------------------------------------ get_partition on concatenations *)
Lemma gp_nonempty junc l : get_partition junc l <> [].
Proof. apply partition_spec. Qed.
Lemma gp_nojunc junc s : nojunc junc s = true -> get_partition junc s = [s].
Proof.
  induction s as [|x s IH]; [reflexivity|]. cbn [nojunc forallb]. rewrite andb_true_iff, negb_true_iff. intros [Jx Hs].
  cbn [get_partition]. rewrite Jx, (IH Hs). reflexivity.
Qed.
Lemma gp_starts_junction junc y u : junc y = true -> get_partition junc (y :: u) = [] :: tl (get_partition junc (y :: u)).
Proof. intros J. cbn [get_partition]. rewrite J. reflexivity. Qed.
(* appending a list that starts with a junction appends its pieces *)
Lemma gp_app junc A y u : junc y = true ->
  get_partition junc (A ++ y :: u) = get_partition junc A ++ tl (get_partition junc (y :: u)).
Proof.
  intros J. induction A as [|a A IH].
  - cbn [app]. rewrite (gp_starts_junction junc y u J) at 1. reflexivity.
  - cbn [app get_partition]. rewrite IH.
    pose proof (gp_nonempty junc A) as Hne. destruct (get_partition junc A) as [|h r]; [congruence|].
    cbn [app hd tl]. destruct (junc a); reflexivity.
Qed.
Lemma gp_prefix junc s y u : nojunc junc s = true -> junc y = true ->
  get_partition junc (s ++ y :: u) = s :: tl (get_partition junc (y :: u)).
Proof. intros Hs J. rewrite gp_app by assumption. rewrite (gp_nojunc junc s Hs). reflexivity. Qed.

(* ------------------------------------------------------------------ span at the first junction *)
Fixpoint span (junc : Z -> bool) (l : list Z) : list Z * list Z :=
  match l with
  | [] => ([], [])
  | x :: t => if junc x then ([], l) else let '(s, r) := span junc t in (x :: s, r)
  end.
Lemma span_spec junc l : let '(s, r) := span junc l in
  l = s ++ r /\ nojunc junc s = true /\ (r = [] \/ exists y u, r = y :: u /\ junc y = true).
Proof.
  induction l as [|x t IH]; cbn [span]; [split; [reflexivity|split; [reflexivity|left; reflexivity]]|].
  destruct (junc x) eqn:Jx.
  - split; [reflexivity|]. split; [reflexivity|]. right. exists x, t. split; [reflexivity|exact Jx].
  - destruct (span junc t) as [s r]. destruct IH as [E [Hs Hr]]. split; [cbn; now rewrite <- E|].
    split; [cbn [nojunc forallb]; rewrite Jx; exact Hs|exact Hr].
Qed.

(* the rotation performed by cell_interfaces puts the first junction in front *)
Lemma rotated_span junc s y u : nojunc junc s = true -> junc y = true ->
  rotated_ids junc (s ++ y :: u) = (y :: u) ++ s.
Proof.
  intros Hs J. destruct s as [|x s]; [cbn [app rotated_ids]; rewrite J; now rewrite app_nil_r|].
  assert (Jx : junc x = false).
  { cbn [nojunc forallb] in Hs. apply andb_true_iff in Hs. destruct Hs as [Hx _]. now apply negb_true_iff in Hx. }
  change ((x :: s) ++ y :: u) with (x :: (s ++ y :: u)). unfold rotated_ids. rewrite Jx.
  change (x :: (s ++ y :: u)) with ((x :: s) ++ y :: u).
  rewrite (gp_prefix junc (x :: s) y u Hs J). cbn [tl hd]. now rewrite (partition_tl_concat junc y u J).
Qed.
Lemma rotated_nojunc junc s : nojunc junc s = true -> existsb junc s = false.
Proof. apply nojunc_existsb. Qed.

(* ------------------------------------------------------------------ close_pieces commutes with rotation *)
Lemma rot1_map {A B} (f : A -> B) l : rot1 (map f l) = map f (rot1 l).
Proof. destruct l as [|x t]; [reflexivity|]. cbn [map rot1]. now rewrite map_app. Qed.
Lemma combine_app_same {A B} : forall (l1 : list A) (l2 : list B) r1 r2, length l1 = length l2 ->
  combine (l1 ++ r1) (l2 ++ r2) = combine l1 l2 ++ combine r1 r2.
Proof. induction l1 as [|a l1 IH]; intros [|b l2] r1 r2 H; cbn in *; try discriminate; [reflexivity|]. f_equal. apply IH. lia. Qed.
Lemma rot1_combine {A B} (l1 : list A) (l2 : list B) : length l1 = length l2 ->
  rot1 (combine l1 l2) = combine (rot1 l1) (rot1 l2).
Proof.
  destruct l1 as [|a l1]; destruct l2 as [|b l2]; cbn [length]; try discriminate; [reflexivity|]. intros H.
  cbn [combine rot1]. rewrite combine_app_same by lia. reflexivity.
Qed.
Lemma close_pieces_rot1 q : close_pieces (rot1 q) = rot1 (close_pieces q).
Proof.
  unfold close_pieces. rewrite (rot1_map (fun pn : list Z * Z => fst pn ++ [snd pn])).
  rewrite rot1_combine by (now rewrite rot1_length, map_length).
  rewrite <- (rot1_map headZ q). reflexivity.
Qed.

(* ------------------------------------------------------------------ one step of rotation *)
Theorem cell_interfaces_rot1 junc ids :
  cell_interfaces junc (rot1 ids) = cell_interfaces junc ids \/
  cell_interfaces junc (rot1 ids) = rot1 (cell_interfaces junc ids).
Proof.
  destruct ids as [|x t]; [left; reflexivity|]. cbn [rot1].
  destruct (junc x) eqn:Jx.
  - (* the cycle starts at a junction: the first piece moves to the end *)
    pose proof (span_spec junc t) as Hsp. destruct (span junc t) as [s r]. destruct Hsp as [E [Hs Hr]]. subst t.
    destruct Hr as [-> | [y [u [-> Jy]]]].
    + (* x is the only junction *)
      left. rewrite app_nil_r, !cell_interfaces_unfold. rewrite (rotated_span junc s x [] Hs Jx).
      cbn [app rotated_ids]. now rewrite Jx.
    + right. rewrite !cell_interfaces_unfold. rewrite <- app_assoc.
      change ((y :: u) ++ [x]) with (y :: (u ++ [x])). rewrite (rotated_span junc s y (u ++ [x]) Hs Jy).
      cbn [rotated_ids]. rewrite Jx. rewrite <- close_pieces_rot1. f_equal.
      change (x :: s ++ y :: u) with ((x :: s) ++ y :: u). rewrite (gp_app junc (x :: s) y u Jy).
      replace ((y :: u ++ [x]) ++ s) with ((y :: u) ++ x :: s) by (cbn [app]; now rewrite <- app_assoc). rewrite (gp_app junc (y :: u) x s Jx).
      assert (G : get_partition junc (x :: s) = [[]; x :: s]) by (cbn [get_partition]; rewrite Jx, (gp_nojunc junc s Hs); reflexivity).
      rewrite G. cbn [app tl]. rewrite (gp_starts_junction junc y u Jy). cbn [app tl rot1]. reflexivity.
  - (* the cycle starts inside an interface: the rotation to the first junction is the same list *)
    left. pose proof (span_spec junc t) as Hsp. destruct (span junc t) as [s r]. destruct Hsp as [E [Hs Hr]]. subst t.
    assert (Hxs : nojunc junc (x :: s) = true) by (cbn [nojunc forallb]; rewrite Jx; exact Hs).
    destruct Hr as [-> | [y [u [-> Jy]]]].
    + rewrite app_nil_r. rewrite !no_junction_no_interface; [reflexivity| |].
      * apply nojunc_existsb. exact Hxs.
      * rewrite existsb_app. rewrite (nojunc_existsb junc s Hs). cbn. now rewrite Jx.
    + rewrite !cell_interfaces_unfold. rewrite <- app_assoc.
      change ((y :: u) ++ [x]) with (y :: (u ++ [x])). rewrite (rotated_span junc s y (u ++ [x]) Hs Jy).
      change (x :: s ++ y :: u) with ((x :: s) ++ y :: u). rewrite (rotated_span junc (x :: s) y u Hxs Jy).
      cbn [app]. rewrite <- app_assoc. reflexivity.
Qed.

(* ------------------------------------------------------------------ any rotation *)
Definition rotn {A} (n : nat) (l : list A) : list A := Nat.iter n rot1 l.
Lemma rotn_S {A} n (l : list A) : rotn (S n) l = rot1 (rotn n l).
Proof. reflexivity. Qed.
Lemma rotn_rot1_comm {A} n (l : list A) : rotn n (rot1 l) = rot1 (rotn n l).
Proof. induction n as [|n IH]; [reflexivity|]. rewrite !rotn_S, IH. reflexivity. Qed.
Lemma rotn_app {A} (a b : list A) : rotn (length a) (a ++ b) = b ++ a.
Proof.
  revert b. induction a as [|x a IH]; intros b; [cbn; now rewrite app_nil_r|].
  cbn [length]. rewrite rotn_S, <- rotn_rot1_comm. cbn [app rot1]. rewrite <- app_assoc, IH. now rewrite <- app_assoc.
Qed.
Lemma rotn_In {A} n (l : list A) x : In x (rotn n l) <-> In x l.
Proof.
  induction n as [|n IH]; [reflexivity|]. rewrite rotn_S, <- IH.
  destruct (rotn n l) as [|y t]; [reflexivity|]. cbn [rot1]. rewrite in_app_iff. cbn. tauto.
Qed.
Theorem cell_interfaces_rotn junc ids n : exists m, cell_interfaces junc (rotn n ids) = rotn m (cell_interfaces junc ids).
Proof.
  induction n as [|n [m IH]]; [exists 0%nat; reflexivity|]. rewrite rotn_S.
  destruct (cell_interfaces_rot1 junc (rotn n ids)) as [E | E]; rewrite E, IH; [exists m | exists (S m)]; reflexivity.
Qed.
(* starting the cycle at a different vertex gives a rotation of the same interface list, hence the same interfaces *)
Theorem cell_interfaces_shift junc a b : exists m,
  cell_interfaces junc (b ++ a) = rotn m (cell_interfaces junc (a ++ b)).
Proof. rewrite <- (rotn_app a b). apply cell_interfaces_rotn. Qed.
Corollary cell_interfaces_shift_same_set junc a b e :
  In e (cell_interfaces junc (b ++ a)) <-> In e (cell_interfaces junc (a ++ b)).
Proof. destruct (cell_interfaces_shift junc a b) as [m ->]. apply rotn_In. Qed.

(* ================================================================== the opposite rotational sense *)
(* uniqueness of the decomposition into pieces *)
Lemma nojunc_app junc a b : nojunc junc (a ++ b) = nojunc junc a && nojunc junc b.
Proof. unfold nojunc. apply forallb_app. Qed.
Lemma nojunc_rev junc a : nojunc junc (rev a) = nojunc junc a.
Proof.
  induction a as [|x a IH]; [reflexivity|]. cbn [rev]. rewrite nojunc_app, IH. cbn [nojunc forallb]. rewrite andb_true_r. apply andb_comm.
Qed.
Lemma prefix_unique junc s s' r r' : nojunc junc s = true -> nojunc junc s' = true ->
  (r = [] \/ exists y u, r = y :: u /\ junc y = true) -> (r' = [] \/ exists y u, r' = y :: u /\ junc y = true) ->
  s ++ r = s' ++ r' -> s = s' /\ r = r'.
Proof.
  revert s'. induction s as [|a s IH]; intros s' Hs Hs' Hr Hr' E.
  - destruct s' as [|a' s']; [split; [reflexivity|exact E]|]. exfalso. cbn [app] in E.
    cbn [nojunc forallb] in Hs'. apply andb_true_iff in Hs'. destruct Hs' as [Ha' _]. apply negb_true_iff in Ha'.
    destruct Hr as [-> | [y [u [-> Jy]]]]; [discriminate|]. injection E as -> _. congruence.
  - destruct s' as [|a' s'].
    + exfalso. cbn [app] in E. cbn [nojunc forallb] in Hs. apply andb_true_iff in Hs. destruct Hs as [Ha _]. apply negb_true_iff in Ha.
      destruct Hr' as [-> | [y [u [-> Jy]]]]; [discriminate|]. injection E as -> _. congruence.
    + cbn [app] in E. injection E as -> E. cbn [nojunc forallb] in Hs, Hs'. apply andb_true_iff in Hs, Hs'.
      destruct (IH s' (proj2 Hs) (proj2 Hs') Hr Hr' E) as [-> ->]. split; reflexivity.
Qed.
Lemma concat_pieces_start junc q : forallb (piece_ok junc) q = true ->
  concat q = [] \/ exists y u, concat q = y :: u /\ junc y = true.
Proof.
  destruct q as [|p q]; [left; reflexivity|]. cbn [forallb]. rewrite andb_true_iff. intros [Hp _].
  destruct p as [|y s]; [discriminate|]. cbn [piece_ok] in Hp. apply andb_true_iff in Hp. right. exists y, (s ++ concat q). split; [reflexivity|tauto].
Qed.
Theorem pieces_unique junc : forall q q', forallb (piece_ok junc) q = true -> forallb (piece_ok junc) q' = true ->
  concat q = concat q' -> q = q'.
Proof.
  induction q as [|p q IH]; intros q' Hq Hq' E.
  - destruct q' as [|p' q']; [reflexivity|]. exfalso. cbn [forallb] in Hq'. apply andb_true_iff in Hq'. destruct Hq' as [Hp' _].
    destruct p'; [discriminate|]. discriminate.
  - destruct q' as [|p' q'].
    + exfalso. cbn [forallb] in Hq. apply andb_true_iff in Hq. destruct Hq as [Hp _]. destruct p; [discriminate|]. discriminate.
    + cbn [forallb] in Hq, Hq'. apply andb_true_iff in Hq, Hq'. destruct Hq as [Hp Hq]. destruct Hq' as [Hp' Hq'].
      destruct p as [|a s]; [discriminate|]. destruct p' as [|a' s']; [discriminate|].
      cbn [piece_ok] in Hp, Hp'. apply andb_true_iff in Hp, Hp'. cbn [concat app] in E. injection E as -> E.
      destruct (prefix_unique junc s s' (concat q) (concat q') (proj2 Hp) (proj2 Hp')
                  (concat_pieces_start junc q Hq) (concat_pieces_start junc q' Hq') E) as [-> Ec].
      f_equal. now apply IH.
Qed.
Lemma pieces_of junc x t q : junc x = true -> forallb (piece_ok junc) q = true -> concat q = x :: t ->
  tl (get_partition junc (x :: t)) = q.
Proof.
  intros Jx Hq Hc. apply (pieces_unique junc); [apply partition_spec|exact Hq|].
  rewrite (partition_tl_concat junc x t Jx). now symmetry.
Qed.

(* closed chains of interfaces *)
Definition chain (E : list (list Z)) : Prop := map lastZ E = rot1 (map headZ E).
Lemma lastZ_snoc p h : lastZ (p ++ [h]) = h.
Proof. unfold lastZ. apply last_last. Qed.
Lemma headZ_snoc p h : p <> [] -> headZ (p ++ [h]) = headZ p.
Proof. destruct p; [congruence|reflexivity]. Qed.
Lemma close_pieces_heads q : Forall (fun p => p <> []) q -> map headZ (close_pieces q) = map headZ q.
Proof.
  intros Hq. unfold close_pieces. rewrite map_map.
  assert (L : length q = length (rot1 (map headZ q))) by now rewrite rot1_length, map_length.
  revert L Hq. generalize (rot1 (map headZ q)). induction q as [|p q IH]; intros [|h hs] L Hq; cbn [length map combine fst snd] in *; try discriminate; [reflexivity|].
  inversion Hq; subst. f_equal; [now apply headZ_snoc|]. apply IH; [lia|assumption].
Qed.
Lemma close_pieces_lasts q : map lastZ (close_pieces q) = rot1 (map headZ q).
Proof.
  unfold close_pieces. rewrite map_map.
  assert (L : length q = length (rot1 (map headZ q))) by now rewrite rot1_length, map_length.
  revert L. generalize (rot1 (map headZ q)). induction q as [|p q IH]; intros [|h hs] L; cbn [length map combine fst snd] in *; try discriminate; [reflexivity|].
  rewrite lastZ_snoc. f_equal. apply IH. lia.
Qed.
Lemma close_pieces_chain q : Forall (fun p => p <> []) q -> chain (close_pieces q).
Proof. intros Hq. unfold chain. now rewrite close_pieces_lasts, close_pieces_heads. Qed.
Lemma removelast_snoc_last (e : list Z) : e <> [] -> removelast e ++ [lastZ e] = e.
Proof. intros H. symmetry. now apply app_removelast_last. Qed.
Lemma headZ_removelast (e : list Z) : (2 <= length e)%nat -> headZ (removelast e) = headZ e.
Proof. destruct e as [|a [|b e]]; cbn [length]; try lia. reflexivity. Qed.
Lemma closed_chain E : Forall (fun e => (2 <= length e)%nat) E -> chain E -> close_pieces (map (@removelast Z) E) = E.
Proof.
  intros H2 Hc. unfold close_pieces. rewrite map_map.
  rewrite (map_ext_in _ headZ) by (intros e He; rewrite Forall_forall in H2; now apply headZ_removelast, H2).
  unfold chain in Hc. rewrite <- Hc. clear Hc.
  induction E as [|e E IH]; [reflexivity|]. inversion H2; subst. cbn [map combine fst snd]. f_equal; [|now apply IH].
  apply removelast_snoc_last. destruct e; cbn in *; [lia|discriminate].
Qed.
Lemma rev_rot1 {A} (H : list A) : rev H = rot1 (rev (rot1 H)).
Proof. destruct H as [|h T]; [reflexivity|]. cbn [rot1]. rewrite rev_app_distr. cbn [rev app rot1]. reflexivity. Qed.
Definition flipE (E : list (list Z)) : list (list Z) := map (@rev Z) (rev E).
Lemma lastZ_rev e : lastZ (rev e) = headZ e.
Proof. destruct e as [|a e]; [reflexivity|]. cbn [rev]. apply lastZ_snoc. Qed.
Lemma headZ_rev e : headZ (rev e) = lastZ e.
Proof. rewrite <- (rev_involutive e) at 2. now rewrite lastZ_rev. Qed.
Lemma chain_flip E : chain E -> chain (flipE E).
Proof.
  unfold chain, flipE. intros Hc. rewrite !map_map.
  rewrite (map_ext _ headZ) by apply lastZ_rev. rewrite (map_ext (fun x => headZ (rev x)) lastZ) by apply headZ_rev.
  rewrite !map_rev, Hc. apply rev_rot1.
Qed.

(* the pieces behind the flipped interfaces *)
Lemma removelast_rev (e : list Z) : removelast (rev e) = rev (tl e).
Proof. destruct e as [|a e]; [reflexivity|]. cbn [rev tl]. apply removelast_last. Qed.
Lemma concat_map_rev_rev {A} (X : list (list A)) : concat (map (@rev A) (rev X)) = rev (concat X).
Proof.
  induction X as [|x X IH]; [reflexivity|]. cbn [rev concat]. rewrite map_app, concat_app, IH, rev_app_distr. cbn. now rewrite app_nil_r.
Qed.
Definition close_with (P : list (list Z)) (hs : list Z) : list (list Z) := map (fun pn => fst pn ++ [snd pn]) (combine P hs).
Lemma close_with_tails : forall P z, P <> [] -> Forall (fun p => p <> []) P ->
  concat (map (@tl Z) (close_with P (tl (map headZ P) ++ [z]))) = tl (concat P) ++ [z].
Proof.
  induction P as [|p P IH]; intros z Hne HP; [congruence|]. inversion HP as [|? ? Hp HP']; subst.
  destruct P as [|p' P].
  - cbn. rewrite !app_nil_r. destruct p; [congruence|reflexivity].
  - specialize (IH z ltac:(discriminate) HP').
    change (tl (map headZ (p :: p' :: P)) ++ [z]) with (headZ p' :: (tl (map headZ (p' :: P)) ++ [z])).
    unfold close_with in *. cbn [combine map fst snd concat]. cbn [combine map fst snd concat] in IH. rewrite IH.
    inversion HP' as [|? ? Hp' _]; subst.
    destruct p as [|a s]; [congruence|]. destruct p' as [|a' s']; [congruence|].
    repeat (cbn [tl app headZ hd concat]; rewrite <- ?app_assoc). reflexivity.
Qed.
Lemma close_pieces_tails P : P <> [] -> Forall (fun p => p <> []) P ->
  concat (map (@tl Z) (close_pieces P)) = tl (concat P) ++ [headZ (hd [] P)].
Proof.
  intros Hne HP. rewrite <- (close_with_tails P (headZ (hd [] P)) Hne HP). unfold close_pieces, close_with.
  destruct P as [|p P]; [congruence|]. reflexivity.
Qed.

(* a cycle that starts at a junction, traversed in the opposite sense from the same junction *)
Theorem cell_interfaces_flip_at_junction junc x t : junc x = true ->
  cell_interfaces junc (x :: rev t) = flipE (cell_interfaces junc (x :: t)).
Proof.
  intros Jx. rewrite !cell_interfaces_unfold. cbn [rotated_ids]. rewrite Jx.
  set (P := tl (get_partition junc (x :: t))).
  assert (HP : forallb (piece_ok junc) P = true) by apply partition_spec.
  assert (HPc : concat P = x :: t) by (apply partition_tl_concat; exact Jx).
  assert (HPn : Forall (fun p => p <> []) P) by (apply (piece_ok_nonempty junc); exact HP).
  assert (HPne : P <> []) by (intro E; rewrite E in HPc; discriminate).
  set (E := close_pieces P).
  assert (Hsh : forall e, In e E -> exists a mid b, e = a :: mid ++ [b] /\ junc a = true /\ junc b = true /\ nojunc junc mid = true)
    by (intros e He; now apply (close_pieces_shape junc P)).
  (* the pieces of the reversed cycle *)
  assert (HQ : tl (get_partition junc (x :: rev t)) = map (@removelast Z) (flipE E)).
  { apply pieces_of; [exact Jx| |].
    - apply forallb_forall. intros p Hp. apply in_map_iff in Hp. destruct Hp as [e' [<- He']].
      unfold flipE in He'. apply in_map_iff in He'. destruct He' as [e [<- He]]. apply in_rev in He.
      destruct (Hsh e He) as [a [mid [b [-> [Ja [Jb Hm]]]]]].
      rewrite removelast_rev. cbn [tl]. rewrite rev_app_distr. cbn [rev app piece_ok]. rewrite Jb, nojunc_rev, Hm. reflexivity.
    - unfold flipE. rewrite map_map. rewrite (map_ext _ (fun e => rev (tl e))) by apply removelast_rev.
      rewrite <- (map_map (@tl Z) (@rev Z)), (map_rev (@tl Z)), concat_map_rev_rev.
      unfold E. rewrite close_pieces_tails by assumption. rewrite HPc. cbn [tl].
      replace (headZ (hd [] P)) with x.
      + rewrite rev_app_distr. reflexivity.
      + destruct P as [|p P']; [congruence|]. cbn [hd]. cbn [concat] in HPc. inversion HPn; subst.
        destruct p; [congruence|]. cbn in HPc. injection HPc as -> _. reflexivity. }
  rewrite HQ. apply closed_chain.
  - apply Forall_forall. intros e' He'. unfold flipE in He'. apply in_map_iff in He'. destruct He' as [e [<- He]]. apply in_rev in He.
    destruct (Hsh e He) as [a [mid [b [-> _]]]]. rewrite rev_length. cbn [length]. rewrite app_length. cbn. lia.
  - apply chain_flip. apply close_pieces_chain. exact HPn.
Qed.

(* any cycle, stored in the opposite rotational sense: the same interfaces, each traversed backwards, in a rotated order *)
Lemma rotn_add {A} n m (l : list A) : rotn n (rotn m l) = rotn (n + m) l.
Proof. induction n as [|n IH]; [reflexivity|]. cbn [Nat.add]. now rewrite !rotn_S, IH. Qed.
Theorem cell_interfaces_reverse junc ids : exists m,
  cell_interfaces junc (rev ids) = rotn m (flipE (cell_interfaces junc ids)).
Proof.
  destruct (existsb junc ids) eqn:Hex.
  - destruct (rotated_is_rotation junc ids) as [l1 [l2 [H1 H2]]].
    destruct (rotated_starts_with_junction junc ids Hex) as [x [t [Hr Jx]]].
    assert (E0 : cell_interfaces junc ids = cell_interfaces junc (x :: t)).
    { rewrite (cell_interfaces_unfold junc ids), (cell_interfaces_unfold junc (x :: t)), Hr. cbn [rotated_ids]. now rewrite Jx. }
    rewrite E0, <- (cell_interfaces_flip_at_junction junc x t Jx).
    (* rev ids = rev l2 ++ rev l1 ; rev (x :: t) = rev l1 ++ rev l2 = rev t ++ [x] *)
    assert (R1 : rev ids = rev l2 ++ rev l1) by (rewrite H1; apply rev_app_distr).
    assert (R2 : rev t ++ [x] = rev l1 ++ rev l2) by (rewrite <- rev_app_distr, <- H2, Hr; reflexivity).
    destruct (cell_interfaces_shift junc (rev l1) (rev l2)) as [m1 Hm1].
    destruct (cell_interfaces_shift junc [x] (rev t)) as [m2 Hm2].
    rewrite R1, Hm1, <- R2, Hm2, rotn_add. change ([x] ++ rev t) with (x :: rev t). eexists. reflexivity.
  - exists 0%nat. rewrite (no_junction_no_interface junc ids Hex).
    rewrite no_junction_no_interface; [reflexivity|]. rewrite <- Hex. clear Hex.
    induction ids as [|a ids IH]; [reflexivity|]. cbn [rev]. rewrite existsb_app, IH. cbn. rewrite orb_false_r. apply orb_comm.
Qed.
Corollary cell_interfaces_reverse_same_set junc ids e :
  In e (cell_interfaces junc (rev ids)) <-> In (rev e) (cell_interfaces junc ids).
Proof.
  destruct (cell_interfaces_reverse junc ids) as [m ->]. rewrite rotn_In. unfold flipE. rewrite in_map_iff. split.
  - intros [f [<- Hf]]. rewrite rev_involutive. now apply in_rev.
  - intros H. exists (rev e). split; [apply rev_involutive|]. now apply -> in_rev.
Qed.

(* ================================================================== whole tissues *)
(* the same cell cycle: started at another vertex, possibly traversed in the opposite rotational sense *)
Definition same_cycle (c c' : list Z) : Prop :=
  (exists a b, c = a ++ b /\ c' = b ++ a) \/ (exists a b, rev c = a ++ b /\ c' = b ++ a).
Lemma same_iface_sym e f : same_iface e f -> same_iface f e.
Proof. intros [-> | ->]; [left; reflexivity|right; now rewrite rev_involutive]. Qed.
Lemma same_iface_rev e : same_iface e (rev e).
Proof. right. now rewrite rev_involutive. Qed.
Lemma same_iface_trans e f g : same_iface e f -> same_iface f g -> same_iface e g.
Proof. intros [-> | ->] [-> | ->]; [left|right|right|left]; try reflexivity. now rewrite rev_involutive. Qed.
Lemma same_cycle_interfaces junc c c' e : same_cycle c c' -> In e (cell_interfaces junc c) ->
  exists f, In f (cell_interfaces junc c') /\ same_iface e f.
Proof.
  intros [[a [b [-> ->]]] | [a [b [Hr ->]]]] He.
  - exists e. split; [now apply cell_interfaces_shift_same_set|left; reflexivity].
  - exists (rev e). split; [|apply same_iface_rev].
    apply cell_interfaces_shift_same_set. rewrite <- Hr. apply cell_interfaces_reverse_same_set. now rewrite rev_involutive.
Qed.
Theorem create_edges_new_same_cycles junc cells cells' :
  Forall2 (fun c c' => same_cycle (snd c) (snd c')) cells cells' ->
  forall e, In e (create_edges_new junc cells) -> exists f, In f (create_edges_new junc cells') /\ same_iface e f.
Proof.
  intros HF e He. unfold create_edges_new in *. apply dedup_sound in He. apply in_concat in He. destruct He as [l [Hl He]].
  apply in_map_iff in Hl. destruct Hl as [c [<- Hc]].
  assert (Hc' : exists c', In c' cells' /\ same_cycle (snd c) (snd c')).
  { clear -HF Hc. induction HF as [|x y l l' Hxy HF IH]; [contradiction|]. destruct Hc as [-> | Hc].
    - exists y. split; [left; reflexivity|exact Hxy].
    - destruct (IH Hc) as [c' [H1 H2]]. exists c'. split; [right; exact H1|exact H2]. }
  destruct Hc' as [c' [Hin' Hsc]].
  destruct (same_cycle_interfaces junc _ _ e Hsc He) as [f [Hf Hef]].
  destruct (dedup_keeps_all (concat (map (fun c => cell_interfaces junc (snd c)) cells')) f) as [g [Hg Hfg]].
  - apply in_concat. exists (cell_interfaces junc (snd c')). split; [|exact Hf]. apply in_map_iff. exists c'. split; [reflexivity|exact Hin'].
  - exists g. split; [exact Hg|]. eapply same_iface_trans; eassumption.
Qed.
Lemma same_cycle_sym c c' : same_cycle c c' -> same_cycle c' c.
Proof.
  intros [[a [b [-> ->]]] | [a [b [Hr ->]]]].
  - left. exists b, a. split; reflexivity.
  - right. exists (rev a), (rev b). split; [now rewrite rev_app_distr|].
    rewrite <- rev_app_distr, <- Hr. now rewrite rev_involutive.
Qed.

(* ================================================================== every mesh edge of a cell with a junction lies in an interface (C08) *)
Definition adjacent (a b : Z) (l : list Z) : Prop := exists l1 l2, l = l1 ++ a :: b :: l2.
(* a and b follow each other on the closed cycle *)
Definition cyc_adjacent (a b : Z) (ids : list Z) : Prop := adjacent a b (ids ++ [headZ ids]).

Lemma adjacent_cons a b x l : adjacent a b l -> adjacent a b (x :: l).
Proof. intros [l1 [l2 ->]]. exists (x :: l1), l2. reflexivity. Qed.
Lemma adjacent_app_l a b l r : adjacent a b l -> adjacent a b (l ++ r).
Proof. intros [l1 [l2 ->]]. exists l1, (l2 ++ r). now rewrite <- app_assoc. Qed.
Lemma adjacent_app_r a b l r : adjacent a b r -> adjacent a b (l ++ r).
Proof. intros [l1 [l2 ->]]. exists (l ++ l1), l2. now rewrite <- app_assoc. Qed.
Lemma adjacent_split a b : forall p h q, adjacent a b (p ++ h :: q) -> adjacent a b (p ++ [h]) \/ adjacent a b (h :: q).
Proof.
  induction p as [|x p IH]; intros h q H; [right; exact H|].
  destruct H as [l1 [l2 E]]. destruct l1 as [|y l1].
  - cbn [app] in E. injection E as -> E. destruct p as [|x' p'].
    + cbn [app] in E. injection E as -> _. left. exists [], []. reflexivity.
    + cbn [app] in E. injection E as -> _. left. exists [], (p' ++ [h]). reflexivity.
  - cbn [app] in E. injection E as -> E.
    destruct (IH h q (ex_intro _ l1 (ex_intro _ l2 E))) as [H|H]; [left; now apply adjacent_cons|right; exact H].
Qed.
Lemma adjacent_rev a b l : adjacent a b l -> adjacent b a (rev l).
Proof. intros [l1 [l2 ->]]. exists (rev l2), (rev l1). rewrite rev_app_distr. cbn [rev]. now rewrite <- !app_assoc. Qed.

(* closing a list of pieces covers every consecutive pair of their concatenation followed by the closing vertex *)
Lemma close_with_covers a b : forall P z, Forall (fun p => p <> []) P -> P <> [] ->
  adjacent a b (concat P ++ [z]) -> exists e, In e (close_with P (tl (map headZ P) ++ [z])) /\ adjacent a b e.
Proof.
  induction P as [|p P IH]; intros z HP Hne H; [congruence|]. inversion HP as [|? ? Hp HP']; subst.
  destruct P as [|p' P].
  - cbn [concat] in H. rewrite app_nil_r in H. exists (p ++ [z]). split; [left; reflexivity|exact H].
  - inversion HP' as [|? ? Hp' _]; subst. destruct p' as [|h q]; [congruence|].
    change (tl (map headZ (p :: (h :: q) :: P)) ++ [z]) with (h :: (tl (map headZ ((h :: q) :: P)) ++ [z])).
    unfold close_with. cbn [combine map fst snd]. cbn [concat] in H. rewrite <- app_assoc in H. cbn [app] in H.
    destruct (adjacent_split a b p h _ H) as [H1|H2].
    + exists (p ++ [h]). split; [left; reflexivity|exact H1].
    + destruct (IH z HP' ltac:(discriminate)) as [e [He Hab]].
      * cbn [concat app]. rewrite <- app_assoc in H2. rewrite <- app_assoc. exact H2.
      * exists e. split; [right; exact He|exact Hab].
Qed.
Lemma close_pieces_covers a b P : Forall (fun p => p <> []) P -> P <> [] ->
  adjacent a b (concat P ++ [headZ (concat P)]) -> exists e, In e (close_pieces P) /\ adjacent a b e.
Proof.
  intros HP Hne H. destruct P as [|p P]; [congruence|]. inversion HP as [|? ? Hp _]; subst.
  replace (headZ (concat (p :: P))) with (headZ p) in H by (destruct p; [congruence|reflexivity]).
  exact (close_with_covers a b (p :: P) (headZ p) HP Hne H).
Qed.

(* cyclic adjacency does not depend on where the cycle starts *)
Lemma cyc_adjacent_rot a b l1 l2 : cyc_adjacent a b (l1 ++ l2) -> cyc_adjacent a b (l2 ++ l1).
Proof.
  unfold cyc_adjacent. destruct l1 as [|x l1]; [now rewrite app_nil_r|]. destruct l2 as [|y l2]; [now rewrite app_nil_r|].
  cbn [app headZ hd]. intros H.
  (* x :: l1 ++ y :: l2 ++ [x]  versus  y :: l2 ++ x :: l1 ++ [y] *)
  assert (E1 : x :: (l1 ++ y :: l2) ++ [x] = (x :: l1) ++ y :: (l2 ++ [x])) by (cbn [app]; now rewrite <- app_assoc).
  rewrite E1 in H.
  destruct (adjacent_split a b (x :: l1) y (l2 ++ [x]) H) as [H1|H2].
  - assert (E2 : y :: (l2 ++ x :: l1) ++ [y] = (y :: l2) ++ ((x :: l1) ++ [y])) by (cbn [app]; now rewrite <- app_assoc).
    rewrite E2. now apply adjacent_app_r.
  - assert (E3 : y :: (l2 ++ x :: l1) ++ [y] = (y :: l2 ++ [x]) ++ (l1 ++ [y])) by (cbn [app]; rewrite <- !app_assoc; reflexivity).
    rewrite E3. now apply adjacent_app_l.
Qed.

Theorem cell_edge_in_interface junc ids a b : existsb junc ids = true -> cyc_adjacent a b ids ->
  exists e, In e (cell_interfaces junc ids) /\ adjacent a b e.
Proof.
  intros Hex Hab. destruct (rotated_is_rotation junc ids) as [l1 [l2 [H1 H2]]].
  destruct (rotated_starts_with_junction junc ids Hex) as [x [t [Hr Jx]]].
  rewrite cell_interfaces_unfold. set (P := tl (get_partition junc (rotated_ids junc ids))).
  assert (HP : forallb (piece_ok junc) P = true) by apply partition_spec.
  assert (HPc : concat P = rotated_ids junc ids) by (unfold P; rewrite Hr; now apply partition_tl_concat).
  apply close_pieces_covers.
  - now apply (piece_ok_nonempty junc).
  - intro E. rewrite E in HPc. rewrite Hr in HPc. discriminate.
  - rewrite HPc, H2. apply cyc_adjacent_rot. now rewrite <- H1.
Qed.
Theorem mesh_edge_in_interface junc cells c a b : In c cells -> existsb junc (snd c) = true -> cyc_adjacent a b (snd c) ->
  exists f, In f (create_edges_new junc cells) /\ (adjacent a b f \/ adjacent b a f).
Proof.
  intros Hc Hex Hab. destruct (cell_edge_in_interface junc (snd c) a b Hex Hab) as [e [He Hadj]].
  destruct (dedup_keeps_all (concat (map (fun c => cell_interfaces junc (snd c)) cells)) e) as [f [Hf Hs]].
  - apply in_concat. exists (cell_interfaces junc (snd c)). split; [|exact He]. apply in_map_iff. exists c. split; [reflexivity|exact Hc].
  - exists f. split; [exact Hf|]. destruct Hs as [-> | ->]; [left; exact Hadj|right].
    apply adjacent_rev in Hadj. now rewrite rev_involutive in Hadj.
Qed.
