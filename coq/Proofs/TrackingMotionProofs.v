(* TrackingMotionProofs.v -- the proximity search follows small motions (C12): when a vertex's true successor is strictly the
   nearest free end point of the next frame and lies inside the largest search radius, find_best returns it, whatever the order
   of the pool, whatever was swept before and whatever the (stale) radius of the second pass; and create_mapping then maps every
   vertex to its true successor, however either frame is numbered.  Model/Tracking.v (time_series.py:149-205). *)
From Coq Require Import ZArith QArith List Bool Lia.
From Forsys Require Import Model.PyList Model.Tracking Proofs.TrackingProofs.
Import ListNotations.
Open Scope Z_scope.

Lemma Qle_bool_false_lt a b : Qle_bool a b = false <-> (b < a)%Q.
Proof.
  split.
  - intros H. apply Qnot_le_lt. intros Hle. apply Qle_bool_iff in Hle. congruence.
  - intros H. destruct (Qle_bool a b) eqn:E; [|reflexivity]. apply Qle_bool_iff in E. exfalso. exact (Qlt_not_le _ _ H E).
Qed.

Section Nearest.
  Variables (m : list (Z * option Z)) (v0 : vtx) (pool : list vtx) (w : vtx).
  Hypothesis Hw : free_in m pool w.
  (* w is strictly nearer to v0 than every other free vertex of the pool *)
  Hypothesis Hnear : forall c, free_in m pool c -> c = w \/ (sqd v0 w < sqd v0 c)%Q.

  Lemma sweep_nonempty_has_w r c : In c (sweep m v0 pool r) -> In w (sweep m v0 pool r).
  Proof.
    intros Hc. pose proof (sweep_free _ _ _ _ _ Hc) as Hf. destruct (Hnear c Hf) as [-> | Hlt]; [exact Hc|].
    unfold sweep in *. rewrite filter_In in *. destruct Hw as [Hin Hfree]. split; [exact Hin|].
    destruct Hc as [_ Hc]. apply andb_true_iff in Hc. destruct Hc as [_ Hr].
    rewrite Hfree. cbn [negb andb]. apply negb_true_iff in Hr. apply negb_true_iff.
    apply Qle_bool_false_lt in Hr. apply Qle_bool_false_lt. eapply Qlt_trans; eassumption.
  Qed.
  Lemma sweep_reaches r : (sqd v0 w < r * r)%Q -> In w (sweep m v0 pool r).
  Proof.
    intros Hr. unfold sweep. rewrite filter_In. destruct Hw as [Hin Hfree]. split; [exact Hin|].
    rewrite Hfree. cbn [negb andb]. apply negb_true_iff. now apply Qle_bool_false_lt.
  Qed.

  (* the first pass: as soon as anything was collected, w was collected *)
  Lemma first_loop_has_w mc : forall spreads acc r acc' r' rest,
    (acc = [] \/ In w acc) -> spreads <> [] -> (sqd v0 w < (last spreads 0%Q * mc) * (last spreads 0%Q * mc))%Q ->
    first_loop m v0 pool mc spreads acc r = (acc', r', rest) -> In w acc'.
  Proof.
    induction spreads as [|s t IH]; intros acc r acc' r' rest Hacc Hne Hreach H; [congruence|].
    cbn [first_loop] in H. destruct (Nat.leb (length acc) 1) eqn:L.
    - set (sw := sweep m v0 pool (s * mc)) in *.
      assert (Hacc1 : acc ++ sw = [] \/ In w (acc ++ sw)).
      { destruct Hacc as [-> | Hin]; [|right; apply in_or_app; left; exact Hin].
        cbn [app]. destruct sw as [|c sw'] eqn:E; [left; reflexivity|right].
        rewrite <- E. apply (sweep_nonempty_has_w (s * mc) c). fold sw. rewrite E. left. reflexivity. }
      destruct t as [|s' t'].
      + cbn [first_loop] in H. inversion H; subst. apply in_or_app. right. apply sweep_reaches. exact Hreach.
      + eapply IH; [exact Hacc1|discriminate| |exact H]. exact Hreach.
    - inversion H; subst. destruct Hacc as [-> | Hin]; [cbn in L; discriminate|exact Hin].
  Qed.

  (* the choice among candidates: the first one of minimal distance *)
  Lemma argmin_nearest : forall cands best,
    (forall c, In c cands -> c = w \/ (sqd v0 w < sqd v0 c)%Q) ->
    match best with None => True | Some b => b = w \/ (sqd v0 w < sqd v0 b)%Q end ->
    (In w cands \/ best = Some w) -> argmin v0 cands best = Some w.
  Proof.
    induction cands as [|c t IH]; intros best Hc Hb Hin.
    - destruct Hin as [[] | ->]. reflexivity.
    - cbn [argmin]. assert (Hct : forall c', In c' t -> c' = w \/ (sqd v0 w < sqd v0 c')%Q) by (intros c' H'; apply Hc; right; exact H').
      destruct best as [b|].
      + destruct (Qle_bool (sqd v0 b) (sqd v0 c)) eqn:E.
        * apply IH; [exact Hct|exact Hb|]. destruct Hin as [[<- | Hin] | Hin]; [|left; exact Hin|right; exact Hin].
          (* c = w kept out although b <= w : then b = w *)
          destruct Hb as [-> | Hlt]; [right; reflexivity|]. apply Qle_bool_iff in E. exfalso. exact (Qlt_not_le _ _ Hlt E).
        * apply IH; [exact Hct| |].
          -- apply Hc. left. reflexivity.
          -- destruct Hin as [[<- | Hin] | Hin]; [right; reflexivity|left; exact Hin|].
             inversion Hin; subst b. apply Qle_bool_false_lt in E.
             destruct (Hc c (or_introl eq_refl)) as [-> | Hlt]; [right; reflexivity|]. exfalso. exact (Qlt_irrefl _ (Qlt_trans _ _ _ Hlt E)).
      + apply IH; [exact Hct|apply Hc; left; reflexivity|].
        destruct Hin as [[<- | Hin] | Hin]; [right; reflexivity|left; exact Hin|discriminate].
  Qed.

  Theorem find_best_nearest spreads mc : spreads <> [] ->
    (sqd v0 w < (last spreads 0%Q * mc) * (last spreads 0%Q * mc))%Q ->
    find_best spreads m v0 pool mc = Some (vid w).
  Proof.
    intros Hne Hreach. unfold find_best.
    destruct (first_loop m v0 pool mc spreads [] 0%Q) as [[obverse radius] rest] eqn:E.
    assert (Hob : In w obverse) by (eapply first_loop_has_w; [left; reflexivity|exact Hne|exact Hreach|exact E]).
    rewrite (argmin_nearest (second_loop m v0 pool radius rest [] ++ obverse) None); [reflexivity| |exact I|left; apply in_or_app; right; exact Hob].
    intros c Hc. apply Hnear. apply in_app_or in Hc. destruct Hc as [Hc|Hc].
    - pose proof (second_loop_free m v0 pool radius rest [] (Forall_nil _)) as F. rewrite Forall_forall in F. apply F, Hc.
    - pose proof (first_loop_free m v0 pool mc spreads [] 0%Q obverse radius rest (Forall_nil _) E) as F. rewrite Forall_forall in F. apply F, Hc.
  Qed.
End Nearest.

(* ------------------------------------------------------------------ the whole correspondence *)
(* succ : the true successor of every vertex of the first frame *)
Section Follow.
  Variables (spreads : list Q) (mc : Q) (pool1 : list vtx) (succ : vtx -> vtx).
  Hypothesis Hspreads : spreads <> [].
  Hypothesis Hids1 : NoDup (map vid pool1).

  Definition follows (v0 : vtx) : Prop :=
    In (succ v0) pool1 /\
    (forall c, In c pool1 -> c = succ v0 \/ (sqd v0 (succ v0) < sqd v0 c)%Q) /\
    (sqd v0 (succ v0) < (last spreads 0%Q * mc) * (last spreads 0%Q * mc))%Q.

  Definition true_map (p : list vtx) : list (Z * option Z) := map (fun v0 => (vid v0, Some (vid (succ v0)))) p.

  Lemma targets_true_map p : targets (true_map p) = map (fun v0 => vid (succ v0)) p.
  Proof. induction p as [|v p IH]; [reflexivity|]. unfold true_map, targets in *. cbn [map flat_map snd app]. now rewrite IH. Qed.
  Lemma has_keyo_true_map p k : has_keyo (true_map p) k = existsb (fun v => Z.eqb (vid v) k) p.
  Proof. unfold has_keyo, true_map. induction p as [|v p IH]; [reflexivity|]. cbn [map existsb fst]. now rewrite IH. Qed.

  Theorem create_mapping_follows : forall pool0 done,
    NoDup (map vid (done ++ pool0)) -> NoDup (map (fun v => vid (succ v)) (done ++ pool0)) ->
    (forall v0, In v0 pool0 -> follows v0) ->
    fold_left (fun mm v0 => if has_keyo mm (vid v0) then mm else mm ++ [(vid v0, find_best spreads mm v0 pool1 mc)]) pool0 (true_map done)
    = true_map (done ++ pool0).
  Proof.
    induction pool0 as [|v0 p IH]; intros done Hn0 Hn1 Hf; [now rewrite app_nil_r|].
    cbn [fold_left].
    assert (Hkey : has_keyo (true_map done) (vid v0) = false).
    { rewrite has_keyo_true_map. apply not_true_is_false. intros Hex. apply existsb_exists in Hex. destruct Hex as [v [Hv He]].
      apply Z.eqb_eq in He. rewrite map_app in Hn0. apply NoDup_remove_2 in Hn0. apply Hn0. apply in_or_app. left.
      rewrite <- He. apply in_map. exact Hv. }
    rewrite Hkey. destruct (Hf v0 (or_introl eq_refl)) as [Hin [Hnear Hreach]].
    assert (Hfree : taken (true_map done) (vid (succ v0)) = false).
    { apply not_true_is_false. intros Ht. apply taken_spec in Ht. rewrite targets_true_map in Ht.
      rewrite map_app in Hn1. apply NoDup_remove_2 in Hn1. apply Hn1. apply in_or_app. left. exact Ht. }
    rewrite (find_best_nearest (true_map done) v0 pool1 (succ v0)); [| split; assumption | | exact Hspreads | exact Hreach].
    - replace (true_map done ++ [(vid v0, Some (vid (succ v0)))]) with (true_map (done ++ [v0])) by (unfold true_map; now rewrite map_app).
      rewrite (IH (done ++ [v0])); [now rewrite <- app_assoc| | |].
      + now rewrite <- app_assoc.
      + now rewrite <- app_assoc.
      + intros v Hv. apply Hf. right. exact Hv.
    - intros c [Hc _]. apply Hnear. exact Hc.
  Qed.

  (* every vertex of the first frame is mapped to its true successor; the order of the pools and the ids play no role *)
  Corollary mapping_follows_small_motions pool0 :
    NoDup (map vid pool0) -> NoDup (map (fun v => vid (succ v)) pool0) -> (forall v0, In v0 pool0 -> follows v0) ->
    create_mapping spreads [] pool0 pool1 mc = true_map pool0.
  Proof. intros H0 H1 Hf. unfold create_mapping. exact (create_mapping_follows pool0 [] H0 H1 Hf). Qed.
End Follow.

(* ------------------------------------------------------------------ "less than half the smallest spacing" makes the successor the nearest *)
From Coq Require Import Lqa.
Lemma sq_nonneg (t : Q) : (0 <= t * t)%Q.
Proof. nra. Qed.
Lemma parallelogram (a b p q d2 : Q) :
  (a * a + b * b < d2 -> 4 * d2 <= (p - a) * (p - a) + (q - b) * (q - b) -> a * a + b * b < p * p + q * q)%Q.
Proof. intros. pose proof (sq_nonneg (p + a)). pose proof (sq_nonneg (q + b)). nra. Qed.
Lemma half_spacing_nearest (v0 w c : vtx) (d2 : Q) :
  (sqd v0 w < d2)%Q -> (4 * d2 <= sqd w c)%Q -> (sqd v0 w < sqd v0 c)%Q.
Proof.
  destruct v0 as [i0 [x0 y0]], w as [i1 [x1 y1]], c as [i2 [x2 y2]]. unfold sqd. cbv zeta. cbn [fst snd]. intros H1 H2.
  apply (parallelogram (x1 - x0) (y1 - y0) (x2 - x0) (y2 - y0) d2 H1).
  eapply Qle_trans; [exact H2|]. apply Qle_lteq. right. ring.
Qed.

Lemma same_id_same_vertex (pool : list vtx) c w : NoDup (map vid pool) -> In c pool -> In w pool -> vid c = vid w -> c = w.
Proof.
  induction pool as [|p l IH]; intros Hnd Hc Hw E; [contradiction|]. cbn [map] in Hnd. inversion Hnd as [|? ? Hnot Hnd']; subst.
  destruct Hc as [-> | Hc], Hw as [-> | Hw]; [reflexivity| | |now apply IH].
  - exfalso. apply Hnot. rewrite E. now apply in_map.
  - exfalso. apply Hnot. rewrite <- E. now apply in_map.
Qed.

Section SmallMotions.
  Variables (spreads : list Q) (mc : Q) (pool0 pool1 : list vtx) (succ : vtx -> vtx) (d2 : Q).
  Hypothesis Hspreads : spreads <> [].
  Hypothesis Hids0 : NoDup (map vid pool0).
  Hypothesis Hids1 : NoDup (map vid pool1).
  Hypothesis Hsucc_in : forall v0, In v0 pool0 -> In (succ v0) pool1.
  Hypothesis Hsucc_inj : NoDup (map (fun v => vid (succ v)) pool0).
  (* every vertex moves by less than d = sqrt d2 ... *)
  Hypothesis Hmove : forall v0, In v0 pool0 -> (sqd v0 (succ v0) < d2)%Q.
  (* ... which is at most half the smallest spacing of the end points of the next frame ... *)
  Hypothesis Hspacing : forall c c', In c pool1 -> In c' pool1 -> c <> c' -> (4 * d2 <= sqd c c')%Q.
  (* ... and at most the largest search radius (0.08 x extent for the shipped schedule) *)
  Hypothesis Hreach : (d2 <= (last spreads 0%Q * mc) * (last spreads 0%Q * mc))%Q.

  Theorem small_motions_are_followed : create_mapping spreads [] pool0 pool1 mc = true_map succ pool0.
  Proof.
    apply mapping_follows_small_motions; try assumption.
    intros v0 Hv. split; [now apply Hsucc_in|]. split.
    - intros c Hc. destruct (Z.eq_dec (vid c) (vid (succ v0))) as [E|E].
      + left. apply (same_id_same_vertex pool1); [exact Hids1|exact Hc|now apply Hsucc_in|exact E].
      + right. apply (half_spacing_nearest v0 (succ v0) c d2); [now apply Hmove|].
        apply Hspacing; [now apply Hsucc_in|exact Hc|]. intros Heq. apply E. now rewrite Heq.
    - eapply Qlt_le_trans; [now apply Hmove|exact Hreach].
  Qed.
End SmallMotions.
