(* OrientationProofs.v -- every tessellation cell is stored in the same rotational sense (C19).
   tessellation.py:56-91 computes the area sign on the DOUBLED vertex list of the closed region (c0,c1,c1,c2,...,c_{k-1},c0) and
   create_lattice reverses the cycle when that sign is positive: the stored cycle never has positive signed area. *)
From Coq Require Import Reals Lra Lia List ZArith Bool.
From Forsys Require Import Model.Num Model.Geometry Proofs.GeometryProofs.
Import ListNotations.
Open Scope R_scope.

(* the vertex list collected by the loop over consecutive corners: (a, p) for every step *)
Fixpoint doubled (a : RP) (l : list RP) : list RP :=
  match l with [] => [] | p :: t => a :: p :: doubled p t end.

Lemma last_doubled l : forall a d, l <> [] -> last (doubled a l) d = last l d.
Proof.
  induction l as [|p t IH]; intros a d Hne; [congruence|].
  destruct t as [|q t']; [reflexivity|].
  change (doubled a (p :: q :: t')) with (a :: p :: doubled p (q :: t')).
  rewrite (last_cons_default a), (last_cons_default p), (last_cons_default p (q :: t') d).
  apply IH. discriminate.
Qed.
Lemma psum_doubled f l : (forall p : RP, f p p = 0) -> forall (x a : RP), l <> [] -> psum f x (doubled a l) = f x a + psum f a l.
Proof.
  intros Hd. induction l as [|p t IH]; intros x a Hne; [congruence|].
  destruct t as [|q t'].
  - cbn [doubled]. rewrite !psum_cons, !psum_nil. ring.
  - change (doubled a (p :: q :: t')) with (a :: p :: doubled p (q :: t')).
    rewrite !psum_cons. rewrite (IH p p) by discriminate. rewrite Hd, psum_cons. ring.
Qed.
(* the signed area of the doubled list of a closed region is the signed area of the region *)
Theorem area_doubled (c0 : RP) (t : list RP) : area2 ROps (doubled c0 (t ++ [c0])) = area2 ROps (c0 :: t).
Proof.
  unfold area2.
  assert (Hne : t ++ [c0] <> []) by (destruct t; discriminate).
  unfold cyc_sum at 1. destruct (doubled c0 (t ++ [c0])) as [|d0 D] eqn:E.
  - destruct t; discriminate.
  - rewrite <- E. rewrite last_doubled by exact Hne. rewrite last_last.
    rewrite psum_doubled; [|intros p; rewrite area_term_R; ring|exact Hne].
    rewrite area_term_R, csum_closed. ring.
Qed.
(* what is stored: the region's cycle, reversed when the sign computed on the doubled list is positive *)
Definition stored_cycle (c0 : RP) (t : list RP) : list RP :=
  if Rlt_dec 0 (area2 ROps (doubled c0 (t ++ [c0]))) then rev (c0 :: t) else c0 :: t.
Theorem stored_cycles_share_one_sense c0 t : area2 ROps (stored_cycle c0 t) <= 0.
Proof.
  unfold stored_cycle. rewrite area_doubled. destruct (Rlt_dec 0 (area2 ROps (c0 :: t))) as [H|H].
  - rewrite area_reverse. lra.
  - lra.
Qed.
Theorem stored_cycle_area c0 t : area2 ROps (stored_cycle c0 t) = - Rabs (area2 ROps (c0 :: t)).
Proof.
  unfold stored_cycle. rewrite area_doubled. destruct (Rlt_dec 0 (area2 ROps (c0 :: t))) as [H|H].
  - rewrite area_reverse, Rabs_pos_eq by lra. reflexivity.
  - rewrite Rabs_left1 by lra. ring.
Qed.
