From Coq Require Import ZArith List Bool Lia.
From Forsys Require Import Model.Heap.
Import ListNotations.
Open Scope Z_scope.

Definition Inv (s : hstate) : Prop :=
  NoDup (map fst (items s)) /\
  (forall v id, In id (own s v) <-> exists vs, In (id, vs) (items s) /\ In v vs).

Lemma memb_spec x l : memb x l = true <-> In x l.
Proof. unfold memb. rewrite existsb_exists. split; [intros [y [H E]]; apply Z.eqb_eq in E; subst; exact H|intros H; exists x; split; [exact H|apply Z.eqb_refl]]. Qed.
Lemma upd_same f k v : upd f k v k = v. Proof. unfold upd. rewrite Z.eqb_refl. reflexivity. Qed.
Lemma upd_other f k v i : i <> k -> upd f k v i = f i. Proof. intros H. unfold upd. destruct (Z.eqb_spec i k); [contradiction|reflexivity]. Qed.

Lemma register_In f id v w x : In x (register f id v w) <-> In x (f w) \/ (x = id /\ w = v).
Proof. unfold register. destruct (memb id (f v)) eqn:M.
  - apply memb_spec in M. split; [auto|]. intros [H|[-> ->]]; assumption.
  - destruct (Z.eq_dec w v) as [->|Hne].
    + rewrite upd_same, in_app_iff. simpl. split; [intros [H|[<-|[]]]; auto|intros [H|[-> _]]; auto].
    + rewrite upd_other by exact Hne. split; [auto|]. intros [H|[_ E]]; [exact H|contradiction]. Qed.
Lemma register_fold_In id vs : forall f w x, In x (fold_left (fun g v => register g id v) vs f w) <-> In x (f w) \/ (x = id /\ In w vs).
Proof. induction vs as [|v t IH]; intros f w x; simpl; [tauto|]. rewrite IH, register_In. intuition (subst; auto). Qed.
Lemma unregister_In f id v w x : In x (unregister f id v w) <-> In x (f w) /\ ~ (x = id /\ w = v).
Proof. unfold unregister. destruct (Z.eq_dec w v) as [->|Hne].
  - rewrite upd_same. split.
    + intros H. apply in_remove in H. destruct H as [H1 H2]. split; [exact H1|]. intros [E _]. contradiction.
    + intros [H1 H2]. apply in_in_remove; [|exact H1]. intros E. apply H2. auto.
  - rewrite upd_other by exact Hne. split; [intros H; split; [exact H|intros [_ E]; contradiction]|tauto]. Qed.
Lemma unregister_fold_In id vs : forall f w x, In x (fold_left (fun g v => unregister g id v) vs f w) <-> In x (f w) /\ ~ (x = id /\ In w vs).
Proof. induction vs as [|v t IH]; intros f w x; simpl; [tauto|]. rewrite IH, unregister_In. intuition (subst; auto). Qed.

Lemma has_item_spec s k : has_item s k = true <-> In k (map fst (items s)).
Proof. unfold has_item. rewrite existsb_exists, in_map_iff. split.
  - intros [kv [H E]]. apply Z.eqb_eq in E. exists kv. auto.
  - intros [kv [E H]]. exists kv. split; [exact H|apply Z.eqb_eq; exact E]. Qed.
Lemma get_item_spec s k vs : NoDup (map fst (items s)) -> (get_item s k = Some vs <-> In (k, vs) (items s)).
Proof. unfold get_item. generalize (items s). intros l Hnd. induction l as [|[k' vs'] t IH]; simpl in *; [split; [discriminate|tauto]|].
  inversion Hnd; subst. destruct (Z.eqb_spec k' k) as [->|Hne]; simpl.
  - split; [intros H; inversion H; left; reflexivity|]. intros [H|H]; [inversion H; reflexivity|].
    exfalso. apply H1. apply in_map_iff. exists (k, vs). auto.
  - rewrite IH by assumption. split; [auto|]. intros [H|H]; [inversion H; contradiction|exact H]. Qed.

Lemma step_inv s o : Inv s -> Inv (hstep s o).
Proof. intros [Hnd Hown]. destruct o as [id vs|id|id vold vnew]; simpl.
  - (* Create *) destruct (has_item s id) eqn:Hh; [split; assumption|].
    assert (Hfresh : ~ In id (map fst (items s))) by (intros H; apply has_item_spec in H; congruence).
    split; simpl.
    + rewrite map_app. simpl. apply NoDup_rev in Hnd. rewrite <- (rev_involutive (map fst (items s) ++ [id])). apply NoDup_rev.
      rewrite rev_app_distr. simpl. constructor; [rewrite <- in_rev; exact Hfresh|exact Hnd].
    + intros v x. rewrite register_fold_In, Hown. split.
      * intros [[vs' [H1 H2]]|[-> H]]; [exists vs'; split; [apply in_or_app; left; exact H1|exact H2]|exists vs; split; [apply in_or_app; right; left; reflexivity|exact H]].
      * intros [vs' [H1 H2]]. apply in_app_or in H1. destruct H1 as [H1|[H1|[]]]; [left; exists vs'; auto|inversion H1; subst; right; auto].
  - (* Delete *) destruct (get_item s id) as [vs|] eqn:G; [|split; assumption].
    apply get_item_spec in G; [|exact Hnd]. split; simpl.
    + clear - Hnd. induction (items s) as [|[k v] t IH]; simpl in *; [constructor|]. inversion Hnd; subst.
      destruct (Z.eqb k id); simpl; [apply IH; assumption|]. constructor; [|apply IH; assumption].
      intros H. apply H1. apply in_map_iff in H. destruct H as [kv [E Hin]]. apply filter_In in Hin. apply in_map_iff. exists kv. tauto.
    + intros v x. rewrite unregister_fold_In, Hown. split.
      * intros [[vs' [H1 H2]] Hn]. exists vs'. split; [|exact H2]. apply filter_In. split; [exact H1|]. simpl.
        destruct (Z.eqb_spec x id) as [->|]; [|reflexivity]. exfalso. apply Hn. split; [reflexivity|].
        assert (vs' = vs); [|subst; exact H2].
        clear - Hnd H1 G. induction (items s) as [|[k w] t IH]; simpl in *; [tauto|]. inversion Hnd; subst.
        destruct H1 as [H1|H1]; destruct G as [G|G]; try (inversion H1; inversion G; subst; reflexivity); try (apply IH; assumption).
        -- inversion H1; subst. exfalso. apply H2. apply in_map_iff. exists (id, vs). auto.
        -- inversion G; subst. exfalso. apply H2. apply in_map_iff. exists (id, vs'). auto.
      * intros [vs' [H1 H2]]. apply filter_In in H1. destruct H1 as [H1 Hne]. simpl in Hne. split; [exists vs'; auto|].
        intros [-> _]. rewrite Z.eqb_refl in Hne. discriminate.
  - (* Replace *) destruct (get_item s id) as [vs|] eqn:G; [|split; assumption].
    destruct (memb vold vs && negb (memb vnew vs)) eqn:P; [|split; assumption].
    apply andb_true_iff in P. destruct P as [P1 P2]. apply memb_spec in P1. apply negb_true_iff in P2.
    assert (Hnew : ~ In vnew vs) by (intros H; apply memb_spec in H; congruence).
    apply get_item_spec in G; [|exact Hnd]. split; simpl.
    + rewrite map_map. erewrite map_ext; [exact Hnd|]. intros [k w]. simpl. destruct (Z.eqb_spec k id); subst; reflexivity.
    + intros v x. rewrite register_In, unregister_In, Hown.
      set (sub := fun v0 => if Z.eqb v0 vold then vnew else v0).
      assert (Huniq : forall vs', In (id, vs') (items s) -> vs' = vs).
      { clear - Hnd G. intros vs' H1. induction (items s) as [|[k w] t IH]; simpl in *; [tauto|]. inversion Hnd; subst.
        destruct H1 as [H1|H1]; destruct G as [G|G]; try (inversion H1; inversion G; subst; reflexivity); try (apply IH; assumption).
        - inversion H1; subst. exfalso. apply H2. apply in_map_iff. exists (id, vs). auto.
        - inversion G; subst. exfalso. apply H2. apply in_map_iff. exists (id, vs'). auto. }
      split.
      * intros [[[vs' [H1 H2]] Hn]|[-> ->]].
        -- destruct (Z.eq_dec x id) as [->|Hx].
           ++ pose proof (Huniq vs' H1); subst vs'. exists (map sub vs). split.
              ** apply in_map_iff. exists (id, vs). split; [simpl; rewrite Z.eqb_refl; reflexivity|exact H1].
              ** apply in_map_iff. exists v. split; [|exact H2]. unfold sub. destruct (Z.eqb_spec v vold) as [->|]; [exfalso; apply Hn; auto|reflexivity].
           ++ exists vs'. split; [|exact H2]. apply in_map_iff. exists (x, vs'). split; [simpl; destruct (Z.eqb_spec x id); [contradiction|reflexivity]|exact H1].
        -- exists (map sub vs). split.
           ++ apply in_map_iff. exists (id, vs). split; [simpl; rewrite Z.eqb_refl; reflexivity|exact G].
           ++ apply in_map_iff. exists vold. split; [unfold sub; rewrite Z.eqb_refl; reflexivity|exact P1].
      * intros [vs' [H1 H2]]. apply in_map_iff in H1. destruct H1 as [[k w] [E Hin]]. simpl in E.
        destruct (Z.eqb_spec k id) as [->|Hk].
        -- inversion E; subst. pose proof (Huniq w Hin); subst w. apply in_map_iff in H2. destruct H2 as [u [Eu Hu]]. unfold sub in Eu.
           destruct (Z.eqb_spec u vold) as [Huv|Hne].
           ++ right. split; [reflexivity|]. symmetry. exact Eu.
           ++ left. rewrite <- Eu. split; [exists vs; auto|]. intros [_ Ev]. contradiction.
        -- inversion E; subst. left. split; [exists vs'; auto|]. intros [Ex _]. contradiction. Qed.

(* every reachable state of the registration discipline satisfies clause (1) [resp. (2)]:
   a vertex lists a mesh edge [cell] exactly when that edge [cell] exists and ends at [contains] it *)
Theorem histories_consistent (ops : list hop) : Inv (hrun ops).
Proof. unfold hrun. assert (H : forall s, Inv s -> Inv (fold_left hstep ops s)).
  { induction ops as [|o t IH]; intros s Hs; simpl; [exact Hs|]. apply IH. apply step_inv. exact Hs. }
  apply H. split; simpl; [constructor|]. intros v id. split; [intros []|intros [vs [[] _]]]. Qed.
