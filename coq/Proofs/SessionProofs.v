From Coq Require Import List Bool Arith Lia.
From Forsys Require Import Model.Session.
Import ListNotations.

Lemma upd_same {A} (f : nat -> A) k v : upd f k v k = v.
Proof. unfold upd. rewrite Nat.eqb_refl. reflexivity. Qed.
Lemma upd_other {A} (f : nat -> A) k v i : i <> k -> upd f k v i = f i.
Proof. intros H. unfold upd. destruct (Nat.eqb_spec i k); [contradiction|reflexivity]. Qed.

(* ---- one step ---- *)
Lemma step_forces_other n s o t : solves t o = None -> forces (step n s o) t = forces s t.
Proof. destruct o as [t' a|t' b|t'|t' c|a]; simpl; intros H; try reflexivity.
  - destruct (Nat.eqb_spec t' t); [discriminate|]. destruct (fm s t'); simpl; [apply upd_other; congruence|reflexivity].
  - destruct (pm s t'); reflexivity. Qed.
Lemma step_fm_other n s o t : builds n t o = None -> fm (step n s o) t = fm s t.
Proof. destruct o as [t' a|t' b|t'|t' c|a]; simpl; intros H; try reflexivity.
  - destruct (Nat.eqb_spec t' t); [discriminate|]. apply upd_other. congruence.
  - destruct (fm s t'); reflexivity.
  - destruct (pm s t'); reflexivity.
  - destruct (Nat.ltb t n); [discriminate|reflexivity]. Qed.
Lemma step_fm_build n s o t a : builds n t o = Some a -> fm (step n s o) t = Some a.
Proof. destruct o as [t' a'|t' b|t'|t' c|a']; simpl; intros H; try discriminate.
  - destruct (Nat.eqb_spec t' t); [|discriminate]. subst. inversion H. apply upd_same.
  - destruct (Nat.ltb t n); [exact H|discriminate]. Qed.
Lemma step_forces_solve n s o t a b : solves t o = Some b -> fm s t = Some a -> forces (step n s o) t = Some (t, a, b) /\ tens (step n s o) t = Some (t, a, b).
Proof. destruct o as [t' a'|t' b'|t'|t' c|a']; simpl; intros H Hf; try discriminate.
  destruct (Nat.eqb_spec t' t); [|discriminate]. subst. inversion H; subst. rewrite Hf. simpl. rewrite !upd_same. split; reflexivity. Qed.

(* ---- folds ---- *)
Lemma fold_forces_other n h : forall s t, Forall (fun o => solves t o = None) h -> forces (fold_left (step n) h s) t = forces s t.
Proof. induction h as [|o h IH]; intros s t H; simpl; [reflexivity|]. inversion H; subst. rewrite IH by assumption. apply step_forces_other. assumption. Qed.
Lemma fold_fm_other n h : forall s t, Forall (fun o => builds n t o = None) h -> fm (fold_left (step n) h s) t = fm s t.
Proof. induction h as [|o h IH]; intros s t H; simpl; [reflexivity|]. inversion H; subst. rewrite IH by assumption. apply step_fm_other. assumption. Qed.

(* what frame t reports after any history is decided by the last (re)build of its matrix that precedes its last solve, and by
   that solve's arguments -- nothing else in the history (other frames, earlier solves with other options, pressure steps) matters *)
Theorem history_independence n t a b h0 B h1 S h2 :
  builds n t B = Some a -> Forall (fun o => builds n t o = None) h1 ->
  solves t S = Some b -> Forall (fun o => solves t o = None) h2 ->
  forces (run n (h0 ++ [B] ++ h1 ++ [S] ++ h2)) t = Some (t, a, b) /\
  forces (run n (h0 ++ [B] ++ h1 ++ [S] ++ h2)) t = forces (run n [B; S]) t.
Proof. intros HB H1 HS H2. unfold run.
  assert (E : forces (fold_left (step n) (h0 ++ [B] ++ h1 ++ [S] ++ h2) init) t = Some (t, a, b)).
  { rewrite !fold_left_app. rewrite fold_forces_other by assumption. simpl fold_left at 1.
    apply step_forces_solve; [exact HS|]. rewrite fold_fm_other by assumption. simpl. apply step_fm_build. exact HB. }
  split; [exact E|]. rewrite E. simpl. symmetry. apply step_forces_solve; [exact HS|]. apply step_fm_build. exact HB. Qed.

(* stores are keyed by frame: an operation on another frame never changes frame t's stores *)
Definition frame_of (o : op) : option nat :=
  match o with BuildF t _ | SolveS t _ | BuildP t | SolveP t _ => Some t | SysVel _ => None end.
Theorem stores_keyed n s o t t' : frame_of o = Some t' -> t' <> t ->
  forces (step n s o) t = forces s t /\ tens (step n s o) t = tens s t /\ pres (step n s o) t = pres s t /\ pm (step n s o) t = pm s t /\ fm (step n s o) t = fm s t.
Proof. destruct o as [u a|u b|u|u c|a]; simpl; intros H Hne; inversion H; subst.
  - repeat split; try reflexivity. apply upd_other. congruence.
  - destruct (fm s t'); simpl; repeat split; try reflexivity; apply upd_other; congruence.
  - repeat split; try reflexivity. apply upd_other. congruence.
  - destruct (pm s t'); simpl; repeat split; try reflexivity. apply upd_other. congruence. Qed.

(* the pressures reported for frame t are those of the interface tensions present when its pressure matrix was last built *)
Theorem pressure_token n s t c tk : pm s t = Some tk -> pres (step n s (SolveP t c)) t = Some (t, tk, c).
Proof. intros H. simpl. rewrite H. simpl. apply upd_same. Qed.
Theorem pressure_matrix_token n s t : pm (step n s (BuildP t)) t = Some (tens s t).
Proof. simpl. apply upd_same. Qed.
