From Coq Require Import ZArith QArith List Bool Lia Reals Lra Psatz.
From Forsys Require Import Model.Num Model.PyList Model.Interfaces Model.ForceSys Proofs.InterfacesProofs.
Import ListNotations.
Open Scope Z_scope.

(* ================================================================== which interfaces are used *)
Lemma remove_first_list_app e l1 l2 : ~ In e l1 -> remove_first_list e (l1 ++ e :: l2) = l1 ++ l2.
Proof. induction l1 as [|x t IH]; intros Hn; simpl.
  - replace (listZ_eq e e) with true by (symmetry; apply listZ_eq_spec; reflexivity). reflexivity.
  - destruct (listZ_eq x e) eqn:E; [apply listZ_eq_spec in E; subst; exfalso; apply Hn; left; reflexivity|].
    f_equal. apply IH. intros H. apply Hn. right. exact H. Qed.

Lemma angle_fold_inv deletes p s : NoDup (p ++ s) ->
  fold_left (fun acc e => if both_ends_in deletes e then remove_first_list e acc else acc) s
            (filter (fun e => negb (both_ends_in deletes e)) p ++ s)
  = filter (fun e => negb (both_ends_in deletes e)) (p ++ s).
Proof. revert p; induction s as [|e s IH]; intros p Hnd; simpl.
  - rewrite !app_nil_r. reflexivity.
  - assert (Hnd' : NoDup ((p ++ [e]) ++ s)) by (rewrite <- app_assoc; exact Hnd).
    specialize (IH (p ++ [e]) Hnd'). rewrite filter_app in IH. simpl in IH.
    replace (p ++ e :: s) with ((p ++ [e]) ++ s) by (rewrite <- app_assoc; reflexivity). rewrite <- IH.
    destruct (both_ends_in deletes e) eqn:B; simpl.
    + rewrite app_nil_r. rewrite remove_first_list_app; [reflexivity|].
      intros Hin. apply filter_In in Hin. destruct Hin as [Hin _].
      apply NoDup_remove_2 in Hnd. apply Hnd. apply in_or_app. left. exact Hin.
    + rewrite <- app_assoc. reflexivity. Qed.

(* the unknowns are the internal interfaces minus those flagged at both ends, order kept *)
Theorem used_is_filter deletes internal : NoDup internal ->
  angle_limited_edges deletes internal = filter (fun e => negb (both_ends_in deletes e)) internal.
Proof. intros H. unfold angle_limited_edges. apply (angle_fold_inv deletes [] internal). exact H. Qed.

Theorem nothing_flagged_nothing_excluded internal : angle_limited_edges [] internal = internal.
Proof. unfold angle_limited_edges. assert (H : forall acc, fold_left (fun acc e => if both_ends_in [] e then remove_first_list e acc else acc) internal acc = acc).
  { induction internal as [|e t IH]; intros acc; simpl; [reflexivity|]. apply IH. }
  apply H. Qed.

(* ================================================================== re-insertion of -1 *)
Theorem reinsert_spec deletes internal x :
  length x = length (filter (fun e => negb (both_ends_in deletes e)) internal) ->
  length (reinsert deletes internal x) = length internal /\
  (forall i e, nth_error internal i = Some e -> both_ends_in deletes e = true -> nth_error (reinsert deletes internal x) i = Some (-1)%Q) /\
  map snd (filter (fun p => negb (both_ends_in deletes (fst p))) (combine internal (reinsert deletes internal x))) = x.
Proof. revert x; induction internal as [|e t IH]; intros x Hl; simpl in *.
  - destruct x; [|discriminate]. repeat split; try reflexivity. intros i e Hi. destruct i; discriminate.
  - destruct (both_ends_in deletes e) eqn:B; simpl in *.
    + destruct (IH x Hl) as [H1 [H2 H3]]. split; [simpl; rewrite H1; reflexivity|]. split.
      * intros i e' Hi Hb. destruct i as [|i]; [reflexivity|]. simpl in *. apply (H2 i e' Hi Hb).
      * simpl. rewrite B. simpl. exact H3.
    + destruct x as [|v x']; [discriminate|]. simpl in Hl. assert (Hl' : length x' = length (filter (fun e0 => negb (both_ends_in deletes e0)) t)) by lia.
      destruct (IH x' Hl') as [H1 [H2 H3]]. split; [simpl; rewrite H1; reflexivity|]. split.
      * intros i e' Hi Hb. destruct i as [|i]; simpl in *; [inversion Hi; subst; congruence|]. apply (H2 i e' Hi Hb).
      * simpl. rewrite B. simpl. rewrite H3. reflexivity. Qed.

Theorem reinsert_identity internal x : length internal = length x -> solution_no_discarded [] internal x = x.
Proof. intros H. unfold solution_no_discarded. rewrite H, Nat.eqb_refl. reflexivity. Qed.

(* ================================================================== rows *)
Lemma build_fold_spec ignore_four to_use ncells incidents tj : forall fm0,
  let step := fun fm v => let '(rx, ry) := vertex_equation to_use (ncells v) (incidents v) in
                          if keep_junction ignore_four rx ry
                          then mkFM (fm_rows fm ++ [rx; ry]) (fm_map fm ++ [(v, Z.of_nat (length (fm_rows fm)))]) else fm in
  let kept := filter (fun v => let '(rx, ry) := vertex_equation to_use (ncells v) (incidents v) in keep_junction ignore_four rx ry) tj in
  fm_rows (fold_left step tj fm0) = fm_rows fm0 ++ concat (map (fun v => let '(rx, ry) := vertex_equation to_use (ncells v) (incidents v) in [rx; ry]) kept) /\
  map fst (fm_map (fold_left step tj fm0)) = map fst (fm_map fm0) ++ kept /\
  map snd (fm_map (fold_left step tj fm0)) = map snd (fm_map fm0) ++ map (fun i => Z.of_nat (length (fm_rows fm0) + 2 * i)) (seq 0 (length kept)).
Proof. induction tj as [|v t IH]; intros fm0; simpl.
  - rewrite !app_nil_r. repeat split; reflexivity.
  - destruct (vertex_equation to_use (ncells v) (incidents v)) as [rx ry] eqn:E.
    destruct (keep_junction ignore_four rx ry) eqn:K.
    + specialize (IH (mkFM (fm_rows fm0 ++ [rx; ry]) (fm_map fm0 ++ [(v, Z.of_nat (length (fm_rows fm0)))]))).
      simpl in IH. destruct IH as [H1 [H2 H3]]. simpl. rewrite E. split; [|split].
      * rewrite H1. simpl. rewrite <- app_assoc. reflexivity.
      * rewrite H2, map_app. simpl. rewrite <- app_assoc. reflexivity.
      * rewrite H3, map_app. simpl. rewrite <- app_assoc. simpl. f_equal. f_equal; [f_equal; lia|].
        rewrite <- seq_shift, map_map. apply map_ext. intros i. rewrite app_length. simpl. f_equal. lia.
    + apply IH. Qed.

(* exactly the junctions whose equations have >= 3 (and, with ignore_four, < 4) used columns get a row pair,
   in the order in which the junctions are visited, at rows 0,2,4,... ; no other rows exist *)
Theorem rows_spec ignore_four to_use tj ncells incidents :
  let fm := build_matrix ignore_four to_use tj ncells incidents in
  let kept := filter (fun v => let '(rx, ry) := vertex_equation to_use (ncells v) (incidents v) in keep_junction ignore_four rx ry) tj in
  map fst (fm_map fm) = kept /\
  map snd (fm_map fm) = map (fun i => Z.of_nat (2 * i)) (seq 0 (length kept)) /\
  fm_rows fm = concat (map (fun v => let '(rx, ry) := vertex_equation to_use (ncells v) (incidents v) in [rx; ry]) kept).
Proof. intros fm kept. unfold fm, build_matrix.
  destruct (build_fold_spec ignore_four to_use ncells incidents tj (mkFM [] [])) as [H1 [H2 H3]]. simpl in *.
  repeat split; assumption. Qed.

(* ================================================================== placement inside one junction's equations *)
Definition eligible (ncells_v : Z) (inc : incident) : bool := negb (inc_external inc) && (2 <? ncells_v).
Definition writes (to_use : list (list Z)) (ncells_v : Z) (incs : list incident) : list (nat * (Q * Q)) :=
  flat_map (fun inc => if eligible ncells_v inc
                       then match eid_from_vertex to_use (inc_ids inc) with Some pos => [(pos, (inc_vx inc, inc_vy inc))] | None => [] end
                       else []) incs.
Definition apply_write (acc : list Q * list Q) (w : nat * (Q * Q)) : list Q * list Q :=
  (set_nth (fst acc) (fst w) (fst (snd w)), set_nth (snd acc) (fst w) (snd (snd w))).

Lemma vertex_equation_writes to_use ncells_v incs :
  vertex_equation to_use ncells_v incs = fold_left apply_write (writes to_use ncells_v incs) (zeros (length to_use), zeros (length to_use)).
Proof. unfold vertex_equation, writes. generalize (zeros (length to_use), zeros (length to_use)).
  induction incs as [|inc t IH]; intros acc; simpl; [reflexivity|].
  unfold eligible at 1. destruct (negb (inc_external inc) && (2 <? ncells_v)).
  - destruct (eid_from_vertex to_use (inc_ids inc)) as [pos|]; simpl; apply IH.
  - simpl. apply IH. Qed.

Lemma set_nth_length l n v : length (set_nth l n v) = length l.
Proof. revert n; induction l as [|x t IH]; intros [|n]; simpl; auto. Qed.
Lemma set_nth_same l n v d : (n < length l)%nat -> nth n (set_nth l n v) d = v.
Proof. revert n; induction l as [|x t IH]; intros [|n] H; simpl in *; try lia; [reflexivity|]. apply IH. lia. Qed.
Lemma set_nth_other l n m v d : n <> m -> nth m (set_nth l n v) d = nth m l d.
Proof. revert n m; induction l as [|x t IH]; intros [|n] [|m] H; simpl; try reflexivity; try congruence. apply IH. congruence. Qed.

Lemma apply_writes_other ws : forall acc k, ~ In k (map fst ws) ->
  nth k (fst (fold_left apply_write ws acc)) 0%Q = nth k (fst acc) 0%Q /\ nth k (snd (fold_left apply_write ws acc)) 0%Q = nth k (snd acc) 0%Q.
Proof. induction ws as [|w t IH]; intros acc k Hn; simpl; [split; reflexivity|].
  destruct (IH (apply_write acc w) k) as [H1 H2]; [intros H; apply Hn; right; exact H|].
  rewrite H1, H2. unfold apply_write. simpl. rewrite !set_nth_other; [split; reflexivity| |]; intros E; apply Hn; left; exact E. Qed.

Lemma apply_writes_length ws : forall acc, length (fst (fold_left apply_write ws acc)) = length (fst acc) /\ length (snd (fold_left apply_write ws acc)) = length (snd acc).
Proof. induction ws as [|w t IH]; intros acc; simpl; [split; reflexivity|]. destruct (IH (apply_write acc w)) as [H1 H2].
  rewrite H1, H2. unfold apply_write. simpl. rewrite !set_nth_length. split; reflexivity. Qed.

(* if no two eligible interfaces at the junction resolve to the same column (H_col), every resolved column holds the versor
   of its interface and every other column holds 0 *)
Theorem entry_is_versor to_use ncells_v incs : NoDup (map fst (writes to_use ncells_v incs)) ->
  let eq := vertex_equation to_use ncells_v incs in
  (forall pos vx vy, In (pos, (vx, vy)) (writes to_use ncells_v incs) -> (pos < length to_use)%nat ->
     nth pos (fst eq) 0%Q = vx /\ nth pos (snd eq) 0%Q = vy) /\
  (forall k, ~ In k (map fst (writes to_use ncells_v incs)) -> nth k (fst eq) 0%Q = 0%Q /\ nth k (snd eq) 0%Q = 0%Q) /\
  length (fst eq) = length to_use /\ length (snd eq) = length to_use.
Proof. intros Hnd eq. unfold eq. rewrite vertex_equation_writes.
  set (ws := writes to_use ncells_v incs) in *. set (n := length to_use).
  assert (Hz : forall k, nth k (zeros n) 0%Q = 0%Q).
  { intros k. unfold zeros. destruct (Nat.lt_ge_cases k n) as [H|H]; [apply nth_repeat|apply nth_overflow; rewrite repeat_length; exact H]. }
  split; [|split].
  - assert (G : forall ws acc, NoDup (map fst ws) -> length (fst acc) = n -> length (snd acc) = n ->
                forall pos vx vy, In (pos, (vx, vy)) ws -> (pos < n)%nat ->
                nth pos (fst (fold_left apply_write ws acc)) 0%Q = vx /\ nth pos (snd (fold_left apply_write ws acc)) 0%Q = vy).
    { clear. induction ws as [|w t IH]; intros acc Hnd L1 L2 pos vx vy Hin Hpos; simpl in *; [tauto|].
      inversion Hnd as [|? ? Hw Hnd']; subst. destruct Hin as [->|Hin].
      - destruct (apply_writes_other t (apply_write acc (pos, (vx, vy))) pos Hw) as [H1 H2]. rewrite H1, H2.
        unfold apply_write. simpl. rewrite !set_nth_same by lia. split; reflexivity.
      - apply IH; auto; unfold apply_write; simpl; rewrite set_nth_length; assumption. }
    intros pos vx vy Hin Hpos. apply G; auto; unfold zeros; apply repeat_length.
  - intros k Hk. destruct (apply_writes_other ws (zeros n, zeros n) k Hk) as [H1 H2]. simpl in *. rewrite H1, H2, Hz. split; reflexivity.
  - destruct (apply_writes_length ws (zeros n, zeros n)) as [H1 H2]. simpl in *. rewrite H1, H2. unfold zeros. rewrite repeat_length. split; reflexivity. Qed.

(* ================================================================== tangent orientation over the reals *)
Open Scope R_scope.
Lemma Rltb_true a b : Rltb a b = true <-> a < b.
Proof. unfold Rltb. destruct (Rlt_dec a b); split; intros; try lra; try discriminate; reflexivity. Qed.
Lemma Rltb_false a b : Rltb a b = false <-> b <= a.
Proof. unfold Rltb. destruct (Rlt_dec a b); split; intros; try lra; try discriminate; reflexivity. Qed.

Lemma nsign_R x : nsign ROps x = (if Rlt_dec 0 x then 1 else if Rlt_dec x 0 then -1 else 0).
Proof. unfold nsign. simpl. unfold Rltb. destruct (Rlt_dec 0 x); [reflexivity|]. destruct (Rlt_dec x 0); reflexivity. Qed.

Lemma force_component_R w d : force_component ROps w d = (if Rlt_dec d 0 then - Rabs w else Rabs w).
Proof. unfold force_component, correct_sign. rewrite nsign_R. simpl. unfold Reqb, nabs. simpl. unfold Rltb.
  destruct (Rlt_dec 0 d); destruct (Rlt_dec d 0); try lra;
  repeat match goal with |- context [Req_EM_T ?a ?b] => destruct (Req_EM_T a b); try lra end;
  destruct (Rlt_dec w 0); unfold Rabs; destruct (Rcase_abs w); try lra. Qed.

(* the orientation the property states: perpendicular to the radius, on the side of the first segment *)
Theorem oriented_tangent_points_along ux uy dx dy :
  ux * ux + uy * uy = (ux + dx) * (ux + dx) + (uy + dy) * (uy + dy) ->       (* P and Q = P + d lie on one circle about c *)
  ~ (dx = 0 /\ dy = 0) -> ~ (dx = -2 * ux /\ dy = -2 * uy) ->               (* Q <> P, Q not antipodal *)
  let t := oriented_tangent ROps ux uy dx dy in
  fst t * ux + snd t * uy = 0 /\ 0 < fst t * dx + snd t * dy /\ fst t * fst t + snd t * snd t = ux * ux + uy * uy.
Proof. intros Hc Hd Ha t. unfold t, oriented_tangent. simpl.
  assert (Hnz : (- uy) * dx + ux * dy <> 0).
  { intros E. apply Ha.
    assert (H2 : 2 * (ux * dx + uy * dy) = - (dx * dx + dy * dy)) by nra.
    assert (Hu : ux * ux + uy * uy <> 0 \/ (ux = 0 /\ uy = 0)) by (destruct (Req_dec ux 0); destruct (Req_dec uy 0); [right; tauto|left; nra|left; nra|left; nra]).
    destruct Hu as [Hu|[-> ->]]; [|exfalso; apply Hd; split; nra].
    assert (Hx : (ux * ux + uy * uy) * dx = ux * (ux * dx + uy * dy) - uy * ((- uy) * dx + ux * dy)) by ring.
    assert (Hy : (ux * ux + uy * uy) * dy = uy * (ux * dx + uy * dy) + ux * ((- uy) * dx + ux * dy)) by ring.
    rewrite E in Hx, Hy.
    assert (Hl : (ux * dx + uy * dy) * (ux * dx + uy * dy) = (ux * ux + uy * uy) * (dx * dx + dy * dy)) by nra.
    assert (Hs : ux * dx + uy * dy = - 2 * (ux * ux + uy * uy)).
    { assert (dx * dx + dy * dy <> 0) by (intros Z; apply Hd; split; nra). nra. }
    split; apply Rmult_eq_reg_l with (ux * ux + uy * uy); try assumption; nra. }
  unfold Rltb. destruct (Rlt_dec (- uy * dx + ux * dy) 0); simpl; repeat split; try ring; lra. Qed.

(* the current rule agrees with it exactly when the forced signs happen to be the right ones (H_quad) *)
Theorem force_rule_correct_under_hquad npts ux uy dx dy : npts <> 2%nat ->
  let t := oriented_tangent ROps ux uy dx dy in
  (fst t <> 0 -> (dx <> 0 /\ (0 < fst t <-> 0 < dx)) \/ (dx = 0 /\ 0 < fst t)) ->
  (snd t <> 0 -> (dy <> 0 /\ (0 < snd t <-> 0 < dy)) \/ (dy = 0 /\ 0 < snd t)) ->
  vector_from_vertex ROps npts ux uy dx dy = t.
Proof. intros Hn t H1 H2. unfold vector_from_vertex. replace (Nat.eqb npts 2) with false by (symmetry; apply Nat.eqb_neq; exact Hn).
  rewrite !force_component_R. unfold t, oriented_tangent in *. simpl in *. unfold Rltb in *.
  destruct (Rlt_dec (- uy * dx + ux * dy) 0); simpl in *; f_equal;
  repeat match goal with |- context [Rlt_dec ?a ?b] => destruct (Rlt_dec a b) end;
  unfold Rabs; repeat match goal with |- context [Rcase_abs ?a] => destruct (Rcase_abs a) end; try lra;
  try (destruct (Req_dec uy 0); [lra|]); try (destruct (Req_dec ux 0); [lra|]);
  try (assert (T1 : - uy <> 0) by lra; specialize (H1 T1)); try (assert (T1' : - - uy <> 0) by lra; specialize (H1 T1'));
  try (specialize (H2 ltac:(lra))); try lra; intuition lra. Qed.

(* ================================================================== the mean-one row *)
Local Open Scope Q_scope.
Lemma qdot_cons a x b y : qdot (a :: x) (b :: y) = a * b + qdot x y. Proof. reflexivity. Qed.
Theorem mean_row_is_sum (x : list Q) (lam : Q) :
  qdot (repeat 1 (length x) ++ [0]) (x ++ [lam]) == fold_right Qplus 0 x.
Proof. induction x as [|v t IH]; simpl length; simpl repeat; simpl app.
  - unfold qdot. simpl. ring.
  - rewrite qdot_cons. simpl fold_right. rewrite IH. ring. Qed.

(* shape of the augmented system: every equation row gets the multiplier column 1, the last row is (1,...,1,0 | n) *)
Theorem add_mean_one_shape (m : list (list Q)) (b : list Q) (n : nat) :
  fst (add_mean_one m b n) = map (fun r => r ++ [1]) m ++ [repeat 1 n ++ [0]] /\
  snd (add_mean_one m b n) = b ++ [inject_Z (Z.of_nat n)].
Proof. split; reflexivity. Qed.
Local Close Scope Q_scope.

(* ================================================================== right-hand side placement (velocity mode) *)
Definition rhs_writes (fmap : list (Z * Z)) (vel : Z -> Q * Q) : list (nat * Q) :=
  flat_map (fun kv => [(Z.to_nat (snd kv), fst (vel (fst kv))); (S (Z.to_nat (snd kv)), snd (vel (fst kv)))]) fmap.
Lemma set_velocity_rhs_writes nrows fmap vel :
  set_velocity_rhs nrows fmap vel = fold_left (fun b w => set_nth b (fst w) (snd w)) (rhs_writes fmap vel) (zeros nrows).
Proof. unfold set_velocity_rhs, rhs_writes. generalize (zeros nrows). induction fmap as [|kv t IH]; intros b; simpl; [reflexivity|]. apply IH. Qed.

Lemma fold_set_nth_other ws : forall b k, ~ In k (map fst ws) ->
  nth k (fold_left (fun b (w : nat * Q) => set_nth b (fst w) (snd w)) ws b) 0%Q = nth k b 0%Q.
Proof. induction ws as [|w t IH]; intros b k Hn; simpl; [reflexivity|]. rewrite IH by (intros H; apply Hn; right; exact H).
  apply set_nth_other. intros E. apply Hn. left. exact E. Qed.
Lemma fold_set_nth_length ws : forall b, length (fold_left (fun b (w : nat * Q) => set_nth b (fst w) (snd w)) ws b) = length b.
Proof. induction ws as [|w t IH]; intros b; simpl; [reflexivity|]. rewrite IH. apply set_nth_length. Qed.
Lemma fold_set_nth_same ws : forall b i x, NoDup (map fst ws) -> In (i, x) ws -> (i < length b)%nat ->
  nth i (fold_left (fun b (w : nat * Q) => set_nth b (fst w) (snd w)) ws b) 0%Q = x.
Proof. induction ws as [|w t IH]; intros b i x Hnd Hin Hi; simpl in *; [tauto|]. inversion Hnd; subst. destruct Hin as [->|Hin].
  - simpl. rewrite fold_set_nth_other by exact H1. apply set_nth_same. exact Hi.
  - apply IH; auto. rewrite set_nth_length. exact Hi. Qed.

(* each used junction's velocity components are the right-hand sides of its own x- and y-equation; every other entry is 0 *)
Theorem rhs_placement nrows fmap vel : NoDup (map fst (rhs_writes fmap vel)) ->
  let b := set_velocity_rhs nrows fmap vel in
  length b = nrows /\
  (forall v r, In (v, r) fmap -> (S (Z.to_nat r) < nrows)%nat ->
     nth (Z.to_nat r) b 0%Q = fst (vel v) /\ nth (S (Z.to_nat r)) b 0%Q = snd (vel v)) /\
  (forall k, ~ In k (map fst (rhs_writes fmap vel)) -> nth k b 0%Q = 0%Q).
Proof. intros Hnd b. unfold b. rewrite set_velocity_rhs_writes. split; [|split].
  - rewrite fold_set_nth_length. unfold zeros. apply repeat_length.
  - intros v r Hin Hr. split; apply fold_set_nth_same; try exact Hnd; try (unfold zeros; rewrite repeat_length; lia);
    unfold rhs_writes; apply in_flat_map; exists (v, r); (split; [exact Hin|simpl; auto]).
  - intros k Hk. rewrite fold_set_nth_other by exact Hk. unfold zeros.
    destruct (Nat.lt_ge_cases k nrows) as [H|H]; [apply nth_repeat|apply nth_overflow; rewrite repeat_length; exact H]. Qed.

(* static mode: nothing is written *)
Theorem rhs_static nrows vel : set_velocity_rhs nrows [] vel = zeros nrows.
Proof. reflexivity. Qed.

(* ================================================================== similarity transforms (C06) *)
Local Open Scope R_scope.
Definition rot (c s : R) (p : R * R) : R * R := (c * fst p - s * snd p, s * fst p + c * snd p).

(* the stated orientation rule commutes with every rotation ... *)
Theorem oriented_tangent_rotation c s ux uy dx dy : c * c + s * s = 1 ->
  oriented_tangent ROps (fst (rot c s (ux, uy))) (snd (rot c s (ux, uy))) (fst (rot c s (dx, dy))) (snd (rot c s (dx, dy)))
  = rot c s (oriented_tangent ROps ux uy dx dy).
Proof. intros H. unfold oriented_tangent, rot. simpl.
  replace (- (s * ux + c * uy) * (c * dx - s * dy) + (c * ux - s * uy) * (s * dx + c * dy)) with ((c * c + s * s) * (- uy * dx + ux * dy)) by ring.
  rewrite H, Rmult_1_l. unfold Rltb. destruct (Rlt_dec (- uy * dx + ux * dy) 0); simpl; f_equal; ring. Qed.
(* ... with every positive scaling ... *)
Theorem oriented_tangent_scale k ux uy dx dy : 0 < k ->
  oriented_tangent ROps (k * ux) (k * uy) (k * dx) (k * dy) = (k * fst (oriented_tangent ROps ux uy dx dy), k * snd (oriented_tangent ROps ux uy dx dy)).
Proof. intros Hk. unfold oriented_tangent. simpl.
  replace (- (k * uy) * (k * dx) + k * ux * (k * dy)) with (k * k * (- uy * dx + ux * dy)) by ring.
  unfold Rltb. assert (Hkk : 0 < k * k) by nra.
  destruct (Rlt_dec (- uy * dx + ux * dy) 0) as [Hn|Hn]; destruct (Rlt_dec (k * k * (- uy * dx + ux * dy)) 0) as [Hm|Hm]; simpl; try (f_equal; ring); exfalso; nra. Qed.
(* ... and with reflections (x, y) -> (x, -y), unless the first segment is exactly radial *)
Theorem oriented_tangent_reflection ux uy dx dy : - uy * dx + ux * dy <> 0 ->
  oriented_tangent ROps ux (- uy) dx (- dy) = (fst (oriented_tangent ROps ux uy dx dy), - snd (oriented_tangent ROps ux uy dx dy)).
Proof. intros Hnz. unfold oriented_tangent. simpl.
  replace (- - uy * dx + ux * - dy) with (- (- uy * dx + ux * dy)) by ring. unfold Rltb.
  destruct (Rlt_dec (- uy * dx + ux * dy) 0); destruct (Rlt_dec (- (- uy * dx + ux * dy)) 0); simpl; try (f_equal; ring); exfalso; lra. Qed.

(* a rotation of a junction's two equations preserves the squared residual: minimisers with zero multiplier are rotation invariant *)
Theorem rotation_preserves_sqnorm c s a b : c * c + s * s = 1 -> fst (rot c s (a, b)) * fst (rot c s (a, b)) + snd (rot c s (a, b)) * snd (rot c s (a, b)) = a * a + b * b.
Proof. intros H. unfold rot. simpl. replace ((c * a - s * b) * (c * a - s * b) + (s * a + c * b) * (s * a + c * b)) with ((c * c + s * s) * (a * a + b * b)) by ring. rewrite H. ring. Qed.
(* ... but the multiplier enters every x- and y-equation with coefficient one: the pair (1,1) is not rotation invariant (D3) *)
Theorem multiplier_column_not_covariant : exists c s, c * c + s * s = 1 /\ rot c s (1, 1) <> (1, 1).
Proof. exists 0, 1. split; [ring|]. unfold rot. simpl. intros H. inversion H. lra. Qed.

(* adimensional velocities: dividing by the mean speed removes a common positive factor (time unit or length unit) *)
Theorem adimensional_ratio_invariant k v m : 0 < k -> m <> 0 -> (k * v) / (k * m) = v / m.
Proof. intros Hk Hm. field. split; lra. Qed.
Local Close Scope R_scope.
