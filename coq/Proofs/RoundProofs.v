(* RoundProofs.v -- what rounding an exact value to k decimals (Python's round) does: nearest k-decimal number, exact ties to even,
   idempotent, monotone, odd, exact on k-decimal numbers, well defined on Q. *)
From Coq Require Import ZArith QArith Qabs Lia Lqa Bool List.
Import ListNotations.
From Forsys Require Import Model.Round.
Open Scope Z_scope.

Lemma rhe_cases : forall n d, 0 < d ->
  exists q r, n = d * q + r /\ 0 <= r < d /\ q = n / d /\ r = n mod d /\
   ((2 * r < d /\ rhe n d = q) \/ (d < 2 * r /\ rhe n d = q + 1) \/
    (2 * r = d /\ Z.even q = true /\ rhe n d = q) \/ (2 * r = d /\ Z.even q = false /\ rhe n d = q + 1)).
Proof.
  intros n d Hd. exists (n / d), (n mod d).
  pose proof (Z.div_mod n d ltac:(lia)) as Hdm. pose proof (Z.mod_pos_bound n d Hd) as Hb.
  repeat split; try lia. unfold rhe.
  destruct (2 * (n mod d) <? d) eqn:E1; [left; split; [apply Z.ltb_lt in E1; lia | reflexivity]|].
  apply Z.ltb_ge in E1.
  destruct (d <? 2 * (n mod d)) eqn:E2; [right; left; split; [apply Z.ltb_lt in E2; lia | reflexivity]|].
  apply Z.ltb_ge in E2.
  destruct (Z.even (n / d)) eqn:E3; right; right; [left | right]; repeat split; lia.
Qed.

(* uniqueness of quotient and remainder, in the form the proofs below use *)
Lemma divmod_unique : forall d q r q' r', 0 < d -> d * q + r = d * q' + r' -> 0 <= r < d -> 0 <= r' < d -> q = q' /\ r = r'.
Proof.
  intros d q r q' r' Hd He Hr Hr'.
  assert (q = q') as ->; [|lia].
  destruct (Z.lt_trichotomy q q') as [H | [H | H]]; [exfalso | exact H | exfalso].
  - assert (d * q' >= d * q + d) by nia. lia.
  - assert (d * q >= d * q' + d) by nia. lia.
Qed.

Lemma rhe_char : forall n d m, 0 < d ->
  (2 * Z.abs (n - d * m) < d \/ (2 * Z.abs (n - d * m) = d /\ Z.even m = true)) -> rhe n d = m.
Proof.
  intros n d m Hd H.
  destruct (rhe_cases n d Hd) as (q & r & Hn & Hr & _ & _ & Hc).
  assert (Hmq : m = q \/ m = q + 1).
  { assert (d * (m - q) < d + r /\ r - d < d * (m - q) + 0) as [A B] by lia.
    destruct (Z.lt_trichotomy (m - q) 0) as [L | [L | L]]; [exfalso; nia | lia |].
    destruct (Z.lt_trichotomy (m - q) 1) as [L' | [L' | L']]; [lia | lia | exfalso; nia]. }
  destruct Hmq as [-> | ->].
  - replace (n - d * q) with r in H by lia.
    destruct Hc as [[? ->] | [[? ->] | [(? & ? & ->) | (? & He & ->)]]]; try lia.
    destruct H as [? | [_ He']]; [lia | congruence].
  - replace (n - d * (q + 1)) with (r - d) in H by lia.
    destruct Hc as [[? ->] | [[? ->] | [(? & He & ->) | (? & ? & ->)]]]; try lia.
    destruct H as [? | [_ He']]; [lia|]. rewrite Z.even_add in He'. rewrite He in He'. discriminate.
Qed.

Theorem rhe_within_half : forall n d, 0 < d -> 2 * Z.abs (n - d * rhe n d) <= d.
Proof.
  intros n d Hd. destruct (rhe_cases n d Hd) as (q & r & Hn & Hr & _ & _ & Hc).
  destruct Hc as [[? ->] | [[? ->] | [(? & ? & ->) | (? & ? & ->)]]]; lia.
Qed.

Theorem rhe_nearest : forall n d m, 0 < d -> Z.abs (n - d * rhe n d) <= Z.abs (n - d * m).
Proof.
  intros n d m Hd. pose proof (rhe_within_half n d Hd) as Hh.
  destruct (Z.eq_dec m (rhe n d)) as [-> | Hne]; [lia|].
  assert (Z.abs (d * (m - rhe n d)) >= d) by nia.
  replace (n - d * m) with ((n - d * rhe n d) - d * (m - rhe n d)) by lia. lia.
Qed.

Theorem rhe_tie_even : forall n d, 0 < d -> 2 * Z.abs (n - d * rhe n d) = d -> Z.even (rhe n d) = true.
Proof.
  intros n d Hd Ht. destruct (rhe_cases n d Hd) as (q & r & Hn & Hr & _ & _ & Hc).
  destruct Hc as [[? E] | [[? E] | [(? & He & E) | (? & He & E)]]]; rewrite E in *; try lia; [exact He|].
  rewrite Z.even_add, He. reflexivity.
Qed.

Theorem rhe_exact : forall m d, 0 < d -> rhe (d * m) d = m.
Proof. intros m d Hd. apply rhe_char; [exact Hd|]. left. replace (d * m - d * m) with 0 by lia. simpl. lia. Qed.

Theorem rhe_opp : forall n d, 0 < d -> rhe (- n) d = - rhe n d.
Proof.
  intros n d Hd. apply rhe_char; [exact Hd|].
  pose proof (rhe_within_half n d Hd) as Hh.
  replace (- n - d * - rhe n d) with (- (n - d * rhe n d)) by lia. rewrite Z.abs_opp.
  destruct (Z.eq_dec (2 * Z.abs (n - d * rhe n d)) d) as [E | E]; [right | left; lia].
  split; [exact E|]. rewrite Z.even_opp. apply rhe_tie_even; assumption.
Qed.

Theorem rhe_monotone : forall n n' d, 0 < d -> n <= n' -> rhe n d <= rhe n' d.
Proof.
  intros n n' d Hd Hle.
  destruct (rhe_cases n d Hd) as (q & r & Hn & Hr & _ & _ & Hc).
  destruct (rhe_cases n' d Hd) as (q' & r' & Hn' & Hr' & _ & _ & Hc').
  assert (Hq : q < q' \/ (q = q' /\ r <= r')).
  { destruct (Z.lt_trichotomy q q') as [L | [L | L]]; [left; exact L | right; split; [exact L | subst; lia] | exfalso].
    assert (d * q >= d * q' + d) by nia. lia. }
  destruct Hq as [L | [-> L]].
  - assert (rhe n d <= q + 1) by (destruct Hc as [[? ->] | [[? ->] | [(? & ? & ->) | (? & ? & ->)]]]; lia).
    assert (q' <= rhe n' d) by (destruct Hc' as [[? ->] | [[? ->] | [(? & ? & ->) | (? & ? & ->)]]]; lia).
    lia.
  - destruct Hc as [[? ->] | [[? ->] | [(? & He & ->) | (? & He & ->)]]];
    destruct Hc' as [[? ->] | [[? ->] | [(? & He' & ->) | (? & He' & ->)]]]; try lia.
    congruence.
Qed.

Theorem rhe_scale : forall c n d, 0 < c -> 0 < d -> rhe (c * n) (c * d) = rhe n d.
Proof.
  intros c n d Hc Hd. apply rhe_char; [nia|].
  pose proof (rhe_within_half n d Hd) as Hh.
  replace (c * n - c * d * rhe n d) with (c * (n - d * rhe n d)) by ring.
  rewrite Z.abs_mul, (Z.abs_eq c) by lia.
  destruct (Z.eq_dec (2 * Z.abs (n - d * rhe n d)) d) as [E | E].
  - right. split; [nia | apply rhe_tie_even; assumption].
  - left. assert (2 * Z.abs (n - d * rhe n d) + 1 <= d) by lia. nia.
Qed.

(* ---------------------------------------------------------------- on Q *)
Lemma pow10_pos : forall k, 0 < pow10 k.
Proof. intros k. unfold pow10. apply Z.pow_pos_nonneg; lia. Qed.

Lemma round_dec_den : forall k x, Zpos (Qden (round_dec k x)) = pow10 k.
Proof. intros k x. unfold round_dec. cbn [Qden]. rewrite Z2Pos.id; [reflexivity | apply pow10_pos]. Qed.

Theorem round_num_compat : forall k x y, (x == y)%Q -> round_num k x = round_num k y.
Proof.
  intros k [a b] [c d] H. unfold Qeq in H. cbn [Qnum Qden] in H. unfold round_num. cbn [Qnum Qden].
  rewrite <- (rhe_scale (Zpos d) (a * pow10 k) (Zpos b)) by lia.
  rewrite <- (rhe_scale (Zpos b) (c * pow10 k) (Zpos d)) by lia.
  f_equal; [|ring]. transitivity (a * Z.pos d * pow10 k); [ring|]. rewrite H. ring.
Qed.

Theorem round_dec_compat : forall k x y, (x == y)%Q -> round_dec k x = round_dec k y.
Proof. intros k x y H. unfold round_dec. rewrite (round_num_compat k x y H). reflexivity. Qed.

(* the result is within half a unit of the last decimal *)
Theorem round_dec_within_half : forall k x, (Qabs (x - round_dec k x) <= 1 # (2 * Z.to_pos (pow10 k)))%Q.
Proof.
  intros k [a b]. pose proof (pow10_pos k) as Hp.
  pose proof (rhe_within_half (a * pow10 k) (Zpos b) ltac:(lia)) as Hh.
  unfold round_dec, round_num. cbn [Qnum Qden]. set (m := rhe (a * pow10 k) (Z.pos b)) in *.
  unfold Qle, Qabs, Qminus, Qplus, Qopp. cbn [Qnum Qden].
  rewrite !Pos2Z.inj_mul, Z2Pos.id by exact Hp.
  replace (a * pow10 k + - m * Z.pos b) with (a * pow10 k - Z.pos b * m) by ring.
  nia.
Qed.

(* no k-decimal number is nearer *)
Theorem round_dec_nearest : forall k x m, (Qabs (x - round_dec k x) <= Qabs (x - (m # Z.to_pos (pow10 k))))%Q.
Proof.
  intros k [a b] m. pose proof (pow10_pos k) as Hp.
  pose proof (rhe_nearest (a * pow10 k) (Zpos b) m ltac:(lia)) as Hh.
  unfold round_dec, round_num. cbn [Qnum Qden]. set (r := rhe (a * pow10 k) (Z.pos b)) in *.
  unfold Qle, Qabs, Qminus, Qplus, Qopp. cbn [Qnum Qden].
  rewrite !Pos2Z.inj_mul, Z2Pos.id by exact Hp.
  replace (a * pow10 k + - r * Z.pos b) with (a * pow10 k - Z.pos b * r) by ring.
  replace (a * pow10 k + - m * Z.pos b) with (a * pow10 k - Z.pos b * m) by ring.
  apply Z.mul_le_mono_nonneg_r; [nia | exact Hh].
Qed.

(* a number that already has k decimals is left alone; rounding twice is rounding once *)
Theorem round_dec_exact : forall k m, round_num k (m # Z.to_pos (pow10 k)) = m.
Proof.
  intros k m. unfold round_num. cbn [Qnum Qden]. rewrite Z2Pos.id by apply pow10_pos.
  rewrite Z.mul_comm. apply rhe_exact, pow10_pos.
Qed.

Theorem round_dec_idempotent : forall k x, round_dec k (round_dec k x) = round_dec k x.
Proof. intros k x. unfold round_dec at 1 3. f_equal. unfold round_dec. apply round_dec_exact. Qed.

Theorem round_dec_opp : forall k x, round_num k (- x) = - round_num k x.
Proof.
  intros k [a b]. unfold round_num, Qopp. cbn [Qnum Qden].
  replace (- a * pow10 k) with (- (a * pow10 k)) by ring. apply rhe_opp. lia.
Qed.

Theorem round_dec_monotone : forall k x y, (x <= y)%Q -> round_num k x <= round_num k y.
Proof.
  intros k [a b] [c d] H. unfold Qle in H. cbn [Qnum Qden] in H. pose proof (pow10_pos k) as Hp.
  unfold round_num. cbn [Qnum Qden].
  rewrite <- (rhe_scale (Zpos d) (a * pow10 k) (Zpos b)) by lia.
  rewrite <- (rhe_scale (Zpos b) (c * pow10 k) (Zpos d)) by lia.
  replace (Z.pos d * Z.pos b) with (Z.pos b * Z.pos d) by ring.
  apply rhe_monotone; [lia | nia].
Qed.

(* exact ties go to the even neighbour: 0.0625 -> 0.062, 0.1875 -> 0.188, -0.0625 -> -0.062 *)
Example round_dec_ties : round_num 3 (1 # 16) = 62 /\ round_num 3 (3 # 16) = 188 /\ round_num 3 (-1 # 16) = -62 /\ round_num 4 (15 # 32) = 4688.
Proof. vm_compute. repeat split. Qed.

(* ---------------------------------------------------------------- tessellation.py: the lattice point made from a corner *)
(* In exact arithmetic the point made from a corner of a ridge is the corner rounded to three decimals, whatever the other end of
   the ridge is and whichever end the corner is: every ridge and every region that meets a corner produces the same point. *)
Theorem ridge_vertex_is_rounded_corner : forall p q,
  ridge_vertex_Q true p q = (round_dec 3 (fst p), round_dec 3 (snd p)) /\
  ridge_vertex_Q false p q = (round_dec 3 (fst q), round_dec 3 (snd q)).
Proof.
  intros [px py] [qx qy]. unfold ridge_vertex_Q. cbn [fst snd].
  rewrite !round_dec_idempotent.
  destruct (Qeq_bool (round_dec 3 qx) (round_dec 3 px)) eqn:E.
  - rewrite !round_dec_idempotent. split; reflexivity.
  - apply Qeq_bool_neq in E. split; f_equal.
    + transitivity (round_dec 3 (round_dec 3 py)); [apply round_dec_compat; ring | apply round_dec_idempotent].
    + transitivity (round_dec 3 (round_dec 3 qy)); [apply round_dec_compat | apply round_dec_idempotent].
      field. intro H. apply E. lra.
Qed.

(* ---------------------------------------------------------------- what the rounding of a right-hand side does to a linear image of it *)
(* If a quantity depends linearly on the right-hand side (a row of the pseudo-inverse of the system the back-end receives applied to it),
   rounding every component of the right-hand side to k decimals moves it by at most (sum of |row|) * half a unit of the k-th decimal. *)
Fixpoint dotQ (a b : list Q) : Q :=
  match a, b with
  | x :: a', y :: b' => (x * y + dotQ a' b')%Q
  | _, _ => 0%Q
  end.
Definition abs_row_sum (a : list Q) : Q := fold_right (fun x s => (Qabs x + s)%Q) 0%Q a.

Lemma abs_row_sum_nonneg : forall a, (0 <= abs_row_sum a)%Q.
Proof.
  induction a as [|x a IH]; cbn [abs_row_sum fold_right]; [apply Qle_refl|].
  pose proof (Qabs_nonneg x). fold (abs_row_sum a). lra.
Qed.

Theorem rounded_rhs_perturbation : forall k (row b : list Q),
  (Qabs (dotQ row (map (round_dec k) b) - dotQ row b) <= abs_row_sum row * (1 # (2 * Z.to_pos (pow10 k))))%Q.
Proof.
  intros k. set (dl := (1 # (2 * Z.to_pos (pow10 k)))%Q).
  assert (Hd : (0 <= dl)%Q) by (unfold dl, Qle; cbn; lia).
  induction row as [|x row IH]; intros b.
  - cbn. unfold Qle; cbn; lia.
  - destruct b as [|y b].
    + cbn [map dotQ]. pose proof (abs_row_sum_nonneg (x :: row)) as Hn.
      setoid_replace (0 - 0)%Q with 0%Q by ring. cbn [Qabs Z.abs Qnum]. nra.
    + cbn [map dotQ abs_row_sum fold_right]. fold (abs_row_sum row).
      setoid_replace (x * round_dec k y + dotQ row (map (round_dec k) b) - (x * y + dotQ row b))%Q
        with (x * (round_dec k y - y) + (dotQ row (map (round_dec k) b) - dotQ row b))%Q by ring.
      eapply Qle_trans; [apply Qabs_triangle|].
      rewrite Qabs_Qmult.
      assert (H1 : (Qabs (round_dec k y - y) <= dl)%Q).
      { setoid_replace (round_dec k y - y)%Q with (- (y - round_dec k y))%Q by ring. rewrite Qabs_opp. apply round_dec_within_half. }
      specialize (IH b). pose proof (Qabs_nonneg x) as Hx.
      assert (H2 : (Qabs x * Qabs (round_dec k y - y) <= Qabs x * dl)%Q) by (rewrite !(Qmult_comm (Qabs x)); apply Qmult_le_compat_r; assumption).
      lra.
Qed.
