From Coq Require Import ZArith List Bool Lia.
From Forsys Require Import Model.Skeleton.
Import ListNotations.
Open Scope Z_scope.

Lemma pix_eq_refl p : pix_eq p p = true. Proof. unfold pix_eq. rewrite !Z.eqb_refl. reflexivity. Qed.
Lemma lookup_app_some p tbl x k : lookup_pix p tbl = Some k -> lookup_pix p (tbl ++ x) = Some k.
Proof. induction tbl as [|[q j] t IH]; simpl; [discriminate|]. destruct (pix_eq q p); [auto|exact IH]. Qed.
Lemma lookup_app_new p tbl k : lookup_pix p tbl = None -> lookup_pix p (tbl ++ [(p, k)]) = Some k.
Proof. induction tbl as [|[q j] t IH]; simpl; [rewrite pix_eq_refl; reflexivity|]. destruct (pix_eq q p); [discriminate|exact IH]. Qed.

(* shared vertices by pixel position: asking again for the same pixel returns the same vertex id; ids handed out never change *)
Theorem interning_by_position st p k st' : intern st p = (k, st') ->
  lookup_pix p st' = Some k /\ (forall q j, lookup_pix q st = Some j -> lookup_pix q st' = Some j).
Proof. unfold intern. destruct (lookup_pix p st) as [j|] eqn:L; intros H; inversion H; subst.
  - split; [exact L|auto].
  - split; [apply lookup_app_new; exact L|intros q j Hq; apply lookup_app_some; exact Hq]. Qed.

Lemma intern_all_length st ps : length (fst (intern_all st ps)) = length ps.
Proof. revert st; induction ps as [|p t IH]; intros st; simpl; [reflexivity|].
  destruct (intern st p) as [k st1]. specialize (IH st1). destruct (intern_all st1 t) as [ks st2]. simpl in *. rewrite IH. reflexivity. Qed.

(* one cell per contour, in contour order, each with one vertex per contour pixel *)
Theorem one_cell_per_contour contours :
  length (sk_cells (lattice contours)) = length contours /\
  map (@length Z) (sk_cells (lattice contours)) = map (@length pix) contours.
Proof. unfold lattice.
  assert (G : forall cs st, length (sk_cells (fold_left add_contour cs st)) = (length (sk_cells st) + length cs)%nat /\
                            map (@length Z) (sk_cells (fold_left add_contour cs st)) = map (@length Z) (sk_cells st) ++ map (@length pix) cs).
  { induction cs as [|c t IH]; intros st; simpl; [split; [lia|rewrite app_nil_r; reflexivity]|].
    destruct (IH (add_contour st c)) as [H1 H2]. rewrite H1, H2. unfold add_contour.
    pose proof (intern_all_length (sk_vertices st) c) as Hl. destruct (intern_all (sk_vertices st) c) as [ks tbl]. simpl in *.
    rewrite app_length, map_app. simpl. rewrite Hl, <- app_assoc. split; [lia|reflexivity]. }
  destruct (G contours (mkSk [] [])) as [H1 H2]. simpl in *. split; assumption. Qed.
