From Coq Require Import ZArith List Bool Lia.
From Forsys Require Import Model.Skeleton.
Import ListNotations.
Open Scope Z_scope.

Lemma pix_eq_refl p : pix_eq p p = true. Proof. unfold pix_eq. rewrite !Z.eqb_refl. reflexivity. Qed.
Lemma lookup_app_some p tbl x k : lookup_pix p tbl = Some k -> lookup_pix p (tbl ++ x) = Some k.
Proof. induction tbl as [|[q j] t IH]; simpl; [discriminate|]. destruct (pix_eq q p); [auto|exact IH]. Qed.
Lemma lookup_app_new p tbl k : lookup_pix p tbl = None -> lookup_pix p (tbl ++ [(p, k)]) = Some k.
Proof. induction tbl as [|[q j] t IH]; simpl; [rewrite pix_eq_refl; reflexivity|]. destruct (pix_eq q p); [discriminate|exact IH]. Qed.

(* shared vertices by pixel position: asking again for the same pixel returns the same vertex id; ids handed out never change *)
Theorem interning_by_position st p k st' : intern st p = (k, st') ->
  lookup_pix p st' = Some k /\ (forall q j, lookup_pix q st = Some j -> lookup_pix q st' = Some j).
Proof. unfold intern. destruct (lookup_pix p st) as [j|] eqn:L; intros H; inversion H; subst.
  - split; [exact L|auto].
  - split; [apply lookup_app_new; exact L|intros q j Hq; apply lookup_app_some; exact Hq]. Qed.

Lemma intern_all_length st ps : length (fst (intern_all st ps)) = length ps.
Proof. revert st; induction ps as [|p t IH]; intros st; simpl; [reflexivity|].
  destruct (intern st p) as [k st1]. specialize (IH st1). destruct (intern_all st1 t) as [ks st2]. simpl in *. rewrite IH. reflexivity. Qed.

(* one cell per contour, in contour order, each with one vertex per contour pixel *)
Theorem one_cell_per_contour contours :
  length (sk_cells (lattice contours)) = length contours /\
  map (@length Z) (sk_cells (lattice contours)) = map (@length pix) contours.
Proof. unfold lattice.
  assert (G : forall cs st, length (sk_cells (fold_left add_contour cs st)) = (length (sk_cells st) + length cs)%nat /\
                            map (@length Z) (sk_cells (fold_left add_contour cs st)) = map (@length Z) (sk_cells st) ++ map (@length pix) cs).
  { induction cs as [|c t IH]; intros st; simpl; [split; [lia|rewrite app_nil_r; reflexivity]|].
    destruct (IH (add_contour st c)) as [H1 H2]. rewrite H1, H2. unfold add_contour.
    pose proof (intern_all_length (sk_vertices st) c) as Hl. destruct (intern_all (sk_vertices st) c) as [ks tbl]. simpl in *.
    rewrite app_length, map_app. simpl. rewrite Hl, <- app_assoc. split; [lia|reflexivity]. }
  destruct (G contours (mkSk [] [])) as [H1 H2]. simpl in *. split; assumption. Qed.

(* ------------------------------------------------------------------ the large-area filter *)
From Coq Require Import Permutation.

Lemma last_cons_d {A} (p : A) t a : last (p :: t) a = last t p.
Proof. revert p a; induction t as [|q t IH]; intros p a; [reflexivity|]. change (last (p :: q :: t) a) with (last (q :: t) a). rewrite !IH. reflexivity. Qed.
Lemma last_ne_indep {A} (l : list A) d d' : l <> [] -> last l d = last l d'.
Proof. destruct l as [|p t]; [congruence|]. intros _. rewrite !last_cons_d. reflexivity. Qed.
Lemma last_map_pix (g : pix -> pix) l d : last (map g l) (g d) = g (last l d).
Proof. revert d; induction l as [|p t IH]; intros d; [reflexivity|]. simpl map. rewrite !last_cons_d. apply IH. Qed.

Section Affine.
  Variables m11 m12 m21 m22 tx ty : Z.
  Let g := affine m11 m12 m21 m22 tx ty.
  Let det := m11 * m22 - m12 * m21.
  Let h (q : pix) := (m11 * fst q + m12 * snd q) * ty - (m21 * fst q + m22 * snd q) * tx.
  Lemma zprev_affine a l : zprev_sum (g a) (map g l) = det * zprev_sum a l + h (last l a) - h a.
  Proof. revert a; induction l as [|p t IH]; intros a; [simpl; ring|].
    simpl map. cbn [zprev_sum]. rewrite IH, last_cons_d. unfold g, affine, h, det. cbn [fst snd]. ring. Qed.
  Lemma signed_area2_affine c : signed_area2 (map g c) = det * signed_area2 c.
  Proof. destruct c as [|p t]; [simpl; ring|]. change (signed_area2 (map g (p :: t))) with (zprev_sum (last (map g (p :: t)) (g p)) (map g (p :: t))).
    rewrite last_map_pix, zprev_affine. unfold signed_area2.
    rewrite (last_ne_indep (p :: t) (last (p :: t) p) p) by discriminate. ring. Qed.
  Lemma area2_affine c : area2_pix (map g c) = Z.abs det * area2_pix c.
  Proof. unfold area2_pix. rewrite signed_area2_affine, Z.abs_mul. reflexivity. Qed.
End Affine.

(* the area of a contour is the same after a translation, a flip, a transposition, a quarter turn (any affine map of determinant +-1) *)
Theorem area2_isometry m11 m12 m21 m22 tx ty c : Z.abs (m11 * m22 - m12 * m21) = 1 ->
  area2_pix (map (affine m11 m12 m21 m22 tx ty) c) = area2_pix c.
Proof. intros H. rewrite area2_affine, H. ring. Qed.

(* ... and does not depend on the pixel the contour starts at, nor on its sense *)
Lemma zprev_app a l1 l2 : zprev_sum a (l1 ++ l2) = zprev_sum a l1 + zprev_sum (last l1 a) l2.
Proof. revert a; induction l1 as [|p t IH]; intros a; [simpl; ring|]. simpl app. cbn [zprev_sum]. rewrite IH, last_cons_d. ring. Qed.
Lemma last_app_ne' {A} (l1 l2 : list A) d d' : l2 <> [] -> last (l1 ++ l2) d = last l2 d'.
Proof. intros H. revert d; induction l1 as [|p t IH]; intros d; [apply last_ne_indep; exact H|].
  change ((p :: t) ++ l2) with (p :: (t ++ l2)). rewrite last_cons_d. apply IH. Qed.
Lemma last_app_ne {A} (l1 l2 : list A) d : l2 <> [] -> last (l1 ++ l2) d = last l2 d.
Proof. apply last_app_ne'. Qed.
Lemma signed_area2_ne c d : c <> [] -> signed_area2 c = zprev_sum (last c d) c.
Proof. destruct c as [|p t]; [congruence|]. intros _. unfold signed_area2. rewrite (last_ne_indep (p :: t) p d) by discriminate. reflexivity. Qed.
Theorem signed_area2_rotate l1 l2 : signed_area2 (l2 ++ l1) = signed_area2 (l1 ++ l2).
Proof. destruct l1 as [|p1 t1]; [rewrite app_nil_r; reflexivity|]. destruct l2 as [|p2 t2]; [rewrite app_nil_r; reflexivity|].
  set (L1 := p1 :: t1). set (L2 := p2 :: t2).
  assert (N1 : L1 <> []) by discriminate. assert (N2 : L2 <> []) by discriminate.
  rewrite (signed_area2_ne (L2 ++ L1) p1) by (intros E; apply app_eq_nil in E; destruct E; auto).
  rewrite (signed_area2_ne (L1 ++ L2) p1) by (intros E; apply app_eq_nil in E; destruct E; auto).
  rewrite !zprev_app. rewrite (last_app_ne' L2 L1 p1 p1 N1), (last_app_ne' L1 L2 p1 p1 N2).
  rewrite (last_ne_indep L2 (last L1 p1) p1 N2). rewrite (last_ne_indep L1 (last L2 p1) p1 N1). ring. Qed.
Theorem area2_rotate l1 l2 : area2_pix (l2 ++ l1) = area2_pix (l1 ++ l2).
Proof. unfold area2_pix. rewrite signed_area2_rotate. reflexivity. Qed.

Lemma zprev_rev a b l : zprev_sum a (l ++ [b]) = - zprev_sum b (rev l ++ [a]).
Proof. revert a; induction l as [|p t IH]; intros a; [simpl; ring|].
  change ((p :: t) ++ [b]) with (p :: (t ++ [b])). cbn [zprev_sum]. rewrite IH. simpl rev. rewrite (zprev_app b (rev t ++ [p]) [a]).
  rewrite last_last. cbn [zprev_sum]. ring. Qed.
Lemma signed_area2_closed a t : signed_area2 (a :: t) = zprev_sum a (t ++ [a]).
Proof. change (a :: t) with ([a] ++ t). rewrite <- signed_area2_rotate.
  rewrite (signed_area2_ne (t ++ [a]) a) by (intros E; apply app_eq_nil in E; destruct E; discriminate). rewrite last_last. reflexivity. Qed.
Theorem signed_area2_reverse c : signed_area2 (rev c) = - signed_area2 c.
Proof. destruct c as [|a t]; [reflexivity|]. simpl rev. rewrite (signed_area2_rotate [a] (rev t)). simpl app.
  rewrite !signed_area2_closed. rewrite (zprev_rev a a t). ring. Qed.
Theorem area2_reverse c : area2_pix (rev c) = area2_pix c.
Proof. unfold area2_pix. rewrite signed_area2_reverse, Z.abs_opp. reflexivity. Qed.

(* ---- the filter *)
Lemma zsum_perm l1 l2 : Permutation l1 l2 -> zsum l1 = zsum l2.
Proof. induction 1; simpl; lia. Qed.
Lemma zmax_perm l1 l2 : Permutation l1 l2 -> zmax l1 = zmax l2.
Proof. induction 1; simpl; lia. Qed.
Lemma keeps_perm a1 a2 x : Permutation a1 a2 -> keeps a1 x = keeps a2 x.
Proof. intros H. unfold keeps. rewrite (Permutation_length H), (zsum_perm _ _ H), (zmax_perm _ _ H). reflexivity. Qed.

(* a contour is kept exactly when its OWN area is below the threshold; the threshold is a function of the multiset of areas *)
Theorem area_filter_spec cs c : In c (area_filter cs) <-> In c cs /\ keeps (map area2_pix cs) (area2_pix c) = true.
Proof. unfold area_filter. apply filter_In. Qed.

Lemma filter_perm {A} (p : A -> bool) l1 l2 : Permutation l1 l2 -> Permutation (filter p l1) (filter p l2).
Proof. induction 1 as [|x l1 l2 H IH|x y l|l1 l2 l3 H1 IH1 H2 IH2]; simpl.
  - constructor.
  - destruct (p x); [constructor|]; exact IH.
  - destruct (p x), (p y); try apply Permutation_refl; apply perm_swap.
  - eapply Permutation_trans; eassumption. Qed.
Lemma filter_ext_in' {A} (p q : A -> bool) l : (forall x, p x = q x) -> filter p l = filter q l.
Proof. intros H. induction l as [|x t IH]; simpl; [reflexivity|]. rewrite H, IH. reflexivity. Qed.

(* the outcome does not depend on the order in which OpenCV lists the contours *)
Theorem area_filter_perm cs cs' : Permutation cs cs' -> Permutation (area_filter cs) (area_filter cs').
Proof. intros H. unfold area_filter.
  rewrite (filter_ext_in' (fun c => keeps (map area2_pix cs) (area2_pix c)) (fun c => keeps (map area2_pix cs') (area2_pix c))).
  - apply filter_perm. exact H.
  - intros c. apply keeps_perm. apply Permutation_map. exact H. Qed.

(* the kept contours stay in the order they came in (cell ids follow contour order) *)
Inductive subseq {A} : list A -> list A -> Prop :=
| sub_nil : subseq [] []
| sub_keep x l1 l2 : subseq l1 l2 -> subseq (x :: l1) (x :: l2)
| sub_drop x l1 l2 : subseq l1 l2 -> subseq l1 (x :: l2).
Lemma filter_subseq {A} (p : A -> bool) l : subseq (filter p l) l.
Proof. induction l as [|x t IH]; simpl; [constructor|]. destruct (p x); constructor; exact IH. Qed.
Theorem area_filter_keeps_order cs : subseq (area_filter cs) cs.
Proof. apply filter_subseq. Qed.

Lemma filter_map_comm {A B} (f : A -> B) (p : B -> bool) l : filter p (map f l) = map f (filter (fun x => p (f x)) l).
Proof. induction l as [|x t IH]; simpl; [reflexivity|]. destruct (p (f x)); simpl; rewrite IH; reflexivity. Qed.

(* the filter commutes with every map of the pixels that preserves contour areas ... *)
Theorem area_filter_commutes (g : pix -> pix) cs : (forall c, area2_pix (map g c) = area2_pix c) ->
  area_filter (map (map g) cs) = map (map g) (area_filter cs).
Proof. intros H. unfold area_filter. rewrite filter_map_comm. f_equal.
  assert (E : map area2_pix (map (map g) cs) = map area2_pix cs) by (rewrite map_map; apply map_ext; exact H).
  rewrite E. apply filter_ext_in'. intros c. rewrite H. reflexivity. Qed.
(* ... in particular with translations (padding), flips, transposition and quarter turns *)
Theorem area_filter_isometry m11 m12 m21 m22 tx ty cs : Z.abs (m11 * m22 - m12 * m21) = 1 ->
  area_filter (map (map (affine m11 m12 m21 m22 tx ty)) cs) = map (map (affine m11 m12 m21 m22 tx ty)) (area_filter cs).
Proof. intros H. apply area_filter_commutes. intros c. apply area2_isometry. exact H. Qed.

(* the largest region never enters the mean: making it larger changes nothing for the others *)
Lemma zmax_ge l : forall x, In x l -> x <= zmax l.
Proof. induction l as [|y t IH]; simpl; [tauto|]. intros x [-> | Hx]; [lia|]. specialize (IH x Hx). lia. Qed.
Theorem threshold_ignores_the_largest (rest : list Z) (big big' x : Z) :
  (forall y, In y rest -> 0 <= y) -> zmax rest <= big -> big <= big' -> keeps (big :: rest) x = keeps (big' :: rest) x.
Proof. intros Hpos H1 H2. unfold keeps. cbn [length zsum zmax fold_right].
  assert (0 <= zmax rest) by (clear -Hpos; induction rest as [|y t IH]; simpl; [lia|]; assert (0 <= y) by (apply Hpos; left; reflexivity);
                               assert (0 <= fold_right Z.max 0 t) by (apply IH; intros; apply Hpos; right; assumption); lia).
  fold (zsum rest). fold (zmax rest). replace (big + zsum rest - Z.max big (zmax rest)) with (zsum rest) by lia.
  replace (big' + zsum rest - Z.max big' (zmax rest)) with (zsum rest) by lia. reflexivity. Qed.

(* ------------------------------------------------------------------ mesh edges, border flags *)
Fixpoint nodup_sym (es : list (Z * Z)) : Prop :=
  match es with [] => True | e :: t => pair_in (fst e) (snd e) t = false /\ nodup_sym t end.
Lemma pair_in_app a b l1 l2 : pair_in a b (l1 ++ l2) = pair_in a b l1 || pair_in a b l2.
Proof. unfold pair_in. apply existsb_app. Qed.
Lemma pair_in_sym a b es : pair_in a b es = pair_in b a es.
Proof. unfold pair_in. induction es as [|e t IH]; simpl; [reflexivity|]. rewrite IH. f_equal. apply orb_comm. Qed.
Lemma pair_in_single a b c d : pair_in a b [(c, d)] = pair_in c d [(a, b)].
Proof. unfold pair_in. simpl. rewrite !orb_false_r. rewrite (Z.eqb_sym c a), (Z.eqb_sym d b), (Z.eqb_sym c b), (Z.eqb_sym d a).
  rewrite (andb_comm (b =? c) (a =? d)). reflexivity. Qed.
Lemma nodup_sym_snoc es p : nodup_sym es -> pair_in (fst p) (snd p) es = false -> nodup_sym (es ++ [p]).
Proof. destruct p as [c d]. cbn [fst snd]. induction es as [|[a b] t IH]; intros Hn Hp; cbn [app nodup_sym fst snd]; [split; [reflexivity|exact I]|].
  cbn [nodup_sym fst snd] in Hn. destruct Hn as [H1 H2].
  change (pair_in c d ((a, b) :: t)) with (pair_in c d ([(a, b)] ++ t)) in Hp. rewrite pair_in_app in Hp. apply orb_false_elim in Hp. destruct Hp as [Hp1 Hp2].
  split; [|apply IH; assumption]. rewrite pair_in_app, H1. cbn [orb]. rewrite pair_in_single. exact Hp1. Qed.
Lemma add_edge_nodup es p : nodup_sym es -> nodup_sym (add_edge es p).
Proof. intros H. unfold add_edge. destruct (pair_in (fst p) (snd p) es) eqn:E; [exact H|]. apply nodup_sym_snoc; assumption. Qed.
Lemma fold_add_nodup ps es : nodup_sym es -> nodup_sym (fold_left add_edge ps es).
Proof. revert es; induction ps as [|p t IH]; intros es H; [exact H|]. simpl. apply IH. apply add_edge_nodup. exact H. Qed.
(* no unordered pair of vertices gets two mesh edges *)
Theorem edges_no_duplicates cells : nodup_sym (edges_of_cells cells).
Proof. apply fold_add_nodup. exact I. Qed.

Lemma add_edge_mono a b es p : pair_in a b es = true -> pair_in a b (add_edge es p) = true.
Proof. intros H. unfold add_edge. destruct (pair_in (fst p) (snd p) es); [exact H|]. rewrite pair_in_app, H. reflexivity. Qed.
Lemma add_edge_self es p : pair_in (fst p) (snd p) (add_edge es p) = true.
Proof. unfold add_edge. destruct (pair_in (fst p) (snd p) es) eqn:E; [exact E|]. rewrite pair_in_app. destruct p as [a b]. unfold pair_in at 2. simpl.
  rewrite !Z.eqb_refl. simpl. apply orb_true_r. Qed.
Lemma fold_add_mono a b ps es : pair_in a b es = true -> pair_in a b (fold_left add_edge ps es) = true.
Proof. revert es; induction ps as [|p t IH]; intros es H; [exact H|]. simpl. apply IH. apply add_edge_mono. exact H. Qed.
Lemma fold_add_complete ps es p : In p ps -> pair_in (fst p) (snd p) (fold_left add_edge ps es) = true.
Proof. revert es; induction ps as [|q t IH]; intros es H; [destruct H|]. destruct H as [-> | H]; simpl.
  - apply fold_add_mono. apply add_edge_self.
  - apply IH. exact H. Qed.
(* every pair of consecutive contour vertices of every cell (the closing pair included) has its mesh edge *)
Theorem edges_complete cells c p : In c cells -> In p (cell_pairs c) -> pair_in (fst p) (snd p) (edges_of_cells cells) = true.
Proof. intros Hc Hp. unfold edges_of_cells. apply fold_add_complete. apply in_concat. exists (cell_pairs c). split; [apply in_map; exact Hc|exact Hp]. Qed.

Lemma fold_add_sound ps es e : In e (fold_left add_edge ps es) -> In e es \/ In e ps.
Proof. revert es; induction ps as [|q t IH]; intros es H; [left; exact H|]. simpl in H. apply IH in H. destruct H as [H | H]; [|right; right; exact H].
  unfold add_edge in H. destruct (pair_in (fst q) (snd q) es); [left; exact H|]. apply in_app_or in H. destruct H as [H | [-> | []]]; [left; exact H|right; left; reflexivity]. Qed.
(* ... and there is no other mesh edge *)
Theorem edges_sound cells e : In e (edges_of_cells cells) -> exists c, In c cells /\ In e (cell_pairs c).
Proof. intros H. apply fold_add_sound in H. destruct H as [[] | H]. apply in_concat in H. destruct H as [ps [H1 H2]].
  apply in_map_iff in H1. destruct H1 as [c [<- Hc]]. exists c. split; assumption. Qed.

Lemma memZ_In v l : memZ v l = true <-> In v l.
Proof. unfold memZ. rewrite existsb_exists. split; [intros [x [H1 H2]]; apply Z.eqb_eq in H2; subst; exact H1|intros H; exists v; split; [exact H|apply Z.eqb_refl]]. Qed.
(* a border cell is one with a vertex that belongs to exactly one cell *)
Theorem is_border_spec cells c : is_border cells c = true <-> exists v, In v c /\ length (filter (memZ v) cells) = 1%nat.
Proof. unfold is_border, n_own_cells. rewrite existsb_exists. split; intros [v [H1 H2]]; exists v; split; try exact H1.
  - apply Nat.eqb_eq. exact H2.
  - apply Nat.eqb_eq. exact H2. Qed.
Lemma filter_single_own {A} (p : A -> bool) l c : In c l -> p c = true -> length (filter p l) = 1%nat -> forall d, In d l -> p d = true -> d = c.
Proof. intros Hc Hpc Hlen d Hd Hpd. assert (Hf : In c (filter p l)) by (apply filter_In; split; assumption).
  assert (Hg : In d (filter p l)) by (apply filter_In; split; assumption).
  destruct (filter p l) as [|x [|y t]]; simpl in Hlen; try discriminate. destruct Hf as [-> | []]. destruct Hg as [-> | []]. reflexivity. Qed.
(* ... and that one cell is the cell itself: the vertex belongs to no other cell *)
Theorem border_vertex_is_private cells c : In c cells -> is_border cells c = true ->
  exists v, In v c /\ forall d, In d cells -> In v d -> d = c.
Proof. intros Hc H. apply is_border_spec in H. destruct H as [w [Hw Hl]]. exists w. split; [exact Hw|].
  intros d Hd Hwd. apply (filter_single_own (memZ w) cells c Hc); [apply memZ_In; exact Hw|exact Hl|exact Hd|apply memZ_In; exact Hwd]. Qed.
(* a removed (isolated) cell shares no vertex with any other cell *)
Theorem isolated_shares_nothing cells c : In c cells -> is_isolated cells c = true -> forall v d, In v c -> In d cells -> In v d -> d = c.
Proof. intros Hc H v d Hv Hd Hvd. unfold is_isolated in H. rewrite forallb_forall in H. specialize (H v Hv). apply Nat.leb_le in H. unfold n_own_cells in H.
  assert (Hf : In c (filter (memZ v) cells)) by (apply filter_In; split; [exact Hc|apply memZ_In; exact Hv]).
  assert (Hg : In d (filter (memZ v) cells)) by (apply filter_In; split; [exact Hd|apply memZ_In; exact Hvd]).
  destruct (filter (memZ v) cells) as [|x [|y t]]; simpl in H; [destruct Hf| |lia]. destruct Hf as [-> | []]. destruct Hg as [-> | []]. reflexivity. Qed.
