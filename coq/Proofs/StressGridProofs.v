(* StressGridProofs.v -- the grid of the coarse-grained stress tensor: which cells and interfaces a grid centre selects, the zero
   tensor where it selects none, uniform bins and their centres. *)
From Coq Require Import ZArith List Bool Reals Lra Lia.
From Forsys Require Import Model.Num Model.Stress Model.StressGrid Proofs.StressProofs.
Import ListNotations.

Section Generic.
  Context {T : Type} (N : NumOps T).
  Lemma select_cells_spec md2 cx cy (cells : list (cellrec (T := T))) c :
    In c (select_cells N md2 cx cy cells) <-> In c cells /\ in_disc N md2 cx cy c = true.
  Proof. unfold select_cells. apply filter_In. Qed.
  Lemma select_cells_order md2 cx cy (cells : list (cellrec (T := T))) :
    exists keep, select_cells N md2 cx cy cells = filter keep cells /\ forall c, keep c = in_disc N md2 cx cy c.
  Proof. exists (in_disc N md2 cx cy). split; reflexivity. Qed.
  Lemma memZ_In k l : memZ k l = true <-> In k l.
  Proof. unfold memZ. rewrite existsb_exists. split; [intros [x [Hx He]]; apply Z.eqb_eq in He; subst; exact Hx | intros H; exists k; split; [exact H | apply Z.eqb_refl]]. Qed.
  Lemma select_edges_spec ids (edges : list (edgerec (T := T))) e :
    In e (select_edges ids edges) <-> In e edges /\ (In (fst (fst e)) ids \/ In (snd (fst e)) ids).
  Proof. unfold select_edges, touches. rewrite filter_In, orb_true_iff, !memZ_In. reflexivity. Qed.
End Generic.

Open Scope R_scope.

Lemma in_disc_R md2 cx cy (c : cellrec (T := R)) :
  in_disc ROps md2 cx cy c = true <-> (cx - fst (snd (fst c))) * (cx - fst (snd (fst c))) + (cy - snd (snd (fst c))) * (cy - snd (snd (fst c))) <= md2.
Proof.
  unfold in_disc, dist2, sq. cbn [ltb ROps add mul sub]. unfold Rltb.
  destruct (Rlt_dec md2 _) as [H | H]; cbn [negb]; split; intros H'; try discriminate; try lra; try reflexivity.
Qed.

Theorem larger_radius_selects_more md2 md2' cx cy (cells : list (cellrec (T := R))) c :
  md2 <= md2' -> In c (select_cells ROps md2 cx cy cells) -> In c (select_cells ROps md2' cx cy cells).
Proof. rewrite !select_cells_spec, !in_disc_R. intros Hle [Hin Hd]. split; [exact Hin | lra]. Qed.

(* the zero matrix where no cell centre lies within the averaging radius *)
Theorem no_centre_within_radius_zero md2 cx cy (cells : list (cellrec (T := R))) edges :
  (forall c, In c cells -> md2 < (cx - fst (snd (fst c))) * (cx - fst (snd (fst c))) + (cy - snd (snd (fst c))) * (cy - snd (snd (fst c)))) ->
  grid_cell_sigma ROps md2 cx cy cells edges = (0, 0, 0).
Proof.
  intros H. unfold grid_cell_sigma.
  assert (E : select_cells ROps md2 cx cy cells = []).
  { destruct (select_cells ROps md2 cx cy cells) as [|c l] eqn:Hs; [reflexivity | exfalso].
    assert (Hin : In c (select_cells ROps md2 cx cy cells)) by (rewrite Hs; left; reflexivity).
    apply select_cells_spec in Hin. destruct Hin as [Hin Hd]. apply in_disc_R in Hd. specialize (H c Hin). lra. }
  rewrite E. cbn [map]. apply sigma_zero_when_empty.
Qed.

(* a grid cell's tensor is the tensor (Model/Stress.v) of exactly the cells whose centre is within the radius and of exactly the
   interfaces that have one of them as first or second cell *)
Theorem grid_cell_is_sigma_of_selection md2 cx cy (cells : list (cellrec (T := R))) edges :
  exists sel esel, grid_cell_sigma ROps md2 cx cy cells edges = sigma ROps (map snd sel) (map snd esel) /\
    (forall c, In c sel <-> In c cells /\ (cx - fst (snd (fst c))) * (cx - fst (snd (fst c))) + (cy - snd (snd (fst c))) * (cy - snd (snd (fst c))) <= md2) /\
    (forall e, In e esel <-> In e edges /\ exists c, In c sel /\ (fst (fst c) = fst (fst e) \/ fst (fst c) = snd (fst e))).
Proof.
  exists (select_cells ROps md2 cx cy cells), (select_edges (map (fun c => fst (fst c)) (select_cells ROps md2 cx cy cells)) edges).
  split; [reflexivity | split].
  - intros c. etransitivity; [apply select_cells_spec|]. rewrite in_disc_R. reflexivity.
  - intros e. etransitivity; [apply select_edges_spec|]. rewrite !in_map_iff. split.
    + intros [He [[c [Hc Hin]] | [c [Hc Hin]]]]; (split; [exact He | exists c; split; [exact Hin | tauto]]).
    + intros [He [c [Hin [Hc | Hc]]]]; (split; [exact He|]); [left | right]; exists c; split; assumption.
Qed.

(* ------------------------------------------------------------------ bins *)
Lemma combine_consecutive {A} (f : nat -> A) g : forall s,
  combine (map f (seq s (S g))) (tl (map f (seq s (S g)))) = map (fun i => (f i, f (S i))) (seq s g).
Proof.
  induction g as [|g IH]; intros s; [reflexivity|].
  specialize (IH (S s)). cbn [seq map tl combine] in *. f_equal. exact IH.
Qed.

Lemma ofZ_R (i : nat) : ofZ ROps (Z.of_nat i) = INR i.
Proof. cbn [ofZ ROps]. symmetry. apply INR_IZR_INZ. Qed.

(* the bin edges are equally spaced from the smallest to the largest centre coordinate, the last one included *)
Theorem bin_edges_uniform lo hi g : (0 < g)%nat ->
  bin_edges ROps lo hi g = map (fun i => lo + INR i * ((hi - lo) / INR g)) (seq 0 (S g)).
Proof.
  intros Hg. unfold bin_edges. apply map_ext_in. intros i _.
  assert (Hg0 : INR g <> 0) by (apply not_0_INR; lia).
  rewrite !ofZ_R. cbn [add mul div sub ROps].
  destruct (Nat.eqb i g) eqn:E; [apply Nat.eqb_eq in E; subst i; field; exact Hg0 | ring].
Qed.

(* the grid centres are the mid-points of the bins: min + (2 i + 1) (max - min) / (2 grid), strictly between min and max *)
Theorem bin_centres_uniform lo hi g : (0 < g)%nat ->
  bin_centres ROps (bin_edges ROps lo hi g) = map (fun i => lo + (2 * INR i + 1) * ((hi - lo) / (2 * INR g))) (seq 0 g).
Proof.
  intros Hg. rewrite bin_edges_uniform by exact Hg. unfold bin_centres.
  rewrite (combine_consecutive (fun i => lo + INR i * ((hi - lo) / INR g)) g 0), map_map.
  apply map_ext. intros i. cbn [fst snd]. unfold two. cbn [add div one ROps].
  assert (Hg0 : INR g <> 0) by (apply not_0_INR; lia).
  rewrite S_INR. field. exact Hg0.
Qed.

Theorem bin_centres_inside lo hi g c : (0 < g)%nat -> lo < hi -> In c (bin_centres ROps (bin_edges ROps lo hi g)) -> lo < c < hi.
Proof.
  intros Hg Hlh Hin. rewrite bin_centres_uniform in Hin by exact Hg. apply in_map_iff in Hin. destruct Hin as [i [<- Hi]].
  apply in_seq in Hi. assert (Hig : INR i + 1 <= INR g) by (rewrite <- S_INR; apply le_INR; lia).
  assert (Hi0 : 0 <= INR i) by apply pos_INR. assert (Hg0 : 0 < INR g) by (apply lt_0_INR; lia).
  set (w := (hi - lo) / (2 * INR g)). assert (Hw : 0 < w) by (unfold w; apply Rdiv_lt_0_compat; lra).
  assert (Hhi : hi = lo + 2 * INR g * w) by (unfold w; field; lra).
  split; [nra|]. rewrite Hhi. nra.
Qed.
