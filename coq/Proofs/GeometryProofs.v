From Coq Require Import Reals Lra Lia List ZArith Permutation Bool.
From Forsys Require Import Model.Num Model.Geometry.
Import ListNotations.
Open Scope R_scope.

Notation RP := (R * R)%type.
Notation psum := (prev_sum ROps).
Notation csum := (cyc_sum ROps).

(* ---------------------------------------------------------------- list facts *)
Lemma last_cons_default {A} (p : A) t a : last (p :: t) a = last t p.
Proof. revert p a; induction t as [|q t IH]; intros p a; [reflexivity|].
  change (last (p :: q :: t) a) with (last (q :: t) a). rewrite (IH q a), (IH q p). reflexivity. Qed.

Lemma last_nonempty_indep {A} (l : list A) d d' : l <> [] -> last l d = last l d'.
Proof. destruct l as [|p t]; [congruence|]. intros _. rewrite !last_cons_default. reflexivity. Qed.

Lemma last_map {A B} (g : A -> B) l d : last (map g l) (g d) = g (last l d).
Proof. induction l as [|p t IH]; [reflexivity|]. simpl map. rewrite !last_cons_default.
  clear IH. revert p; induction t as [|q t IH]; intros p; [reflexivity|]. simpl map. rewrite !last_cons_default. apply IH. Qed.

(* ---------------------------------------------------------------- prev_sum / cyc_sum algebra *)
Lemma psum_nil f (a : RP) : psum f a [] = 0. Proof. reflexivity. Qed.
Lemma psum_cons f (a p : RP) t : psum f a (p :: t) = f a p + psum f p t. Proof. reflexivity. Qed.

Lemma psum_app f (a : RP) l1 l2 : psum f a (l1 ++ l2) = psum f a l1 + psum f (last l1 a) l2.
Proof. revert a; induction l1 as [|p t IH]; intros a.
  - simpl app. rewrite psum_nil. simpl last. ring.
  - simpl app. rewrite !psum_cons, IH, last_cons_default. ring. Qed.

Lemma csum_closed f (a : RP) t : csum f (a :: t) = psum f a (t ++ [a]).
Proof. unfold cyc_sum. rewrite psum_app, psum_cons, (psum_cons f _ a []), psum_nil, last_cons_default. ring. Qed.

Lemma csum_rot1 f (a : RP) l : csum f (l ++ [a]) = csum f (a :: l).
Proof. destruct l as [|b l]; [reflexivity|].
  change ((b :: l) ++ [a]) with (b :: (l ++ [a])). rewrite !csum_closed.
  change ((b :: l) ++ [a]) with (b :: (l ++ [a])). rewrite psum_cons, psum_app.
  rewrite last_last, psum_cons, psum_nil. ring. Qed.

Lemma csum_rot f (l1 l2 : list RP) : csum f (l2 ++ l1) = csum f (l1 ++ l2).
Proof. revert l2; induction l1 as [|a l1 IH]; intros l2.
  - rewrite app_nil_r. reflexivity.
  - change (l2 ++ a :: l1) with (l2 ++ [a] ++ l1). rewrite app_assoc, IH, app_assoc, csum_rot1. reflexivity. Qed.

Lemma psum_rev f (a b : RP) l : psum f a (l ++ [b]) = psum (fun x y => f y x) b (rev l ++ [a]).
Proof. revert a; induction l as [|p t IH]; intros a.
  - simpl. ring.
  - change ((p :: t) ++ [b]) with (p :: (t ++ [b])). rewrite psum_cons, IH.
    simpl rev. rewrite <- app_assoc. rewrite (psum_app _ b (rev t) ([p] ++ [a])).
    rewrite (psum_app _ b (rev t) [p]). simpl app. rewrite !psum_cons, !psum_nil. ring. Qed.

Lemma csum_rev f (l : list RP) : csum f (rev l) = csum (fun x y => f y x) l.
Proof. destruct l as [|a t]; [reflexivity|]. simpl rev. rewrite csum_rot1, !csum_closed.
  rewrite psum_rev, rev_involutive. reflexivity. Qed.

Lemma psum_ext f g (a : RP) l : (forall x y, f x y = g x y) -> psum f a l = psum g a l.
Proof. intros H; revert a; induction l as [|p t IH]; intros a; [reflexivity|]. rewrite !psum_cons, H, IH. reflexivity. Qed.
Lemma csum_ext f g (l : list RP) : (forall x y, f x y = g x y) -> csum f l = csum g l.
Proof. intros H. destruct l; [reflexivity|]. apply psum_ext, H. Qed.

Lemma psum_lin c f g (a : RP) l : psum (fun x y => c * f x y + g x y) a l = c * psum f a l + psum g a l.
Proof. revert a; induction l as [|p t IH]; intros a; [simpl; ring|]. rewrite !psum_cons, IH. ring. Qed.
Lemma csum_lin c f g (l : list RP) : csum (fun x y => c * f x y + g x y) l = c * csum f l + csum g l.
Proof. destruct l; [simpl; ring|]. apply psum_lin. Qed.

Lemma psum_tel (h : RP -> R) a l : psum (fun x y => h y - h x) a l = h (last l a) - h a.
Proof. revert a; induction l as [|p t IH]; intros a; [simpl; ring|]. rewrite psum_cons, IH, last_cons_default. ring. Qed.
Lemma csum_tel (h : RP -> R) l : csum (fun x y => h y - h x) l = 0.
Proof. destruct l as [|p t]; [reflexivity|]. unfold cyc_sum. rewrite psum_tel.
  rewrite (last_nonempty_indep (p :: t) (last (p :: t) p) p) by discriminate. ring. Qed.

Lemma psum_map f (g : RP -> RP) a l : psum f (g a) (map g l) = psum (fun x y => f (g x) (g y)) a l.
Proof. revert a; induction l as [|p t IH]; intros a; [reflexivity|]. simpl map. rewrite !psum_cons, IH. reflexivity. Qed.
Lemma csum_map f (g : RP -> RP) l : csum f (map g l) = csum (fun x y => f (g x) (g y)) l.
Proof. destruct l as [|p t]; [reflexivity|].
  change (csum f (map g (p :: t))) with (psum f (last (map g (p :: t)) (g p)) (map g (p :: t))).
  rewrite last_map, psum_map. reflexivity. Qed.

(* ---------------------------------------------------------------- area *)
Lemma area_term_R (a p : RP) : area_term ROps a p = fst p * snd a - snd p * fst a.
Proof. reflexivity. Qed.
Lemma cross_R (a p : RP) : cross ROps a p = fst a * snd p - fst p * snd a.
Proof. reflexivity. Qed.

Lemma area2_minus_shoelace (l : list RP) : area2 ROps l = - shoelace2 ROps l.
Proof. unfold area2, shoelace2.
  rewrite (csum_ext (area_term ROps) (fun x y => (-1) * cross ROps x y + 0)).
  - rewrite (csum_lin (-1) (cross ROps) (fun _ _ => 0)).
    rewrite (csum_ext (fun _ _ => 0) (fun x y => (fun _ => 0) y - (fun _ => 0) x)) by (intros; ring).
    rewrite csum_tel. ring.
  - intros x y. rewrite area_term_R, cross_R. ring. Qed.

Lemma csum_opp f (l : list RP) : csum (fun x y => - f x y) l = - csum f l.
Proof. rewrite (csum_ext _ (fun x y => (-1) * f x y + (fun _ => 0) y - (fun _ => 0) x)) by (intros; ring).
  rewrite (csum_ext _ (fun x y => (-1) * f x y + ((fun _ => 0) y - (fun _ => 0) x))) by (intros; ring).
  rewrite csum_lin, csum_tel. ring. Qed.

Lemma area_reverse (l : list RP) : area2 ROps (rev l) = - area2 ROps l.
Proof. unfold area2. rewrite csum_rev. rewrite <- csum_opp. apply csum_ext. intros x y. rewrite !area_term_R. ring. Qed.

Lemma area_shift (l1 l2 : list RP) : area2 ROps (l2 ++ l1) = area2 ROps (l1 ++ l2).
Proof. apply csum_rot. Qed.

Lemma area_translate (t : RP) (l : list RP) : area2 ROps (map (ptrans ROps t) l) = area2 ROps l.
Proof. unfold area2. rewrite csum_map.
  rewrite (csum_ext _ (fun x y => 1 * area_term ROps x y + ((fun q => snd t * fst q - fst t * snd q) y - (fun q => snd t * fst q - fst t * snd q) x))).
  - rewrite csum_lin, csum_tel. ring.
  - intros [xa ya] [xp yp]. destruct t as [tx ty]. rewrite !area_term_R. unfold ptrans, px, py. simpl. ring. Qed.

Lemma area_scale (s : R) (l : list RP) : area2 ROps (map (pscale ROps s) l) = s * s * area2 ROps l.
Proof. unfold area2. rewrite csum_map.
  rewrite (csum_ext _ (fun x y => (s * s) * area_term ROps x y + ((fun _ => 0) y - (fun _ => 0) x))).
  - rewrite csum_lin, csum_tel. ring.
  - intros [xa ya] [xp yp]. rewrite !area_term_R. unfold pscale, px, py. simpl. ring. Qed.

(* ---------------------------------------------------------------- perimeter *)
Lemma sqdist_R (a p : RP) : sqdist ROps a p = (fst a - fst p) * (fst a - fst p) + (snd a - snd p) * (snd a - snd p).
Proof. reflexivity. Qed.
Lemma dist_R (a p : RP) : dist ROps a p = sqrt (sqdist ROps a p). Proof. reflexivity. Qed.
Lemma dist_sym (a p : RP) : dist ROps a p = dist ROps p a.
Proof. rewrite !dist_R. f_equal. rewrite !sqdist_R. ring. Qed.

Lemma perimeter_reverse (l : list RP) : perimeter ROps (rev l) = perimeter ROps l.
Proof. unfold perimeter. rewrite csum_rev. apply csum_ext. intros; apply dist_sym. Qed.
Lemma perimeter_shift (l1 l2 : list RP) : perimeter ROps (l2 ++ l1) = perimeter ROps (l1 ++ l2).
Proof. apply csum_rot. Qed.
Lemma perimeter_translate (t : RP) (l : list RP) : perimeter ROps (map (ptrans ROps t) l) = perimeter ROps l.
Proof. unfold perimeter. rewrite csum_map. apply csum_ext. intros [xa ya] [xp yp]. destruct t as [tx ty].
  rewrite !dist_R. f_equal. rewrite !sqdist_R. unfold ptrans, px, py. simpl. ring. Qed.
Lemma perimeter_scale (s : R) (l : list RP) : perimeter ROps (map (pscale ROps s) l) = Rabs s * perimeter ROps l.
Proof. unfold perimeter. rewrite csum_map.
  rewrite (csum_ext _ (fun x y => Rabs s * dist ROps x y + ((fun _ => 0) y - (fun _ => 0) x))).
  - rewrite csum_lin, csum_tel. ring.
  - intros [xa ya] [xp yp]. rewrite !dist_R.
    replace (sqdist ROps (pscale ROps s (xa, ya)) (pscale ROps s (xp, yp))) with (Rsqr s * sqdist ROps (xa, ya) (xp, yp)).
    + rewrite sqrt_mult_alt by apply Rle_0_sqr. rewrite sqrt_Rsqr_abs. ring.
    + rewrite !sqdist_R. unfold pscale, px, py, Rsqr. simpl. ring. Qed.

(* ---------------------------------------------------------------- additivity over a tissue *)
Fixpoint pairs_from (a : RP) (l : list RP) : list (RP * RP) :=
  match l with [] => [] | p :: t => (a, p) :: pairs_from p t end.
Definition dir_edges (l : list RP) : list (RP * RP) :=
  match l with [] => [] | p0 :: _ => pairs_from (last l p0) l end.
Definition sumR (l : list R) : R := fold_right Rplus 0 l.
Definition eterm (e : RP * RP) : R := area_term ROps (fst e) (snd e).
Definition eswap (e : RP * RP) : RP * RP := (snd e, fst e).

Lemma psum_pairs f a l : psum f a l = sumR (map (fun e => f (fst e) (snd e)) (pairs_from a l)).
Proof. revert a; induction l as [|p t IH]; intros a; [reflexivity|]. rewrite psum_cons, IH. reflexivity. Qed.
Lemma area2_edges (l : list RP) : area2 ROps l = sumR (map eterm (dir_edges l)).
Proof. destruct l as [|p t]; [reflexivity|]. unfold area2, cyc_sum, dir_edges. apply psum_pairs. Qed.

Lemma sumR_app l1 l2 : sumR (l1 ++ l2) = sumR l1 + sumR l2.
Proof. induction l1 as [|x t IH]; simpl; [ring|]. rewrite IH. ring. Qed.
Lemma sumR_perm l1 l2 : Permutation l1 l2 -> sumR l1 = sumR l2.
Proof. induction 1; simpl; lra. Qed.
Lemma sumR_concat_map {A} (f : A -> list R) (l : list A) : sumR (concat (map f l)) = sumR (map (fun x => sumR (f x)) l).
Proof. induction l as [|x t IH]; simpl; [reflexivity|]. rewrite sumR_app, IH. reflexivity. Qed.
Lemma eterm_swap_cancel E : sumR (map eterm (E ++ map eswap E)) = 0.
Proof. rewrite map_app, sumR_app, map_map. induction E as [|e t IH]; simpl; [ring|].
  destruct e as [[xa ya] [xp yp]]. unfold eterm at 1 3, eswap at 1. simpl fst; simpl snd. rewrite !area_term_R. simpl. lra. Qed.

Theorem areas_add_up (cells : list (list RP)) (outline : list RP) (E : list (RP * RP)) :
  Permutation (concat (map dir_edges cells)) (dir_edges outline ++ (E ++ map eswap E)) ->
  sumR (map (area2 ROps) cells) = area2 ROps outline.
Proof. intros HP.
  assert (H1 : sumR (map (area2 ROps) cells) = sumR (map eterm (concat (map dir_edges cells)))).
  { rewrite concat_map, map_map, sumR_concat_map. f_equal. apply map_ext. intros c. apply area2_edges. }
  rewrite H1, (sumR_perm _ _ (Permutation_map eterm HP)), map_app, sumR_app, eterm_swap_cancel, <- area2_edges. ring. Qed.

(* ---------------------------------------------------------------- navigation *)
Open Scope Z_scope.
Lemma index_of_nth (l : list Z) : NoDup l -> forall i v, nth_error l i = Some v -> index_of v l = Some i.
Proof. induction 1 as [|x t Hx Hnd IH]; intros i v Hi; [destruct i; discriminate|].
  destruct i as [|i]; simpl in Hi.
  - inversion Hi; subst. simpl. rewrite Z.eqb_refl. reflexivity.
  - simpl. destruct (Z.eqb_spec x v) as [->|Hne].
    + exfalso. apply Hx. eapply nth_error_In; eauto.
    + rewrite (IH i v Hi). reflexivity. Qed.

Lemma step_vertex_spec (l : list Z) s i v : NoDup l -> nth_error l i = Some v ->
  step_vertex l s v = nth_error l (Z.to_nat ((Z.of_nat i + s) mod Z.of_nat (length l))).
Proof. intros Hnd Hi. unfold step_vertex. rewrite (index_of_nth l Hnd i v Hi). reflexivity. Qed.

(* sign +1: the cyclic successor; sign -1: the cyclic predecessor *)
Theorem next_vertex_pos (l : list Z) i v : NoDup l -> nth_error l i = Some v ->
  next_vertex l 1 v = nth_error l ((i + 1) mod length l)%nat.
Proof. intros Hnd Hi. unfold next_vertex. rewrite (step_vertex_spec l 1 i v Hnd Hi). f_equal.
  assert (Hlen : (i < length l)%nat) by (apply nth_error_Some; congruence).
  rewrite <- (Nat2Z.id ((i + 1) mod length l)). f_equal. rewrite Nat2Z.inj_mod. f_equal. lia. Qed.

Theorem next_vertex_neg (l : list Z) i v : NoDup l -> nth_error l i = Some v ->
  next_vertex l (-1) v = nth_error l ((i + (length l - 1)) mod length l)%nat.
Proof. intros Hnd Hi. unfold next_vertex. rewrite (step_vertex_spec l (-1) i v Hnd Hi). f_equal.
  assert (Hlen : (i < length l)%nat) by (apply nth_error_Some; congruence).
  rewrite <- (Nat2Z.id ((i + (length l - 1)) mod length l)). f_equal. rewrite Nat2Z.inj_mod.
  replace (Z.of_nat (i + (length l - 1))) with (Z.of_nat i + -1 + 1 * Z.of_nat (length l)) by lia.
  rewrite Z.mod_add by lia. reflexivity. Qed.

Theorem prev_after_next (l : list Z) s v : NoDup l -> In v l -> (s = 1 \/ s = -1) ->
  exists w, next_vertex l s v = Some w /\ prev_vertex l s w = Some v.
Proof. intros Hnd Hin Hs. destruct (In_nth_error l v Hin) as [i Hi].
  assert (Hlen : (i < length l)%nat) by (apply nth_error_Some; congruence).
  set (n := Z.of_nat (length l)). assert (Hn : 0 < n) by (unfold n; lia).
  set (j := Z.to_nat ((Z.of_nat i + s) mod n)).
  assert (Hj : (j < length l)%nat).
  { unfold j. apply Nat2Z.inj_lt. rewrite Z2Nat.id by (apply Z.mod_pos_bound; lia). apply Z.mod_pos_bound; lia. }
  destruct (nth_error l j) as [w|] eqn:Hw; [|apply nth_error_None in Hw; lia].
  exists w. split.
  - unfold next_vertex. rewrite (step_vertex_spec l s i v Hnd Hi). exact Hw.
  - unfold prev_vertex. rewrite (step_vertex_spec l (- s) j w Hnd Hw). rewrite <- Hi. f_equal.
    unfold j. rewrite Z2Nat.id by (apply Z.mod_pos_bound; lia). fold n.
    rewrite Zplus_mod_idemp_l. replace (Z.of_nat i + s + - s) with (Z.of_nat i) by lia.
    rewrite Z.mod_small by lia. apply Nat2Z.id. Qed.

(* ---------------------------------------------------------------- neighbours *)
Lemma dedupZ_In x l : In x (dedupZ l) <-> In x l.
Proof. induction l as [|y t IH]; simpl; [tauto|].
  destruct (existsb (Z.eqb y) t) eqn:He.
  - rewrite IH. split; [tauto|]. intros [->|H]; [|exact H].
    apply existsb_exists in He. destruct He as [z [Hz Hyz]]. apply Z.eqb_eq in Hyz. subst. exact Hz.
  - simpl. rewrite IH. tauto. Qed.
Lemma dedupZ_NoDup l : NoDup (dedupZ l).
Proof. induction l as [|y t IH]; simpl; [constructor|].
  destruct (existsb (Z.eqb y) t) eqn:He; [exact IH|]. constructor; [|exact IH].
  rewrite dedupZ_In. intros Hin. assert (existsb (Z.eqb y) t = true); [|congruence].
  apply existsb_exists. exists y. split; [exact Hin|apply Z.eqb_refl]. Qed.

Theorem neighbours_exact cid (ll : list (list Z)) c :
  In c (neighbours cid ll) <-> c <> cid /\ exists l, In l ll /\ In c l.
Proof. unfold neighbours. rewrite filter_In, dedupZ_In, in_concat, negb_true_iff, Z.eqb_neq. tauto. Qed.
Theorem neighbours_nodup cid ll : NoDup (neighbours cid ll).
Proof. unfold neighbours. apply NoDup_filter, dedupZ_NoDup. Qed.
