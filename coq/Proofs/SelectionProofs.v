(* SelectionProofs.v -- the two premises of ResampleConsistency.resampled_cycle_joined follow from conditions on the mesh and the index
   function: interfaces without repeated vertex, an admissible index, interior vertices that belong to one interface only. *)
From Coq Require Import ZArith List Bool Lia Sorted.
From Forsys Require Import Model.PyList Model.Interfaces Model.Resample Proofs.InterfacesProofs Proofs.ShiftProofs Proofs.ResampleProofs Proofs.ResampleConsistency.
Import ListNotations.
Open Scope Z_scope.

(* ------------------------------------------------------------------ elements at strictly increasing positions form a subsequence *)
Lemma Subseq_nil {A} (l : list A) : Subseq [] l.
Proof. induction l; constructor; assumption. Qed.
Lemma Subseq_refl {A} (l : list A) : Subseq l l.
Proof. induction l; constructor; assumption. Qed.
Lemma Subseq_In {A} (s l : list A) x : Subseq s l -> In x s -> In x l.
Proof. induction 1 as [|y s l _ IH|y s l _ IH]; intros H; [destruct H|right; apply IH; exact H|destruct H as [-> | H]; [left; reflexivity|right; apply IH; exact H]]. Qed.

Lemma map_pred_positive (x : Z) t (js : list nat) : Forall (fun j => (0 < j)%nat) js ->
  map (fun j => nth j (x :: t) 0) js = map (fun j => nth j t 0) (map pred js).
Proof. induction 1 as [|j js Hj _ IH]; [reflexivity|]. cbn [map]. rewrite IH. f_equal. destruct j; [lia|reflexivity]. Qed.
Lemma sorted_map_pred (js : list nat) : StronglySorted lt js -> Forall (fun j => (0 < j)%nat) js -> StronglySorted lt (map pred js).
Proof. induction 1 as [|j js Hs IH Hall]; intros Hp; [constructor|]. inversion Hp as [|? ? Hj Hp']; subst. cbn [map]. constructor; [apply IH; exact Hp'|].
  apply Forall_map. rewrite Forall_forall in *. intros k Hk. specialize (Hall k Hk). specialize (Hp' k Hk). lia. Qed.
Lemma positions_subseq (e : list Z) : forall js, StronglySorted lt js -> Forall (fun j => (j < length e)%nat) js -> Subseq (map (fun j => nth j e 0) js) e.
Proof. induction e as [|x t IH]; intros js Hs Hb.
  - destruct js as [|j js]; [constructor|]. inversion Hb; subst. simpl in *. lia.
  - destruct js as [|j js]; [apply Subseq_nil|]. inversion Hs as [|? ? Hs' Hall]; subst. inversion Hb as [|? ? Hj Hb']; subst.
    assert (Hpos' : Forall (fun k => (0 < k)%nat) js) by (rewrite Forall_forall in *; intros k Hk; specialize (Hall k Hk); lia).
    assert (Hb'' : Forall (fun k => (k < length t)%nat) (map pred js)).
    { apply Forall_map. rewrite Forall_forall in *. intros k Hk. specialize (Hb' k Hk). specialize (Hpos' k Hk). simpl in Hb'. lia. }
    destruct j as [|j].
    + change (map (fun j => nth j (x :: t) 0) (0%nat :: js)) with (x :: map (fun j => nth j (x :: t) 0) js).
      rewrite (map_pred_positive x t js Hpos'). apply SS_take. apply IH; [apply sorted_map_pred; assumption|exact Hb''].
    + assert (Hpos : Forall (fun k => (0 < k)%nat) (S j :: js)) by (constructor; [lia|exact Hpos']).
      rewrite (map_pred_positive x t (S j :: js) Hpos). apply SS_skip. apply IH.
      * apply sorted_map_pred; [exact Hs|exact Hpos].
      * cbn [map pred]. constructor; [simpl in Hj; lia|exact Hb'']. Qed.

Lemma increasing_nth_sorted (js : list nat) : (forall a b, (a < b < length js)%nat -> (nth a js 0 < nth b js 0)%nat) -> StronglySorted lt js.
Proof. induction js as [|j js IH]; intros H; [constructor|]. constructor.
  - apply IH. intros a b Hab. specialize (H (S a) (S b)). simpl in H. apply H. lia.
  - apply Forall_forall. intros k Hk. destruct (In_nth js k 0%nat Hk) as [i [Hi <-]]. specialize (H 0%nat (S i)). simpl in H. apply H. lia. Qed.

(* the resampled interface is a subsequence of the interface *)
Theorem select_iface_subseq idx ne e : 1 <= ne -> (ne < Z.of_nat (length e) -> admissible idx (Z.of_nat (length e)) ne) -> Subseq (select_iface idx ne e) e.
Proof. intros Hne Hadm. destruct (Z.ltb_spec ne (Z.of_nat (length e))) as [Hlong | Hshort]; [|rewrite select_short_identity by lia; apply Subseq_refl].
  destruct (select_positions idx ne e Hne Hlong (Hadm Hlong)) as [Hsel [Hinc [_ Hlast]]]. rewrite Hsel.
  set (js := map (fun i => Z.to_nat (idx (Z.of_nat (length e)) ne (Z.of_nat i))) (seq 0 (Z.to_nat ne)) ++ [(length e - 1)%nat]) in *.
  assert (Hs : StronglySorted lt js) by (apply increasing_nth_sorted; exact Hinc).
  apply positions_subseq; [exact Hs|].
  (* every position is at most the last one, which is length e - 1 *)
  apply Forall_forall. intros k Hk. destruct (In_nth js k 0%nat Hk) as [i [Hi <-]].
  assert (Hlen : (0 < length js)%nat) by lia.
  assert (HL : last js 0%nat = nth (length js - 1) js 0%nat).
  { clear -Hlen. induction js as [|x t IH]; [simpl in Hlen; lia|]. destruct t as [|y t']; [reflexivity|].
    change (last (x :: y :: t') 0%nat) with (last (y :: t') 0%nat). rewrite IH by (simpl; lia). simpl length.
    replace (S (S (length t')) - 1)%nat with (S (S (length t') - 1)) by lia. reflexivity. }
  destruct (Nat.eq_dec i (length js - 1)) as [-> | Hne'].
  - rewrite <- HL, Hlast. lia.
  - assert (nth i js 0 < nth (length js - 1) js 0)%nat by (apply Hinc; lia). rewrite <- HL, Hlast in H. lia. Qed.

(* ------------------------------------------------------------------ filtering by membership in a subsequence *)
Lemma filter_subseq_eq (keep : Z -> bool) (f s : list Z) : NoDup f -> Subseq s f -> (forall v, In v f -> (keep v = true <-> In v s)) -> filter keep f = s.
Proof. intros Hnd Hsub. induction Hsub as [|x s l Hsub IH|x s l Hsub IH]; intros Hk; [reflexivity| |].
  - inversion Hnd as [|? ? Hx Hnd']; subst. cbn [filter].
    assert (keep x = false).
    { destruct (keep x) eqn:E; [|reflexivity]. exfalso. apply Hx. apply (Subseq_In s l x Hsub). apply Hk; [left; reflexivity|exact E]. }
    rewrite H. apply IH; [exact Hnd'|]. intros v Hv. apply Hk. right. exact Hv.
  - inversion Hnd as [|? ? Hx Hnd']; subst. cbn [filter].
    assert (keep x = true) by (apply Hk; left; reflexivity). rewrite H. f_equal. apply IH; [exact Hnd'|].
    intros v Hv. rewrite (Hk v (or_intror Hv)). split; [intros [-> | Hs]; [contradiction|exact Hs]|intros Hs; right; exact Hs]. Qed.

(* ------------------------------------------------------------------ the premises from mesh conditions *)
Section Mesh.
  Variable idx : Z -> Z -> Z -> Z.
  Variable junc : Z -> bool.
  Variable ne : Z.
  Variable bedges : list (list Z).
  Let narr := n_edge_array idx ne bedges.
  Let keep := fun v => memZ v (concat narr).

  Hypothesis ne_pos : 1 <= ne.
  Hypothesis interfaces_simple : forall f, In f bedges -> NoDup f /\ (ne < Z.of_nat (length f) -> admissible idx (Z.of_nat (length f)) ne).
  (* a vertex that some resampled interface names is named by the resampling of every interface it lies on: junctions are ends (always
     kept), interior vertices lie on one interface only *)
  Hypothesis named_vertices_private : forall f f' v, In f bedges -> In f' bedges -> In v f -> In v (select_iface idx ne f') -> In v (select_iface idx ne f).

  Theorem private_gives_selection f : In f bedges -> filter keep f = select_iface idx ne f.
  Proof. intros Hf. destruct (interfaces_simple f Hf) as [Hnd Hadm]. apply filter_subseq_eq; [exact Hnd|apply select_iface_subseq; assumption|].
    intros v Hv. unfold keep. rewrite memZ_spec. split.
    - intros Hin. apply in_concat in Hin. destruct Hin as [s [Hs Hvs]]. unfold narr, n_edge_array in Hs. apply in_map_iff in Hs. destruct Hs as [f' [<- Hf']].
      apply (named_vertices_private f f' v Hf Hf' Hv Hvs).
    - intros Hin. apply in_concat. exists (select_iface idx ne f). split; [unfold narr, n_edge_array; apply in_map; exact Hf|exact Hin]. Qed.

  (* every junction is an end of an interface (C08: interfaces run from junction to junction), and ends survive *)
  Hypothesis junctions_are_ends : forall v, junc v = true -> exists f, In f bedges /\ f <> [] /\ (v = hd 0 f \/ v = last f 0) /\
    idx (Z.of_nat (length f)) ne 0 = 0.
  Theorem junctions_are_kept v : junc v = true -> keep v = true.
  Proof. intros Hj. destruct (junctions_are_ends v Hj) as [f [Hf [Hne [Hend H0]]]]. unfold keep. apply memZ_spec.
    destruct (ends_survive idx ne bedges f ne_pos Hf Hne H0) as [H1 H2]. destruct Hend as [-> | ->]; assumption. Qed.
End Mesh.

(* consecutive vertices of every resampled cell cycle are joined by a rebuilt mesh edge -- from conditions on the mesh alone *)
Theorem resampled_cycle_joined_on_simple_meshes idx junc ne st :
  let bedges := create_edges_new junc (cs st) in
  let narr := n_edge_array idx ne bedges in
  1 <= ne ->
  (forall f, In f bedges -> NoDup f /\ (ne < Z.of_nat (length f) -> admissible idx (Z.of_nat (length f)) ne)) ->
  (forall f f' v, In f bedges -> In f' bedges -> In v f -> In v (select_iface idx ne f') -> In v (select_iface idx ne f)) ->
  (forall v, junc v = true -> exists f, In f bedges /\ f <> [] /\ (v = hd 0 f \/ v = last f 0) /\ idx (Z.of_nat (length f)) ne 0 = 0) ->
  forall cid cyc a b, In (cid, cyc) (cs (resample_core st narr)) -> (forall old, In (cid, old) (cs st) -> existsb junc old = true) ->
  cyc_adjacent a b cyc -> joined (es (resample_core st narr)) a b.
Proof. intros bedges narr Hne Hsimple Hpriv Hends cid cyc a b Hin Hj Hab.
  apply (resampled_cycle_joined idx junc ne st) with (cid := cid) (cyc := cyc); try assumption.
  - intros v Hv. apply (junctions_are_kept idx junc ne bedges Hne Hends v Hv).
  - intros f Hf. apply (private_gives_selection idx ne bedges Hne Hsimple Hpriv f Hf). Qed.
