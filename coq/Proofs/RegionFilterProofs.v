(* RegionFilterProofs.v -- which Voronoi regions survive the distance cut-off (C19: "one cell for every bounded Voronoi region whose
   diameter is below the distance cut-off"). *)
From Coq Require Import ZArith QArith List Bool Lia Permutation.
From Forsys Require Import Model.PyList Model.ForceSys Model.RegionFilter Proofs.InterfacesProofs Proofs.ForceSysProofs.
Import ListNotations.
Open Scope Z_scope.

(* list.remove of every flagged element of a duplicate-free list is a filter (the pattern of ForceSysProofs.angle_fold_inv, any predicate) *)
Lemma fold_remove_inv (d : list Z -> bool) p s : NoDup (p ++ s) ->
  fold_left (fun acc e => if d e then remove_first_list e acc else acc) s (filter (fun e => negb (d e)) p ++ s) = filter (fun e => negb (d e)) (p ++ s).
Proof. revert p; induction s as [|e s IH]; intros p Hnd; simpl.
  - rewrite !app_nil_r. reflexivity.
  - assert (Hnd' : NoDup ((p ++ [e]) ++ s)) by (rewrite <- app_assoc; exact Hnd).
    specialize (IH (p ++ [e]) Hnd'). rewrite filter_app in IH. simpl in IH.
    replace (p ++ e :: s) with ((p ++ [e]) ++ s) by (rewrite <- app_assoc; reflexivity). rewrite <- IH.
    destruct (d e) eqn:B; simpl.
    + rewrite app_nil_r. rewrite remove_first_list_app; [reflexivity|].
      intros Hin. apply filter_In in Hin. destruct Hin as [Hin _].
      apply NoDup_remove_2 in Hnd. apply Hnd. apply in_or_app. left. exact Hin.
    + rewrite <- app_assoc. reflexivity. Qed.

Theorem remove_infinite_regions_is_filter verts max2 regions : NoDup regions ->
  remove_infinite_regions verts max2 regions = filter (fun c => negb (deletable verts max2 c)) regions.
Proof. intros H. unfold remove_infinite_regions. apply (fold_remove_inv (deletable verts max2) [] regions). exact H. Qed.

Lemma qltb_true a b : qltb a b = true <-> (a < b)%Q.
Proof. unfold qltb. rewrite negb_true_iff. split.
  - intros H. apply Qnot_le_lt. intros Hle. apply Qle_bool_iff in Hle. congruence.
  - intros H. destruct (Qle_bool b a) eqn:E; [|reflexivity]. apply Qle_bool_iff in E. exfalso. exact (Qlt_not_le _ _ H E). Qed.

(* a region is too wide exactly when two of its corners are further apart than the cut-off *)
Theorem region_wide_spec verts max2 c : region_wide verts max2 c = true <->
  exists i j, In i c /\ In j c /\ (max2 < qsqdist (verts i) (verts j))%Q.
Proof. unfold region_wide. rewrite existsb_exists. split.
  - intros [i [Hi H]]. apply existsb_exists in H. destruct H as [j [Hj H]]. exists i, j. repeat split; try assumption. apply qltb_true. exact H.
  - intros [i [j [Hi [Hj H]]]]. exists i. split; [exact Hi|]. apply existsb_exists. exists j. split; [exact Hj|apply qltb_true; exact H]. Qed.

(* ... so the verdict depends on the SET of corners only: not on the order Qhull lists them in, nor on which one is listed last *)
Theorem region_wide_order_independent verts max2 c c' : (forall i, In i c <-> In i c') -> region_wide verts max2 c = region_wide verts max2 c'.
Proof. intros H. destruct (region_wide verts max2 c) eqn:E.
  - symmetry. apply region_wide_spec. apply region_wide_spec in E. destruct E as [i [j [Hi [Hj Hd]]]]. exists i, j. repeat split; [apply H; exact Hi|apply H; exact Hj|exact Hd].
  - destruct (region_wide verts max2 c') eqn:E'; [|reflexivity]. apply region_wide_spec in E'. destruct E' as [i [j [Hi [Hj Hd]]]].
    assert (region_wide verts max2 c = true) by (apply region_wide_spec; exists i, j; repeat split; [apply H; exact Hi|apply H; exact Hj|exact Hd]). congruence. Qed.
Corollary region_wide_permutation verts max2 c c' : Permutation c c' -> region_wide verts max2 c = region_wide verts max2 c'.
Proof. intros P. apply region_wide_order_independent. intros i. split; [apply Permutation_in; exact P|apply Permutation_in; apply Permutation_sym; exact P]. Qed.

(* a larger cut-off never drops more *)
Theorem region_wide_monotone verts (m m' : Q) c : (m <= m')%Q -> region_wide verts m' c = true -> region_wide verts m c = true.
Proof. intros Hm H. apply region_wide_spec in H. apply region_wide_spec. destruct H as [i [j [Hi [Hj Hd]]]]. exists i, j. repeat split; try assumption.
  apply Qle_lt_trans with m'; assumption. Qed.

(* the regions that become cells: bounded (no corner at infinity), non-empty, and every two corners within the cut-off *)
Theorem cell_regions_spec verts max2 regions c : NoDup regions ->
  (In c (cell_regions verts max2 regions) <->
   In c regions /\ c <> [] /\ ~ In (-1) c /\ forall i j, In i c -> In j c -> (qsqdist (verts i) (verts j) <= max2)%Q).
Proof. intros Hnd. unfold cell_regions. rewrite (remove_infinite_regions_is_filter verts max2 regions Hnd). rewrite !filter_In.
  unfold deletable. split.
  - intros [[Hin Hdel] Hb]. apply andb_true_iff in Hb. destruct Hb as [Hne Hinf]. rewrite Hne, Hinf in Hdel. cbn [andb] in Hdel.
    apply negb_true_iff in Hdel. split; [exact Hin|]. split; [intros E; subst c; discriminate|]. split.
    + intros H. apply negb_true_iff in Hinf. apply memZ_spec in H. congruence.
    + intros i j Hi Hj. apply Qnot_lt_le. intros Hlt. assert (region_wide verts max2 c = true) by (apply region_wide_spec; exists i, j; tauto). congruence.
  - intros [Hin [Hne [Hinf Hd]]].
    assert (H1 : negb (Nat.eqb (length c) 0) = true) by (destruct c; [congruence|reflexivity]).
    assert (H2 : negb (memZ (-1) c) = true) by (apply negb_true_iff; destruct (memZ (-1) c) eqn:E; [apply memZ_spec in E; contradiction|reflexivity]).
    assert (H3 : region_wide verts max2 c = false).
    { destruct (region_wide verts max2 c) eqn:E; [|reflexivity]. apply region_wide_spec in E. destruct E as [i [j [Hi [Hj Hlt]]]].
      exfalso. exact (Qlt_not_le _ _ Hlt (Hd i j Hi Hj)). }
    rewrite H1, H2, H3. cbn [andb negb]. tauto. Qed.
