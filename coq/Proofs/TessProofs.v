From Coq Require Import ZArith QArith List Bool Lia.
From Forsys Require Import Model.Tessellation.
Import ListNotations.
Open Scope Z_scope.

Lemma find_vertex_app v d k p : find_vertex v d = None -> pt_eqb p v = true -> find_vertex v (d ++ [(k, p)]) = Some k.
Proof. induction d as [|[k' p'] t IH]; simpl; intros H Hp; [rewrite Hp; reflexivity|].
  destruct (pt_eqb p' v); [discriminate|]. apply IH; assumption. Qed.
Lemma find_vertex_app_some v d j x : find_vertex v d = Some j -> find_vertex v (d ++ x) = Some j.
Proof. induction d as [|[k' p'] t IH]; simpl; intros H; [discriminate|]. destruct (pt_eqb p' v); [exact H|]. apply IH, H. Qed.
Lemma pt_eqb_refl p : pt_eqb p p = true.
Proof. unfold pt_eqb. apply andb_true_iff. split; apply Qeq_bool_iff; reflexivity. Qed.

(* identity by rounded coordinates: asking again for the same point returns the same id, and ids already handed out never change *)
Theorem vertex_interning v d k d' : get_vertex_number v d = (k, d') ->
  find_vertex v d' = Some k /\ (forall w j, find_vertex w d = Some j -> find_vertex w d' = Some j) /\ (exists x, d' = d ++ x).
Proof. unfold get_vertex_number. destruct (find_vertex v d) as [j|] eqn:F; intros H; inversion H; subst.
  - split; [exact F|]. split; [auto|exists []; rewrite app_nil_r; reflexivity].
  - split; [apply find_vertex_app; [exact F|apply pt_eqb_refl]|]. split; [intros w j Hw; apply find_vertex_app_some; exact Hw|eexists; reflexivity]. Qed.
Corollary same_point_same_id v d k d' k2 d2 : get_vertex_number v d = (k, d') -> get_vertex_number v d' = (k2, d2) -> k2 = k /\ d2 = d'.
Proof. intros H1 H2. destruct (vertex_interning v d k d' H1) as [F _]. unfold get_vertex_number in H2. rewrite F in H2. inversion H2. split; reflexivity. Qed.

Lemma pair_eqb_refl e : pair_eqb e e = true. Proof. unfold pair_eqb. rewrite !Z.eqb_refl. reflexivity. Qed.
Lemma find_edge_app e d k : find_edge e d = None -> find_edge e (d ++ [(k, e)]) = Some k.
Proof. induction d as [|[k' p'] t IH]; simpl; intros H; [rewrite pair_eqb_refl; reflexivity|]. destruct (pair_eqb p' e); [discriminate|]. apply IH, H. Qed.
Lemma find_edge_app_none e e' d k : find_edge e d = None -> pair_eqb e' e = false -> find_edge e (d ++ [(k, e')]) = None.
Proof. induction d as [|[k' p'] t IH]; simpl; intros H Hne; [rewrite Hne; reflexivity|]. destruct (pair_eqb p' e); [discriminate|]. apply IH; assumption. Qed.

(* neighbouring regions walk their common ridge in opposite directions: the second one gets minus the id the first one was given,
   i.e. the two cells share that mesh edge *)
Theorem shared_ridge_shared_edge a b d k d' : a <> b -> find_edge (b, a) d = None ->
  get_enum (a, b) d = (k, d') -> 0 < k -> get_enum (b, a) d' = (- k, d').
Proof. intros Hab Hrev H Hk. unfold get_enum in H. destruct (find_edge (a, b) d) as [j|] eqn:F.
  - inversion H; subst. unfold get_enum. rewrite Hrev. simpl. rewrite F. reflexivity.
  - simpl in H. rewrite Hrev in H. inversion H; subst. unfold get_enum. simpl.
    rewrite (find_edge_app_none (b, a) (a, b) d _ Hrev).
    + rewrite (find_edge_app (a, b) d _ F). reflexivity.
    + unfold pair_eqb. simpl. destruct (Z.eqb_spec a b); [contradiction|reflexivity]. Qed.

(* the same region walking the same ridge again gets the same id *)
Theorem same_edge_same_id e d k d' : get_enum e d = (k, d') -> 0 < k -> get_enum e d' = (k, d').
Proof. intros H Hk. unfold get_enum in H. destruct (find_edge e d) as [j|] eqn:F.
  - inversion H; subst. unfold get_enum. rewrite F. reflexivity.
  - destruct (find_edge (snd e, fst e) d) as [j|] eqn:G.
    + inversion H; subst. unfold get_enum. rewrite F, G. reflexivity.
    + inversion H; subst. unfold get_enum. rewrite (find_edge_app e d _ F). reflexivity. Qed.

(* create_lattice stores a cell with negative key reversed and under the absolute key *)
Theorem lattice_cells_keys st : map fst (lattice_cells st) = map (fun kc => Z.abs (fst kc)) (tc st).
Proof. unfold lattice_cells. rewrite map_map. reflexivity. Qed.
