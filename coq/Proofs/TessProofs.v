From Coq Require Import ZArith QArith List Bool Lia.
From Forsys Require Import Model.Tessellation.
Import ListNotations.
Open Scope Z_scope.

Lemma find_vertex_app v d k p : find_vertex v d = None -> pt_eqb p v = true -> find_vertex v (d ++ [(k, p)]) = Some k.
Proof. induction d as [|[k' p'] t IH]; simpl; intros H Hp; [rewrite Hp; reflexivity|].
  destruct (pt_eqb p' v); [discriminate|]. apply IH; assumption. Qed.
Lemma find_vertex_app_some v d j x : find_vertex v d = Some j -> find_vertex v (d ++ x) = Some j.
Proof. induction d as [|[k' p'] t IH]; simpl; intros H; [discriminate|]. destruct (pt_eqb p' v); [exact H|]. apply IH, H. Qed.
Lemma pt_eqb_refl p : pt_eqb p p = true.
Proof. unfold pt_eqb. apply andb_true_iff. split; apply Qeq_bool_iff; reflexivity. Qed.

(* identity by rounded coordinates: asking again for the same point returns the same id, and ids already handed out never change *)
Theorem vertex_interning v d k d' : get_vertex_number v d = (k, d') ->
  find_vertex v d' = Some k /\ (forall w j, find_vertex w d = Some j -> find_vertex w d' = Some j) /\ (exists x, d' = d ++ x).
Proof. unfold get_vertex_number. destruct (find_vertex v d) as [j|] eqn:F; intros H; inversion H; subst.
  - split; [exact F|]. split; [auto|exists []; rewrite app_nil_r; reflexivity].
  - split; [apply find_vertex_app; [exact F|apply pt_eqb_refl]|]. split; [intros w j Hw; apply find_vertex_app_some; exact Hw|eexists; reflexivity]. Qed.
Corollary same_point_same_id v d k d' k2 d2 : get_vertex_number v d = (k, d') -> get_vertex_number v d' = (k2, d2) -> k2 = k /\ d2 = d'.
Proof. intros H1 H2. destruct (vertex_interning v d k d' H1) as [F _]. unfold get_vertex_number in H2. rewrite F in H2. inversion H2. split; reflexivity. Qed.

Lemma pair_eqb_refl e : pair_eqb e e = true. Proof. unfold pair_eqb. rewrite !Z.eqb_refl. reflexivity. Qed.
Lemma find_edge_app e d k : find_edge e d = None -> find_edge e (d ++ [(k, e)]) = Some k.
Proof. induction d as [|[k' p'] t IH]; simpl; intros H; [rewrite pair_eqb_refl; reflexivity|]. destruct (pair_eqb p' e); [discriminate|]. apply IH, H. Qed.
Lemma find_edge_app_none e e' d k : find_edge e d = None -> pair_eqb e' e = false -> find_edge e (d ++ [(k, e')]) = None.
Proof. induction d as [|[k' p'] t IH]; simpl; intros H Hne; [rewrite Hne; reflexivity|]. destruct (pair_eqb p' e); [discriminate|]. apply IH; assumption. Qed.

(* neighbouring regions walk their common ridge in opposite directions: the second one gets minus the id the first one was given,
   i.e. the two cells share that mesh edge *)
Theorem shared_ridge_shared_edge a b d k d' : a <> b -> find_edge (b, a) d = None ->
  get_enum (a, b) d = (k, d') -> 0 < k -> get_enum (b, a) d' = (- k, d').
Proof. intros Hab Hrev H Hk. unfold get_enum in H. destruct (find_edge (a, b) d) as [j|] eqn:F.
  - inversion H; subst. unfold get_enum. rewrite Hrev. simpl. rewrite F. reflexivity.
  - simpl in H. rewrite Hrev in H. inversion H; subst. unfold get_enum. simpl.
    rewrite (find_edge_app_none (b, a) (a, b) d _ Hrev).
    + rewrite (find_edge_app (a, b) d _ F). reflexivity.
    + unfold pair_eqb. simpl. destruct (Z.eqb_spec a b); [contradiction|reflexivity]. Qed.

(* the same region walking the same ridge again gets the same id *)
Theorem same_edge_same_id e d k d' : get_enum e d = (k, d') -> 0 < k -> get_enum e d' = (k, d').
Proof. intros H Hk. unfold get_enum in H. destruct (find_edge e d) as [j|] eqn:F.
  - inversion H; subst. unfold get_enum. rewrite F. reflexivity.
  - destruct (find_edge (snd e, fst e) d) as [j|] eqn:G.
    + inversion H; subst. unfold get_enum. rewrite F, G. reflexivity.
    + inversion H; subst. unfold get_enum. rewrite (find_edge_app e d _ F). reflexivity. Qed.

(* create_lattice stores a cell with negative key reversed and under the absolute key *)
Theorem lattice_cells_keys st : map fst (lattice_cells st) = map (fun kc => Z.abs (fst kc)) (tc st).
Proof. unfold lattice_cells. rewrite map_map. reflexivity. Qed.

(* ---------------------------------------------------------------- the vertex list of a region is the doubled list of its corner numbers *)
Fixpoint dbl {A} (a : A) (l : list A) : list A := match l with [] => [] | p :: t => a :: p :: dbl p t end.
(* number of a point in a vertex dictionary *)
Definition numbered (vs : list (Z * pt)) (c : pt) (n : Z) : Prop := find_vertex c vs = Some n.

Lemma region_edges_cons2 a b t vs es : region_edges (a :: b :: t) vs es =
  let '(n1, vs1) := get_vertex_number a vs in
  let '(n2, vs2) := get_vertex_number b vs1 in
  let '(en, es1) := get_enum (n1, n2) es in
  let '(ens, vlist, vs3, es2) := region_edges (b :: t) vs2 es1 in
  (en :: ens, n1 :: n2 :: vlist, vs3, es2).
Proof. reflexivity. Qed.

Lemma region_edges_vlist : forall corners vs es ens vlist vs' es',
  region_edges corners vs es = (ens, vlist, vs', es') ->
  (forall w j, find_vertex w vs = Some j -> find_vertex w vs' = Some j) /\
  match corners with
  | [] => vlist = []
  | c0 :: rest => exists n0 ns, length ns = length rest /\ vlist = dbl n0 ns /\
                  (rest <> [] -> numbered vs' c0 n0) /\ Forall2 (numbered vs') rest ns
  end.
Proof.
  induction corners as [|a t IH]; intros vs es ens vlist vs' es' H.
  - cbn in H. inversion H; subst. split; [auto|reflexivity].
  - destruct t as [|b t'].
    + cbn in H. inversion H; subst. split; [auto|]. exists 0, []. repeat split; [congruence|constructor].
    + rewrite region_edges_cons2 in H.
      destruct (get_vertex_number a vs) as [n1 vs1] eqn:G1.
      destruct (get_vertex_number b vs1) as [n2 vs2] eqn:G2.
      destruct (get_enum (n1, n2) es) as [en es1] eqn:GE.
      destruct (region_edges (b :: t') vs2 es1) as [[[ens0 vl0] vs3] es2] eqn:R.
      injection H as E1 E2 E3 E4. subst ens vlist vs' es'.
      destruct (vertex_interning a vs n1 vs1 G1) as [F1 [K1 _]].
      destruct (vertex_interning b vs1 n2 vs2 G2) as [F2 [K2 _]].
      destruct (IH vs2 es1 ens0 vl0 vs3 es2 R) as [K3 Hshape].
      split; [intros w j Hw; apply K3, K2, K1, Hw|].
      destruct Hshape as [m0 [ms [Hlen [Hvl [Hm0 Hms]]]]].
      assert (Fa : numbered vs3 a n1) by (apply K3, K2, F1).
      assert (Fb : numbered vs3 b n2) by (apply K3, F2).
      exists n1, (n2 :: ms). split; [cbn [length]; now rewrite Hlen|]. split.
      * (* the next step starts at the number b received in this step *)
        cbn [dbl]. f_equal. f_equal. rewrite Hvl. destruct t' as [|c t''].
        -- destruct ms; [reflexivity|discriminate].
        -- destruct ms as [|m1 ms']; [discriminate|]. cbn [dbl]. f_equal.
           specialize (Hm0 ltac:(discriminate)). unfold numbered in Hm0, Fb. congruence.
      * split; [intros _; exact Fa|]. constructor; [exact Fb|exact Hms].
Qed.
