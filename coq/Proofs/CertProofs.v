From Coq Require Import ZArith List Bool Lia Reals Lra Psatz.
From Forsys Require Import Model.Num Model.Cert.
Import ListNotations.
Open Scope R_scope.

Notation rdot := (vdot ROps).
Notation rmv := (mv ROps).
Notation rtmv := (tmv ROps).
Notation rsub := (vsub ROps).
Notation radd := (vadd ROps).
Notation rscale := (vscale ROps).
Notation rsqn := (sqn ROps).
Notation rsum := (vsum ROps).

Lemma rdot_nil_l b : rdot [] b = 0. Proof. reflexivity. Qed.
Lemma rdot_nil_r a : rdot a [] = 0. Proof. destruct a; reflexivity. Qed.
Lemma rdot_cons x a y b : rdot (x :: a) (y :: b) = x * y + rdot a b. Proof. reflexivity. Qed.

Lemma rdot_comm a b : rdot a b = rdot b a.
Proof. revert b; induction a as [|x a IH]; intros [|y b]; try reflexivity. rewrite !rdot_cons, IH. ring. Qed.

Lemma rdot_scale_r c a b : rdot a (rscale c b) = c * rdot a b.
Proof. revert b; induction a as [|x a IH]; intros [|y b]; simpl; try (unfold vdot; simpl; ring).
  change (rscale c (y :: b)) with (c * y :: rscale c b). rewrite !rdot_cons, IH. ring. Qed.

Lemma rdot_add_r a u v : length u = length a -> length v = length a -> rdot a (radd u v) = rdot a u + rdot a v.
Proof. revert u v; induction a as [|x a IH]; intros [|p u] [|q v] Hu Hv; simpl in *; try lia; try (unfold vdot; simpl; ring).
  change (radd (p :: u) (q :: v)) with (p + q :: radd u v). rewrite !rdot_cons, IH by lia. ring. Qed.

Lemma radd_length u v : length u = length v -> length (radd u v) = length u.
Proof. intros H. unfold vadd. rewrite map_length, combine_length. lia. Qed.
Lemma rscale_length c u : length (rscale c u) = length u. Proof. apply map_length. Qed.
Lemma rdot_zeros a n : rdot a (vzeros ROps n) = 0.
Proof. revert n; induction a as [|x a IH]; intros [|n]; try reflexivity.
  change (vzeros ROps (S n)) with (0 :: vzeros ROps n). rewrite rdot_cons, IH. ring. Qed.

Definition rows_ok (n : nat) (A : list (list R)) : Prop := Forall (fun r => length r = n) A.

Lemma rtmv_length n A r : rows_ok n A -> length (rtmv n A r) = n.
Proof. revert r; induction A as [|row A IH]; intros r H; [destruct r; apply repeat_length|].
  destruct r as [|ri r]; [apply repeat_length|]. inversion H; subst. simpl.
  rewrite radd_length; rewrite rscale_length; [reflexivity|]. rewrite IH by assumption. reflexivity. Qed.

(* adjoint identity:  (A d) . r = d . (A^T r) *)
Lemma adjoint n A d r : rows_ok n A -> length d = n -> length r = length A -> rdot (rmv A d) r = rdot d (rtmv n A r).
Proof. revert r; induction A as [|row A IH]; intros r HA Hd Hr.
  - destruct r; [|discriminate]. simpl. rewrite rdot_zeros. reflexivity.
  - destruct r as [|ri r]; [discriminate|]. inversion HA; subst. simpl in Hr.
    change (rmv (row :: A) d) with (rdot row d :: rmv A d). rewrite rdot_cons. simpl rtmv.
    rewrite rdot_add_r; [|rewrite rscale_length; congruence|rewrite rtmv_length by assumption; reflexivity].
    rewrite rdot_scale_r, IH by (assumption || lia). rewrite (rdot_comm row d). ring. Qed.

Lemma rmv_length A x : length (rmv A x) = length A. Proof. apply map_length. Qed.

Lemma rdot_sub_l a b c : length a = length b -> rdot (rsub a b) c = rdot a c - rdot b c.
Proof. revert b c; induction a as [|x a IH]; intros [|y b] c H; simpl in *; try lia; [unfold vdot; simpl; ring|].
  destruct c as [|z c]; [rewrite !rdot_nil_r; ring|].
  change (rsub (x :: a) (y :: b)) with (x - y :: rsub a b). rewrite !rdot_cons, IH by lia. ring. Qed.

Lemma rmv_sub A y z : rows_ok (length y) A -> length z = length y -> rmv A (rsub y z) = rsub (rmv A y) (rmv A z).
Proof. intros HA Hl. induction A as [|row A IH]; [reflexivity|]. inversion HA; subst.
  change (rmv (row :: A) (rsub y z)) with (rdot row (rsub y z) :: rmv A (rsub y z)).
  change (rsub (rmv (row :: A) y) (rmv (row :: A) z)) with (rdot row y - rdot row z :: rsub (rmv A y) (rmv A z)).
  rewrite IH by assumption. f_equal. rewrite (rdot_comm row), rdot_sub_l by lia. rewrite !(rdot_comm _ row). reflexivity. Qed.

Lemma rsqn_nonneg a : 0 <= rsqn a.
Proof. unfold sqn. induction a as [|x a IH]; [unfold vdot; simpl; lra|]. rewrite rdot_cons. nra. Qed.

(* |p + q|^2 = |p|^2 + 2 p.q + |q|^2 for equal lengths, stated through subtraction:
   with r = Az - b and Ay - b = r + A(y - z) *)
Lemma expand (r q : list R) : length r = length q -> rsqn (radd r q) = rsqn r + 2 * rdot r q + rsqn q.
Proof. revert q; induction r as [|x r IH]; intros [|y q] H; simpl in *; try lia; [unfold sqn, vdot; simpl; ring|].
  unfold sqn in *. change (radd (x :: r) (y :: q)) with (x + y :: radd r q). rewrite !rdot_cons, IH by lia. ring. Qed.

Lemma radd_sub_cancel (p q : list R) : length p = length q -> radd q (rsub p q) = p.
Proof. revert q; induction p as [|x p IH]; intros [|y q] H; simpl in *; try lia; [reflexivity|].
  change (rsub (x :: p) (y :: q)) with (x - y :: rsub p q). change (radd (y :: q) (x - y :: rsub p q)) with (y + (x - y) :: radd q (rsub p q)).
  rewrite IH by lia. f_equal. ring. Qed.

Lemma rsub_length a b : length a = length b -> length (rsub a b) = length a.
Proof. intros H. unfold vsub. rewrite map_length, combine_length. lia. Qed.

Lemma rsub_sub_shift (a b c : list R) : length a = length b -> length b = length c ->
  rsub a c = radd (rsub b c) (rsub a b).
Proof. revert b c; induction a as [|x a IH]; intros [|y b] [|z c] H1 H2; simpl in *; try lia; [reflexivity|].
  change (rsub (x :: a) (z :: c)) with (x - z :: rsub a c).
  change (radd (rsub (y :: b) (z :: c)) (rsub (x :: a) (y :: b))) with ((y - z) + (x - y) :: radd (rsub b c) (rsub a b)).
  rewrite (IH b c) by lia. f_equal. ring. Qed.

Definition nonneg (l : list R) : Prop := Forall (fun x => 0 <= x) l.

Lemma dot_lower (y w : list R) e : nonneg y -> Forall (fun wi => - e <= wi) w -> length y = length w -> - e * rsum y <= rdot y w.
Proof. revert w; induction y as [|yi y IH]; intros [|wi w] Hy Hw Hl; simpl in *; try lia; [unfold vsum, vdot; simpl; lra|].
  inversion Hy; inversion Hw; subst. rewrite rdot_cons. change (rsum (yi :: y)) with (yi + rsum y).
  specialize (IH w). assert (- e * rsum y <= rdot y w) by (apply IH; auto). nra. Qed.

Lemma dot_upper (z w : list R) e : Forall (fun p => fst p * snd p <= e) (combine z w) -> rdot z w <= INR (length (combine z w)) * e.
Proof. revert w; induction z as [|zi z IH]; intros [|wi w] H; simpl combine in *; try (unfold vdot; simpl; lra).
  inversion H; subst. rewrite rdot_cons. change (length ((zi, wi) :: combine z w)) with (S (length (combine z w))). rewrite S_INR.
  specialize (IH w H3). simpl in H2. lra. Qed.

(* ------------------------------------------------------------------ sufficiency of the (slackened) KKT conditions *)
Theorem kkt_sufficient n (A : list (list R)) (b z y : list R) (eps_w eps_zw : R) :
  rows_ok n A -> length b = length A -> length z = n -> length y = n ->
  nonneg y ->
  let w := rtmv n A (rsub (rmv A z) b) in
  Forall (fun wi => - eps_w <= wi) w ->
  Forall (fun p => fst p * snd p <= eps_zw) (combine z w) ->
  rsqn (rsub (rmv A z) b) - 2 * eps_w * rsum y - 2 * INR n * eps_zw <= rsqn (rsub (rmv A y) b).
Proof. intros HA Hb Hz Hy Hny w Hw Hzw.
  set (r := rsub (rmv A z) b). set (q := rmv A (rsub y z)).
  assert (Hrl : length r = length A) by (unfold r; rewrite rsub_length; rewrite rmv_length; congruence).
  assert (Hql : length q = length A) by (unfold q; apply rmv_length).
  assert (HA' : rows_ok (length y) A) by (rewrite Hy; exact HA).
  assert (Hdec : rsub (rmv A y) b = radd r q).
  { unfold r, q. rewrite (rmv_sub A y z HA') by congruence.
    apply rsub_sub_shift; rewrite !rmv_length; congruence. }
  rewrite Hdec, expand by congruence.
  assert (Hadj : rdot r q = rdot (rsub y z) w).
  { unfold q, w. fold r. rewrite rdot_comm. apply adjoint; [exact HA|rewrite rsub_length; congruence|exact Hrl]. }
  rewrite Hadj, rdot_sub_l by congruence.
  assert (Hwl : length w = n) by (unfold w; apply rtmv_length; exact HA).
  pose proof (dot_lower y w eps_w Hny Hw ltac:(congruence)) as H1.
  pose proof (dot_upper z w eps_zw Hzw) as H2.
  assert (Hcl : length (combine z w) = n) by (rewrite combine_length; lia). rewrite Hcl in H2.
  pose proof (rsqn_nonneg q). lra. Qed.

(* exact version: slacks 0 give a global minimiser over the non-negative orthant *)
Corollary kkt_exact n A b z y : rows_ok n A -> length b = length A -> length z = n -> length y = n -> nonneg y ->
  let w := rtmv n A (rsub (rmv A z) b) in
  Forall (fun wi => 0 <= wi) w -> Forall (fun p => fst p * snd p <= 0) (combine z w) ->
  rsqn (rsub (rmv A z) b) <= rsqn (rsub (rmv A y) b).
Proof. intros HA Hb Hz Hy Hny w Hw Hzw.
  pose proof (kkt_sufficient n A b z y 0 0 HA Hb Hz Hy Hny) as H. simpl in H.
  assert (Hw' : Forall (fun wi => - 0 <= wi) w) by (eapply Forall_impl; [|exact Hw]; simpl; intros; lra).
  specialize (H Hw' Hzw). lra. Qed.

(* ------------------------------------------------------------------ the integer checker speaks about the reals *)
Lemma IZR_vdot a b : IZR (vdot ZOps a b) = rdot (map IZR a) (map IZR b).
Proof. revert b; induction a as [|x a IH]; intros [|y b]; try reflexivity.
  change (vdot ZOps (x :: a) (y :: b)) with (x * y + vdot ZOps a b)%Z. simpl map. rewrite rdot_cons, plus_IZR, mult_IZR, IH. reflexivity. Qed.
Lemma IZR_mv A x : map IZR (mv ZOps A x) = rmv (map (map IZR) A) (map IZR x).
Proof. unfold mv. rewrite !map_map. apply map_ext. intros r. apply IZR_vdot. Qed.
Lemma IZR_vsub a b : map IZR (vsub ZOps a b) = rsub (map IZR a) (map IZR b).
Proof. revert b; induction a as [|x a IH]; intros [|y b]; try reflexivity.
  change (vsub ZOps (x :: a) (y :: b)) with ((x - y)%Z :: vsub ZOps a b). simpl map.
  change (rsub (IZR x :: map IZR a) (IZR y :: map IZR b)) with (IZR x - IZR y :: rsub (map IZR a) (map IZR b)).
  rewrite IH, minus_IZR. reflexivity. Qed.
Lemma IZR_vadd a b : map IZR (vadd ZOps a b) = radd (map IZR a) (map IZR b).
Proof. revert b; induction a as [|x a IH]; intros [|y b]; try reflexivity.
  change (vadd ZOps (x :: a) (y :: b)) with ((x + y)%Z :: vadd ZOps a b). simpl map.
  change (radd (IZR x :: map IZR a) (IZR y :: map IZR b)) with (IZR x + IZR y :: radd (map IZR a) (map IZR b)).
  rewrite IH, plus_IZR. reflexivity. Qed.
Lemma IZR_vscale c a : map IZR (vscale ZOps c a) = rscale (IZR c) (map IZR a).
Proof. unfold vscale. rewrite !map_map. apply map_ext. intros x. simpl. apply mult_IZR. Qed.
Lemma map_repeat' {A B} (f : A -> B) x n : map f (repeat x n) = repeat (f x) n.
Proof. induction n; simpl; congruence. Qed.
Lemma IZR_tmv n A r : map IZR (tmv ZOps n A r) = rtmv n (map (map IZR) A) (map IZR r).
Proof. revert r; induction A as [|row A IH]; intros r; [destruct r; simpl; unfold vzeros; rewrite map_repeat'; reflexivity|].
  destruct r as [|ri r]; [simpl; unfold vzeros; rewrite map_repeat'; reflexivity|].
  simpl tmv. simpl map. rewrite IZR_vadd, IZR_vscale, IH. reflexivity. Qed.

Theorem kkt_check_sound n (A : list (list Z)) (b z : list Z) (eps_w eps_zw : Z) :
  kkt_check ZOps n A b z eps_w eps_zw = true ->
  forall y : list R, length y = n -> nonneg y ->
  rsqn (rsub (rmv (map (map IZR) A) (map IZR z)) (map IZR b)) - 2 * IZR eps_w * rsum y - 2 * INR n * IZR eps_zw
  <= rsqn (rsub (rmv (map (map IZR) A) y) (map IZR b)).
Proof. unfold kkt_check, shape_ok. rewrite !andb_true_iff. intros [[[[[Hrows Hb] Hz] Hnn] Hw] Hzw] y Hy Hny.
  apply Nat.eqb_eq in Hb. apply Nat.eqb_eq in Hz. rewrite forallb_forall in Hrows, Hw, Hzw.
  apply kkt_sufficient; try assumption.
  - unfold rows_ok. apply Forall_forall. intros r Hr. apply in_map_iff in Hr. destruct Hr as [r0 [<- Hr0]].
    rewrite map_length. apply Nat.eqb_eq, Hrows, Hr0.
  - rewrite !map_length. exact Hb.
  - rewrite map_length. exact Hz.
  - rewrite <- IZR_mv, <- IZR_vsub, <- IZR_tmv. apply Forall_forall. intros wi Hwi. apply in_map_iff in Hwi. destruct Hwi as [w0 [<- Hw0]].
    specialize (Hw w0 Hw0). unfold leb in Hw. simpl in Hw. apply negb_true_iff, Z.ltb_ge in Hw. rewrite <- opp_IZR. apply IZR_le. exact Hw.
  - rewrite <- IZR_mv, <- IZR_vsub, <- IZR_tmv. apply Forall_forall. intros [p1 p2] Hp. simpl.
    assert (Hin : exists a c, In (a, c) (combine z (tmv ZOps n A (vsub ZOps (mv ZOps A z) b))) /\ p1 = IZR a /\ p2 = IZR c).
    { revert Hp. generalize (tmv ZOps n A (vsub ZOps (mv ZOps A z) b)). clear. induction z as [|a z IH]; intros [|c w] H; simpl in *; try tauto.
      destruct H as [H|H]; [inversion H; exists a, c; auto|]. destruct (IH w H) as [a' [c' [H1 H2]]]. exists a', c'. auto. }
    destruct Hin as [a [c [Hin [-> ->]]]]. specialize (Hzw (a, c) Hin). unfold leb in Hzw. simpl in Hzw.
    apply negb_true_iff, Z.ltb_ge in Hzw. rewrite <- mult_IZR. apply IZR_le. exact Hzw. Qed.

(* ================================================================== the mean-one system at equilibrium (C01, C03) *)
Definition raug (M : list (list R)) (n : nat) : list (list R) := map (fun r => r ++ [1]) M ++ [repeat 1 n ++ [0]].

Lemma rdot_app (a b c d : list R) : length a = length c -> rdot (a ++ b) (c ++ d) = rdot a c + rdot b d.
Proof. revert c; induction a as [|x a IH]; intros [|y c] H; simpl in *; try lia; [unfold vdot at 2; simpl; ring|].
  rewrite !rdot_cons, IH by lia. ring. Qed.
Lemma rdot_ones (x : list R) : rdot (repeat 1 (length x)) x = rsum x.
Proof. induction x as [|v t IH]; [reflexivity|]. simpl repeat. rewrite rdot_cons, IH. unfold vsum. simpl. ring. Qed.
Lemma rmv_app A B x : rmv (A ++ B) x = rmv A x ++ rmv B x. Proof. unfold mv. apply map_app. Qed.

(* if the force-balance rows annihilate T (static) -- or reproduce the velocity term b (dynamic, unit mobility) -- and the tensions
   have mean one, then (T, 0) solves the augmented system exactly *)
Theorem equilibrium_solves_augmented (M : list (list R)) (T b : list R) :
  rows_ok (length T) M -> rmv M T = b -> rsum T = INR (length T) ->
  rmv (raug M (length T)) (T ++ [0]) = b ++ [INR (length T)].
Proof. intros HM Hb Hs. unfold raug. rewrite rmv_app. f_equal.
  - rewrite <- Hb. unfold mv. rewrite map_map. apply map_ext_in. intros r Hr.
    unfold rows_ok in HM. rewrite Forall_forall in HM. rewrite rdot_app by (apply HM; exact Hr). unfold vdot at 2. simpl. ring.
  - simpl. f_equal. rewrite rdot_app by apply repeat_length. rewrite rdot_ones, Hs. unfold vdot. simpl. ring. Qed.

Lemma rsqn_zero (v : list R) : rsqn v = 0 -> Forall (fun x => x = 0) v.
Proof. unfold sqn. induction v as [|x v IH]; intros H; [constructor|]. rewrite rdot_cons in H.
  pose proof (rsqn_nonneg v) as Hn. unfold sqn in Hn. assert (x * x = 0 /\ rdot v v = 0) as [Hx Hv] by nra.
  constructor; [nra|apply IH; exact Hv]. Qed.

Lemma rsub_zero_eq (a b : list R) : length a = length b -> Forall (fun x => x = 0) (rsub a b) -> a = b.
Proof. revert b; induction a as [|x a IH]; intros [|y b] H F; simpl in *; try lia; [reflexivity|].
  change (rsub (x :: a) (y :: b)) with (x - y :: rsub a b) in F. inversion F; subst. f_equal; [lra|apply IH; [lia|assumption]]. Qed.

(* uniqueness: if the augmented matrix is injective and some non-negative z* solves the system exactly, every minimiser of the
   residual over the non-negative orthant equals z* -- the reported tensions are the true ones *)
Theorem zero_residual_minimiser_unique n (A : list (list R)) (b z zs : list R) :
  rows_ok n A -> length b = length A -> length z = n -> length zs = n ->
  (forall d, length d = n -> Forall (fun x => x = 0) (rmv A d) -> Forall (fun x => x = 0) d) ->
  rmv A zs = b -> nonneg zs ->
  (forall y, length y = n -> nonneg y -> rsqn (rsub (rmv A z) b) <= rsqn (rsub (rmv A y) b)) ->
  z = zs.
Proof. intros HA Hb Hz Hzs Hinj Hsol Hnn Hmin.
  assert (H0 : rsqn (rsub (rmv A zs) b) = 0).
  { rewrite Hsol. clear. unfold sqn. induction b as [|x b IH]; [reflexivity|].
    change (rsub (x :: b) (x :: b)) with (x - x :: rsub b b). rewrite rdot_cons, IH. ring. }
  pose proof (Hmin zs Hzs Hnn) as Hle. rewrite H0 in Hle. pose proof (rsqn_nonneg (rsub (rmv A z) b)) as Hge.
  assert (Hz0 : rsqn (rsub (rmv A z) b) = 0) by lra. apply rsqn_zero in Hz0.
  assert (HAz : rmv A z = b) by (apply rsub_zero_eq; [rewrite rmv_length; congruence|exact Hz0]).
  assert (Hd : Forall (fun x => x = 0) (rsub z zs)).
  { apply Hinj; [rewrite rsub_length; congruence|]. assert (HA' : rows_ok (length z) A) by (rewrite Hz; exact HA).
    rewrite (rmv_sub A z zs HA') by congruence. rewrite HAz, Hsol. clear. induction b as [|x b IH]; [constructor|].
    change (rsub (x :: b) (x :: b)) with (x - x :: rsub b b). constructor; [ring|exact IH]. }
  apply rsub_zero_eq; [congruence|exact Hd]. Qed.

(* ================================================================== perturbed systems: the derived tolerance of the C01 / C06 / C07 oracles *)
(* |u - v|^2 <= 2 |u|^2 + 2 |v|^2 *)
Lemma rsqn_sub_le (u v : list R) : length u = length v -> rsqn (rsub u v) <= 2 * rsqn u + 2 * rsqn v.
Proof.
  revert v; induction u as [|x u IH]; intros [|y v] H; simpl in H; try lia; [unfold sqn, vdot; simpl; lra|].
  change (rsub (x :: u) (y :: v)) with (x - y :: rsub u v). unfold sqn in *. rewrite !rdot_cons.
  assert (Hl : length u = length v) by (injection H; auto). specialize (IH v Hl).
  pose proof (Rle_0_sqr (x + y)) as Q. unfold Rsqr in Q. lra.
Qed.
Lemma rsub_common (a c b : list R) : length a = length b -> length c = length b -> rsub (rsub a b) (rsub c b) = rsub a c.
Proof.
  revert c b; induction a as [|x a IH]; intros [|z c] [|y b] H1 H2; simpl in *; try lia; [reflexivity|].
  change (rsub (rsub (x :: a) (y :: b)) (rsub (z :: c) (y :: b))) with ((x - y) - (z - y) :: rsub (rsub a b) (rsub c b)).
  change (rsub (x :: a) (z :: c)) with (x - z :: rsub a c). rewrite IH by lia. f_equal. ring.
Qed.
(* The assembled matrix A is the true one plus the error of the fitted tangents, so the true tensions xs leave a residual
   e = A xs - b.  Whatever the back-end returns (xh), if it fits the assembled equations at least as well as xs does, then
   |A (xh - xs)|^2 <= 4 |e|^2; with sigma2 a lower bound of |A d|^2 / |d|^2 (the squared smallest singular value):
   sigma2 |xh - xs|^2 <= 4 |e|^2.  This is the tolerance (2 |E T| / sigma_min) the oracles use. *)
Theorem perturbation_bound n (A : list (list R)) (b xh xs : list R) (sigma2 : R) :
  rows_ok n A -> length b = length A -> length xh = n -> length xs = n ->
  rsqn (rsub (rmv A xh) b) <= rsqn (rsub (rmv A xs) b) ->
  (forall d, length d = n -> sigma2 * rsqn d <= rsqn (rmv A d)) ->
  sigma2 * rsqn (rsub xh xs) <= 4 * rsqn (rsub (rmv A xs) b).
Proof.
  intros HA Hb Hh Hs Hfit Hsig.
  assert (HA' : rows_ok (length xh) A) by (rewrite Hh; exact HA).
  pose proof (Hsig (rsub xh xs) ltac:(rewrite rsub_length; congruence)) as H1.
  rewrite (rmv_sub A xh xs HA') in H1 by congruence.
  rewrite <- (rsub_common (rmv A xh) (rmv A xs) b) in H1 by (rewrite rmv_length; congruence).
  pose proof (rsqn_sub_le (rsub (rmv A xh) b) (rsub (rmv A xs) b)) as H2.
  rewrite !rsub_length in H2 by (rewrite rmv_length; congruence). rewrite !rmv_length in H2. specialize (H2 eq_refl).
  lra.
Qed.
