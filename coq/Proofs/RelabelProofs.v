(* RelabelProofs.v -- a relabelling of the tissue permutes the unknowns (interfaces or cells) and the equations of the least-squares
   system; the residual of a permuted candidate against the permuted system is the residual of the candidate against the original
   system, so the minimisers correspond (C07: solved tensions / pressures do not depend on labels or storage order). *)
From Coq Require Import ZArith List Bool Lia Reals Lra Permutation.
From Forsys Require Import Model.Num Model.Cert Proofs.CertProofs Proofs.GeometryProofs.
Import ListNotations.
Open Scope R_scope.

Definition permute {A} (d : A) (p : list nat) (l : list A) : list A := map (fun i => nth i l d) p.

Lemma rdot_as_sum (r x : list R) : length r = length x -> rdot r x = sumR (map (fun i => nth i r 0 * nth i x 0) (seq 0 (length r))).
Proof. revert x; induction r as [|a r IH]; intros [|b x] H; simpl in H; try lia; [reflexivity|]. rewrite rdot_cons, IH by lia.
  cbn [length seq map sumR fold_right nth]. f_equal. rewrite <- seq_shift, map_map. reflexivity. Qed.
Lemma rdot_permute (p : list nat) (r x : list R) : length r = length x -> Permutation p (seq 0 (length r)) ->
  rdot (permute 0 p r) (permute 0 p x) = rdot r x.
Proof. intros Hl Hp. rewrite (rdot_as_sum r x Hl). rewrite <- (sumR_perm _ _ (Permutation_map (fun i => nth i r 0 * nth i x 0) Hp)).
  unfold permute. clear Hp. induction p as [|i p IH]; [reflexivity|]. cbn [map]. rewrite rdot_cons, IH. reflexivity. Qed.

Lemma map_nth_seq {A} (d : A) (v : list A) : map (fun i => nth i v d) (seq 0 (length v)) = v.
Proof. induction v as [|y v IH]; [reflexivity|]. cbn [length seq map nth]. f_equal. rewrite <- seq_shift, map_map. exact IH. Qed.
Lemma rsqn_as_sum (v : list R) : rsqn v = sumR (map (fun y => y * y) v).
Proof. unfold sqn. induction v as [|y v IH]; [reflexivity|]. rewrite rdot_cons, IH. reflexivity. Qed.
Lemma rsqn_permutation (u v : list R) : Permutation u v -> rsqn u = rsqn v.
Proof. intros P. rewrite !rsqn_as_sum. apply sumR_perm. apply Permutation_map. exact P. Qed.

(* the relabelled system: equations in the order q, unknowns in the order p *)
Definition relabel_system (p q : list nat) (A : list (list R)) (b : list R) : list (list R) * list R :=
  (map (permute 0 p) (permute [] q A), permute 0 q b).

Lemma permute_length {A} (d : A) p l : length (permute d p l) = length p. Proof. apply map_length. Qed.

Lemma nth_rsub (u v : list R) i : length u = length v -> nth i (rsub u v) 0 = nth i u 0 - nth i v 0.
Proof. revert v i; induction u as [|a u IH]; intros [|b v] i H; simpl in H; try lia; [destruct i; simpl; lra|]. destruct i; [reflexivity|].
  change (rsub (a :: u) (b :: v)) with (a - b :: rsub u v). cbn [nth]. apply IH. lia. Qed.

Theorem residual_of_relabelled_system n (p q : list nat) (A : list (list R)) (b x : list R) :
  rows_ok n A -> length x = n -> length b = length A -> Permutation p (seq 0 n) -> Permutation q (seq 0 (length A)) ->
  let '(A', b') := relabel_system p q A b in
  rsqn (rsub (rmv A' (permute 0 p x)) b') = rsqn (rsub (rmv A x) b).
Proof. intros HA Hx Hb Hp Hq. unfold relabel_system.
  (* the residual vector of the relabelled system is the residual vector of the original one, in the order q *)
  assert (E : rsub (rmv (map (permute 0 p) (permute [] q A)) (permute 0 p x)) (permute 0 q b) = permute 0 q (rsub (rmv A x) b)).
  { unfold permute at 2 4 5. unfold mv. rewrite !map_map.
    assert (Hq' : forall i, In i q -> (i < length A)%nat) by (intros i Hi; apply (Permutation_in _ Hq) in Hi; apply in_seq in Hi; lia).
    assert (HA' : forall r, In r A -> length r = n) by (apply Forall_forall; exact HA).
    clear Hq. induction q as [|i q IH]; [reflexivity|]. cbn [map].
    change (rsub (?a :: ?u) (?c :: ?v)) with (a - c :: rsub u v). rewrite IH by (intros k Hk; apply Hq'; right; exact Hk). f_equal.
    assert (Hi : (i < length A)%nat) by (apply Hq'; left; reflexivity).
    assert (Hrow : length (nth i A []) = n) by (apply HA'; apply nth_In; exact Hi).
    rewrite rdot_permute by (rewrite ?Hrow; auto; congruence).
    rewrite nth_rsub by (rewrite map_length; congruence).
    change 0 with (rdot [] x) at 2. rewrite (map_nth (fun r => rdot r x) A [] i). reflexivity. }
  rewrite E. apply rsqn_permutation. unfold permute.
  assert (Hlen : length (rsub (rmv A x) b) = length A) by (rewrite rsub_length; rewrite rmv_length; congruence).
  rewrite <- Hlen in Hq. clear -Hq. set (v := rsub (rmv A x) b) in *.
  apply Permutation_trans with (map (fun i => nth i v 0) (seq 0 (length v))); [apply Permutation_map; exact Hq|].
  rewrite (map_nth_seq 0 v). apply Permutation_refl. Qed.

(* ------------------------------------------------------------------ rotating the tissue (C06): every junction's two equations are rotated
   together; the squared residual of the force-balance equations (without the multiplier column) is the same for every candidate *)
Fixpoint rot_rows (c s : R) (M : list (list R)) : list (list R) :=
  match M with
  | rx :: ry :: t => radd (rscale c rx) (rscale (- s) ry) :: radd (rscale s rx) (rscale c ry) :: rot_rows c s t
  | _ => M
  end.
Lemma rdot_add_l (u v x : list R) : length u = length v -> rdot (radd u v) x = rdot u x + rdot v x.
Proof. revert v x; induction u as [|a u IH]; intros [|b v] x H; simpl in H; try lia; [unfold vdot; simpl; ring|].
  destruct x as [|y x]; [rewrite !rdot_nil_r; ring|]. change (radd (a :: u) (b :: v)) with (a + b :: radd u v). rewrite !rdot_cons, IH by lia. ring. Qed.
Lemma rdot_scale_l c (u x : list R) : rdot (rscale c u) x = c * rdot u x.
Proof. rewrite rdot_comm, rdot_scale_r, rdot_comm. reflexivity. Qed.
Lemma rotation_preserves_residual_k n (c s : R) (x : list R) : c * c + s * s = 1 ->
  forall k M, length M = (2 * k)%nat -> rows_ok n M -> rsqn (rmv (rot_rows c s M) x) = rsqn (rmv M x).
Proof. intros Hcs. induction k as [|k IH]; intros M Hl HA.
  - destruct M; [reflexivity|discriminate].
  - destruct M as [|rx [|ry t]]; [discriminate|simpl in Hl; lia|].
    unfold rows_ok in HA. apply Forall_cons_iff in HA. destruct HA as [Hx HA1]. apply Forall_cons_iff in HA1. destruct HA1 as [Hy HA2].
    cbn [rot_rows]. change (rmv (?a :: ?b :: ?l) x) with (rdot a x :: rdot b x :: rmv l x). unfold sqn. rewrite !rdot_cons.
    fold (rsqn (rmv (rot_rows c s t) x)). fold (rsqn (rmv t x)). rewrite (IH t ltac:(simpl in Hl; lia) HA2).
    rewrite !rdot_add_l by (rewrite !rscale_length; congruence). rewrite !rdot_scale_l.
    set (u := rdot rx x). set (v := rdot ry x). set (w := rsqn (rmv t x)). nra. Qed.
Theorem rotation_preserves_residual n (c s : R) (x : list R) (M : list (list R)) : c * c + s * s = 1 ->
  rows_ok n M -> Nat.even (length M) = true -> rsqn (rmv (rot_rows c s M) x) = rsqn (rmv M x).
Proof. intros Hcs HA He. apply Nat.even_spec in He. destruct He as [k Hk]. apply (rotation_preserves_residual_k n c s x Hcs k M Hk HA). Qed.

(* the sum of the unknowns does not depend on their order: zero-sum candidates (pressures) and mean-one candidates (tensions) of the
   relabelled system are the relabelled candidates of the original one *)
Lemma rsum_as_sumR (v : list R) : rsum v = sumR v.
Proof. unfold vsum, sumR. induction v as [|y v IH]; [reflexivity|]. cbn [fold_right]. rewrite IH. reflexivity. Qed.
Theorem sum_invariant_under_relabelling (p : list nat) (x : list R) :
  Permutation p (seq 0 (length x)) -> rsum (permute 0 p x) = rsum x.
Proof.
  intros Hp. rewrite !rsum_as_sumR. unfold permute.
  rewrite (sumR_perm _ _ (Permutation_map (fun i => nth i x 0) Hp)), map_nth_seq. reflexivity.
Qed.

(* hence: if x minimises the residual of the original system among the candidates with a given sum (zero for pressures), the relabelled x
   minimises the residual of the relabelled system among the candidates with that sum - every candidate y of the relabelled system is the
   relabelling of a candidate of the original one when p is a permutation; stated for the candidates permute p x' *)
Theorem constrained_minimiser_relabels n (p q : list nat) (A : list (list R)) (b x : list R) (s : R) :
  rows_ok n A -> length x = n -> length b = length A -> Permutation p (seq 0 n) -> Permutation q (seq 0 (length A)) ->
  rsum x = s ->
  (forall x', length x' = n -> rsum x' = s -> rsqn (rsub (rmv A x) b) <= rsqn (rsub (rmv A x') b)) ->
  let '(A', b') := relabel_system p q A b in
  rsum (permute 0 p x) = s /\
  forall x', length x' = n -> rsum (permute 0 p x') = s ->
    rsqn (rsub (rmv A' (permute 0 p x)) b') <= rsqn (rsub (rmv A' (permute 0 p x')) b').
Proof.
  intros HA Hx Hb Hp Hq Hs Hmin.
  pose proof (residual_of_relabelled_system n p q A b) as Hres. unfold relabel_system in *.
  split.
  - rewrite sum_invariant_under_relabelling by (rewrite Hx; exact Hp). exact Hs.
  - intros x' Hx' Hs'. rewrite (Hres x HA Hx Hb Hp Hq), (Hres x' HA Hx' Hb Hp Hq).
    apply Hmin; [exact Hx'|]. rewrite <- Hs'. symmetry. apply sum_invariant_under_relabelling. rewrite Hx'. exact Hp.
Qed.
