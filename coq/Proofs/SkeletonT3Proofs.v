(* SkeletonT3Proofs.v -- which vertices are artefacts; the new vertex id is fresh; a T3 contraction loses no cell; what Cell.replace_vertex
   does to a cycle without repeated vertex. *)
From Coq Require Import ZArith List Bool Lia.
From Forsys Require Import Model.PyList Model.CaseUtil Model.SkeletonT3.
Import ListNotations.
Open Scope Z_scope.

Lemma memZ_iff x l : memZ x l = true <-> In x l.
Proof. unfold memZ. rewrite existsb_exists. split; [intros [y [Hy E]]; apply Z.eqb_eq in E; subst; exact Hy | intros H; exists x; split; [exact H | apply Z.eqb_refl]]. Qed.
Lemma In_insZ x y l : In x (insZ y l) <-> x = y \/ In x l.
Proof.
  induction l as [|z l IH]; cbn [insZ]; [cbn; intuition congruence|].
  destruct (Z.leb y z); cbn [In]; [intuition congruence|]. rewrite IH. cbn [In]. intuition congruence.
Qed.
Lemma In_sortZ x l : In x (sortZ l) <-> In x l.
Proof. unfold sortZ. induction l as [|y l IH]; cbn [fold_right In]; [tauto|]. rewrite In_insZ, IH. intuition congruence. Qed.

(* skeleton.py:258-280 *)
Theorem get_artifacts_spec m v :
  In v (get_artifacts m) <->
  In v (vids m) /\ length (aget [] v (ownE m)) = 3%nat /\ length (aget [] v (ownC m)) = 2%nat /\
  ~ exists e a b, In (e, (a, b, true)) (medges m) /\ (v = a \/ v = b).
Proof.
  unfold get_artifacts. rewrite In_sortZ, !filter_In, andb_true_iff, negb_true_iff, !Nat.eqb_eq.
  assert (Hext : memZ v (flat_map (fun kv : Z * (Z * Z * bool) => let '(a, b, x) := snd kv in if x then [a; b] else []) (medges m)) = false <->
                 ~ exists e a b, In (e, (a, b, true)) (medges m) /\ (v = a \/ v = b)).
  { rewrite <- not_true_iff_false, memZ_iff, in_flat_map. split; intros H C; apply H.
    - destruct C as (e & a & b & Hin & Hv). exists (e, (a, b, true)). split; [exact Hin|]. cbn. intuition.
    - destruct C as ([e [[a b] x]] & Hin & Hv). cbn in Hv. destruct x; [|contradiction]. exists e, a, b. split; [exact Hin|]. cbn in Hv. intuition. }
  rewrite Hext. tauto.
Qed.

(* get_new_vid *)
Lemma fold_max_ge l : forall a, a <= fold_left Z.max l a /\ forall v, In v l -> v <= fold_left Z.max l a.
Proof.
  induction l as [|x l IH]; intros a; cbn [fold_left]; [split; [lia | intros v []]|].
  destruct (IH (Z.max a x)) as [H1 H2]. split; [lia|]. intros v [-> | Hv]; [lia | apply H2, Hv].
Qed.
Theorem new_vid_fresh m : ~ In (new_vid m) (vids m).
Proof. unfold new_vid. intros H. apply (proj2 (fold_max_ge (vids m) 0)) in H. lia. Qed.

(* Cell.replace_vertex on a cycle without repeated vertex *)
Lemma remove1_spec x l : NoDup l -> In x l ->
  ~ In x (remove1 x l) /\ NoDup (remove1 x l) /\ (forall y, In y (remove1 x l) <-> In y l /\ y <> x) /\ S (length (remove1 x l)) = length l.
Proof.
  induction l as [|z l IH]; intros Hnd Hin; [destruct Hin|]. inversion Hnd as [|? ? Hz Hnd']; subst. cbn [remove1].
  destruct (Z.eqb_spec x z) as [-> | Hne].
  - split; [exact Hz|]. split; [exact Hnd'|]. split; [|reflexivity].
    intros y. cbn [In]. split.
    + intros Hy. split; [right; exact Hy | intros ->; exact (Hz Hy)].
    + intros [[E | H] Hn]; [congruence | exact H].
  - destruct Hin as [E | Hin]; [congruence|]. destruct (IH Hnd' Hin) as (H1 & H2 & H3 & H4).
    split; [intros [E | H]; [congruence | exact (H1 H)]|].
    split; [constructor; [intros H; apply H3 in H; tauto | exact H2]|].
    split; [|cbn [length]; lia].
    intros y. cbn [In]. rewrite H3. split.
    + intros [E | [H Hn]]; [split; [left; exact E | congruence] | split; [right; exact H | exact Hn]].
    + intros [[E | H] Hn]; [left; exact E | right; split; assumption].
Qed.
Lemma replace1_spec x y l : NoDup l -> In x l -> ~ In y l ->
  ~ In x (replace1 x y l) /\ In y (replace1 x y l) /\ NoDup (replace1 x y l) /\
  (forall z, In z (replace1 x y l) <-> z = y \/ (In z l /\ z <> x)) /\ length (replace1 x y l) = length l.
Proof.
  induction l as [|z l IH]; intros Hnd Hin Hy; [destruct Hin|]. inversion Hnd as [|? ? Hz Hnd']; subst. cbn [replace1].
  assert (Hxy : x <> y) by (intros ->; contradiction).
  assert (Hy' : ~ In y l) by (intros H; apply Hy; right; exact H).
  assert (Hyz : y <> z) by (intros ->; apply Hy; left; reflexivity).
  destruct (Z.eqb_spec x z) as [-> | Hne].
  - split; [intros [E | H]; [congruence | exact (Hz H)]|].
    split; [left; reflexivity|].
    split; [constructor; [exact Hy' | exact Hnd']|].
    split; [|reflexivity].
    intros w. cbn [In]. split.
    + intros [E | H]; [left; congruence | right; split; [right; exact H | intros ->; exact (Hz H)]].
    + intros [E | [[E | H] Hn]]; [left; congruence | congruence | right; exact H].
  - destruct Hin as [E | Hin]; [congruence|].
    destruct (IH Hnd' Hin Hy') as (H1 & H2 & H3 & H4 & H5).
    split; [intros [E | H]; [congruence | exact (H1 H)]|].
    split; [right; exact H2|].
    split; [constructor; [rewrite H4; intros [E | [H _]]; [congruence | exact (Hz H)] | exact H3]|].
    split; [|cbn [length]; congruence].
    intros w. cbn [In]. rewrite H4. split.
    + intros [E | [E | [H Hn]]]; [right; split; [left; exact E | congruence] | left; exact E | right; split; [right; exact H | exact Hn]].
    + intros [E | [[E | H] Hn]]; [right; left; exact E | left; exact E | right; right; split; assumption].
Qed.

(* reading back what was just written *)
Lemma aget_aset_same {A} (d : A) k v l : aget d k (aset k v l) = v.
Proof.
  unfold aset, aget, ahas. destruct (existsb (fun kv => Z.eqb (fst kv) k) l) eqn:E.
  - induction l as [|[k' v'] l IH]; [discriminate|]. cbn [existsb fst] in E. cbn [map find fst].
    destruct (Z.eqb_spec k' k) as [-> | Hne]; cbn [fst]; [rewrite Z.eqb_refl; reflexivity|].
    destruct (Z.eqb_spec k' k); [congruence|]. cbn [orb] in E. apply IH, E.
  - induction l as [|[k' v'] l IH]; cbn [app find fst]; [rewrite Z.eqb_refl; reflexivity|].
    cbn [existsb fst orb] in E. apply orb_false_iff in E. destruct E as [E1 E2]. rewrite E1. apply IH, E2.
Qed.

(* the cycle of the cell after Cell.replace_vertex(v, new): the artefact vertex is gone, the new vertex is there exactly once, nothing else
   changed; the cycle gets shorter by one when the new vertex was already in it *)
Theorem replace_in_cell_cycle v new m c : NoDup (aget [] c (mcells m)) -> In v (aget [] c (mcells m)) -> v <> new ->
  let cyc := aget [] c (mcells m) in
  let cyc' := aget [] c (mcells (replace_in_cell v new m c)) in
  ~ In v cyc' /\ In new cyc' /\ NoDup cyc' /\ (forall z, In z cyc' <-> z = new \/ (In z cyc /\ z <> v)) /\
  length cyc' = (if memZ new cyc then pred (length cyc) else length cyc).
Proof.
  intros Hnd Hin Hne cyc cyc'. subst cyc cyc'. unfold replace_in_cell.
  destruct (memZ new (aget [] c (mcells m))) eqn:E; cbn [mcells]; rewrite aget_aset_same.
  - apply memZ_iff in E. destruct (remove1_spec v _ Hnd Hin) as (H1 & H2 & H3 & H4).
    split; [exact H1|]. split; [apply H3; split; [exact E | congruence]|]. split; [exact H2|]. split; [|lia].
    intros z. rewrite H3. split; [intros H; right; exact H | intros [-> | H]; [split; [exact E | congruence] | exact H]].
  - assert (Hn : ~ In new (aget [] c (mcells m))) by (rewrite <- memZ_iff, E; discriminate).
    exact (replace1_spec v new _ Hnd Hin Hn).
Qed.

(* a T3 contraction loses no cell and no cell id changes place *)
Lemma aset_keys_incl {A} k (v : A) l : incl (map fst l) (map fst (aset k v l)).
Proof.
  unfold aset. destruct (ahas k l); [|rewrite map_app; apply incl_appl, incl_refl].
  rewrite map_map. intros x Hx. apply in_map_iff in Hx. destruct Hx as [[k' v'] [<- Hin]]. apply in_map_iff.
  exists (k', v'). split; [|exact Hin]. cbn [fst]. destruct (Z.eqb_spec k' k) as [-> | ?]; reflexivity.
Qed.
Lemma fold_left_incl {A} (f : mesh -> A -> mesh) (P : mesh -> list Z) :
  (forall m a, incl (P m) (P (f m a))) -> forall l m, incl (P m) (P (fold_left f l m)).
Proof. intros H l. induction l as [|a l IH]; intros m; cbn [fold_left]; [apply incl_refl | eapply incl_tran; [apply H | apply IH]]. Qed.
Definition cell_ids (m : mesh) : list Z := map fst (mcells m).
Lemma del_edge_cells m e : cell_ids (del_edge m e) = cell_ids m.
Proof. unfold del_edge. destruct (aget (0, 0, false) e (medges m)) as [[a b] x]. reflexivity. Qed.
Lemma replace_end_cells v new m e : cell_ids (replace_end v new m e) = cell_ids m.
Proof. unfold replace_end. destruct (aget (0, 0, false) e (medges m)) as [[a b] x]. reflexivity. Qed.
Lemma replace_in_cell_cells v new m c : incl (cell_ids m) (cell_ids (replace_in_cell v new m c)).
Proof. unfold replace_in_cell, cell_ids. destruct (memZ new _); cbn [mcells]; apply aset_keys_incl. Qed.
Lemma t3_vertex_cells art new m v : incl (cell_ids m) (cell_ids (t3_vertex art new m v)).
Proof.
  unfold t3_vertex. destruct (partition (inside art m) (aget [] v (ownE m))) as [rem rep].
  eapply incl_tran; [|apply (fold_left_incl (replace_in_cell v new) cell_ids (replace_in_cell_cells v new))].
  eapply incl_tran; [|apply (fold_left_incl (replace_end v new) cell_ids); intros m' a; rewrite replace_end_cells; apply incl_refl].
  apply (fold_left_incl del_edge cell_ids). intros m' a. rewrite del_edge_cells. apply incl_refl.
Qed.
Lemma drop_vertex_cells m v : cell_ids (drop_vertex m v) = cell_ids m.
Proof. unfold drop_vertex. destruct (Nat.eqb _ _); reflexivity. Qed.
Theorem t3_keeps_every_cell m art : incl (cell_ids m) (cell_ids (t3 m art)).
Proof.
  unfold t3.
  eapply incl_tran; [|apply (fold_left_incl drop_vertex cell_ids); intros m' a; rewrite drop_vertex_cells; apply incl_refl].
  exact (fold_left_incl (t3_vertex art (new_vid m)) cell_ids (t3_vertex_cells art (new_vid m)) art
           (mkM (vids m ++ [new_vid m]) (ownE m ++ [(new_vid m, [])]) (ownC m ++ [(new_vid m, [])]) (medges m) (mcells m))).
Qed.

(* ------------------------------------------------------------------ grouping: every vertex of every artefact handed to the contraction is an
   artefact vertex, and no artefact is empty *)
Lemma grow_spec m all cur : (forall v, In v cur -> In v all) ->
  (exists t, grow m all cur = cur ++ t) /\ (forall v, In v (grow m all cur) -> In v all).
Proof.
  unfold grow. generalize (last cur 0) as v0. intros v0. generalize (aget [] v0 (ownE m)) as es. intros es. revert cur.
  induction es as [|e es IH]; intros cur Hc; cbn [fold_left].
  - split; [exists []; rewrite app_nil_r; reflexivity | exact Hc].
  - destruct (memZ (other_end m e v0) all && negb (memZ (other_end m e v0) cur)) eqn:E.
    + apply andb_true_iff in E. destruct E as [E _]. apply memZ_iff in E.
      destruct (IH (cur ++ [other_end m e v0])) as [[t Ht] Hin].
      * intros v Hv. apply in_app_or in Hv. destruct Hv as [Hv | [<- | []]]; [apply Hc, Hv | exact E].
      * split; [exists (other_end m e v0 :: t); rewrite Ht, <- app_assoc; reflexivity | exact Hin].
    + apply IH, Hc.
Qed.
Lemma In_remove1 x y l : In x (remove1 y l) -> In x l.
Proof. induction l as [|z l IH]; cbn [remove1]; [tauto|]. destruct (Z.eqb y z); cbn [In]; [tauto | intros [H | H]; [left; exact H | right; apply IH, H]]. Qed.
Lemma In_fold_remove1 x cur : forall l, In x (fold_left (fun l y => remove1 y l) cur l) -> In x l.
Proof. induction cur as [|y cur IH]; intros l H; cbn [fold_left] in H; [exact H | apply IH in H; apply In_remove1 in H; exact H]. Qed.
Theorem group_spec m : forall fuel all g, In g (group fuel m all) -> g <> [] /\ forall v, In v g -> In v all.
Proof.
  induction fuel as [|f IH]; intros all g Hg; [destruct Hg|]. destruct all as [|a all]; [destruct Hg|]. cbn [group] in Hg.
  destruct (grow_spec m (a :: all) [a]) as [[t Ht] Hin]; [intros v [<- | []]; left; reflexivity|].
  destruct Hg as [<- | Hg].
  - split; [rewrite Ht; discriminate | exact Hin].
  - destruct (IH _ _ Hg) as [Hne Hsub]. split; [exact Hne|]. intros v Hv. apply Hsub in Hv. apply In_fold_remove1 in Hv. exact Hv.
Qed.
Theorem artefacts_consist_of_artefact_vertices m g : In g (artefacts m) -> g <> [] /\ forall v, In v g -> In v (get_artifacts m).
Proof. unfold artefacts. apply group_spec. Qed.

(* ------------------------------------------------------------------ after the contraction no cell names an artefact vertex *)
Definition cyc (m : mesh) (c : Z) : list Z := aget [] c (mcells m).
Definition clean (u : Z) (m : mesh) : Prop := forall c, ~ In u (cyc m c).
Definition registered (u : Z) (m : mesh) : Prop := forall c, In u (cyc m c) -> In c (aget [] u (ownC m)).
Definition cycles_nodup (m : mesh) : Prop := forall c, NoDup (cyc m c).

Lemma aget_aset_other {A} (d : A) k k' v l : k' <> k -> aget d k' (aset k v l) = aget d k' l.
Proof.
  intros Hne. unfold aset, aget, ahas. destruct (existsb (fun kv => Z.eqb (fst kv) k) l).
  - induction l as [|[k0 v0] l IH]; [reflexivity|]. cbn [map find fst].
    destruct (Z.eqb_spec k0 k) as [-> | H0]; cbn [fst].
    + destruct (Z.eqb_spec k k'); [congruence | exact IH].
    + destruct (Z.eqb k0 k'); [reflexivity | exact IH].
  - induction l as [|[k0 v0] l IH]; cbn [app find fst].
    + destruct (Z.eqb_spec k k'); [congruence | reflexivity].
    + destruct (Z.eqb k0 k'); [reflexivity | exact IH].
Qed.
Lemma remove1_absent x l : ~ In x l -> remove1 x l = l.
Proof. induction l as [|z l IH]; intros H; [reflexivity|]. cbn [remove1]. destruct (Z.eqb_spec x z) as [-> | ?]; [exfalso; apply H; left; reflexivity|]. f_equal. apply IH. intros H'. apply H. right. exact H'. Qed.
Lemma replace1_absent x y l : ~ In x l -> replace1 x y l = l.
Proof. induction l as [|z l IH]; intros H; [reflexivity|]. cbn [replace1]. destruct (Z.eqb_spec x z) as [-> | ?]; [exfalso; apply H; left; reflexivity|]. f_equal. apply IH. intros H'. apply H. right. exact H'. Qed.

Lemma ric_other u new m c c' : c' <> c -> cyc (replace_in_cell u new m c) c' = cyc m c'.
Proof. intros H. unfold cyc, replace_in_cell. destruct (memZ new _); cbn [mcells]; apply aget_aset_other; exact H. Qed.
Lemma ric_ownC u new m c w : w <> new -> aget [] w (ownC (replace_in_cell u new m c)) = aget [] w (ownC m).
Proof. intros H. unfold replace_in_cell. destruct (memZ new _); cbn [ownC]; [reflexivity | apply aget_aset_other; exact H]. Qed.
(* the processed cell: u is gone, membership of every vertex other than u and new is unchanged, no repetition appears *)
Lemma ric_same u new m c : u <> new -> NoDup (cyc m c) ->
  ~ In u (cyc (replace_in_cell u new m c) c) /\ NoDup (cyc (replace_in_cell u new m c) c) /\
  (forall w, w <> u -> w <> new -> (In w (cyc (replace_in_cell u new m c) c) <-> In w (cyc m c))).
Proof.
  intros Hne Hnd. destruct (in_dec Z.eq_dec u (cyc m c)) as [Hin | Hout].
  - destruct (replace_in_cell_cycle u new m c Hnd Hin Hne) as (H1 & _ & H3 & H4 & _). fold (cyc m c) in H4. fold (cyc (replace_in_cell u new m c) c) in *.
    split; [exact H1|]. split; [exact H3|]. intros w Hw1 Hw2. rewrite H4. intuition.
  - assert (E : cyc (replace_in_cell u new m c) c = cyc m c).
    { unfold cyc, replace_in_cell. fold (cyc m c). destruct (memZ new (cyc m c)); cbn [mcells]; rewrite aget_aset_same; [apply remove1_absent | apply replace1_absent]; exact Hout. }
    rewrite E. split; [exact Hout|]. split; [exact Hnd|]. intros; reflexivity.
Qed.

Section FoldCells.
  Variables (u new : Z).
  Hypothesis Hne : u <> new.
  Lemma fold_ric_nodup cs : forall m, cycles_nodup m -> cycles_nodup (fold_left (replace_in_cell u new) cs m).
  Proof.
    induction cs as [|c cs IH]; intros m H; cbn [fold_left]; [exact H|]. apply IH. intros c'.
    destruct (Z.eq_dec c' c) as [-> | Hc]; [apply (ric_same u new m c Hne (H c)) | rewrite ric_other by exact Hc; apply H].
  Qed.
  Lemma fold_ric_member cs w : w <> u -> w <> new -> forall m, cycles_nodup m ->
    forall c, In w (cyc (fold_left (replace_in_cell u new) cs m) c) <-> In w (cyc m c).
  Proof.
    intros Hw1 Hw2. induction cs as [|c0 cs IH]; intros m H c; cbn [fold_left]; [reflexivity|].
    rewrite IH.
    - destruct (Z.eq_dec c c0) as [-> | Hc]; [apply (ric_same u new m c0 Hne (H c0)); assumption | rewrite ric_other by exact Hc; reflexivity].
    - intros c'. destruct (Z.eq_dec c' c0) as [-> | Hc]; [apply (ric_same u new m c0 Hne (H c0)) | rewrite ric_other by exact Hc; apply H].
  Qed.
  Lemma fold_ric_ownC cs w : w <> new -> forall m, aget [] w (ownC (fold_left (replace_in_cell u new) cs m)) = aget [] w (ownC m).
  Proof. intros Hw. induction cs as [|c cs IH]; intros m; cbn [fold_left]; [reflexivity|]. rewrite IH. apply ric_ownC. exact Hw. Qed.
  Lemma fold_ric_removes cs : forall m, cycles_nodup m -> forall c,
    In u (cyc (fold_left (replace_in_cell u new) cs m) c) -> In u (cyc m c) /\ ~ In c cs.
  Proof.
    induction cs as [|c0 cs IH]; intros m H c Hin; cbn [fold_left] in Hin; [split; [exact Hin | intros []]|].
    assert (H1 : cycles_nodup (replace_in_cell u new m c0)).
    { intros c'. destruct (Z.eq_dec c' c0) as [-> | Hc]; [apply (ric_same u new m c0 Hne (H c0)) | rewrite ric_other by exact Hc; apply H]. }
    destruct (IH _ H1 c Hin) as [Hin1 Hnot]. destruct (Z.eq_dec c c0) as [-> | Hc].
    - exfalso. exact (proj1 (ric_same u new m c0 Hne (H c0)) Hin1).
    - rewrite ric_other in Hin1 by exact Hc. split; [exact Hin1 | intros [E | E]; [congruence | exact (Hnot E)]].
  Qed.
End FoldCells.

(* the mesh-edge steps of a vertex leave cells and ownCells alone *)
Lemma del_edge_cells_ownC m e : mcells (del_edge m e) = mcells m /\ ownC (del_edge m e) = ownC m.
Proof. unfold del_edge. destruct (aget (0, 0, false) e (medges m)) as [[a b] x]. split; reflexivity. Qed.
Lemma replace_end_cells_ownC v new m e : mcells (replace_end v new m e) = mcells m /\ ownC (replace_end v new m e) = ownC m.
Proof. unfold replace_end. destruct (aget (0, 0, false) e (medges m)) as [[a b] x]. split; reflexivity. Qed.
Lemma fold_keep {A} (f : mesh -> A -> mesh) : (forall m a, mcells (f m a) = mcells m /\ ownC (f m a) = ownC m) ->
  forall l m, mcells (fold_left f l m) = mcells m /\ ownC (fold_left f l m) = ownC m.
Proof. intros H l. induction l as [|a l IH]; intros m; cbn [fold_left]; [split; reflexivity|]. destruct (IH (f m a)) as [E1 E2]. destruct (H m a) as [E3 E4]. split; congruence. Qed.

Lemma t3_vertex_as_fold art new m u : exists m0, mcells m0 = mcells m /\ ownC m0 = ownC m /\
  t3_vertex art new m u = fold_left (replace_in_cell u new) (aget [] u (ownC m)) m0.
Proof.
  unfold t3_vertex. destruct (partition (inside art m) (aget [] u (ownE m))) as [rem rep].
  set (m1 := fold_left del_edge rem m). set (m2 := fold_left (replace_end u new) rep m1).
  destruct (fold_keep del_edge del_edge_cells_ownC rem m) as [E1 E2].
  destruct (fold_keep (replace_end u new) (replace_end_cells_ownC u new) rep m1) as [E3 E4].
  exists m2. fold m1 in E1, E2. fold m2 in E3, E4. split; [congruence|]. split; [congruence|]. rewrite E4, E2. reflexivity.
Qed.

Lemma cyc_ext m m' : mcells m' = mcells m -> forall c, cyc m' c = cyc m c.
Proof. intros E c. unfold cyc. rewrite E. reflexivity. Qed.

Theorem t3_vertex_invariant art new m u (done todo : list Z) : u <> new -> ~ In new done -> ~ In new todo ->
  cycles_nodup m -> (forall d, In d done -> clean d m) -> registered u m -> (forall t, In t todo -> registered t m) ->
  let m' := t3_vertex art new m u in
  cycles_nodup m' /\ clean u m' /\ (forall d, In d done -> clean d m') /\ (forall t, In t todo -> registered t m').
Proof.
  intros Hne Hnd Hnt Hno Hdone Hreg Htodo m'. subst m'.
  destruct (t3_vertex_as_fold art new m u) as (m0 & Ec & Eo & ->).
  assert (Hno0 : cycles_nodup m0) by (intros c; rewrite (cyc_ext m m0 Ec); apply Hno).
  split; [apply fold_ric_nodup; assumption|].
  split.
  - intros c Hin. destruct (fold_ric_removes u new Hne _ m0 Hno0 c Hin) as [Hin0 Hnot].
    rewrite (cyc_ext m m0 Ec) in Hin0. apply Hnot, Hreg, Hin0.
  - split.
    + intros d Hd c Hin. destruct (Z.eq_dec d u) as [-> | Hdu].
      * destruct (fold_ric_removes u new Hne _ m0 Hno0 c Hin) as [Hin0 _]. rewrite (cyc_ext m m0 Ec) in Hin0. exact (Hdone u Hd c Hin0).
      * assert (Hdn : d <> new) by (intros ->; exact (Hnd Hd)).
        rewrite (fold_ric_member u new Hne _ d Hdu Hdn m0 Hno0), (cyc_ext m m0 Ec) in Hin. exact (Hdone d Hd c Hin).
    + intros t Ht c Hin. assert (Htn : t <> new) by (intros ->; exact (Hnt Ht)).
      rewrite fold_ric_ownC by exact Htn. rewrite Eo.
      destruct (Z.eq_dec t u) as [-> | Htu].
      * destruct (fold_ric_removes u new Hne _ m0 Hno0 c Hin) as [Hin0 _]. rewrite (cyc_ext m m0 Ec) in Hin0. apply Hreg, Hin0.
      * rewrite (fold_ric_member u new Hne _ t Htu Htn m0 Hno0), (cyc_ext m m0 Ec) in Hin. apply (Htodo t Ht), Hin.
Qed.

Lemma fold_t3_vertex art new : forall todo done m, ~ In new done -> ~ In new todo ->
  cycles_nodup m -> (forall d, In d done -> clean d m) -> (forall t, In t todo -> registered t m) ->
  let m' := fold_left (t3_vertex art new) todo m in
  cycles_nodup m' /\ forall d, In d (done ++ todo) -> clean d m'.
Proof.
  induction todo as [|u todo IH]; intros done m Hnd Hnt Hno Hdone Htodo; cbn [fold_left].
  - rewrite app_nil_r. split; assumption.
  - assert (Hun : u <> new) by (intros ->; apply Hnt; left; reflexivity).
    assert (Hnt' : ~ In new todo) by (intros H; apply Hnt; right; exact H).
    destruct (t3_vertex_invariant art new m u done todo Hun Hnd Hnt' Hno Hdone (Htodo u (or_introl eq_refl)) (fun t Ht => Htodo t (or_intror Ht)))
      as (H1 & H2 & H3 & H4).
    destruct (IH (done ++ [u]) (t3_vertex art new m u)) as [G1 G2]; try assumption.
    + intros H. apply in_app_or in H. destruct H as [H | [E | []]]; [exact (Hnd H) | congruence].
    + intros d Hd. apply in_app_or in Hd. destruct Hd as [Hd | [<- | []]]; [apply H3, Hd | exact H2].
    + split; [exact G1|]. intros d Hd. apply G2. rewrite <- app_assoc. exact Hd.
Qed.

Lemma drop_vertex_mcells m v : mcells (drop_vertex m v) = mcells m.
Proof. unfold drop_vertex. destruct (Nat.eqb _ _); reflexivity. Qed.
Lemma fold_drop_mcells art : forall m, mcells (fold_left drop_vertex art m) = mcells m.
Proof. induction art as [|v art IH]; intros m; cbn [fold_left]; [reflexivity|]. rewrite IH. apply drop_vertex_mcells. Qed.

Lemma find_app' {A} (f : A -> bool) (l1 l2 : list A) : find f (l1 ++ l2) = match find f l1 with Some x => Some x | None => find f l2 end.
Proof. induction l1 as [|x l1 IH]; cbn [app find]; [reflexivity|]. destruct (f x); [reflexivity | exact IH]. Qed.

(* In a mesh whose cell cycles repeat no vertex and in which every artefact vertex lists the cells it occurs in, the contraction leaves no
   artefact vertex in any cell cycle - the cells name only vertices that survive - and no cycle repeats a vertex afterwards. *)
Theorem t3_removes_the_artefact_from_every_cell m art :
  (forall v, In v art -> In v (vids m)) -> cycles_nodup m -> (forall v, In v art -> registered v m) ->
  cycles_nodup (t3 m art) /\ forall v, In v art -> clean v (t3 m art).
Proof.
  intros Hv Hno Hreg. unfold t3.
  set (m1 := mkM (vids m ++ [new_vid m]) (ownE m ++ [(new_vid m, [])]) (ownC m ++ [(new_vid m, [])]) (medges m) (mcells m)).
  assert (Hnew : ~ In (new_vid m) art) by (intros H; exact (new_vid_fresh m (Hv _ H))).
  assert (Hno1 : cycles_nodup m1) by exact Hno.
  assert (Hreg1 : forall t, In t art -> registered t m1).
  { intros t Ht c Hin. specialize (Hreg t Ht c Hin). unfold m1. cbn [ownC].
    assert (Htn : t <> new_vid m) by (intros ->; exact (Hnew Ht)).
    unfold aget in *. rewrite find_app'.
    destruct (find (fun kv => Z.eqb (fst kv) t) (ownC m)) as [kv|] eqn:E; [exact Hreg | destruct Hreg]. }
  destruct (fold_t3_vertex art (new_vid m) art [] m1) as [G1 G2]; try assumption; [intros [] | intros d [] |].
  split.
  - intros c. unfold cyc. rewrite fold_drop_mcells. apply G1.
  - intros v Hin c. unfold cyc. rewrite fold_drop_mcells. apply (G2 v Hin c).
Qed.

Lemma nodupb_NoDup l : nodupb l = true -> NoDup l.
Proof. induction l as [|x l IH]; intros H; [constructor|]. cbn [nodupb] in H. apply andb_true_iff in H. destruct H as [H1 H2].
  constructor; [rewrite <- memZ_iff; intros E; rewrite E in H1; discriminate | apply IH, H2]. Qed.
Lemma aget_in {A} (d : A) k l : (exists v, In (k, v) l /\ aget d k l = v) \/ aget d k l = d.
Proof.
  unfold aget. destruct (find (fun kv => Z.eqb (fst kv) k) l) as [[k' v]|] eqn:E; [left | right; reflexivity].
  apply find_some in E. destruct E as [Hin Hk]. cbn [fst] in Hk. apply Z.eqb_eq in Hk. subst k'. exists v. split; [exact Hin | reflexivity].
Qed.
Theorem t3_hyps_sound m art : t3_hyps m art = true ->
  (forall v, In v art -> In v (vids m)) /\ cycles_nodup m /\ (forall v, In v art -> registered v m).
Proof.
  unfold t3_hyps. rewrite !andb_true_iff, !forallb_forall. intros [[H1 H2] H3]. split; [|split].
  - intros v Hv. apply memZ_iff, H1, Hv.
  - intros c. unfold cyc. destruct (aget_in (@nil Z) c (mcells m)) as [[cy [Hin ->]] | ->]; [apply nodupb_NoDup, (H2 (c, cy) Hin) | constructor].
  - intros v Hv c Hin. unfold cyc in Hin. destruct (aget_in (@nil Z) c (mcells m)) as [[cy [Hc E]] | E]; rewrite E in Hin; [|destruct Hin].
    specialize (H3 v Hv). rewrite forallb_forall in H3. specialize (H3 (c, cy) Hc). cbn [fst snd] in H3.
    apply orb_true_iff in H3. destruct H3 as [H3 | H3]; [|apply memZ_iff, H3].
    apply negb_true_iff in H3. apply memZ_iff in Hin. congruence.
Qed.
Theorem t3_leaves_no_artefact_vertex_in_a_cell m art : t3_hyps m art = true ->
  (forall c, NoDup (aget [] c (mcells (t3 m art)))) /\ forall v c, In v art -> ~ In v (aget [] c (mcells (t3 m art))).
Proof.
  intros H. destruct (t3_hyps_sound m art H) as (H1 & H2 & H3).
  destruct (t3_removes_the_artefact_from_every_cell m art H1 H2 H3) as [G1 G2]. split; [exact G1 | intros v c Hv; exact (G2 v Hv c)].
Qed.

(* ------------------------------------------------------------------ removal of isolated cells: no cell is invented, and a cell that is dropped
   was isolated (each of its vertices belonged to at most one cell) when its turn came *)
Lemma del_live_mcells fuel : forall i m v, mcells (del_live fuel i m v) = mcells m.
Proof.
  induction fuel as [|f IH]; intros i m v; cbn [del_live]; [reflexivity|].
  destruct (nth_error (aget [] v (ownE m)) i); [|reflexivity]. rewrite IH. apply (proj1 (del_edge_cells_ownC m z)).
Qed.
Lemma remove_vertex_mcells m v : mcells (remove_vertex m v) = mcells m.
Proof. unfold remove_vertex. destruct (memZ v (vids m)); [|reflexivity]. cbn [mcells]. apply del_live_mcells. Qed.
Lemma fold_remove_vertex_mcells cy : forall m, mcells (fold_left remove_vertex cy m) = mcells m.
Proof. induction cy as [|v cy IH]; intros m; cbn [fold_left]; [reflexivity|]. rewrite IH. apply remove_vertex_mcells. Qed.
Lemma adel_keys_incl {A} k (l : list (Z * A)) : incl (map fst (adel k l)) (map fst l).
Proof. unfold adel. intros x Hx. apply in_map_iff in Hx. destruct Hx as [kv [<- Hin]]. apply filter_In in Hin. apply in_map, Hin. Qed.
Theorem remove_isolated_invents_no_cell m : incl (cell_ids (remove_isolated m)) (cell_ids m).
Proof.
  unfold remove_isolated.
  set (step := fun (st : mesh * list Z) (kc : Z * list Z) => let '(m, gone) := st in
                 if isolated m (snd kc) then (fold_left remove_vertex (snd kc) m, gone ++ [fst kc]) else st).
  assert (H1 : forall l st, mcells (fst (fold_left step l st)) = mcells (fst st)).
  { induction l as [|kc l IH]; intros [m0 g0]; cbn [fold_left]; [reflexivity|]. rewrite IH. unfold step.
    destruct (isolated m0 (snd kc)); cbn [fst]; [apply fold_remove_vertex_mcells | reflexivity]. }
  specialize (H1 (mcells m) (m, [])). cbn [fst] in H1.
  destruct (fold_left step (mcells m) (m, [])) as [m1 gone]. cbn [fst] in H1.
  assert (H2 : forall g m', incl (cell_ids (fold_left (fun m c => let cy := aget [] c (mcells m) in
               mkM (vids m) (ownE m) (fold_left (fun oc v => aupd v (remove1 c) oc) cy (ownC m)) (medges m) (adel c (mcells m))) g m')) (cell_ids m')).
  { induction g as [|c g IH]; intros m'; cbn [fold_left]; [apply incl_refl|]. eapply incl_tran; [apply IH|]. unfold cell_ids. cbn [mcells]. apply adel_keys_incl. }
  eapply incl_tran; [apply H2|]. unfold cell_ids. rewrite H1. apply incl_refl.
Qed.

(* ------------------------------------------------------------------ the inner-triangle pass loses no cell *)
Lemma tri_step_cells abe fl inner st i : incl (cell_ids (fst st)) (cell_ids (fst (tri_step abe fl inner st i))).
Proof.
  destruct st as [m visited]. unfold tri_step. cbn [fst].
  destruct (existsb _ visited || existsb _ visited); [apply incl_refl|].
  destruct (Nat.ltb 3 _); [apply incl_refl|]. cbn [fst]. unfold cell_ids at 2. rewrite remove_vertex_mcells.
  apply (fold_left_incl (replace_in_cell _ _) cell_ids (replace_in_cell_cells _ _)).
Qed.
Theorem inner_triangles_keep_every_cell m : incl (cell_ids m) (cell_ids (inner_triangles m)).
Proof.
  unfold inner_triangles.
  set (abe := Interfaces.create_edges_new _ _). set (fl := _ ++ _). set (inner := filter _ _).
  generalize (seq 0 (pred (length inner))). intros l.
  assert (H : forall l st, incl (cell_ids (fst st)) (cell_ids (fst (fold_left (tri_step abe fl inner) l st)))).
  { induction l0 as [|i l0 IH]; intros st; cbn [fold_left]; [apply incl_refl|]. eapply incl_tran; [apply tri_step_cells | apply IH]. }
  exact (H l (m, [])).
Qed.

(* ------------------------------------------------------------------ the state create_lattice starts from registers every vertex on the cells it
   occurs in: the "registered" premise of the contraction theorem holds there by construction *)
Lemma aget_map_key {A} (d : A) (f : Z -> A) v vs : In v vs -> aget d v (map (fun v => (v, f v)) vs) = f v.
Proof.
  intros Hin. unfold aget. induction vs as [|w vs IH]; [destruct Hin|]. cbn [map find fst].
  destruct (Z.eqb_spec w v) as [-> | Hne]; [reflexivity|]. destruct Hin as [E | Hin]; [congruence | apply IH, Hin].
Qed.
Theorem mesh_of_lattice_registered st v : In v (vids (mesh_of_lattice st)) -> registered v (mesh_of_lattice st).
Proof.
  intros Hv c Hin. unfold mesh_of_lattice in *. cbn [vids ownC mcells] in *. unfold cyc in Hin. cbn [mcells] in Hin.
  rewrite (aget_map_key (@nil Z) _ v _ Hv).
  destruct (aget_in (@nil Z) c (enumZ (Skeleton.sk_cells st))) as [[cy [Hc E]] | E]; rewrite E in Hin; [|destruct Hin].
  apply in_map_iff. exists (c, cy). split; [reflexivity|]. apply filter_In. split; [exact Hc|]. cbn [snd]. apply memZ_iff, Hin.
Qed.
