(* SkeletonT3Proofs.v -- which vertices are artefacts; the new vertex id is fresh; a T3 contraction loses no cell; what Cell.replace_vertex
   does to a cycle without repeated vertex. *)
From Coq Require Import ZArith List Bool Lia.
From Forsys Require Import Model.PyList Model.CaseUtil Model.SkeletonT3.
Import ListNotations.
Open Scope Z_scope.

Lemma memZ_iff x l : memZ x l = true <-> In x l.
Proof. unfold memZ. rewrite existsb_exists. split; [intros [y [Hy E]]; apply Z.eqb_eq in E; subst; exact Hy | intros H; exists x; split; [exact H | apply Z.eqb_refl]]. Qed.
Lemma In_insZ x y l : In x (insZ y l) <-> x = y \/ In x l.
Proof.
  induction l as [|z l IH]; cbn [insZ]; [cbn; intuition congruence|].
  destruct (Z.leb y z); cbn [In]; [intuition congruence|]. rewrite IH. cbn [In]. intuition congruence.
Qed.
Lemma In_sortZ x l : In x (sortZ l) <-> In x l.
Proof. unfold sortZ. induction l as [|y l IH]; cbn [fold_right In]; [tauto|]. rewrite In_insZ, IH. intuition congruence. Qed.

(* skeleton.py:258-280 *)
Theorem get_artifacts_spec m v :
  In v (get_artifacts m) <->
  In v (vids m) /\ length (aget [] v (ownE m)) = 3%nat /\ length (aget [] v (ownC m)) = 2%nat /\
  ~ exists e a b, In (e, (a, b, true)) (medges m) /\ (v = a \/ v = b).
Proof.
  unfold get_artifacts. rewrite In_sortZ, !filter_In, andb_true_iff, negb_true_iff, !Nat.eqb_eq.
  assert (Hext : memZ v (flat_map (fun kv : Z * (Z * Z * bool) => let '(a, b, x) := snd kv in if x then [a; b] else []) (medges m)) = false <->
                 ~ exists e a b, In (e, (a, b, true)) (medges m) /\ (v = a \/ v = b)).
  { rewrite <- not_true_iff_false, memZ_iff, in_flat_map. split; intros H C; apply H.
    - destruct C as (e & a & b & Hin & Hv). exists (e, (a, b, true)). split; [exact Hin|]. cbn. intuition.
    - destruct C as ([e [[a b] x]] & Hin & Hv). cbn in Hv. destruct x; [|contradiction]. exists e, a, b. split; [exact Hin|]. cbn in Hv. intuition. }
  rewrite Hext. tauto.
Qed.

(* get_new_vid *)
Lemma fold_max_ge l : forall a, a <= fold_left Z.max l a /\ forall v, In v l -> v <= fold_left Z.max l a.
Proof.
  induction l as [|x l IH]; intros a; cbn [fold_left]; [split; [lia | intros v []]|].
  destruct (IH (Z.max a x)) as [H1 H2]. split; [lia|]. intros v [-> | Hv]; [lia | apply H2, Hv].
Qed.
Theorem new_vid_fresh m : ~ In (new_vid m) (vids m).
Proof. unfold new_vid. intros H. apply (proj2 (fold_max_ge (vids m) 0)) in H. lia. Qed.

(* Cell.replace_vertex on a cycle without repeated vertex *)
Lemma remove1_spec x l : NoDup l -> In x l ->
  ~ In x (remove1 x l) /\ NoDup (remove1 x l) /\ (forall y, In y (remove1 x l) <-> In y l /\ y <> x) /\ S (length (remove1 x l)) = length l.
Proof.
  induction l as [|z l IH]; intros Hnd Hin; [destruct Hin|]. inversion Hnd as [|? ? Hz Hnd']; subst. cbn [remove1].
  destruct (Z.eqb_spec x z) as [-> | Hne].
  - split; [exact Hz|]. split; [exact Hnd'|]. split; [|reflexivity].
    intros y. cbn [In]. split.
    + intros Hy. split; [right; exact Hy | intros ->; exact (Hz Hy)].
    + intros [[E | H] Hn]; [congruence | exact H].
  - destruct Hin as [E | Hin]; [congruence|]. destruct (IH Hnd' Hin) as (H1 & H2 & H3 & H4).
    split; [intros [E | H]; [congruence | exact (H1 H)]|].
    split; [constructor; [intros H; apply H3 in H; tauto | exact H2]|].
    split; [|cbn [length]; lia].
    intros y. cbn [In]. rewrite H3. split.
    + intros [E | [H Hn]]; [split; [left; exact E | congruence] | split; [right; exact H | exact Hn]].
    + intros [[E | H] Hn]; [left; exact E | right; split; assumption].
Qed.
Lemma replace1_spec x y l : NoDup l -> In x l -> ~ In y l ->
  ~ In x (replace1 x y l) /\ In y (replace1 x y l) /\ NoDup (replace1 x y l) /\
  (forall z, In z (replace1 x y l) <-> z = y \/ (In z l /\ z <> x)) /\ length (replace1 x y l) = length l.
Proof.
  induction l as [|z l IH]; intros Hnd Hin Hy; [destruct Hin|]. inversion Hnd as [|? ? Hz Hnd']; subst. cbn [replace1].
  assert (Hxy : x <> y) by (intros ->; contradiction).
  assert (Hy' : ~ In y l) by (intros H; apply Hy; right; exact H).
  assert (Hyz : y <> z) by (intros ->; apply Hy; left; reflexivity).
  destruct (Z.eqb_spec x z) as [-> | Hne].
  - split; [intros [E | H]; [congruence | exact (Hz H)]|].
    split; [left; reflexivity|].
    split; [constructor; [exact Hy' | exact Hnd']|].
    split; [|reflexivity].
    intros w. cbn [In]. split.
    + intros [E | H]; [left; congruence | right; split; [right; exact H | intros ->; exact (Hz H)]].
    + intros [E | [[E | H] Hn]]; [left; congruence | congruence | right; exact H].
  - destruct Hin as [E | Hin]; [congruence|].
    destruct (IH Hnd' Hin Hy') as (H1 & H2 & H3 & H4 & H5).
    split; [intros [E | H]; [congruence | exact (H1 H)]|].
    split; [right; exact H2|].
    split; [constructor; [rewrite H4; intros [E | [H _]]; [congruence | exact (Hz H)] | exact H3]|].
    split; [|cbn [length]; congruence].
    intros w. cbn [In]. rewrite H4. split.
    + intros [E | [E | [H Hn]]]; [right; split; [left; exact E | congruence] | left; exact E | right; split; [right; exact H | exact Hn]].
    + intros [E | [[E | H] Hn]]; [right; left; exact E | left; exact E | right; right; split; assumption].
Qed.

(* reading back what was just written *)
Lemma aget_aset_same {A} (d : A) k v l : aget d k (aset k v l) = v.
Proof.
  unfold aset, aget, ahas. destruct (existsb (fun kv => Z.eqb (fst kv) k) l) eqn:E.
  - induction l as [|[k' v'] l IH]; [discriminate|]. cbn [existsb fst] in E. cbn [map find fst].
    destruct (Z.eqb_spec k' k) as [-> | Hne]; cbn [fst]; [rewrite Z.eqb_refl; reflexivity|].
    destruct (Z.eqb_spec k' k); [congruence|]. cbn [orb] in E. apply IH, E.
  - induction l as [|[k' v'] l IH]; cbn [app find fst]; [rewrite Z.eqb_refl; reflexivity|].
    cbn [existsb fst orb] in E. apply orb_false_iff in E. destruct E as [E1 E2]. rewrite E1. apply IH, E2.
Qed.

(* the cycle of the cell after Cell.replace_vertex(v, new): the artefact vertex is gone, the new vertex is there exactly once, nothing else
   changed; the cycle gets shorter by one when the new vertex was already in it *)
Theorem replace_in_cell_cycle v new m c : NoDup (aget [] c (mcells m)) -> In v (aget [] c (mcells m)) -> v <> new ->
  let cyc := aget [] c (mcells m) in
  let cyc' := aget [] c (mcells (replace_in_cell v new m c)) in
  ~ In v cyc' /\ In new cyc' /\ NoDup cyc' /\ (forall z, In z cyc' <-> z = new \/ (In z cyc /\ z <> v)) /\
  length cyc' = (if memZ new cyc then pred (length cyc) else length cyc).
Proof.
  intros Hnd Hin Hne cyc cyc'. subst cyc cyc'. unfold replace_in_cell.
  destruct (memZ new (aget [] c (mcells m))) eqn:E; cbn [mcells]; rewrite aget_aset_same.
  - apply memZ_iff in E. destruct (remove1_spec v _ Hnd Hin) as (H1 & H2 & H3 & H4).
    split; [exact H1|]. split; [apply H3; split; [exact E | congruence]|]. split; [exact H2|]. split; [|lia].
    intros z. rewrite H3. split; [intros H; right; exact H | intros [-> | H]; [split; [exact E | congruence] | exact H]].
  - assert (Hn : ~ In new (aget [] c (mcells m))) by (rewrite <- memZ_iff, E; discriminate).
    exact (replace1_spec v new _ Hnd Hin Hn).
Qed.

(* a T3 contraction loses no cell and no cell id changes place *)
Lemma aset_keys_incl {A} k (v : A) l : incl (map fst l) (map fst (aset k v l)).
Proof.
  unfold aset. destruct (ahas k l); [|rewrite map_app; apply incl_appl, incl_refl].
  rewrite map_map. intros x Hx. apply in_map_iff in Hx. destruct Hx as [[k' v'] [<- Hin]]. apply in_map_iff.
  exists (k', v'). split; [|exact Hin]. cbn [fst]. destruct (Z.eqb_spec k' k) as [-> | ?]; reflexivity.
Qed.
Lemma fold_left_incl {A} (f : mesh -> A -> mesh) (P : mesh -> list Z) :
  (forall m a, incl (P m) (P (f m a))) -> forall l m, incl (P m) (P (fold_left f l m)).
Proof. intros H l. induction l as [|a l IH]; intros m; cbn [fold_left]; [apply incl_refl | eapply incl_tran; [apply H | apply IH]]. Qed.
Definition cell_ids (m : mesh) : list Z := map fst (mcells m).
Lemma del_edge_cells m e : cell_ids (del_edge m e) = cell_ids m.
Proof. unfold del_edge. destruct (aget (0, 0, false) e (medges m)) as [[a b] x]. reflexivity. Qed.
Lemma replace_end_cells v new m e : cell_ids (replace_end v new m e) = cell_ids m.
Proof. unfold replace_end. destruct (aget (0, 0, false) e (medges m)) as [[a b] x]. reflexivity. Qed.
Lemma replace_in_cell_cells v new m c : incl (cell_ids m) (cell_ids (replace_in_cell v new m c)).
Proof. unfold replace_in_cell, cell_ids. destruct (memZ new _); cbn [mcells]; apply aset_keys_incl. Qed.
Lemma t3_vertex_cells art new m v : incl (cell_ids m) (cell_ids (t3_vertex art new m v)).
Proof.
  unfold t3_vertex. destruct (partition (inside art m) (aget [] v (ownE m))) as [rem rep].
  eapply incl_tran; [|apply (fold_left_incl (replace_in_cell v new) cell_ids (replace_in_cell_cells v new))].
  eapply incl_tran; [|apply (fold_left_incl (replace_end v new) cell_ids); intros m' a; rewrite replace_end_cells; apply incl_refl].
  apply (fold_left_incl del_edge cell_ids). intros m' a. rewrite del_edge_cells. apply incl_refl.
Qed.
Lemma drop_vertex_cells m v : cell_ids (drop_vertex m v) = cell_ids m.
Proof. unfold drop_vertex. destruct (Nat.eqb _ _); reflexivity. Qed.
Theorem t3_keeps_every_cell m art : incl (cell_ids m) (cell_ids (t3 m art)).
Proof.
  unfold t3.
  eapply incl_tran; [|apply (fold_left_incl drop_vertex cell_ids); intros m' a; rewrite drop_vertex_cells; apply incl_refl].
  exact (fold_left_incl (t3_vertex art (new_vid m)) cell_ids (t3_vertex_cells art (new_vid m)) art
           (mkM (vids m ++ [new_vid m]) (ownE m ++ [(new_vid m, [])]) (ownC m ++ [(new_vid m, [])]) (medges m) (mcells m))).
Qed.

(* ------------------------------------------------------------------ grouping: every vertex of every artefact handed to the contraction is an
   artefact vertex, and no artefact is empty *)
Lemma grow_spec m all cur : (forall v, In v cur -> In v all) ->
  (exists t, grow m all cur = cur ++ t) /\ (forall v, In v (grow m all cur) -> In v all).
Proof.
  unfold grow. generalize (last cur 0) as v0. intros v0. generalize (aget [] v0 (ownE m)) as es. intros es. revert cur.
  induction es as [|e es IH]; intros cur Hc; cbn [fold_left].
  - split; [exists []; rewrite app_nil_r; reflexivity | exact Hc].
  - destruct (memZ (other_end m e v0) all && negb (memZ (other_end m e v0) cur)) eqn:E.
    + apply andb_true_iff in E. destruct E as [E _]. apply memZ_iff in E.
      destruct (IH (cur ++ [other_end m e v0])) as [[t Ht] Hin].
      * intros v Hv. apply in_app_or in Hv. destruct Hv as [Hv | [<- | []]]; [apply Hc, Hv | exact E].
      * split; [exists (other_end m e v0 :: t); rewrite Ht, <- app_assoc; reflexivity | exact Hin].
    + apply IH, Hc.
Qed.
Lemma In_remove1 x y l : In x (remove1 y l) -> In x l.
Proof. induction l as [|z l IH]; cbn [remove1]; [tauto|]. destruct (Z.eqb y z); cbn [In]; [tauto | intros [H | H]; [left; exact H | right; apply IH, H]]. Qed.
Lemma In_fold_remove1 x cur : forall l, In x (fold_left (fun l y => remove1 y l) cur l) -> In x l.
Proof. induction cur as [|y cur IH]; intros l H; cbn [fold_left] in H; [exact H | apply IH in H; apply In_remove1 in H; exact H]. Qed.
Theorem group_spec m : forall fuel all g, In g (group fuel m all) -> g <> [] /\ forall v, In v g -> In v all.
Proof.
  induction fuel as [|f IH]; intros all g Hg; [destruct Hg|]. destruct all as [|a all]; [destruct Hg|]. cbn [group] in Hg.
  destruct (grow_spec m (a :: all) [a]) as [[t Ht] Hin]; [intros v [<- | []]; left; reflexivity|].
  destruct Hg as [<- | Hg].
  - split; [rewrite Ht; discriminate | exact Hin].
  - destruct (IH _ _ Hg) as [Hne Hsub]. split; [exact Hne|]. intros v Hv. apply Hsub in Hv. apply In_fold_remove1 in Hv. exact Hv.
Qed.
Theorem artefacts_consist_of_artefact_vertices m g : In g (artefacts m) -> g <> [] /\ forall v, In v g -> In v (get_artifacts m).
Proof. unfold artefacts. apply group_spec. Qed.
