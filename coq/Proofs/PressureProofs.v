From Coq Require Import ZArith QArith List Bool Lia.
From Forsys Require Import Model.Num Model.PyList Model.PressureSys.
Import ListNotations.

(* ---------------------------------------------------------------- rows *)
Lemma position_of_lt k keys p : position_of k keys = Some p -> (p < length keys)%nat.
Proof. revert p; induction keys as [|x t IH]; intros p H; simpl in *; [discriminate|].
  destruct (Z.eqb x k); [inversion H; lia|]. destruct (position_of k t) as [q|]; simpl in H; [|discriminate].
  inversion H; subst. specialize (IH q eq_refl). lia. Qed.

Lemma nth_map_seq (g : nat -> Z) n j : nth j (map g (seq 0 n)) 0%Z = if Nat.ltb j n then g j else 0%Z.
Proof. destruct (Nat.ltb_spec j n) as [Hj|Hj].
  - rewrite (nth_indep _ 0%Z (g 0%nat)) by (rewrite map_length, seq_length; exact Hj). rewrite map_nth, seq_nth by exact Hj. reflexivity.
  - apply nth_overflow. rewrite map_length, seq_length. exact Hj. Qed.

(* exactly one +1 and one -1, at the columns of the interface's two cells; every other entry is 0 *)
Theorem row_shape keys c1 c2 sign1 r p1 p2 :
  get_row keys [c1; c2] sign1 = Some r -> position_of c1 keys = Some p1 -> position_of c2 keys = Some p2 -> p1 <> p2 ->
  let s := if (0 <? sign1)%Z then 1%Z else (-1)%Z in
  length r = length keys /\ nth p1 r 0%Z = s /\ nth p2 r 0%Z = (- s)%Z /\
  (forall j, j <> p1 -> j <> p2 -> nth j r 0%Z = 0%Z).
Proof. intros H H1 H2 Hne s. unfold get_row in H. rewrite H1, H2 in H. inversion H; subst. clear H.
  pose proof (position_of_lt _ _ _ H1) as L1. pose proof (position_of_lt _ _ _ H2) as L2. fold s.
  assert (G : forall j, nth j (map (fun i => if Nat.eqb i p2 then (- s)%Z else if Nat.eqb i p1 then s else 0%Z) (seq 0 (length keys))) 0%Z
                       = if Nat.ltb j (length keys) then (if Nat.eqb j p2 then (- s)%Z else if Nat.eqb j p1 then s else 0%Z) else 0%Z).
  { intros j. apply nth_map_seq. }
  split; [rewrite map_length, seq_length; reflexivity|]. split; [|split].
  - rewrite G. destruct (Nat.ltb_spec p1 (length keys)); [|lia]. destruct (Nat.eqb_spec p1 p2); [contradiction|]. rewrite Nat.eqb_refl. reflexivity.
  - rewrite G. destruct (Nat.ltb_spec p2 (length keys)); [|lia]. rewrite Nat.eqb_refl. reflexivity.
  - intros j Hj1 Hj2. rewrite G. destruct (Nat.ltb j (length keys)); [|reflexivity].
    destruct (Nat.eqb_spec j p2); [contradiction|]. destruct (Nat.eqb_spec j p1); [contradiction|reflexivity]. Qed.

(* storing the interface's first cell in the opposite sense multiplies the row by -1 (the right-hand side changes sign with it) *)
Theorem row_orientation keys own sign1 r : (sign1 <> 0)%Z -> get_row keys own sign1 = Some r ->
  get_row keys own (- sign1)%Z = Some (map Z.opp r).
Proof. intros Hs H. unfold get_row in *. destruct own as [|c1 [|c2 [|]]]; try discriminate.
  destruct (position_of c1 keys) as [p1|]; [|discriminate]. destruct (position_of c2 keys) as [p2|]; [|discriminate].
  inversion H; subst. f_equal. rewrite map_map. apply map_ext. intros i.
  destruct (Z.ltb_spec 0 sign1); destruct (Z.ltb_spec 0 (- sign1)); try lia;
  destruct (Nat.eqb i p2); destruct (Nat.eqb i p1); reflexivity. Qed.

(* ---------------------------------------------------------------- zero re-insertion *)
Fixpoint spread {A} (zero : A) (positions : list nat) (removed : list nat) (sol : list A) : list A :=
  match positions with
  | [] => sol
  | v :: t => if existsb (Nat.eqb v) removed then zero :: spread zero t removed sol
              else match sol with x :: s' => x :: spread zero t removed s' | [] => spread zero t removed [] end
  end.

Lemma insert_at_app {A} (P R : list A) v : insert_at (length P) v (P ++ R) = P ++ v :: R.
Proof. induction P as [|x P IH]; simpl; [destruct R; reflexivity|]. rewrite IH. reflexivity. Qed.

Lemma reinsert_fold {A} (zero : A) removed m : forall k P R, length P = k ->
  length R = length (filter (fun v => negb (existsb (Nat.eqb v) removed)) (seq k m)) ->
  fold_left (fun s v => if existsb (Nat.eqb v) removed then insert_at v zero s else s) (seq k m) (P ++ R)
  = P ++ spread zero (seq k m) removed R.
Proof. induction m as [|m IH]; intros k P R HP HR; simpl; [reflexivity|].
  simpl in HR. destruct (existsb (Nat.eqb k) removed) eqn:E; simpl in HR.
  - replace (insert_at k zero (P ++ R)) with (P ++ zero :: R) by (subst k; symmetry; apply insert_at_app).
    replace (P ++ zero :: R) with ((P ++ [zero]) ++ R) by (rewrite <- app_assoc; reflexivity).
    rewrite (IH (S k) (P ++ [zero]) R); [rewrite <- app_assoc; reflexivity|rewrite app_length; simpl; lia|exact HR].
  - destruct R as [|x R']; [simpl in HR; discriminate|]. simpl in HR.
    replace (P ++ x :: R') with ((P ++ [x]) ++ R') by (rewrite <- app_assoc; reflexivity).
    rewrite (IH (S k) (P ++ [x]) R'); [rewrite <- app_assoc; reflexivity|rewrite app_length; simpl; lia|lia]. Qed.

(* cells touching no internal interface get 0 at their own position; every other cell gets its solution entry, in order *)
Theorem reinsert_zeros_spec {A} (zero : A) n removed sol :
  length sol = length (filter (fun v => negb (existsb (Nat.eqb v) removed)) (seq 0 n)) ->
  reinsert_zeros zero n removed sol = spread zero (seq 0 n) removed sol.
Proof. intros H. unfold reinsert_zeros. apply (reinsert_fold zero removed n 0 [] sol eq_refl H). Qed.

Lemma spread_spec {A} (zero : A) removed : forall positions sol,
  length sol = length (filter (fun v => negb (existsb (Nat.eqb v) removed)) positions) ->
  length (spread zero positions removed sol) = length positions /\
  map snd (filter (fun p => negb (existsb (Nat.eqb (fst p)) removed)) (combine positions (spread zero positions removed sol))) = sol /\
  (forall i v, nth_error positions i = Some v -> existsb (Nat.eqb v) removed = true -> nth_error (spread zero positions removed sol) i = Some zero).
Proof. induction positions as [|v t IH]; intros sol H; simpl in *.
  - destruct sol; [|discriminate]. repeat split; try reflexivity. intros i v Hi. destruct i; discriminate.
  - destruct (existsb (Nat.eqb v) removed) eqn:E; simpl in *.
    + destruct (IH sol H) as [H1 [H2 H3]]. split; [simpl; rewrite H1; reflexivity|]. split; [rewrite E; simpl; exact H2|].
      intros i w Hi Hw. destruct i as [|i]; [reflexivity|]. simpl in *. apply (H3 i w Hi Hw).
    + destruct sol as [|x s']; [discriminate|]. simpl in H. assert (H' : length s' = length (filter (fun v0 => negb (existsb (Nat.eqb v0) removed)) t)) by lia.
      destruct (IH s' H') as [H1 [H2 H3]]. split; [simpl; rewrite H1; reflexivity|]. split; [simpl; rewrite E; simpl; rewrite H2; reflexivity|].
      intros i w Hi Hw. destruct i as [|i]; simpl in *; [inversion Hi; subst; congruence|]. apply (H3 i w Hi Hw). Qed.

Lemma nth_error_combine_seq {A} (l : list A) : forall s i k, nth_error l i = Some k ->
  nth_error (combine (seq s (length l)) l) i = Some ((s + i)%nat, k).
Proof. induction l as [|x t IH]; intros s i k H; [destruct i; discriminate|]. simpl. destruct i as [|i]; simpl in *.
  - inversion H. f_equal. f_equal. lia.
  - rewrite (IH (S s) i k H). f_equal. f_equal. lia. Qed.

(* pressures go to the cells by their position in the cells dictionary *)
Theorem assign_follows_mapping {A} (dflt : A) keys pressures i k :
  nth_error keys i = Some k -> nth_error (assign_pressures dflt keys pressures) i = Some (k, nth i pressures dflt).
Proof. intros H. unfold assign_pressures. rewrite nth_error_map, (nth_error_combine_seq keys 0 i k H). reflexivity. Qed.
