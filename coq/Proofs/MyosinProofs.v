From Coq Require Import ZArith QArith List Bool Lia FinFun.
From Forsys Require Import Model.Myosin.
Import ListNotations.
Open Scope Z_scope.

Lemma zrange_length a n : length (zrange a n) = n. Proof. unfold zrange. rewrite map_length, seq_length. reflexivity. Qed.
Lemma zrange_In a n z : In z (zrange a n) <-> a <= z < a + Z.of_nat n.
Proof. unfold zrange. rewrite in_map_iff. split.
  - intros [i [<- Hi]]. apply in_seq in Hi. lia.
  - intros H. exists (Z.to_nat (z - a)). split; [lia|apply in_seq; lia]. Qed.
Lemma zrange_NoDup a n : NoDup (zrange a n).
Proof. unfold zrange. apply Injective_map_NoDup; [intros i j H; lia|apply seq_NoDup]. Qed.

Lemma NoDup_app' {A} (l1 l2 : list A) : NoDup l1 -> NoDup l2 -> (forall x, In x l1 -> ~ In x l2) -> NoDup (l1 ++ l2).
Proof. induction l1 as [|a l1 IH]; intros H1 H2 Hd; [exact H2|]. simpl. inversion H1; subst. constructor.
  - rewrite in_app_iff. intros [H|H]; [contradiction|]. apply (Hd a); [left; reflexivity|exact H].
  - apply IH; auto. intros x Hx. apply Hd. right. exact Hx. Qed.

(* the window is the (2L+1)^2 square of distinct pixels centred on the vertex *)
Theorem window_is_square x y L :
  length (layer_elements x y L) = ((2 * L + 1) * (2 * L + 1))%nat /\
  (forall p, In p (layer_elements x y L) <-> Z.abs (fst p - x) <= Z.of_nat L /\ Z.abs (snd p - y) <= Z.of_nat L) /\
  NoDup (layer_elements x y L).
Proof. unfold layer_elements. set (r := zrange (- Z.of_nat L) (2 * L + 1)). split; [|split].
  - assert (G : forall l, length (flat_map (fun ii => map (fun kk => (x + ii, y + kk)) r) l) = (length l * length r)%nat).
    { induction l as [|a l IH]; [reflexivity|]. simpl. rewrite app_length, map_length, IH. reflexivity. }
    rewrite G. unfold r. rewrite zrange_length. reflexivity.
  - intros [px py]. rewrite in_flat_map. simpl. split.
    + intros [ii [Hii Hp]]. apply in_map_iff in Hp. destruct Hp as [kk [E Hkk]]. inversion E; subst.
      apply zrange_In in Hii. apply zrange_In in Hkk. lia.
    + intros [H1 H2]. exists (px - x). split; [apply zrange_In; lia|]. apply in_map_iff. exists (py - y). split; [f_equal; lia|apply zrange_In; lia].
  - assert (Hr : NoDup r) by apply zrange_NoDup. clearbody r.
    assert (G : forall l, NoDup l -> NoDup (flat_map (fun ii => map (fun kk => (x + ii, y + kk)) r) l)).
    { induction l as [|a l IH]; intros Hl; [constructor|]. simpl. inversion Hl; subst. apply NoDup_app'.
      - apply Injective_map_NoDup; [intros i j H; inversion H; lia|exact Hr].
      - apply IH. assumption.
      - intros [px py] Hin Hin2. apply in_map_iff in Hin. destruct Hin as [kk [E _]]. inversion E; subst.
        apply in_flat_map in Hin2. destruct Hin2 as [ii [Hii Hp]]. apply in_map_iff in Hp. destruct Hp as [kk' [E' _]]. inversion E'.
        assert (ii = a) by lia. subst. contradiction. }
    apply G. exact Hr. Qed.

Lemma pix_eqb_spec a b : pix_eqb a b = true <-> a = b.
Proof. unfold pix_eqb. rewrite andb_true_iff, !Z.eqb_eq. destruct a, b; simpl. split; [intros [-> ->]; reflexivity|intros H; inversion H; auto]. Qed.

(* with integration every pixel of the band is summed once *)
Theorem band_pixels_distinct band : NoDup (dedup_pix band) /\ (forall p, In p (dedup_pix band) <-> In p band).
Proof. induction band as [|p t [IH1 IH2]]; [split; [constructor|tauto]|]. simpl.
  destruct (existsb (pix_eqb p) t) eqn:E.
  - split; [exact IH1|]. intros q. rewrite IH2. split; [tauto|]. intros [<-|H]; [|exact H].
    apply existsb_exists in E. destruct E as [z [Hz Hp]]. apply pix_eqb_spec in Hp. subst. exact Hz.
  - split.
    + constructor; [|exact IH1]. rewrite IH2. intros Hin. assert (existsb (pix_eqb p) t = true); [|congruence].
      apply existsb_exists. exists p. split; [exact Hin|apply pix_eqb_spec; reflexivity].
    + intros q. simpl. rewrite IH2. tauto. Qed.

(* 'average' normalisation: the stored values average to one *)
Open Scope Q_scope.
Lemma qsum_div (l : list Q) (m : Q) : fold_right Qplus 0 (map (fun v => v / m) l) == (fold_right Qplus 0 l) / m.
Proof. induction l as [|x t IH]; simpl; [unfold Qdiv; ring|]. rewrite IH. unfold Qdiv. ring. Qed.
Theorem average_normalisation_mean_one (vals : list Q) : ~ qmean vals == 0 -> qmean (normalise_average vals) == 1.
Proof. intros Hm. unfold normalise_average, qmean at 1. rewrite map_length, qsum_div. fold (qmean vals).
  set (n := inject_Z (Z.of_nat (length vals))). set (s := fold_right Qplus 0 vals).
  assert (E : s / qmean vals / n == (s / n) / qmean vals) by (unfold Qdiv; ring). rewrite E. fold (qmean vals).
  unfold Qdiv. apply Qmult_inv_r. exact Hm. Qed.
(* and keep the order given: position i of the result belongs to interface i *)
Theorem stored_in_order (vals : list Q) : length (normalise_average vals) = length vals.
Proof. unfold normalise_average. apply map_length. Qed.
