From Coq Require Import ZArith QArith List Bool Lia FinFun.
From Forsys Require Import Model.Myosin.
Import ListNotations.
Open Scope Z_scope.

Lemma zrange_length a n : length (zrange a n) = n. Proof. unfold zrange. rewrite map_length, seq_length. reflexivity. Qed.
Lemma zrange_In a n z : In z (zrange a n) <-> a <= z < a + Z.of_nat n.
Proof. unfold zrange. rewrite in_map_iff. split.
  - intros [i [<- Hi]]. apply in_seq in Hi. lia.
  - intros H. exists (Z.to_nat (z - a)). split; [lia|apply in_seq; lia]. Qed.
Lemma zrange_NoDup a n : NoDup (zrange a n).
Proof. unfold zrange. apply Injective_map_NoDup; [intros i j H; lia|apply seq_NoDup]. Qed.

Lemma NoDup_app' {A} (l1 l2 : list A) : NoDup l1 -> NoDup l2 -> (forall x, In x l1 -> ~ In x l2) -> NoDup (l1 ++ l2).
Proof. induction l1 as [|a l1 IH]; intros H1 H2 Hd; [exact H2|]. simpl. inversion H1; subst. constructor.
  - rewrite in_app_iff. intros [H|H]; [contradiction|]. apply (Hd a); [left; reflexivity|exact H].
  - apply IH; auto. intros x Hx. apply Hd. right. exact Hx. Qed.

(* the window is the (2L+1)^2 square of distinct pixels centred on the vertex *)
Theorem window_is_square x y L :
  length (layer_elements x y L) = ((2 * L + 1) * (2 * L + 1))%nat /\
  (forall p, In p (layer_elements x y L) <-> Z.abs (fst p - x) <= Z.of_nat L /\ Z.abs (snd p - y) <= Z.of_nat L) /\
  NoDup (layer_elements x y L).
Proof. unfold layer_elements. set (r := zrange (- Z.of_nat L) (2 * L + 1)). split; [|split].
  - assert (G : forall l, length (flat_map (fun ii => map (fun kk => (x + ii, y + kk)) r) l) = (length l * length r)%nat).
    { induction l as [|a l IH]; [reflexivity|]. simpl. rewrite app_length, map_length, IH. reflexivity. }
    rewrite G. unfold r. rewrite zrange_length. reflexivity.
  - intros [px py]. rewrite in_flat_map. simpl. split.
    + intros [ii [Hii Hp]]. apply in_map_iff in Hp. destruct Hp as [kk [E Hkk]]. inversion E; subst.
      apply zrange_In in Hii. apply zrange_In in Hkk. lia.
    + intros [H1 H2]. exists (px - x). split; [apply zrange_In; lia|]. apply in_map_iff. exists (py - y). split; [f_equal; lia|apply zrange_In; lia].
  - assert (Hr : NoDup r) by apply zrange_NoDup. clearbody r.
    assert (G : forall l, NoDup l -> NoDup (flat_map (fun ii => map (fun kk => (x + ii, y + kk)) r) l)).
    { induction l as [|a l IH]; intros Hl; [constructor|]. simpl. inversion Hl; subst. apply NoDup_app'.
      - apply Injective_map_NoDup; [intros i j H; inversion H; lia|exact Hr].
      - apply IH. assumption.
      - intros [px py] Hin Hin2. apply in_map_iff in Hin. destruct Hin as [kk [E _]]. inversion E; subst.
        apply in_flat_map in Hin2. destruct Hin2 as [ii [Hii Hp]]. apply in_map_iff in Hp. destruct Hp as [kk' [E' _]]. inversion E'.
        assert (ii = a) by lia. subst. contradiction. }
    apply G. exact Hr. Qed.

Lemma pix_eqb_spec a b : pix_eqb a b = true <-> a = b.
Proof. unfold pix_eqb. rewrite andb_true_iff, !Z.eqb_eq. destruct a, b; simpl. split; [intros [-> ->]; reflexivity|intros H; inversion H; auto]. Qed.

(* with integration every pixel of the band is summed once *)
Theorem band_pixels_distinct band : NoDup (dedup_pix band) /\ (forall p, In p (dedup_pix band) <-> In p band).
Proof. induction band as [|p t [IH1 IH2]]; [split; [constructor|tauto]|]. simpl.
  destruct (existsb (pix_eqb p) t) eqn:E.
  - split; [exact IH1|]. intros q. rewrite IH2. split; [tauto|]. intros [<-|H]; [|exact H].
    apply existsb_exists in E. destruct E as [z [Hz Hp]]. apply pix_eqb_spec in Hp. subst. exact Hz.
  - split.
    + constructor; [|exact IH1]. rewrite IH2. intros Hin. assert (existsb (pix_eqb p) t = true); [|congruence].
      apply existsb_exists. exists p. split; [exact Hin|apply pix_eqb_spec; reflexivity].
    + intros q. simpl. rewrite IH2. tauto. Qed.

(* 'average' normalisation: the stored values average to one *)
Open Scope Q_scope.
Lemma qsum_div (l : list Q) (m : Q) : fold_right Qplus 0 (map (fun v => v / m) l) == (fold_right Qplus 0 l) / m.
Proof. induction l as [|x t IH]; simpl; [unfold Qdiv; ring|]. rewrite IH. unfold Qdiv. ring. Qed.
Theorem average_normalisation_mean_one (vals : list Q) : ~ qmean vals == 0 -> qmean (normalise_average vals) == 1.
Proof. intros Hm. unfold normalise_average, qmean at 1. rewrite map_length, qsum_div. fold (qmean vals).
  set (n := inject_Z (Z.of_nat (length vals))). set (s := fold_right Qplus 0 vals).
  assert (E : s / qmean vals / n == (s / n) / qmean vals) by (unfold Qdiv; ring). rewrite E. fold (qmean vals).
  unfold Qdiv. apply Qmult_inv_r. exact Hm. Qed.
(* and keep the order given: position i of the result belongs to interface i *)
Theorem stored_in_order (vals : list Q) : length (normalise_average vals) = length vals.
Proof. unfold normalise_average. apply map_length. Qed.

(* ================================================================== linearity in the image, uniform images *)
Lemma qsum_scale (s : Q) (l : list Q) : fold_right Qplus 0 (map (fun v => s * v) l) == s * fold_right Qplus 0 l.
Proof. induction l as [|x t IH]; simpl; [ring|]. rewrite IH. ring. Qed.
Lemma qsum_add (f g : Z * Z -> Q) (l : list (Z * Z)) :
  fold_right Qplus 0 (map (fun q => f q + g q) l) == fold_right Qplus 0 (map f l) + fold_right Qplus 0 (map g l).
Proof. induction l as [|x t IH]; simpl; [ring|]. rewrite IH. ring. Qed.
(* the integrated intensity is linear in the image *)
Theorem integrated_scale (s : Q) img band len :
  integrated (fun x y => s * img x y) band len == s * integrated img band len.
Proof.
  unfold integrated. rewrite <- (map_map (fun q => img (fst q) (snd q)) (fun v => s * v)), qsum_scale. unfold Qdiv. ring.
Qed.
Theorem integrated_add img1 img2 band len :
  integrated (fun x y => img1 x y + img2 x y) band len == integrated img1 band len + integrated img2 band len.
Proof.
  unfold integrated. rewrite (qsum_add (fun q => img1 (fst q) (snd q)) (fun q => img2 (fst q) (snd q))). unfold Qdiv. ring.
Qed.

(* the median is positively homogeneous: sorting commutes with multiplication by s > 0 *)
Lemma Qle_bool_scale s x y : 0 < s -> Qle_bool (s * x) (s * y) = Qle_bool x y.
Proof.
  intros Hs. destruct (Qle_bool x y) eqn:E.
  - apply Qle_bool_iff. apply Qle_bool_iff in E. apply Qmult_le_l; assumption.
  - apply not_true_is_false. intros H. apply Qle_bool_iff in H. apply Qmult_le_l in H; [|assumption].
    apply Qle_bool_iff in H. congruence.
Qed.
Lemma qinsert_scale s x l : 0 < s -> qinsert (s * x) (map (fun v => s * v) l) = map (fun v => s * v) (qinsert x l).
Proof.
  intros Hs. induction l as [|y t IH]; [reflexivity|]. cbn [map qinsert]. rewrite Qle_bool_scale by assumption.
  destruct (Qle_bool x y); cbn [map]; [reflexivity|]. now rewrite IH.
Qed.
Lemma qsort_scale s l : 0 < s -> qsort (map (fun v => s * v) l) = map (fun v => s * v) (qsort l).
Proof.
  intros Hs. unfold qsort. induction l as [|x t IH]; [reflexivity|]. cbn [map fold_right]. rewrite IH. now apply qinsert_scale.
Qed.
Lemma qinsert_length x l : length (qinsert x l) = S (length l).
Proof. induction l as [|y t IH]; [reflexivity|]. cbn [qinsert]. destruct (Qle_bool x y); cbn [length]; [reflexivity|]. now rewrite IH. Qed.
Lemma qsort_length l : length (qsort l) = length l.
Proof. unfold qsort. induction l as [|x t IH]; [reflexivity|]. cbn [fold_right length]. now rewrite qinsert_length, IH. Qed.
Theorem median_scale s l : 0 < s -> median (map (fun v => s * v) l) == s * median l.
Proof.
  intros Hs. unfold median. rewrite map_length, qsort_scale by assumption.
  destruct l as [|x t]; [cbn; ring|].
  assert (Hk : (Nat.div (length (x :: t)) 2 < length (qsort (x :: t)))%nat).
  { rewrite qsort_length. apply Nat.div_lt; cbn [length]; lia. }
  rewrite (nth_indep _ 0 (s * 0)) by (now rewrite map_length).
  rewrite (map_nth (fun v => s * v)). reflexivity.
Qed.
Lemma qmean_scale s l : qmean (map (fun v => s * v) l) == s * qmean l.
Proof. unfold qmean. rewrite map_length, qsum_scale. unfold Qdiv. ring. Qed.
Lemma qsum_ext (f g : Z * Z -> Q) l : (forall p, f p == g p) -> fold_right Qplus 0 (map f l) == fold_right Qplus 0 (map g l).
Proof. intros H. induction l as [|x t IH]; simpl; [reflexivity|]. now rewrite IH, H. Qed.
(* without integration the intensity is positively homogeneous in the image *)
Theorem non_integrated_scale s img layers pixels : 0 < s ->
  non_integrated (fun x y => s * img x y) layers pixels == s * non_integrated img layers pixels.
Proof.
  intros Hs. unfold non_integrated.
  rewrite <- (qmean_scale s). unfold qmean. rewrite !map_length, !map_map.
  apply Qmult_comp; [|reflexivity].
  apply qsum_ext. intros p.
  rewrite <- (map_map (fun q => img (fst q) (snd q)) (fun v => s * v)). now apply median_scale.
Qed.

(* a uniformly bright image gives every interface the same value: the brightness itself *)
Lemma qinsert_repeat c n : qinsert c (repeat c n) = repeat c (S n).
Proof.
  destruct n as [|n]; [reflexivity|]. cbn [repeat qinsert].
  replace (Qle_bool c c) with true by (symmetry; apply Qle_bool_iff; apply Qle_refl). reflexivity.
Qed.
Lemma qsort_repeat c n : qsort (repeat c n) = repeat c n.
Proof. unfold qsort. induction n as [|n IH]; [reflexivity|]. cbn [repeat fold_right]. rewrite IH. apply qinsert_repeat. Qed.
Lemma map_const {A} (c : Q) (l : list A) : map (fun _ => c) l = repeat c (length l).
Proof. induction l as [|x t IH]; [reflexivity|]. cbn. now rewrite IH. Qed.
Lemma median_const {A} (c : Q) (l : list A) : median (map (fun _ => c) l) = c \/ l = [].
Proof.
  destruct l as [|x t]; [right; reflexivity|left].
  unfold median. rewrite map_const, qsort_repeat, repeat_length.
  set (n := length (x :: t)). assert (Hk : (Nat.div n 2 < n)%nat) by (apply Nat.div_lt; unfold n; cbn [length]; lia).
  revert Hk. generalize (Nat.div n 2). intros k Hk. revert k Hk. induction n as [|n IH]; intros k Hk; [lia|].
  destruct k as [|k]; [reflexivity|]. cbn [repeat nth]. apply IH. lia.
Qed.
Theorem non_integrated_uniform c layers pixels : pixels <> [] -> non_integrated (fun _ _ => c) layers pixels == c.
Proof.
  intros Hne. unfold non_integrated.
  assert (Hw : forall p : Z * Z, median (map (fun q : Z * Z => c) (layer_elements (fst p) (snd p) layers)) = c).
  { intros p. destruct (median_const c (layer_elements (fst p) (snd p) layers)) as [H|H]; [exact H|].
    exfalso. pose proof (f_equal (@length _) H) as Hl. rewrite (proj1 (window_is_square (fst p) (snd p) layers)) in Hl. cbn in Hl. lia. }
  rewrite (map_ext _ (fun _ => c)) by exact Hw. rewrite map_const. unfold qmean. rewrite repeat_length.
  assert (Hn : (0 < length pixels)%nat) by (destruct pixels; [congruence|cbn; lia]).
  revert Hn. generalize (length pixels). intros n Hn.
  assert (E : fold_right Qplus 0 (repeat c n) == inject_Z (Z.of_nat n) * c).
  { clear Hn. induction n as [|n IH]; [cbn; ring|]. cbn [repeat fold_right]. rewrite IH, Nat2Z.inj_succ. unfold Z.succ. rewrite inject_Z_plus. ring. }
  rewrite E. field. intros H0.
  assert (Hq : 0 < inject_Z (Z.of_nat n)) by (change 0 with (inject_Z 0); rewrite <- Zlt_Qlt; lia).
  rewrite H0 in Hq. exact (Qlt_irrefl 0 Hq).
Qed.

(* the integrated intensity depends on the SET of band pixels only: neither on the order in which the walk produced them nor on how
   often a pixel was produced *)
From Coq Require Import Permutation.
Lemma qsum_perm (l1 l2 : list Q) : Permutation l1 l2 -> fold_right Qplus 0 l1 == fold_right Qplus 0 l2.
Proof. induction 1 as [|x l1 l2 _ IH|x y l|l1 l2 l3 _ IH1 _ IH2]; [reflexivity| | |].
  - cbn [fold_right]. rewrite IH. reflexivity.
  - cbn [fold_right]. ring.
  - rewrite IH1. exact IH2. Qed.
Theorem integrated_depends_on_the_pixel_set img band band' len : (forall p, In p band <-> In p band') ->
  integrated img band len == integrated img band' len.
Proof. intros H. unfold integrated.
  assert (P : Permutation (dedup_pix band) (dedup_pix band')).
  { apply NoDup_Permutation; [apply band_pixels_distinct|apply band_pixels_distinct|]. intros p.
    rewrite (proj2 (band_pixels_distinct band) p), (proj2 (band_pixels_distinct band') p). apply H. }
  rewrite (qsum_perm _ _ (Permutation_map (fun q => img (fst q) (snd q)) P)). reflexivity. Qed.
