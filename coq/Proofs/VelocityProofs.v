(* VelocityProofs.v -- the adimensional normalisation (Model/Velocity.v) over the reals. *)
From Coq Require Import Reals Lra Lia List ZArith.
From Forsys Require Import Model.Num Model.Velocity.
Import ListNotations.
Local Open Scope R_scope.

Notation rspeed := (speed ROps).
Notation rmean := (mean_speed ROps).

Lemma rsum_nil : sum ROps [] = 0.
Proof. reflexivity. Qed.
Lemma rsum_cons a l : sum ROps (a :: l) = a + sum ROps l.
Proof. reflexivity. Qed.
Lemma rsum_map_scale k l : sum ROps (map (fun x => k * x) l) = k * sum ROps l.
Proof. induction l as [|a l IH]; cbn [map]. - rewrite rsum_nil. ring. - rewrite !rsum_cons, IH. ring. Qed.

Lemma speed_eq v : rspeed v = sqrt (fst v * fst v + snd v * snd v).
Proof. reflexivity. Qed.
Lemma speed_zero : rspeed (0, 0) = 0.
Proof. rewrite speed_eq. cbn [fst snd]. replace (0 * 0 + 0 * 0) with 0 by ring. apply sqrt_0. Qed.
Lemma speed_nonneg v : 0 <= rspeed v.
Proof. rewrite speed_eq. apply sqrt_pos. Qed.
Definition vscale (k : R) (v : R * R) : R * R := (k * fst v, k * snd v).
Lemma speed_scale k v : 0 <= k -> rspeed (vscale k v) = k * rspeed v.
Proof.
  intros Hk. rewrite !speed_eq. unfold vscale. cbn [fst snd].
  replace (k * fst v * (k * fst v) + k * snd v * (k * snd v)) with (k * k * (fst v * fst v + snd v * snd v)) by ring.
  rewrite sqrt_mult by nra. rewrite sqrt_square by assumption. reflexivity.
Qed.

(* the mean is taken over ALL used junctions: n * mean = sum of all speeds *)
Theorem mean_speed_counts_every_junction vs : vs <> [] ->
  rmean vs * INR (length vs) = sum ROps (map rspeed vs).
Proof.
  intros Hne. unfold mean_speed. cbn [div ofZ ROps]. rewrite <- INR_IZR_INZ.
  assert (Hn : INR (length vs) <> 0) by (apply not_0_INR; destruct vs; [congruence|discriminate]).
  field. exact Hn.
Qed.
(* a resting junction (or one without tracked partner: velocity zero) lowers the mean *)
Corollary resting_junction_counts vs :
  rmean ((0, 0) :: vs) * INR (S (length vs)) = sum ROps (map rspeed vs).
Proof.
  change (S (length vs)) with (length ((0, 0) :: vs)).
  rewrite (mean_speed_counts_every_junction ((0, 0) :: vs)) by discriminate.
  cbn [map]. rewrite rsum_cons, speed_zero. ring.
Qed.

(* change of units: all velocities multiplied by k > 0 (time stamps divided by k, or lengths multiplied by k) *)
Theorem mean_speed_scale k vs : 0 <= k -> rmean (map (vscale k) vs) = k * rmean vs.
Proof.
  intros Hk. unfold mean_speed. rewrite map_length, map_map.
  rewrite (map_ext _ (fun v => k * rspeed v)) by (intros v; now apply speed_scale).
  rewrite <- (map_map rspeed (fun x => k * x)), rsum_map_scale. cbn [div ROps]. unfold Rdiv. ring.
Qed.
Theorem adimensional_rhs_unit_invariant k vs b vn : 0 < k -> rmean vs <> 0 -> vs <> [] ->
  velocity_matrix ROps true (map (vscale k) vs) (map (fun x => k * x) b) vn
  = (fst (velocity_matrix ROps true vs b vn), k * snd (velocity_matrix ROps true vs b vn)).
Proof.
  intros Hk Hm Hne. unfold velocity_matrix, average_velocity.
  destruct vs as [|v vs]; [congruence|]. cbn [map fst snd].
  change (vscale k v :: map (vscale k) vs) with (map (vscale k) (v :: vs)).
  rewrite mean_speed_scale by lra. f_equal.
  unfold scale_rhs. rewrite map_map. apply map_ext. intros x. cbn [mul div ROps]. field. split; [exact Hm|lra].
Qed.
(* dimensional mode and static mode: the normaliser is one *)
Theorem dimensional_normaliser_is_one vs b vn :
  velocity_matrix ROps false vs b vn = (map (fun x => x / 1 * vn) b, 1).
Proof. unfold velocity_matrix, average_velocity. destruct vs; reflexivity. Qed.
Theorem no_junction_normaliser_is_one adim b vn :
  snd (velocity_matrix ROps adim [] b vn) = 1.
Proof. reflexivity. Qed.

(* the mean speed does not depend on the order in which the junctions are listed (each frame numbers its vertices independently) *)
From Coq Require Import Permutation.
Lemma rsum_perm (l1 l2 : list R) : Permutation l1 l2 -> sum ROps l1 = sum ROps l2.
Proof. induction 1 as [|x l1 l2 _ IH|x y l|l1 l2 l3 _ IH1 _ IH2]; [reflexivity| | |congruence].
  - rewrite !rsum_cons, IH. reflexivity.
  - rewrite !rsum_cons. ring. Qed.
Theorem mean_speed_order_independent vs vs' : Permutation vs vs' -> rmean vs = rmean vs'.
Proof. intros P. unfold mean_speed. rewrite (Permutation_length P). f_equal. apply rsum_perm. apply Permutation_map. exact P. Qed.
