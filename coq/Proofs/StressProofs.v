From Coq Require Import ZArith List Bool Reals Lra Lia.
From Forsys Require Import Model.Num Model.Stress.
Import ListNotations.
Open Scope R_scope.

Notation rsumN := (sum ROps).
Lemma rsum_cons x l : rsumN (x :: l) = x + rsumN l. Proof. reflexivity. Qed.
Lemma rsum_lin {A} (f g : A -> R) a b (l : list A) : rsumN (map (fun x => a * f x + b * g x) l) = a * rsumN (map f l) + b * rsumN (map g l).
Proof. induction l as [|x t IH]; simpl map; [unfold sum; simpl; ring|]. rewrite !rsum_cons, IH. ring. Qed.

(* geometry (areas, interface vectors) fixed; pressures p, p' and tensions t, t' given as lists parallel to it *)
Definition with_p (areas ps : list R) : list (R * R) := combine areas ps.
Definition with_t (ts : list R) (geo : list (R * R * R)) : list (R * (R * R * R)) := combine ts geo.
Definition lin (a b : R) (u v : list R) : list R := map (fun p => a * fst p + b * snd p) (combine u v).

Lemma total_area_with_p areas ps : length ps = length areas -> total_area ROps (with_p areas ps) = rsumN areas.
Proof. revert ps; induction areas as [|x t IH]; intros [|p ps] H; simpl in *; try lia; [reflexivity|].
  unfold total_area, with_p in *. cbn [combine map fst]. rewrite !rsum_cons. f_equal. apply IH. lia. Qed.

Lemma pressure_term_lin a b areas ps ps' : length ps = length areas -> length ps' = length areas ->
  pressure_term ROps (with_p areas (lin a b ps ps')) = a * pressure_term ROps (with_p areas ps) + b * pressure_term ROps (with_p areas ps').
Proof. revert ps ps'; induction areas as [|x t IH]; intros [|p ps] [|q qs] H1 H2; simpl in *; try lia; [unfold pressure_term, sum; simpl; ring|].
  specialize (IH ps qs ltac:(lia) ltac:(lia)). unfold pressure_term, with_p, lin in *. simpl in *. lra. Qed.

Lemma tens_term_lin f a b ts ts' geo : length ts = length geo -> length ts' = length geo ->
  tens_term ROps f (with_t (lin a b ts ts') geo) = a * tens_term ROps f (with_t ts geo) + b * tens_term ROps f (with_t ts' geo).
Proof. revert ts ts'; induction geo as [|[[vx vy] nrm] g IH]; intros [|t ts] [|t' ts'] H1 H2; simpl in *; try lia; [unfold tens_term, sum; simpl; ring|].
  specialize (IH ts ts' ltac:(lia) ltac:(lia)). unfold tens_term, with_t, lin in *. simpl in *. rewrite IH. unfold Rdiv. ring. Qed.

(* symmetric by construction: the reported matrix is [[xx, xy], [xy, yy]]; zero where nothing is selected *)
Theorem sigma_zero_when_empty edges : sigma ROps [] edges = (0, 0, 0).
Proof. unfold sigma, total_area. simpl. unfold Reqb. destruct (Req_EM_T 0 0); [reflexivity|contradiction]. Qed.
Theorem sigma_zero_area cells edges : total_area ROps cells = 0 -> sigma ROps cells edges = (0, 0, 0).
Proof. intros H. unfold sigma. rewrite H. simpl. unfold Reqb. destruct (Req_EM_T 0 0); [reflexivity|contradiction]. Qed.

(* jointly linear in the cell pressures and interface tensions (geometry and selection fixed) *)
Theorem sigma_linear a b areas ps ps' ts ts' geo :
  length ps = length areas -> length ps' = length areas -> length ts = length geo -> length ts' = length geo -> rsumN areas <> 0 ->
  let s := sigma ROps (with_p areas (lin a b ps ps')) (with_t (lin a b ts ts') geo) in
  let s1 := sigma ROps (with_p areas ps) (with_t ts geo) in
  let s2 := sigma ROps (with_p areas ps') (with_t ts' geo) in
  fst (fst s) = a * fst (fst s1) + b * fst (fst s2) /\ snd (fst s) = a * snd (fst s1) + b * snd (fst s2) /\ snd s = a * snd s1 + b * snd s2.
Proof. intros H1 H2 H3 H4 HA s s1 s2. unfold s, s1, s2, sigma.
  assert (Hl : length (lin a b ps ps') = length areas) by (unfold lin; rewrite map_length, combine_length; lia).
  rewrite !total_area_with_p by assumption. simpl eqb. unfold Reqb. destruct (Req_EM_T (rsumN areas) 0) as [E|_]; [contradiction|].
  cbn [fst snd]. rewrite pressure_term_lin, !tens_term_lin by assumption. simpl. repeat split; field; exact HA. Qed.

(* all tensions zero and every cell at pressure p0: minus p0 times the identity *)
Theorem sigma_isotropic p0 areas geo : rsumN areas <> 0 ->
  sigma ROps (with_p areas (map (fun _ => p0) areas)) (with_t (map (fun _ => 0) geo) geo) = (- p0, 0, - p0).
Proof. intros HA. unfold sigma. rewrite total_area_with_p by (rewrite map_length; reflexivity). simpl eqb. unfold Reqb.
  destruct (Req_EM_T (rsumN areas) 0) as [E|_]; [contradiction|].
  assert (G : forall l, rsumN (map (fun c : R * R => snd c * fst c) (combine l (map (fun _ => p0) l))) = p0 * rsumN l).
  { induction l as [|y l IH]; [unfold sum; simpl; ring|]. cbn [map combine fst snd]. rewrite !rsum_cons, IH. ring. }
  assert (HP : pressure_term ROps (with_p areas (map (fun _ => p0) areas)) = - (p0 * rsumN areas)).
  { unfold pressure_term, with_p. cbn [opp ROps mul]. f_equal. apply G. }
  assert (HT : forall f, tens_term ROps f (with_t (map (fun _ => 0) geo) geo) = 0).
  { intros f. unfold tens_term, with_t. induction geo as [|[[vx vy] nrm] g IH]; [reflexivity|]. cbn [map combine]. rewrite rsum_cons, IH. simpl. unfold Rdiv. ring. }
  rewrite HP, !HT. simpl. f_equal; [f_equal|]; field; exact HA. Qed.

(* the dictionary key is injective for grids of at most 10 x 10 ... *)
Theorem key_injective_le_10 r c r' c' : (r < 10)%nat -> (c < 10)%nat -> (r' < 10)%nat -> (c' < 10)%nat -> key r c = key r' c' -> r = r' /\ c = c'.
Proof. intros Hr Hc Hr' Hc'. unfold key, digits.
  destruct (Nat.ltb_spec r 10); destruct (Nat.ltb_spec c 10); destruct (Nat.ltb_spec r' 10); destruct (Nat.ltb_spec c' 10); try lia.
  simpl. intros Hk. inversion Hk. split; reflexivity. Qed.
(* ... and collides from 12 x 12 on: grid cells (1,10) and (11,0) share the key "110" (known finding D10) *)
Theorem key_collision_12 : key 1 10 = key 11 0 /\ (1%nat, 10%nat) <> (11%nat, 0%nat).
Proof. split; [reflexivity|discriminate]. Qed.

(* ------------------------------------------------------------------ principal stresses *)
Lemma principal_R (a b c : R) : principal ROps (a, b, c) = ((a + c) / 2 + sqrt ((a - c) / 2 * ((a - c) / 2) + b * b), (a + c) / 2 - sqrt ((a - c) / 2 * ((a - c) / 2) + b * b)).
Proof. unfold principal, two. cbn [add sub mul div nsqrt one ROps]. replace (1 + 1) with 2 by ring. reflexivity. Qed.

(* both are eigenvalues of [[a, b], [b, c]] (roots of its characteristic polynomial); they are ordered; their sum is the trace and their
   product the determinant *)
Theorem principal_are_eigenvalues (a b c : R) : let '(l1, l2) := principal ROps (a, b, c) in
  (a - l1) * (c - l1) - b * b = 0 /\ (a - l2) * (c - l2) - b * b = 0 /\ l2 <= l1 /\ l1 + l2 = a + c /\ l1 * l2 = a * c - b * b.
Proof. rewrite principal_R. set (h := (a - c) / 2). set (r := sqrt (h * h + b * b)).
  assert (Hr : r * r = h * h + b * b) by (unfold r; apply sqrt_sqrt; nra).
  assert (Hr0 : 0 <= r) by (unfold r; apply sqrt_pos).
  assert (Ha : a = (a + c) / 2 + h) by (unfold h; field). assert (Hc : c = (a + c) / 2 - h) by (unfold h; field).
  set (m := (a + c) / 2) in *. clearbody m r h. subst a c.
  split; [nra|]. split; [nra|]. split; [lra|]. split; [lra|nra]. Qed.
(* an isotropic tensor -p I has both principal stresses equal to -p *)
Theorem principal_isotropic (p : R) : principal ROps (- p, 0, - p) = (- p, - p).
Proof. rewrite principal_R. replace ((- p - - p) / 2 * ((- p - - p) / 2) + 0 * 0) with 0 by field. rewrite sqrt_0. f_equal; field. Qed.

(* the tensor of a grid cell does not depend on the order in which the selected cells and interfaces are listed *)
From Coq Require Import Permutation.
Lemma rsumN_perm (l1 l2 : list R) : Permutation l1 l2 -> rsumN l1 = rsumN l2.
Proof. induction 1 as [|x l1 l2 _ IH|x y l|l1 l2 l3 _ IH1 _ IH2]; [reflexivity| | |congruence].
  - rewrite !rsum_cons, IH. reflexivity.
  - rewrite !rsum_cons. ring. Qed.
Theorem sigma_order_independent cells cells' edges edges' : Permutation cells cells' -> Permutation edges edges' ->
  sigma ROps cells edges = sigma ROps cells' edges'.
Proof. intros Pc Pe. unfold sigma, total_area, pressure_term, tens_term.
  rewrite (rsumN_perm _ _ (Permutation_map fst Pc)).
  rewrite (rsumN_perm _ _ (Permutation_map (fun c => mul ROps (snd c) (fst c)) Pc)).
  rewrite (rsumN_perm _ _ (Permutation_map (fun e => let '(t, (vx, vy, nrm)) := e in div ROps (mul ROps t (mul ROps vx vx)) nrm) Pe)).
  rewrite (rsumN_perm _ _ (Permutation_map (fun e => let '(t, (vx, vy, nrm)) := e in div ROps (mul ROps t (mul ROps vx vy)) nrm) Pe)).
  rewrite (rsumN_perm _ _ (Permutation_map (fun e => let '(t, (vx, vy, nrm)) := e in div ROps (mul ROps t (mul ROps vy vy)) nrm) Pe)).
  reflexivity. Qed.
