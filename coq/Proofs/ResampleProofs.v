From Coq Require Import ZArith List Bool Lia.
From Forsys Require Import Model.PyList Model.Interfaces Model.Resample.
Import ListNotations.
Open Scope Z_scope.

(* an index function is admissible for (len, ne) when it starts at 0, is strictly increasing on [0, ne) and stays below len-1 *)
Definition admissible (idx : Z -> Z -> Z -> Z) (len ne : Z) : Prop :=
  idx len ne 0 = 0 /\
  (forall i, 0 <= i -> i + 1 < ne -> idx len ne i < idx len ne (i + 1)) /\
  0 <= idx len ne (ne - 1) <= len - 2.

Lemma admissible_range idx len ne : 1 <= ne -> admissible idx len ne ->
  forall i, 0 <= i < ne -> 0 <= idx len ne i <= len - 2.
Proof. intros Hne [H0 [Hinc Hlast]] i Hi.
  assert (Hlo : forall k : nat, Z.of_nat k < ne -> 0 <= idx len ne (Z.of_nat k)).
  { induction k as [|k IH]; intros Hk; [simpl; lia|].
    replace (Z.of_nat (S k)) with (Z.of_nat k + 1) in * by lia. specialize (Hinc (Z.of_nat k)). lia. }
  assert (Hhi : forall k : nat, Z.of_nat k < ne -> idx len ne (ne - 1 - Z.of_nat k) <= len - 2).
  { induction k as [|k IH]; intros Hk; [replace (ne - 1 - Z.of_nat 0) with (ne - 1) by lia; lia|].
    specialize (Hinc (ne - 1 - Z.of_nat (S k))).
    replace (ne - 1 - Z.of_nat (S k) + 1) with (ne - 1 - Z.of_nat k) in Hinc by lia. lia. }
  split.
  - replace i with (Z.of_nat (Z.to_nat i)) by lia. apply Hlo. lia.
  - replace i with (ne - 1 - Z.of_nat (Z.to_nat (ne - 1 - i))) by lia. apply Hhi. lia. Qed.

(* the idealised floor index is admissible whenever len > ne >= 1 *)
Lemma floor_index_admissible len ne : 1 <= ne -> ne < len -> admissible floor_index len ne.
Proof. intros Hne Hlen. unfold admissible, floor_index. split; [|split].
  - rewrite Z.mul_0_r. apply Z.div_0_l. lia.
  - intros i Hi Hi1. apply Z.lt_le_trans with ((len * i + ne) / ne).
    + replace (len * i + ne) with (len * i + 1 * ne) by lia. rewrite Z.div_add by lia. lia.
    + apply Z.div_le_mono; [lia|]. nia.
  - split; [apply Z.div_pos; nia|]. apply Z.lt_succ_r. apply Z.div_lt_upper_bound; [lia|]. nia. Qed.

(* ---------------------------------------------------------------- shape of the selection *)
Lemma select_short_identity idx ne e : Z.of_nat (length e) <= ne -> select_iface idx ne e = e.
Proof. intros H. unfold select_iface. destruct (Z.ltb_spec ne (Z.of_nat (length e))); [lia|reflexivity]. Qed.

Lemma select_long idx ne e : ne < Z.of_nat (length e) ->
  select_iface idx ne e = map (fun i => nth (Z.to_nat (idx (Z.of_nat (length e)) ne (Z.of_nat i))) e 0) (seq 0 (Z.to_nat ne)) ++ [last e 0].
Proof. intros H. unfold select_iface. destruct (Z.ltb_spec ne (Z.of_nat (length e))); [reflexivity|lia]. Qed.

Theorem select_length idx ne e : 0 <= ne -> ne < Z.of_nat (length e) -> Z.of_nat (length (select_iface idx ne e)) = ne + 1.
Proof. intros H0 H. rewrite select_long by exact H. rewrite app_length, map_length, seq_length. simpl. lia. Qed.

Theorem select_at_most idx ne e : 0 <= ne -> Z.of_nat (length (select_iface idx ne e)) <= Z.max (ne + 1) (Z.of_nat (length e)) /\
  (ne < Z.of_nat (length e) -> Z.of_nat (length (select_iface idx ne e)) <= ne + 1).
Proof. intros H0. split.
  - destruct (Z.ltb_spec ne (Z.of_nat (length e))); [rewrite select_length by lia; lia|rewrite select_short_identity by lia; lia].
  - intros H. rewrite select_length by lia. lia. Qed.

Theorem select_keeps_last idx ne e : last (select_iface idx ne e) 0 = last e 0.
Proof. unfold select_iface. destruct (ne <? Z.of_nat (length e)); [apply last_last|reflexivity]. Qed.

Theorem select_keeps_first idx ne e : 1 <= ne -> idx (Z.of_nat (length e)) ne 0 = 0 -> hd 0 (select_iface idx ne e) = hd 0 e.
Proof. intros Hne H0. unfold select_iface. destruct (ne <? Z.of_nat (length e)); [|reflexivity].
  destruct (Z.to_nat ne) as [|n] eqn:En; [lia|]. simpl seq. simpl map. simpl app. simpl hd.
  change (Z.of_nat 0) with 0. rewrite H0. simpl. destruct e; reflexivity. Qed.

Lemma last_nth_pred (e : list Z) : e <> [] -> last e 0 = nth (length e - 1) e 0.
Proof. destruct e as [|x t]; [congruence|]. intros _. revert x. induction t as [|y t IH]; intros x; [reflexivity|].
  change (last (x :: y :: t) 0) with (last (y :: t) 0). rewrite IH. simpl length.
  replace (S (S (length t)) - 1)%nat with (S (S (length t) - 1)) by lia. reflexivity. Qed.

(* every selected vertex is a vertex of the interface, at a strictly increasing position *)
Theorem select_positions idx ne e : 1 <= ne -> ne < Z.of_nat (length e) -> admissible idx (Z.of_nat (length e)) ne ->
  let js := map (fun i => Z.to_nat (idx (Z.of_nat (length e)) ne (Z.of_nat i))) (seq 0 (Z.to_nat ne)) ++ [(length e - 1)%nat] in
  select_iface idx ne e = map (fun j => nth j e 0) js /\
  (forall a b, (a < b < length js)%nat -> (nth a js 0 < nth b js 0)%nat) /\
  nth 0 js 0%nat = 0%nat /\ last js 0%nat = (length e - 1)%nat.
Proof. intros Hne Hlen Hadm js. pose proof (admissible_range idx _ ne Hne Hadm) as Hr.
  set (len := Z.of_nat (length e)) in *. set (n := Z.to_nat ne).
  assert (Hn : (0 < n)%nat) by (unfold n; lia).
  split; [|split; [|split]].
  - rewrite select_long by exact Hlen. unfold js. rewrite map_app, map_map. f_equal. simpl. f_equal.
    apply last_nth_pred. intros E. unfold len in Hlen. rewrite E in Hlen. simpl in Hlen. lia.
  - (* strictly increasing positions *)
    assert (Hmono : forall a b : nat, (a < b)%nat -> (b < n)%nat -> idx len ne (Z.of_nat a) < idx len ne (Z.of_nat b)).
    { intros a b Hab Hb. induction b as [|b IH]; [lia|]. destruct Hadm as [_ [Hinc _]].
      specialize (Hinc (Z.of_nat b)). replace (Z.of_nat (S b)) with (Z.of_nat b + 1) by lia.
      destruct (Nat.eq_dec a b) as [->|Hne']; [apply Hinc; unfold n in Hb; lia|].
      apply Z.lt_trans with (idx len ne (Z.of_nat b)); [apply IH; lia|apply Hinc; unfold n in Hb; lia]. }
    intros a b [Hab Hb]. unfold js in *. rewrite app_length, map_length, seq_length in Hb. simpl in Hb. fold n in Hb.
    assert (Hnth : forall k, (k < n)%nat -> nth k (map (fun i => Z.to_nat (idx len ne (Z.of_nat i))) (seq 0 n) ++ [(length e - 1)%nat]) 0%nat
                                 = Z.to_nat (idx len ne (Z.of_nat k))).
    { intros k Hk. rewrite app_nth1 by (rewrite map_length, seq_length; exact Hk).
      rewrite (nth_indep _ 0%nat (Z.to_nat (idx len ne (Z.of_nat 0)))) by (rewrite map_length, seq_length; exact Hk).
      rewrite (map_nth (fun i => Z.to_nat (idx len ne (Z.of_nat i))) (seq 0 n) 0%nat k). rewrite seq_nth by exact Hk. reflexivity. }
    fold n. rewrite (Hnth a) by lia.
    destruct (Nat.eq_dec b n) as [->|Hbn].
    + rewrite app_nth2 by (rewrite map_length, seq_length; lia). rewrite map_length, seq_length, Nat.sub_diag. simpl.
      specialize (Hr (Z.of_nat a)). unfold n in *. unfold len in *. lia.
    + rewrite (Hnth b) by lia. specialize (Hmono a b Hab). specialize (Hr (Z.of_nat a)). unfold n in *. lia.
  - unfold js. destruct n as [|n'] eqn:En; [lia|]. fold n. rewrite En. simpl. destruct Hadm as [H0 _]. fold len. rewrite H0. reflexivity.
  - unfold js. apply last_last. Qed.

(* ---------------------------------------------------------------- idempotence *)
Lemma map_nth_seq_removelast {A} (d : A) (l : list A) n : length l = S n -> map (fun i => nth i l d) (seq 0 n) ++ [last l d] = l.
Proof. revert l; induction n as [|n IH]; intros l Hl.
  - destruct l as [|x [|y t]]; simpl in Hl; try lia. reflexivity.
  - destruct l as [|x t]; [simpl in Hl; lia|]. simpl in Hl.
    destruct t as [|y t']; [simpl in Hl; lia|]. change (last (x :: y :: t') d) with (last (y :: t') d).
    simpl seq. simpl map at 1. rewrite <- seq_shift, map_map. simpl. f_equal.
    apply (IH (y :: t')). simpl. simpl in Hl. lia. Qed.

Theorem select_idempotent idx ne e : 1 <= ne ->
  (forall i, 0 <= i < ne -> idx (ne + 1) ne i = i) ->
  select_iface idx ne (select_iface idx ne e) = select_iface idx ne e.
Proof. intros Hne Hid. destruct (Z.ltb_spec ne (Z.of_nat (length e))) as [Hlong|Hshort].
  - set (e' := select_iface idx ne e). assert (Hl : Z.of_nat (length e') = ne + 1) by (apply select_length; lia).
    rewrite (select_long idx ne e') by lia. rewrite Hl.
    rewrite (map_ext_in _ (fun i => nth i e' 0)).
    + apply map_nth_seq_removelast. lia.
    + intros i Hi. apply in_seq in Hi. rewrite Hid by lia. rewrite Nat2Z.id. reflexivity.
  - rewrite (select_short_identity idx ne e) by lia. apply select_short_identity. lia. Qed.

Lemma floor_index_identity ne i : 1 <= ne -> 0 <= i < ne -> floor_index (ne + 1) ne i = i.
Proof. intros Hne Hi. unfold floor_index. replace ((ne + 1) * i) with (i + i * ne) by lia. rewrite Z.div_add by lia.
  rewrite Z.div_small by lia. lia. Qed.

(* ---------------------------------------------------------------- the float index, on the domain the property names *)
Definition float_adm_b (len ne : Z) : bool :=
  (float_index len ne 0 =? 0) &&
  forallb (fun i => float_index len ne (Z.of_nat i) <? float_index len ne (Z.of_nat i + 1)) (seq 0 (Z.to_nat (ne - 1))) &&
  (0 <=? float_index len ne (ne - 1)) && (float_index len ne (ne - 1) <=? len - 2).
Lemma float_adm_b_sound len ne : float_adm_b len ne = true -> admissible float_index len ne.
Proof. unfold float_adm_b. rewrite !andb_true_iff, Z.eqb_eq, !Z.leb_le, forallb_forall. intros [[[H0 Hinc] Hlo] Hhi].
  split; [exact H0|]. split; [|lia]. intros i Hi Hi1. specialize (Hinc (Z.to_nat i)).
  rewrite Z2Nat.id in Hinc by lia. apply Z.ltb_lt, Hinc. apply in_seq. lia. Qed.

Definition float_domain_ok (maxlen maxne : nat) : bool :=
  forallb (fun ne => forallb (fun len => if (Z.of_nat ne <? Z.of_nat len) then float_adm_b (Z.of_nat len) (Z.of_nat ne) else true)
                             (seq 0 (S maxlen))) (seq 1 maxne).
Lemma float_domain_sound maxlen maxne : float_domain_ok maxlen maxne = true ->
  forall len ne : nat, (1 <= ne <= maxne)%nat -> (ne < len <= maxlen)%nat -> admissible float_index (Z.of_nat len) (Z.of_nat ne).
Proof. unfold float_domain_ok. rewrite forallb_forall. intros H len ne Hne Hlen.
  specialize (H ne). rewrite forallb_forall in H. assert (Hin : In ne (seq 1 maxne)) by (apply in_seq; lia).
  specialize (H Hin len). assert (Hin2 : In len (seq 0 (S maxlen))) by (apply in_seq; lia). specialize (H Hin2).
  destruct (Z.ltb_spec (Z.of_nat ne) (Z.of_nat len)); [apply float_adm_b_sound; exact H|lia]. Qed.

(* int(len/ne*i) in binary64 is admissible for every interface of up to 1500 points and ne in 1..12 *)
Theorem float_index_admissible_1500_12 : forall len ne : nat, (1 <= ne <= 12)%nat -> (ne < len <= 1500)%nat ->
  admissible float_index (Z.of_nat len) (Z.of_nat ne).
Proof. apply float_domain_sound. vm_compute. reflexivity. Qed.

Definition float_id_ok (maxne : nat) : bool :=
  forallb (fun ne => forallb (fun i => float_index (Z.of_nat ne + 1) (Z.of_nat ne) (Z.of_nat i) =? Z.of_nat i) (seq 0 ne)) (seq 1 maxne).
Theorem float_index_identity_64 : forall ne i : Z, 1 <= ne <= 64 -> 0 <= i < ne -> float_index (ne + 1) ne i = i.
Proof. assert (H : float_id_ok 64 = true) by (vm_compute; reflexivity).
  intros ne i Hne Hi. unfold float_id_ok in H. rewrite forallb_forall in H.
  specialize (H (Z.to_nat ne)). rewrite forallb_forall in H.
  assert (Hin : In (Z.to_nat ne) (seq 1 64)) by (apply in_seq; lia). specialize (H Hin (Z.to_nat i)).
  assert (Hin2 : In (Z.to_nat i) (seq 0 (Z.to_nat ne))) by (apply in_seq; lia). specialize (H Hin2).
  rewrite !Z2Nat.id in H by lia. apply Z.eqb_eq. exact H. Qed.

(* ---------------------------------------------------------------- resample_core *)
Inductive Subseq {A} : list A -> list A -> Prop :=
| SS_nil : Subseq [] []
| SS_skip x s l : Subseq s l -> Subseq s (x :: l)
| SS_take x s l : Subseq s l -> Subseq (x :: s) (x :: l).
Lemma filter_subseq {A} (f : A -> bool) l : Subseq (filter f l) l.
Proof. induction l as [|x t IH]; simpl; [constructor|]. destruct (f x); constructor; exact IH. Qed.

(* surviving vertices keep id and position; exactly the vertices named by the resampled interfaces survive *)
Theorem resample_vertices st narr k pos :
  In (k, pos) (vs (resample_core st narr)) <-> In (k, pos) (vs st) /\ In k (concat narr).
Proof. unfold resample_core. simpl. rewrite filter_In. simpl. unfold memZ. rewrite existsb_exists. split.
  - intros [H [y [Hy Hk]]]. apply Z.eqb_eq in Hk. subst. tauto.
  - intros [H Hk]. split; [exact H|]. exists k. split; [exact Hk|apply Z.eqb_refl]. Qed.

(* every surviving cell keeps its id and its cycle is an ordered subsequence of the old one (hence a cyclic subsequence) *)
Theorem resample_cells st narr cid cyc : In (cid, cyc) (cs (resample_core st narr)) ->
  exists old, In (cid, old) (cs st) /\ Subseq cyc old /\ cyc <> [].
Proof. unfold resample_core. simpl. rewrite filter_In, in_map_iff. intros [[[c old] [Heq Hin]] Hne]. simpl in *.
  inversion Heq; subst. exists old. split; [exact Hin|]. split; [apply filter_subseq|].
  intros E. rewrite E in Hne. simpl in Hne. discriminate. Qed.

(* both ends of every interface survive resampling *)
Theorem ends_survive idx ne bedges e : 1 <= ne -> In e bedges -> e <> [] ->
  idx (Z.of_nat (length e)) ne 0 = 0 ->
  In (hd 0 e) (concat (n_edge_array idx ne bedges)) /\ In (last e 0) (concat (n_edge_array idx ne bedges)).
Proof. intros Hne Hin Hnn H0. unfold n_edge_array.
  assert (Hs : In (select_iface idx ne e) (map (select_iface idx ne) bedges)) by (apply in_map; exact Hin).
  split; apply in_concat; exists (select_iface idx ne e); (split; [exact Hs|]).
  - rewrite <- (select_keeps_first idx ne e Hne H0).
    destruct (select_iface idx ne e) as [|x t] eqn:E; [|left; reflexivity].
    exfalso. unfold select_iface in E. destruct (ne <? Z.of_nat (length e)); [destruct (map _ _); discriminate|congruence].
  - rewrite <- (select_keeps_last idx ne e).
    destruct (select_iface idx ne e) as [|x t] eqn:E.
    + exfalso. unfold select_iface in E. destruct (ne <? Z.of_nat (length e)); [destruct (map _ _); discriminate|congruence].
    + clear. revert x; induction t as [|y t IH]; intros x; [left; reflexivity|]. right. apply IH. Qed.

(* ---------------------------------------------------------------- consistency clauses of C09 on the resampled mesh *)
From Coq Require Import FinFun.
Lemma number_from_keys {A} (l : list A) i : map fst (number_from i l) = map (fun k => i + Z.of_nat k) (seq 0 (length l)).
Proof. revert i; induction l as [|x t IH]; intros i; [reflexivity|]. cbn [number_from map length seq fst]. f_equal; [lia|].
  rewrite IH. rewrite <- seq_shift, map_map. apply map_ext. intros k. lia. Qed.
Lemma number_from_In {A} (l : list A) i k x : In (k, x) (number_from i l) -> In x l.
Proof. revert i; induction l as [|y t IH]; intros i; [intros []|]. cbn [number_from]. intros [H | H]; [inversion H; left; reflexivity|right; eapply IH; exact H]. Qed.
Lemma consecutive_pairs_In l a b : In (a, b) (consecutive_pairs l) -> In a l /\ In b l.
Proof. induction l as [|x t IH]; [intros []|]. destruct t as [|y t']; [intros []|]. cbn [consecutive_pairs]. intros [H | H].
  - inversion H; subst. split; [left; reflexivity|right; left; reflexivity].
  - destruct (IH H) as [H1 H2]. split; right; assumption. Qed.

(* the new mesh edges are stored under the ids 0, 1, 2, ... (each under its own id, no id twice) *)
Theorem resample_edge_ids st narr :
  map fst (es (resample_core st narr)) = map Z.of_nat (seq 0 (length (es (resample_core st narr)))) /\ NoDup (map fst (es (resample_core st narr))).
Proof. unfold resample_core. cbn [es]. set (l := concat (map consecutive_pairs narr)).
  assert (E : map fst (number_from 0 l) = map Z.of_nat (seq 0 (length l))) by (rewrite number_from_keys; apply map_ext; intros; lia).
  assert (L : length (number_from 0 l) = length l) by (rewrite <- (map_length fst), E, map_length, seq_length; reflexivity).
  rewrite L. split; [exact E|]. rewrite E. apply FinFun.Injective_map_NoDup; [intros x y H; lia|apply seq_NoDup]. Qed.

(* every new mesh edge joins two vertices that are named by one resampled interface, and both exist afterwards
   (given that every vertex an interface names existed before) *)
Theorem resample_edges_reference_vertices st narr i a b :
  (forall v, In v (concat narr) -> In v (map fst (vs st))) ->
  In (i, (a, b)) (es (resample_core st narr)) ->
  (exists e, In e narr /\ In a e /\ In b e) /\ In a (map fst (vs (resample_core st narr))) /\ In b (map fst (vs (resample_core st narr))).
Proof. intros Hex H. unfold resample_core in H. cbn [es] in H. apply number_from_In in H. apply in_concat in H. destruct H as [ps [H1 H2]].
  apply in_map_iff in H1. destruct H1 as [e [<- He]]. apply consecutive_pairs_In in H2. destruct H2 as [Ha Hb].
  assert (Ua : In a (concat narr)) by (apply in_concat; exists e; split; assumption).
  assert (Ub : In b (concat narr)) by (apply in_concat; exists e; split; assumption).
  split; [exists e; repeat split; assumption|].
  assert (K : forall v, In v (concat narr) -> In v (map fst (vs (resample_core st narr)))).
  { intros v Hv. specialize (Hex v Hv). apply in_map_iff in Hex. destruct Hex as [[k pos] [Hk Hin]]. simpl in Hk. subst k.
    apply in_map_iff. exists (v, pos). split; [reflexivity|]. apply resample_vertices. split; assumption. }
  split; apply K; assumption. Qed.

(* every vertex of a surviving cell exists afterwards (given that it existed before); no cell is left empty; a cycle without repeated
   vertex stays without repeated vertex *)
Lemma filter_NoDup {A} (f : A -> bool) l : NoDup l -> NoDup (filter f l).
Proof. induction 1 as [|x t Hx Hn IH]; simpl; [constructor|]. destruct (f x); [constructor; [rewrite filter_In; tauto|exact IH]|exact IH]. Qed.
Theorem resample_cells_consistent st narr cid cyc : In (cid, cyc) (cs (resample_core st narr)) ->
  exists old, In (cid, old) (cs st) /\ cyc <> [] /\ (NoDup old -> NoDup cyc) /\
    (forall v, In v cyc -> In v old /\ (In v (map fst (vs st)) -> In v (map fst (vs (resample_core st narr))))).
Proof. unfold resample_core. cbn [cs vs]. rewrite filter_In, in_map_iff. intros [[[c old] [Heq Hin]] Hne]. cbn [fst snd] in *.
  inversion Heq; subst. exists old. split; [exact Hin|]. split; [intros E; rewrite E in Hne; discriminate|]. split; [apply filter_NoDup|].
  intros v Hv. apply filter_In in Hv. destruct Hv as [Hv Hk]. split; [exact Hv|]. intros Hex.
  apply in_map_iff in Hex. destruct Hex as [[k pos] [Hk' Hin']]. simpl in Hk'. subst k. apply in_map_iff. exists (v, pos). split; [reflexivity|].
  apply filter_In. split; [exact Hin'|exact Hk]. Qed.
