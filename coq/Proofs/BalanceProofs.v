(* BalanceProofs.v -- the assembled matrix applied to a tension vector gives, in the two rows of a junction, the resultant of the tensions
   pulling on it; hence tensions in force balance are in the kernel of the assembled matrix (C01: the step from C02's assembly to the
   algebraic theorems of CertProofs.v).  Model/ForceSys.v, over Q. *)
From Coq Require Import ZArith QArith List Bool Lia.
From Forsys Require Import Model.Num Model.PyList Model.Interfaces Model.ForceSys Proofs.ForceSysProofs.
Import ListNotations.
Open Scope Q_scope.

Definition qsum (l : list Q) : Q := fold_right Qplus 0 l.

Lemma qdot_nil_r a : qdot a [] == 0. Proof. destruct a; reflexivity. Qed.
Lemma qdot_set_nth l n v t : (n < length l)%nat -> length l = length t ->
  qdot (set_nth l n v) t == qdot l t + (v - nth n l 0) * nth n t 0.
Proof. revert n t; induction l as [|x l IH]; intros n t Hn Hl; [simpl in Hn; lia|]. destruct t as [|y t]; [discriminate|].
  destruct n as [|n]; cbn [set_nth nth]; rewrite !qdot_cons.
  - ring.
  - rewrite IH by (simpl in *; lia). ring. Qed.
Lemma qdot_zeros n t : qdot (zeros n) t == 0.
Proof. revert t; induction n as [|n IH]; intros t; [reflexivity|]. destruct t as [|y t]; [reflexivity|]. unfold zeros. cbn [repeat]. rewrite qdot_cons.
  fold (zeros n). rewrite IH. ring. Qed.

(* the x- and y-row applied to T: the sum over the writes of versor component x tension at the written column *)
Lemma fold_writes_dot ws : forall acc t, NoDup (map fst ws) -> length (fst acc) = length t -> length (snd acc) = length t ->
  (forall w, In w ws -> (fst w < length t)%nat) ->
  (forall k, In k (map fst ws) -> nth k (fst acc) 0 == 0 /\ nth k (snd acc) 0 == 0) ->
  qdot (fst (fold_left apply_write ws acc)) t == qdot (fst acc) t + qsum (map (fun w => fst (snd w) * nth (fst w) t 0) ws) /\
  qdot (snd (fold_left apply_write ws acc)) t == qdot (snd acc) t + qsum (map (fun w => snd (snd w) * nth (fst w) t 0) ws).
Proof. induction ws as [|w ws IH]; intros acc t Hnd L1 L2 Hb Hz; [unfold qsum; cbn [fold_left map fold_right]; split; ring|].
  inversion Hnd as [|? ? Hw Hnd']; subst. unfold qsum. cbn [fold_left map fold_right]. fold (qsum (map (fun w0 => fst (snd w0) * nth (fst w0) t 0) ws)). fold (qsum (map (fun w0 => snd (snd w0) * nth (fst w0) t 0) ws)).
  destruct (IH (apply_write acc w) t Hnd') as [H1 H2].
  - unfold apply_write. cbn [fst]. rewrite set_nth_length. exact L1.
  - unfold apply_write. cbn [snd]. rewrite set_nth_length. exact L2.
  - intros w' Hw'. apply Hb. right. exact Hw'.
  - intros k Hk. unfold apply_write. cbn [fst snd]. assert (fst w <> k) by (intros E; subst k; contradiction).
    rewrite !set_nth_other by assumption. apply Hz. right. exact Hk.
  - rewrite H1, H2. unfold apply_write. cbn [fst snd].
    assert (Hpos : (fst w < length t)%nat) by (apply Hb; left; reflexivity).
    rewrite !qdot_set_nth by (rewrite ?L1, ?L2; auto).
    destruct (Hz (fst w) (or_introl eq_refl)) as [Z1 Z2]. rewrite Z1, Z2. split; ring. Qed.

Theorem junction_rows_are_resultants to_use ncells_v incs (t : list Q) :
  NoDup (map fst (writes to_use ncells_v incs)) -> length t = length to_use ->
  (forall w, In w (writes to_use ncells_v incs) -> (fst w < length to_use)%nat) ->
  let eq := vertex_equation to_use ncells_v incs in
  qdot (fst eq) t == qsum (map (fun w => fst (snd w) * nth (fst w) t 0) (writes to_use ncells_v incs)) /\
  qdot (snd eq) t == qsum (map (fun w => snd (snd w) * nth (fst w) t 0) (writes to_use ncells_v incs)).
Proof. intros Hnd Hl Hb eq. unfold eq. rewrite vertex_equation_writes.
  destruct (fold_writes_dot (writes to_use ncells_v incs) (zeros (length to_use), zeros (length to_use)) t Hnd) as [H1 H2].
  - cbn [fst]. unfold zeros. rewrite repeat_length. symmetry. exact Hl.
  - cbn [snd]. unfold zeros. rewrite repeat_length. symmetry. exact Hl.
  - intros w Hw. rewrite Hl. apply Hb. exact Hw.
  - intros k _. cbn [fst snd]. assert (Hz : nth k (zeros (length to_use)) 0 = 0).
    { unfold zeros. destruct (Nat.lt_ge_cases k (length to_use)) as [H|H]; [apply nth_repeat|apply nth_overflow; rewrite repeat_length; exact H]. }
    rewrite Hz. split; reflexivity.
  - cbn [fst snd] in H1, H2. rewrite H1, H2, !qdot_zeros. split; ring. Qed.

(* a junction in force balance: the tensions of the interfaces meeting there, each along its versor, add up to zero *)
Definition in_balance (to_use : list (list Z)) (ncells_v : Z) (incs : list incident) (t : list Q) : Prop :=
  qsum (map (fun w => fst (snd w) * nth (fst w) t 0) (writes to_use ncells_v incs)) == 0 /\
  qsum (map (fun w => snd (snd w) * nth (fst w) t 0) (writes to_use ncells_v incs)) == 0.

Definition junction_ok (to_use : list (list Z)) (ncells_v : Z) (incs : list incident) : Prop :=
  NoDup (map fst (writes to_use ncells_v incs)) /\ (forall w, In w (writes to_use ncells_v incs) -> (fst w < length to_use)%nat).

(* tensions in force balance at every junction that received equations are annihilated by the assembled matrix *)
Theorem balanced_tensions_in_kernel ignore_four to_use tj ncells incidents (t : list Q) : length t = length to_use ->
  (forall v, In v tj -> junction_ok to_use (ncells v) (incidents v)) ->
  (forall v, In v tj -> in_balance to_use (ncells v) (incidents v) t) ->
  Forall (fun row => qdot row t == 0) (fm_rows (build_matrix ignore_four to_use tj ncells incidents)).
Proof. intros Hl Hok Hbal. destruct (rows_spec ignore_four to_use tj ncells incidents) as [_ [_ Hrows]]. rewrite Hrows.
  apply Forall_forall. intros row Hrow. apply in_concat in Hrow. destruct Hrow as [rs [Hrs Hin]]. apply in_map_iff in Hrs. destruct Hrs as [v [<- Hv]].
  apply filter_In in Hv. destruct Hv as [Hv _]. destruct (Hok v Hv) as [Hnd Hb]. destruct (Hbal v Hv) as [Bx By].
  destruct (junction_rows_are_resultants to_use (ncells v) (incidents v) t Hnd Hl Hb) as [H1 H2].
  destruct (vertex_equation to_use (ncells v) (incidents v)) as [rx ry]. cbn [fst snd] in *.
  destruct Hin as [<- | [<- | []]]; [rewrite H1; exact Bx|rewrite H2; exact By]. Qed.
