(* RestrictedProofs.v -- the system assembled for the interfaces that an opening-angle limit leaves in is the unrestricted system with the
   columns of the excluded interfaces dropped (C16: "every other position holds the solution of the system restricted to the remaining
   interfaces").  Model/ForceSys.v.  For one junction's two equations; rows are then kept or not by the same count rule. *)
From Coq Require Import ZArith QArith List Bool Lia.
From Forsys Require Import Model.Num Model.PyList Model.Interfaces Model.ForceSys Proofs.InterfacesProofs Proofs.ForceSysProofs.
Import ListNotations.
Open Scope Z_scope.

(* keep the entries of a row whose mask is true *)
Fixpoint dropf {A} (mask : list bool) (row : list A) : list A :=
  match mask, row with
  | m :: mt, x :: rt => if m then x :: dropf mt rt else dropf mt rt
  | _, _ => []
  end.
(* number of kept columns before position pos *)
Fixpoint rank (mask : list bool) (pos : nat) : nat :=
  match pos, mask with
  | S k, m :: mt => (if m then 1 else 0) + rank mt k
  | _, _ => 0
  end.

Lemma dropf_set_nth (mask : list bool) : forall (row : list Q) pos v, length row = length mask -> (pos < length row)%nat ->
  dropf mask (set_nth row pos v) = if nth pos mask false then set_nth (dropf mask row) (rank mask pos) v else dropf mask row.
Proof. induction mask as [|m mt IH]; intros row pos v Hl Hp; [destruct row; simpl in *; lia|]. destruct row as [|x rt]; [simpl in *; lia|].
  destruct pos as [|k].
  - cbn [set_nth dropf nth rank]. destruct m; reflexivity.
  - cbn [set_nth dropf nth rank]. simpl in Hl, Hp. rewrite IH by lia. destruct m; destruct (nth k mt false); reflexivity. Qed.
Lemma dropf_zeros (mask : list bool) : dropf mask (zeros (length mask)) = zeros (length (filter (fun b => b) mask)).
Proof. induction mask as [|m mt IH]; [reflexivity|]. cbn [length]. unfold zeros in *. cbn [repeat dropf filter]. destruct m; cbn [length repeat]; rewrite IH; reflexivity. Qed.
Lemma filter_mask_length {A} (p : A -> bool) l : length (filter (fun b => b) (map p l)) = length (filter p l).
Proof. induction l as [|x t IH]; [reflexivity|]. simpl. destruct (p x); simpl; rewrite IH; reflexivity. Qed.

(* an incident interface is recognised by its own id list only *)
Definition unique_match (l : list (list Z)) (ids : list Z) : Prop :=
  (2 <=? length (inter ids ids))%nat = true /\ forall e, In e l -> (2 <=? length (inter e ids))%nat = true -> e = ids.

Lemma eid_is_index l ids : unique_match l ids -> eid_from_vertex l ids = index_list ids l.
Proof. intros [Hs Hu]. induction l as [|e t IH]; [reflexivity|]. cbn [eid_from_vertex index_list].
  destruct (2 <=? length (inter e ids))%nat eqn:E.
  - rewrite (Hu e (or_introl eq_refl) E). assert (listZ_eq ids ids = true) by (apply listZ_eq_spec; reflexivity). rewrite H. reflexivity.
  - destruct (listZ_eq e ids) eqn:L; [apply listZ_eq_spec in L; subst e; congruence|]. rewrite IH; [reflexivity|]. intros e' He'. apply Hu. right. exact He'. Qed.

Lemma index_filter_none (p : list Z -> bool) l ids : p ids = false -> index_list ids (filter p l) = None.
Proof. intros Hp. induction l as [|e t IH]; [reflexivity|]. cbn [filter]. destruct (p e) eqn:E; [|exact IH]. cbn [index_list].
  destruct (listZ_eq e ids) eqn:L; [apply listZ_eq_spec in L; subst e; congruence|]. rewrite IH. reflexivity. Qed.
Lemma index_filter_some (p : list Z -> bool) l ids : p ids = true ->
  index_list ids (filter p l) = option_map (rank (map p l)) (index_list ids l).
Proof. intros Hp. induction l as [|e t IH]; [reflexivity|]. cbn [filter map index_list]. destruct (listZ_eq e ids) eqn:L.
  - apply listZ_eq_spec in L. subst e. rewrite Hp. cbn [index_list]. assert (listZ_eq ids ids = true) by (apply listZ_eq_spec; reflexivity). rewrite H. reflexivity.
  - destruct (p e) eqn:E.
    + cbn [index_list]. rewrite L, IH. destruct (index_list ids t); reflexivity.
    + rewrite IH. destruct (index_list ids t); reflexivity. Qed.
Lemma index_list_lt ids l pos : index_list ids l = Some pos -> (pos < length l)%nat /\ nth pos l [] = ids.
Proof. revert pos; induction l as [|e t IH]; intros pos H; [discriminate|]. cbn [index_list] in H. destruct (listZ_eq e ids) eqn:L.
  - inversion H; subst. apply listZ_eq_spec in L. split; [simpl; lia|exact L].
  - destruct (index_list ids t) as [k|]; [|discriminate]. inversion H; subst. destruct (IH k eq_refl) as [H1 H2]. split; [simpl; lia|exact H2]. Qed.

Definition rstep (ncells_v : Z) (to_use : list (list Z)) (acc : list Q * list Q) (inc : incident) : list Q * list Q :=
  if eligible ncells_v inc
  then match eid_from_vertex to_use (inc_ids inc) with
       | Some pos => (set_nth (fst acc) pos (inc_vx inc), set_nth (snd acc) pos (inc_vy inc))
       | None => acc end
  else acc.
Lemma rstep_unfold ncells_v to_use acc inc : rstep ncells_v to_use acc inc =
  if eligible ncells_v inc then match eid_from_vertex to_use (inc_ids inc) with
       | Some pos => (set_nth (fst acc) pos (inc_vx inc), set_nth (snd acc) pos (inc_vy inc)) | None => acc end else acc.
Proof. reflexivity. Qed.
Lemma vertex_equation_rstep to_use ncells_v incs :
  vertex_equation to_use ncells_v incs = fold_left (rstep ncells_v to_use) incs (zeros (length to_use), zeros (length to_use)).
Proof. reflexivity. Qed.

Section Restrict.
  Variable p : list Z -> bool.          (* which interfaces stay in the system *)
  Variable internal : list (list Z).
  Variable ncells_v : Z.
  Let mask := map p internal.

  Lemma unique_match_filter ids : unique_match internal ids -> unique_match (filter p internal) ids.
  Proof. intros [Hs Hu]. split; [exact Hs|]. intros e He. apply filter_In in He. apply Hu. tauto. Qed.

  Lemma fold_restricted incs : (forall inc, In inc incs -> eligible ncells_v inc = true -> unique_match internal (inc_ids inc)) ->
    forall accf accr, length (fst accf) = length internal -> length (snd accf) = length internal ->
    accr = (dropf mask (fst accf), dropf mask (snd accf)) ->
    fold_left (rstep ncells_v (filter p internal)) incs accr =
    (dropf mask (fst (fold_left (rstep ncells_v internal) incs accf)), dropf mask (snd (fold_left (rstep ncells_v internal) incs accf))).
  Proof. induction incs as [|inc t IH]; intros Hum accf accr L1 L2 Hacc; [exact Hacc|]. cbn [fold_left].
    assert (Hum' : forall inc0, In inc0 t -> eligible ncells_v inc0 = true -> unique_match internal (inc_ids inc0)) by (intros i Hi; apply Hum; right; exact Hi).
    rewrite !rstep_unfold. destruct (eligible ncells_v inc) eqn:El; [|apply IH; assumption].
    pose proof (Hum inc (or_introl eq_refl) El) as Hu.
    rewrite (eid_is_index internal _ Hu), (eid_is_index (filter p internal) _ (unique_match_filter _ Hu)).
    destruct (index_list (inc_ids inc) internal) as [pos|] eqn:Ei.
    - destruct (index_list_lt _ _ _ Ei) as [Hlt Hnth].
      assert (Hmask : nth pos mask false = p (inc_ids inc)).
      { assert (Hlm : (pos < length mask)%nat) by (unfold mask; rewrite map_length; exact Hlt).
        rewrite (nth_indep mask false (p []) Hlm). unfold mask. rewrite map_nth, Hnth. reflexivity. }
      destruct (p (inc_ids inc)) eqn:Ep.
      + rewrite (index_filter_some p internal _ Ep), Ei. cbn [option_map]. apply IH; [exact Hum'| | |].
        * cbn [fst]. rewrite set_nth_length. exact L1.
        * cbn [snd]. rewrite set_nth_length. exact L2.
        * rewrite Hacc. cbn [fst snd]. assert (Hml : length mask = length internal) by (unfold mask; apply map_length). rewrite !dropf_set_nth by lia. rewrite Hmask. reflexivity.
      + rewrite (index_filter_none p internal _ Ep). apply IH; [exact Hum'| | |].
        * cbn [fst]. rewrite set_nth_length. exact L1.
        * cbn [snd]. rewrite set_nth_length. exact L2.
        * rewrite Hacc. cbn [fst snd]. assert (Hml : length mask = length internal) by (unfold mask; apply map_length). rewrite !dropf_set_nth by lia. rewrite Hmask. reflexivity.
    - assert (Hn : index_list (inc_ids inc) (filter p internal) = None).
      { destruct (p (inc_ids inc)) eqn:Ep; [rewrite (index_filter_some p internal _ Ep), Ei; reflexivity|apply index_filter_none; exact Ep]. }
      rewrite Hn. apply IH; assumption. Qed.

  (* the two equations of a junction in the restricted system are those of the unrestricted system with the excluded columns dropped *)
  Theorem restricted_equation_drops_columns incs :
    (forall inc, In inc incs -> eligible ncells_v inc = true -> unique_match internal (inc_ids inc)) ->
    vertex_equation (filter p internal) ncells_v incs =
    (dropf mask (fst (vertex_equation internal ncells_v incs)), dropf mask (snd (vertex_equation internal ncells_v incs))).
  Proof. intros Hum. rewrite !vertex_equation_rstep.
    apply (fold_restricted incs Hum (zeros (length internal), zeros (length internal))); cbn [fst snd]; try (unfold zeros; apply repeat_length).
    assert (E : dropf mask (zeros (length internal)) = zeros (length (filter p internal))).
    { unfold mask. replace (length internal) with (length (map p internal)) by apply map_length. rewrite dropf_zeros, filter_mask_length. reflexivity. }
    rewrite E. reflexivity. Qed.
End Restrict.

(* with the angle limit: the interfaces left in are the internal ones not flagged at both ends (ForceSysProofs.used_is_filter) *)
Theorem angle_limited_equation_drops_columns deletes internal ncells_v incs : NoDup internal ->
  (forall inc, In inc incs -> eligible ncells_v inc = true -> unique_match internal (inc_ids inc)) ->
  let mask := map (fun e => negb (both_ends_in deletes e)) internal in
  vertex_equation (angle_limited_edges deletes internal) ncells_v incs =
  (dropf mask (fst (vertex_equation internal ncells_v incs)), dropf mask (snd (vertex_equation internal ncells_v incs))).
Proof. intros Hnd Hum mask. rewrite (used_is_filter deletes internal Hnd). apply restricted_equation_drops_columns. exact Hum. Qed.
