(* CircleFitProofs.v -- on points of one circle the least-squares problem of the 'dlite' fit has the circle's centre as its only global
   minimiser, provided three of the points are not collinear (C02 / C01: "interfaces are circular arcs ... every circle-fitting method"). *)
From Coq Require Import ZArith List Bool Lia Reals Lra Psatz.
From Forsys Require Import Model.Num Model.CircleFit.
Import ListNotations.
Open Scope R_scope.

Notation rcdist := (cdist ROps).
Lemma cdist_R (c p : R * R) : rcdist c p = sqrt ((fst p - fst c) * (fst p - fst c) + (snd p - snd c) * (snd p - snd c)).
Proof. reflexivity. Qed.
Lemma cdist_nonneg c p : 0 <= rcdist c p. Proof. rewrite cdist_R. apply sqrt_pos. Qed.
Lemma cdist_sq c p : rcdist c p * rcdist c p = (fst p - fst c) * (fst p - fst c) + (snd p - snd c) * (snd p - snd c).
Proof. rewrite cdist_R. apply sqrt_sqrt. generalize (fst p - fst c) (snd p - snd c). intros a b. nra. Qed.

Lemma sum_const (l : list R) rho : (forall x, In x l -> x = rho) -> sum ROps l = INR (length l) * rho.
Proof. induction l as [|x l IH]; intros H; [simpl; ring|]. change (sum ROps (x :: l)) with (x + sum ROps l).
  rewrite IH by (intros y Hy; apply H; right; exact Hy). rewrite (H x) by (left; reflexivity). change (length (rho :: l)) with (S (length l)).
  change (length (x :: l)) with (S (length l)). rewrite S_INR. ring. Qed.
Lemma mean_const (l : list R) rho : l <> [] -> (forall x, In x l -> x = rho) -> mean ROps l = rho.
Proof. intros Hne H. unfold mean. rewrite (sum_const l rho H). change (ofZ ROps (Z.of_nat (length l))) with (IZR (Z.of_nat (length l))).
  rewrite <- INR_IZR_INZ. change (div ROps) with Rdiv. assert (0 < INR (length l)) by (apply lt_0_INR; destruct l; [congruence|simpl; lia]). field. lra. Qed.

(* every residual vanishes at the centre of a circle through all the points *)
Theorem objective_zero_at_centre c pts rho : pts <> [] -> (forall p, In p pts -> rcdist c p = rho) -> Forall (fun x => x = 0) (objective ROps c pts).
Proof. intros Hne H. unfold objective, distances. apply Forall_forall. intros x Hx. apply in_map_iff in Hx. destruct Hx as [d [<- Hd]].
  assert (Hall : forall y, In y (map (rcdist c) pts) -> y = rho) by (intros y Hy; apply in_map_iff in Hy; destruct Hy as [p [<- Hp]]; apply H; exact Hp).
  rewrite (mean_const _ rho); [|destruct pts; [congruence|discriminate]|exact Hall]. rewrite (Hall d Hd). change (sub ROps) with Rminus. ring. Qed.

(* conversely: where every residual vanishes, all points are at one distance (the mean) from the trial centre *)
Theorem objective_zero_equidistant c pts : Forall (fun x => x = 0) (objective ROps c pts) ->
  forall p, In p pts -> rcdist c p = mean ROps (distances ROps c pts).
Proof. intros H p Hp. unfold objective in H. rewrite Forall_forall in H.
  specialize (H (rcdist c p - mean ROps (distances ROps c pts))). change (sub ROps) with Rminus in H.
  assert (Hin : In (rcdist c p - mean ROps (distances ROps c pts)) (map (fun x => x - mean ROps (distances ROps c pts)) (distances ROps c pts))).
  { apply in_map_iff. exists (rcdist c p). split; [reflexivity|]. unfold distances. apply in_map. exact Hp. }
  specialize (H Hin). lra. Qed.

(* three points that are not collinear have one equidistant point only *)
Theorem equidistant_point_unique (c c0 p1 p2 p3 : R * R) r r0 :
  (fst p2 - fst p1) * (snd p3 - snd p1) - (fst p3 - fst p1) * (snd p2 - snd p1) <> 0 ->
  rcdist c p1 = r -> rcdist c p2 = r -> rcdist c p3 = r -> rcdist c0 p1 = r0 -> rcdist c0 p2 = r0 -> rcdist c0 p3 = r0 -> c = c0.
Proof. intros Hnc H1 H2 H3 G1 G2 G3.
  pose proof (cdist_sq c p1) as S1. pose proof (cdist_sq c p2) as S2. pose proof (cdist_sq c p3) as S3.
  pose proof (cdist_sq c0 p1) as T1. pose proof (cdist_sq c0 p2) as T2. pose proof (cdist_sq c0 p3) as T3.
  rewrite H1 in S1. rewrite H2 in S2. rewrite H3 in S3. rewrite G1 in T1. rewrite G2 in T2. rewrite G3 in T3.
  destruct c as [cx cy], c0 as [ax ay], p1 as [x1 y1], p2 as [x2 y2], p3 as [x3 y3]. cbn [fst snd] in *.
  (* subtracting: 2 (c - c0).(p2 - p1) = 0 and 2 (c - c0).(p3 - p1) = 0 *)
  assert (E2 : (cx - ax) * (x2 - x1) + (cy - ay) * (y2 - y1) = 0) by nra.
  assert (E3 : (cx - ax) * (x3 - x1) + (cy - ay) * (y3 - y1) = 0) by nra.
  set (D := (x2 - x1) * (y3 - y1) - (x3 - x1) * (y2 - y1)) in *.
  assert (Ex : (cx - ax) * D = 0).
  { replace ((cx - ax) * D) with (((cx - ax) * (x2 - x1) + (cy - ay) * (y2 - y1)) * (y3 - y1) - ((cx - ax) * (x3 - x1) + (cy - ay) * (y3 - y1)) * (y2 - y1)) by (unfold D; ring).
    rewrite E2, E3. ring. }
  assert (Ey : (cy - ay) * D = 0).
  { replace ((cy - ay) * D) with (((cx - ax) * (x3 - x1) + (cy - ay) * (y3 - y1)) * (x2 - x1) - ((cx - ax) * (x2 - x1) + (cy - ay) * (y2 - y1)) * (x3 - x1)) by (unfold D; ring).
    rewrite E2, E3. ring. }
  assert (cx = ax) by (apply Rmult_integral in Ex; destruct Ex; [lra|contradiction]).
  assert (cy = ay) by (apply Rmult_integral in Ey; destruct Ey; [lra|contradiction]).
  subst. reflexivity. Qed.

Lemma sum_squares_zero (l : list R) : sum ROps (map (fun x => x * x) l) = 0 -> Forall (fun x => x = 0) l.
Proof. induction l as [|x l IH]; intros H; [constructor|]. change (sum ROps (map (fun x => x * x) (x :: l))) with (x * x + sum ROps (map (fun x => x * x) l)) in H.
  assert (Hn : 0 <= sum ROps (map (fun x => x * x) l)) by (clear; induction l as [|y l IH]; [simpl; lra|]; change (sum ROps (map (fun x => x * x) (y :: l))) with (y * y + sum ROps (map (fun x => x * x) l)); nra).
  assert (x * x = 0 /\ sum ROps (map (fun x => x * x) l) = 0) as [Hx Hl] by nra. constructor; [nra|apply IH; exact Hl]. Qed.
Lemma cost_nonneg c pts : 0 <= cost ROps c pts.
Proof. unfold cost. change (mul ROps) with Rmult. generalize (objective ROps c pts). intros l. induction l as [|y l IH]; [simpl; lra|].
  change (sum ROps (map (fun x => x * x) (y :: l))) with (y * y + sum ROps (map (fun x => x * x) l)). nra. Qed.

(* the cost leastsq minimises is zero at the centre and positive everywhere else *)
Theorem dlite_cost_minimised_exactly_at_the_centre c0 rho pts p1 p2 p3 :
  (forall p, In p pts -> rcdist c0 p = rho) -> In p1 pts -> In p2 pts -> In p3 pts ->
  (fst p2 - fst p1) * (snd p3 - snd p1) - (fst p3 - fst p1) * (snd p2 - snd p1) <> 0 ->
  cost ROps c0 pts = 0 /\ forall c, c <> c0 -> 0 < cost ROps c pts.
Proof. intros Hc H1 H2 H3 Hnc. split.
  - unfold cost. change (mul ROps) with Rmult. pose proof (objective_zero_at_centre c0 pts rho ltac:(intro E; rewrite E in H1; destruct H1) Hc) as Hz.
    induction Hz as [|x l Hx _ IH]; [reflexivity|]. change (sum ROps (map (fun x => x * x) (x :: l))) with (x * x + sum ROps (map (fun x => x * x) l)). rewrite IH, Hx. ring.
  - intros c Hne. pose proof (cost_nonneg c pts) as Hn. destruct (Req_dec (cost ROps c pts) 0) as [Hz | Hz]; [|lra]. exfalso. apply Hne.
    unfold cost in Hz. change (mul ROps) with Rmult in Hz. apply sum_squares_zero in Hz. pose proof (objective_zero_equidistant c pts Hz) as He.
    apply (equidistant_point_unique c c0 p1 p2 p3 (mean ROps (distances ROps c pts)) rho Hnc); auto. Qed.

(* ------------------------------------------------------------------ the shortcut for collinear points *)
Lemma Rltb_true a b : Rltb a b = true <-> a < b.
Proof. unfold Rltb. destruct (Rlt_dec a b); split; intros; try lra; try discriminate; reflexivity. Qed.
Lemma Rltb_pos_scale s a b : 0 < s -> Rltb (s * a) (s * b) = Rltb a b.
Proof. intros Hs. destruct (Rltb a b) eqn:E.
  - apply Rltb_true in E. apply Rltb_true. nra.
  - destruct (Rltb (s * a) (s * b)) eqn:E'; [|reflexivity]. apply Rltb_true in E'. assert (a < b) by nra. apply Rltb_true in H. congruence. Qed.
Lemma nabs_R x : nabs ROps x = Rabs x.
Proof. unfold nabs. cbn [ltb ROps zero opp]. unfold Rltb. destruct (Rlt_dec x 0); [rewrite Rabs_left; lra|rewrite Rabs_right; lra]. Qed.

Definition simil (a b tx ty : R) (p : R * R) : R * R := (a * fst p - b * snd p + tx, b * fst p + a * snd p + ty).

Lemma last_map' {A B} (g : A -> B) l d : last (map g l) (g d) = g (last l d).
Proof. induction l as [|x t IH]; [reflexivity|]. destruct t; [reflexivity|]. exact IH. Qed.
Lemma chord_simil a b tx ty pts : chord ROps (map (simil a b tx ty) pts) = (a * fst (chord ROps pts) - b * snd (chord ROps pts), b * fst (chord ROps pts) + a * snd (chord ROps pts)).
Proof. destruct pts as [|p0 t]; [cbn; f_equal; ring|]. change (map (simil a b tx ty) (p0 :: t)) with (simil a b tx ty p0 :: map (simil a b tx ty) t).
  unfold chord. change (simil a b tx ty p0 :: map (simil a b tx ty) t) with (map (simil a b tx ty) (p0 :: t)). rewrite last_map'.
  unfold simil. cbn [fst snd sub ROps]. f_equal; ring. Qed.
Lemma chord2_simil a b tx ty pts : chord2 ROps (map (simil a b tx ty) pts) = (a * a + b * b) * chord2 ROps pts.
Proof. unfold chord2. rewrite chord_simil. cbn [fst snd add mul ROps]. ring. Qed.
Lemma offsets_simil a b tx ty pts : offsets ROps (map (simil a b tx ty) pts) = map (Rmult (a * a + b * b)) (offsets ROps pts).
Proof. destruct pts as [|p0 t]; [reflexivity|]. change (map (simil a b tx ty) (p0 :: t)) with (simil a b tx ty p0 :: map (simil a b tx ty) t).
  unfold offsets. change (simil a b tx ty p0 :: map (simil a b tx ty) t) with (map (simil a b tx ty) (p0 :: t)). rewrite chord_simil. rewrite !map_map. apply map_ext. intros p.
  unfold simil. cbn [fst snd sub mul ROps]. ring. Qed.

Lemma forallb_map' {A B} (f : A -> B) (p : B -> bool) l : forallb p (map f l) = forallb (fun x => p (f x)) l.
Proof. induction l as [|x t IH]; [reflexivity|]. simpl. rewrite IH. reflexivity. Qed.
Lemma forallb_ext' {A} (p q : A -> bool) l : (forall x, p x = q x) -> forallb p l = forallb q l.
Proof. intros H. induction l as [|x t IH]; [reflexivity|]. simpl. rewrite H, IH. reflexivity. Qed.
(* the decision is the same for the tissue rotated, scaled (by any non-zero factor) and translated *)
Theorem shortcut_similarity_invariant a b tx ty tol pts : 0 < a * a + b * b ->
  shortcut_taken ROps tol (map (simil a b tx ty) pts) = shortcut_taken ROps tol pts.
Proof. intros Hs. unfold shortcut_taken. rewrite map_length, chord2_simil, offsets_simil. cbn [ltb zero mul ROps]. f_equal; [f_equal|].
  - rewrite <- (Rmult_0_r (a * a + b * b)) at 1. apply Rltb_pos_scale. exact Hs.
  - rewrite forallb_map'. apply forallb_ext'. intros o. unfold nleb. rewrite !nabs_R. cbn [ltb ROps]. f_equal.
    rewrite Rabs_mult, (Rabs_right (a * a + b * b)) by lra.
    replace (tol * ((a * a + b * b) * chord2 ROps pts)) with ((a * a + b * b) * (tol * chord2 ROps pts)) by ring. apply Rltb_pos_scale. exact Hs. Qed.

(* points that are exactly on one line through the first point, with end points apart, always take the shortcut *)
Theorem collinear_points_take_the_shortcut tol pts : 0 <= tol -> (2 < length pts)%nat -> 0 < chord2 ROps pts ->
  Forall (fun o => o = 0) (offsets ROps pts) -> shortcut_taken ROps tol pts = true.
Proof. intros Ht Hl Hc Ho. unfold shortcut_taken. apply andb_true_iff. split; [apply andb_true_iff; split|].
  - apply Nat.ltb_lt. exact Hl.
  - cbn [ltb zero ROps]. apply Rltb_true. exact Hc.
  - apply forallb_forall. intros o Hin. rewrite Forall_forall in Ho. rewrite (Ho o Hin). unfold nleb. rewrite nabs_R, Rabs_R0. cbn [ltb mul ROps].
    destruct (Rltb (tol * chord2 ROps pts) 0) eqn:E; [|reflexivity]. apply Rltb_true in E. nra. Qed.

(* the far centre lies on the normal to the chord through the mean point: seen from a far centre the interface is straight *)
Theorem far_centre_on_the_normal far pts :
  let c := far_centre ROps far pts in let d := chord ROps pts in
  (fst c - mean ROps (map fst pts)) * fst d + (snd c - mean ROps (map snd pts)) * snd d = 0.
Proof. cbv zeta. unfold far_centre. cbn [fst snd sub add mul ROps]. ring. Qed.
