(* PressureLSProofs.v -- the pressure step's solve (general_matrix.py:76-102): the bordered normal equations
   [[A^T A, 1], [1^T, 0]] (p, mu) = (A^T r, 0) characterise the least-squares solution of A p = r among the vectors that sum to zero,
   and when the interfaces link all cells into one connected group the bordered system has no other solution (C04). *)
From Coq Require Import ZArith List Bool Lia Reals Lra Psatz.
From Forsys Require Import Model.Num Model.PyList Model.Cert Model.PressureSys Proofs.CertProofs Proofs.PressureProofs.
Import ListNotations.
Open Scope R_scope.

Definition ones (n : nat) : list R := repeat 1 n.
Lemma rdot_ones_r (d : list R) : rdot d (ones (length d)) = rsum d.
Proof. unfold ones. rewrite rdot_comm. apply rdot_ones. Qed.

(* stationarity: A^T (A p - r) = - mu 1, i.e. A^T A p + mu 1 = A^T r, the first block row of the bordered system *)
Definition stationary (n : nat) (A : list (list R)) (r p : list R) (mu : R) : Prop :=
  rtmv n A (rsub (rmv A p) r) = rscale (- mu) (ones n).

(* ------------------------------------------------------------------ a solution of the bordered system is the constrained minimiser *)
Theorem zero_sum_normal_equations_minimise n (A : list (list R)) (r p q : list R) (mu : R) :
  rows_ok n A -> length r = length A -> length p = n -> length q = n ->
  stationary n A r p mu -> rsum p = 0 -> rsum q = 0 ->
  rsqn (rsub (rmv A p) r) <= rsqn (rsub (rmv A q) r).
Proof. unfold stationary. intros HA Hr Hp Hq Hst Sp Sq.
  set (u := rsub (rmv A p) r). set (w := rmv A (rsub q p)).
  assert (Hul : length u = length A) by (unfold u; rewrite rsub_length; rewrite rmv_length; congruence).
  assert (Hwl : length w = length A) by (unfold w; apply rmv_length).
  assert (HA' : rows_ok (length q) A) by (rewrite Hq; exact HA).
  assert (Hdec : rsub (rmv A q) r = radd u w).
  { unfold u, w. rewrite (rmv_sub A q p HA') by congruence. apply rsub_sub_shift; rewrite !rmv_length; congruence. }
  rewrite Hdec, expand by congruence.
  assert (Hadj : rdot u w = rdot (rsub q p) (rtmv n A u)).
  { unfold w. rewrite rdot_comm. apply adjoint; [exact HA|rewrite rsub_length; congruence|exact Hul]. }
  fold u in Hst. rewrite Hadj, Hst, rdot_scale_r.
  assert (Hd : rdot (rsub q p) (ones n) = 0).
  { rewrite rdot_sub_l by congruence. rewrite <- Hq at 1. rewrite rdot_ones_r. rewrite <- Hp. rewrite rdot_ones_r. lra. }
  rewrite Hd. pose proof (rsqn_nonneg w). lra. Qed.

(* ------------------------------------------------------------------ the bordered system has at most one solution *)
Definition zero_sum_injective (n : nat) (A : list (list R)) : Prop :=
  forall d, length d = n -> Forall (fun x => x = 0) (rmv A d) -> rsum d = 0 -> Forall (fun x => x = 0) d.

Lemma rsum_sub (a b : list R) : length a = length b -> rsum (rsub a b) = rsum a - rsum b.
Proof. revert b; induction a as [|x a IH]; intros [|y b] H; simpl in H; try lia; [unfold vsum; simpl; lra|].
  change (rsub (x :: a) (y :: b)) with (x - y :: rsub a b). change (rsum (x - y :: rsub a b)) with (x - y + rsum (rsub a b)).
  rewrite IH by lia. change (rsum (x :: a)) with (x + rsum a). change (rsum (y :: b)) with (y + rsum b). ring. Qed.

Theorem bordered_system_unique n (A : list (list R)) (r p p' : list R) (mu mu' : R) :
  rows_ok n A -> length r = length A -> length p = n -> length p' = n -> zero_sum_injective n A ->
  stationary n A r p mu -> rsum p = 0 -> stationary n A r p' mu' -> rsum p' = 0 -> p = p'.
Proof. unfold stationary. intros HA Hr Hp Hp' Hinj Hst Sp Hst' Sp'.
  set (u := rsub (rmv A p) r) in *. set (u' := rsub (rmv A p') r) in *. set (d := rsub p p').
  assert (Hul : length u = length A) by (unfold u; rewrite rsub_length; rewrite rmv_length; congruence).
  assert (Hul' : length u' = length A) by (unfold u'; rewrite rsub_length; rewrite rmv_length; congruence).
  assert (Hdl : length d = n) by (unfold d; rewrite rsub_length; congruence).
  assert (HA' : rows_ok (length p) A) by (rewrite Hp; exact HA).
  assert (HAd : rmv A d = rsub u u').
  { unfold d, u, u'. rewrite (rmv_sub A p p' HA') by congruence. symmetry. apply rsub_common; rewrite !rmv_length; congruence. }
  assert (Sd : rsum d = 0) by (unfold d; rewrite rsum_sub by congruence; lra).
  assert (Hdot : forall v m, length v = length A -> rtmv n A v = rscale (- m) (ones n) -> rdot v (rmv A d) = 0).
  { intros v m Hv Hm. rewrite rdot_comm, (adjoint n A d v HA Hdl Hv), Hm, rdot_scale_r. rewrite <- Hdl. rewrite rdot_ones_r, Sd. ring. }
  assert (Hz : rsqn (rmv A d) = 0).
  { unfold sqn. rewrite HAd at 1. rewrite rdot_sub_l by congruence. rewrite (Hdot u mu Hul Hst), (Hdot u' mu' Hul' Hst'). ring. }
  apply rsqn_zero in Hz. specialize (Hinj d Hdl Hz Sd). apply rsub_zero_eq; [congruence|exact Hinj]. Qed.

(* ------------------------------------------------------------------ difference rows *)
Lemma rdot_single (r d : list R) : forall i, (forall k, k <> i -> nth k r 0 = 0) -> length r = length d -> rdot r d = nth i r 0 * nth i d 0.
Proof. revert d; induction r as [|x r IH]; intros [|y d] i Hz Hl; simpl in Hl; try lia; [unfold vdot; destruct i; simpl; ring|].
  rewrite rdot_cons. destruct i as [|i].
  - rewrite (IH d (length r)); [|intros k Hk; apply (Hz (S k)); lia|lia]. rewrite (nth_overflow r) by lia. simpl. ring.
  - assert (x = 0) by (apply (Hz 0%nat); lia). subst x. rewrite (IH d i); [simpl; ring|intros k Hk; apply (Hz (S k)); lia|lia]. Qed.
Lemma rdot_two (r d : list R) : forall i j, i <> j -> (forall k, k <> i -> k <> j -> nth k r 0 = 0) -> length r = length d ->
  rdot r d = nth i r 0 * nth i d 0 + nth j r 0 * nth j d 0.
Proof. revert d; induction r as [|x r IH]; intros [|y d] i j Hij Hz Hl; simpl in Hl; try lia; [unfold vdot; destruct i, j; simpl; ring|].
  rewrite rdot_cons. destruct i as [|i], j as [|j]; try lia.
  - rewrite (rdot_single r d j); [simpl; ring|intros k Hk; apply (Hz (S k)); lia|lia].
  - rewrite (rdot_single r d i); [simpl; ring|intros k Hk; apply (Hz (S k)); lia|lia].
  - assert (x = 0) by (apply (Hz 0%nat); lia). subst x. rewrite (IH d i j); [simpl; ring|lia|intros k H1 H2; apply (Hz (S k)); lia|lia]. Qed.

(* a row with s at column i, -s at column j and zero elsewhere *)
Definition diff_row (n : nat) (row : list R) (i j : nat) (s : R) : Prop :=
  length row = n /\ i <> j /\ s <> 0 /\ nth i row 0 = s /\ nth j row 0 = - s /\ (forall k, k <> i -> k <> j -> nth k row 0 = 0).
Lemma diff_row_dot n row i j s d : diff_row n row i j s -> length d = n -> rdot row d = s * (nth i d 0 - nth j d 0).
Proof. intros [Hl [Hij [_ [Hi [Hj Hz]]]]] Hd. rewrite (rdot_two row d i j Hij Hz) by congruence. rewrite Hi, Hj. ring. Qed.

(* the row pmatrix.get_row builds for an interface between two different cells is such a row *)
Theorem get_row_is_diff_row keys c1 c2 sign1 r p1 p2 :
  get_row keys [c1; c2] sign1 = Some r -> position_of c1 keys = Some p1 -> position_of c2 keys = Some p2 -> p1 <> p2 ->
  diff_row (length keys) (map IZR r) p1 p2 (IZR (if (0 <? sign1)%Z then 1%Z else (-1)%Z)).
Proof. intros H H1 H2 Hne. destruct (row_shape keys c1 c2 sign1 r p1 p2 H H1 H2 Hne) as [Hl [Ha [Hb Hz]]].
  assert (Hn : forall k, nth k (map IZR r) 0 = IZR (nth k r 0%Z)) by (intros k; change 0 with (IZR 0); apply map_nth).
  unfold diff_row. rewrite map_length. repeat split; try assumption.
  - destruct (0 <? sign1)%Z; [apply IZR_neq; lia|apply IZR_neq; lia].
  - rewrite Hn, Ha. reflexivity.
  - rewrite Hn, Hb. rewrite opp_IZR. reflexivity.
  - intros k Hk1 Hk2. rewrite Hn, (Hz k Hk1 Hk2). reflexivity. Qed.

(* ------------------------------------------------------------------ connectivity gives injectivity on the zero-sum vectors *)
Inductive linked (edges : list (nat * nat)) : nat -> nat -> Prop :=
| lk_refl i : linked edges i i
| lk_step i j k : In (i, j) edges \/ In (j, i) edges -> linked edges j k -> linked edges i k.

Definition diff_matrix (n : nat) (A : list (list R)) (edges : list (nat * nat)) : Prop :=
  Forall2 (fun row e => exists s, diff_row n row (fst e) (snd e) s) A edges.

Lemma diff_matrix_kernel n A edges d : diff_matrix n A edges -> length d = n -> Forall (fun x => x = 0) (rmv A d) ->
  forall e, In e edges -> nth (fst e) d 0 = nth (snd e) d 0.
Proof. intros HD Hd. induction HD as [|row e A edges [s Hrow] _ IH]; intros Hz e' He'; [destruct He'|].
  change (rmv (row :: A) d) with (rdot row d :: rmv A d) in Hz. apply Forall_cons_iff in Hz. destruct Hz as [Hz1 Hz2].
  destruct He' as [<- | He']; [|apply IH; assumption].
  rewrite (diff_row_dot n row (fst e) (snd e) s d Hrow Hd) in Hz1. destruct Hrow as [_ [_ [Hs _]]]. nra. Qed.

Lemma linked_equal edges d : (forall e, In e edges -> nth (fst e) d 0 = nth (snd e) d 0) -> forall i j, linked edges i j -> nth i d 0 = nth j d 0.
Proof. intros H i j L. induction L as [i|i j k [Hin | Hin] _ IH]; [reflexivity| |].
  - rewrite <- IH. apply (H (i, j) Hin).
  - rewrite <- IH. symmetry. apply (H (j, i) Hin). Qed.

Lemma rsum_constant (d : list R) c : (forall i, (i < length d)%nat -> nth i d 0 = c) -> rsum d = INR (length d) * c.
Proof. induction d as [|x d IH]; intros H; [unfold vsum; simpl; ring|]. change (rsum (x :: d)) with (x + rsum d).
  rewrite IH by (intros i Hi; apply (H (S i)); simpl; lia). assert (Hx : x = c) by (apply (H 0%nat); simpl; lia). subst x.
  change (length (c :: d)) with (S (length d)). rewrite S_INR. ring. Qed.

(* when the interfaces link every cell (column) to the first one, a vector of pressures that no equation distinguishes from zero and
   that sums to zero is zero *)
Theorem connected_zero_sum_injective n A edges : diff_matrix n A edges -> (forall i, (i < n)%nat -> linked edges 0%nat i) -> zero_sum_injective n A.
Proof. intros HD HL d Hd Hz Hs.
  pose proof (diff_matrix_kernel n A edges d HD Hd Hz) as Hk. pose proof (linked_equal edges d Hk) as He.
  assert (Hc : forall i, (i < length d)%nat -> nth i d 0 = nth 0 d 0) by (intros i Hi; symmetry; apply He, HL; lia).
  rewrite (rsum_constant d (nth 0 d 0) Hc) in Hs.
  apply Forall_forall. intros x Hx. destruct (In_nth d x 0 Hx) as [i [Hi <-]]. rewrite (Hc i Hi).
  assert (0 < INR (length d)) by (apply lt_0_INR; lia). nra. Qed.

(* all together: for a connected tissue the pressures the bordered system yields are THE zero-sum least-squares solution *)
Theorem connected_pressures_are_the_zero_sum_least_squares n A edges (r p : list R) (mu : R) :
  rows_ok n A -> diff_matrix n A edges -> (forall i, (i < n)%nat -> linked edges 0%nat i) ->
  length r = length A -> length p = n -> stationary n A r p mu -> rsum p = 0 ->
  (forall q, length q = n -> rsum q = 0 -> rsqn (rsub (rmv A p) r) <= rsqn (rsub (rmv A q) r)) /\
  (forall p' mu', length p' = n -> stationary n A r p' mu' -> rsum p' = 0 -> p' = p).
Proof. intros HA HD HL Hr Hp Hst Sp. split.
  - intros q Hq Sq. apply (zero_sum_normal_equations_minimise n A r p q mu); assumption.
  - intros p' mu' Hp' Hst' Sp'. apply (bordered_system_unique n A r p' p mu' mu); try assumption.
    apply (connected_zero_sum_injective n A edges); assumption. Qed.
