(* BandProofs.v -- structure of the layered band (C17, "the distinct pixels in the layered band around the interface polyline"):
   one walk position per integer step along the axis of larger extent, first vertex included, second excluded; a pixel is in the band
   exactly when it is within [layers] (in both coordinates) of a walk position of some segment.  Whatever the interpolation. *)
From Coq Require Import ZArith List Bool Lia.
From Forsys Require Import Model.Myosin Model.Band Proofs.MyosinProofs.
Import ListNotations.
Open Scope Z_scope.

Lemma steps_length a b : length (steps a b) = Z.to_nat (Z.abs (b - a)).
Proof. unfold steps. destruct (Z.ltb_spec a b); rewrite map_length, seq_length; lia. Qed.
Lemma steps_In a b z : In z (steps a b) <-> (a <= z < b) \/ (b < z <= a).
Proof. unfold steps. destruct (Z.ltb_spec a b); rewrite in_map_iff; split.
  - intros [k [<- Hk]]. apply in_seq in Hk. left. lia.
  - intros [Hz | Hz]; [|lia]. exists (Z.to_nat (z - a)). split; [lia|apply in_seq; lia].
  - intros [k [<- Hk]]. apply in_seq in Hk. right. lia.
  - intros [Hz | Hz]; [lia|]. exists (Z.to_nat (a - z)). split; [lia|apply in_seq; lia]. Qed.
Lemma steps_head a b : a <> b -> hd 0 (steps a b) = a.
Proof. intros H. unfold steps. destruct (Z.ltb_spec a b).
  - destruct (Z.to_nat (b - a)) eqn:E; [lia|]. cbn. lia.
  - destruct (Z.to_nat (a - b)) eqn:E; [lia|]. cbn. lia. Qed.

Section Walk.
  Variable interp : Z -> Z -> Z -> Z -> Z -> Z.

  (* one position per integer step along the axis of larger extent *)
  Theorem walk_positions_count v0 v1 :
    length (walk_positions interp v0 v1) = Z.to_nat (Z.max (Z.abs (fst v0 - fst v1)) (Z.abs (snd v0 - snd v1))).
  Proof. unfold walk_positions. destruct (Z.ltb_spec (Z.abs (snd v0 - snd v1)) (Z.abs (fst v0 - fst v1))); rewrite map_length, steps_length; lia. Qed.

  (* along that axis the positions run from the first vertex (included) to the second (excluded) *)
  Theorem walk_positions_major v0 v1 p : In p (walk_positions interp v0 v1) ->
    if Z.abs (snd v0 - snd v1) <? Z.abs (fst v0 - fst v1)
    then (fst v0 <= fst p < fst v1 \/ fst v1 < fst p <= fst v0) /\ snd p = interp (fst v0) (snd v0) (fst v1) (snd v1) (fst p)
    else (snd v0 <= snd p < snd v1 \/ snd v1 < snd p <= snd v0) /\ fst p = interp (snd v0) (fst v0) (snd v1) (fst v1) (snd p).
  Proof. unfold walk_positions. destruct (Z.abs (snd v0 - snd v1) <? Z.abs (fst v0 - fst v1)); intros H; apply in_map_iff in H;
    destruct H as [z [<- Hz]]; apply steps_In in Hz; cbn [fst snd]; split; [exact Hz|reflexivity|exact Hz|reflexivity]. Qed.

  (* a pixel is in the band of a segment exactly when it is within [layers] of one of its walk positions *)
  Theorem walk_band_spec layers v0 v1 q : In q (walk_band interp layers v0 v1) <->
    exists p, In p (walk_positions interp v0 v1) /\ Z.abs (fst q - fst p) <= Z.of_nat layers /\ Z.abs (snd q - snd p) <= Z.of_nat layers.
  Proof. unfold walk_band. rewrite in_flat_map. split; intros [p [Hp Hq]]; exists p; (split; [exact Hp|]).
    - apply (proj1 (proj2 (window_is_square (fst p) (snd p) layers))) in Hq. exact Hq.
    - apply (proj1 (proj2 (window_is_square (fst p) (snd p) layers))). exact Hq. Qed.

  (* the band of a polyline is the union of the bands of its segments *)
  Fixpoint segments (vs : list (Z * Z)) : list ((Z * Z) * (Z * Z)) :=
    match vs with a :: ((b :: _) as t) => (a, b) :: segments t | _ => [] end.
  Theorem polyline_band_spec layers vs q : In q (polyline_band interp layers vs) <->
    exists s, In s (segments vs) /\ In q (walk_band interp layers (fst s) (snd s)).
  Proof. induction vs as [|a t IH]; [split; [intros []|intros [s [[] _]]]|]. destruct t as [|b t'].
    - split; [intros []|intros [s [[] _]]].
    - change (polyline_band interp layers (a :: b :: t')) with (walk_band interp layers a b ++ polyline_band interp layers (b :: t')).
      change (segments (a :: b :: t')) with ((a, b) :: segments (b :: t')). rewrite in_app_iff, IH. split.
      + intros [H | [s [Hs Hq]]]; [exists (a, b); split; [left; reflexivity|exact H]|exists s; split; [right; exact Hs|exact Hq]].
      + intros [s [[<- | Hs] Hq]]; [left; exact Hq|right; exists s; split; assumption]. Qed.

  (* a segment that stays in one pixel contributes nothing; otherwise the window of its first vertex is in the band *)
  Theorem degenerate_segment_empty layers v : walk_band interp layers v v = [].
  Proof. unfold walk_band, walk_positions. rewrite !Z.sub_diag. cbn [Z.abs]. rewrite Z.ltb_irrefl. unfold steps. rewrite Z.ltb_irrefl, Z.sub_diag. reflexivity. Qed.
End Walk.

(* with numpy's interpolation the walk starts exactly at the first vertex *)
Lemma np_interp_at_start x0 y0 x1 y1 : x0 <> x1 -> np_interp x0 y0 x1 y1 x0 = y0.
Proof. intros H. unfold np_interp. destruct (Z.ltb_spec x0 x1).
  - rewrite Z.eqb_refl. reflexivity.
  - destruct (Z.eqb_spec x0 x1); [contradiction|]. rewrite Z.eqb_refl. reflexivity. Qed.
Theorem first_vertex_window_in_band layers v0 v1 q : v0 <> v1 ->
  Z.abs (fst q - fst v0) <= Z.of_nat layers -> Z.abs (snd q - snd v0) <= Z.of_nat layers -> In q (walk_band np_interp layers v0 v1).
Proof. intros Hne H1 H2. apply walk_band_spec. exists v0. split; [|split; assumption].
  unfold walk_positions. destruct v0 as [x0 y0], v1 as [x1 y1]. cbn [fst snd]. destruct (Z.ltb_spec (Z.abs (y0 - y1)) (Z.abs (x0 - x1))).
  - assert (Hx : x0 <> x1) by lia. apply in_map_iff. exists x0. split; [rewrite np_interp_at_start by exact Hx; reflexivity|]. apply steps_In. lia.
  - assert (Hy : y0 <> y1) by (intros E; subst; assert (x0 = x1) by lia; subst; contradiction).
    apply in_map_iff. exists y0. split; [rewrite np_interp_at_start by exact Hy; reflexivity|]. apply steps_In. lia. Qed.
