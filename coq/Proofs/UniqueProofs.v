(* UniqueProofs.v -- a mesh edge of a cell lies in exactly one of the cell's interfaces (C08: "exactly once"), for cycles without repeated vertex. *)
From Coq Require Import ZArith List Bool Lia Permutation.
From Forsys Require Import Model.PyList Model.Interfaces Proofs.InterfacesProofs Proofs.ShiftProofs Proofs.WriteBackProofs.
Import ListNotations.
Open Scope Z_scope.

Lemma removelast_app_cons {A} (l : list A) x t : removelast (l ++ x :: t) = l ++ removelast (x :: t).
Proof. induction l as [|y l IH]; [reflexivity|]. change ((y :: l) ++ x :: t) with (y :: (l ++ x :: t)).
  assert (E : exists z r, l ++ x :: t = z :: r) by (destruct l; eexists; eexists; reflexivity). destruct E as [z [r E]].
  change (removelast (y :: (l ++ x :: t))) with (match l ++ x :: t with [] => [] | _ :: _ => y :: removelast (l ++ x :: t) end).
  rewrite E. rewrite <- E, IH. reflexivity. Qed.
Lemma adjacent_start_not_last a b e : adjacent a b e -> In a (removelast e).
Proof. intros [l1 [l2 ->]]. rewrite removelast_app_cons. apply in_or_app. right. cbn [removelast]. left. reflexivity. Qed.

Theorem mesh_edge_in_one_interface_only junc ids : NoDup ids -> existsb junc ids = true ->
  forall i j e1 e2 a b, nth_error (cell_interfaces junc ids) i = Some e1 -> nth_error (cell_interfaces junc ids) j = Some e2 ->
  adjacent a b e1 -> adjacent a b e2 -> i = j.
Proof. intros Hnd Hex i j e1 e2 a b Hi Hj H1 H2.
  destruct (cell_interfaces_cover junc ids Hex) as [l1 [l2 [Hids Hc]]].
  assert (Hn : NoDup (concat (map (@removelast Z) (cell_interfaces junc ids)))).
  { rewrite Hc. apply (Permutation_NoDup (l := l1 ++ l2)); [apply Permutation_app_comm|]. rewrite <- Hids. exact Hnd. }
  apply (nodup_concat_positions (@removelast Z) (cell_interfaces junc ids) Hn i j e1 e2 a Hi Hj);
    [apply (adjacent_start_not_last a b); exact H1|apply (adjacent_start_not_last a b); exact H2]. Qed.

(* existence (ShiftProofs.cell_edge_in_interface) and uniqueness together *)
Theorem mesh_edge_in_exactly_one_interface junc ids a b : NoDup ids -> existsb junc ids = true -> cyc_adjacent a b ids ->
  exists i e, nth_error (cell_interfaces junc ids) i = Some e /\ adjacent a b e /\
    forall j e', nth_error (cell_interfaces junc ids) j = Some e' -> adjacent a b e' -> j = i.
Proof. intros Hnd Hex Hab. destruct (cell_edge_in_interface junc ids a b Hex Hab) as [e [He Hadj]].
  destruct (In_nth_error _ _ He) as [i Hi]. exists i, e. split; [exact Hi|]. split; [exact Hadj|].
  intros j e' Hj Hadj'. apply (mesh_edge_in_one_interface_only junc ids Hnd Hex j i e' e a b Hj Hi Hadj' Hadj). Qed.
