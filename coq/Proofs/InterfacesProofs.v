From Coq Require Import ZArith List Bool Lia.
From Forsys Require Import Model.PyList Model.Interfaces.
Import ListNotations.
Open Scope Z_scope.

(* ---------------------------------------------------------------- basic reflection *)
Lemma listZ_eq_spec a b : listZ_eq a b = true <-> a = b.
Proof. revert b; induction a as [|x s IH]; intros [|y t]; simpl; try (split; [discriminate|discriminate]); [tauto|].
  rewrite andb_true_iff, Z.eqb_eq, IH. split; [intros [-> ->]; reflexivity|intros H; inversion H; tauto]. Qed.
Lemma mem_list_spec e l : mem_list e l = true <-> In e l.
Proof. unfold mem_list. rewrite existsb_exists. split.
  - intros [x [Hx He]]. apply listZ_eq_spec in He. subst. exact Hx.
  - intros H. exists e. split; [exact H|apply listZ_eq_spec; reflexivity]. Qed.
Lemma memZ_spec x l : memZ x l = true <-> In x l.
Proof. unfold memZ. rewrite existsb_exists. split.
  - intros [y [Hy He]]. apply Z.eqb_eq in He. subst. exact Hy.
  - intros H. exists x. split; [exact H|apply Z.eqb_refl]. Qed.

(* ---------------------------------------------------------------- get_partition *)
Definition nojunc (junc : Z -> bool) (l : list Z) : bool := forallb (fun y => negb (junc y)) l.
Definition piece_ok (junc : Z -> bool) (p : list Z) : bool :=
  match p with [] => false | x :: r => junc x && nojunc junc r end.

Lemma partition_spec junc l :
  get_partition junc l <> [] /\ concat (get_partition junc l) = l /\
  nojunc junc (hd [] (get_partition junc l)) = true /\ forallb (piece_ok junc) (tl (get_partition junc l)) = true.
Proof. induction l as [|x t [Hne [Hc [Hh Ht]]]].
  - simpl. split; [discriminate|]. split; [reflexivity|]. split; reflexivity.
  - simpl get_partition. destruct (get_partition junc t) as [|h r] eqn:E; [congruence|]. simpl hd in *; simpl tl in *.
    simpl in Hc. destruct (junc x) eqn:Jx.
    + split; [discriminate|]. split; [simpl; rewrite Hc; reflexivity|]. split; [reflexivity|].
      simpl. rewrite Jx. simpl. try rewrite Hh. try (unfold nojunc in Hh; rewrite Hh). rewrite Ht. reflexivity.
    + split; [discriminate|]. split; [simpl; rewrite Hc; reflexivity|]. split; [simpl; rewrite Jx; exact Hh|exact Ht]. Qed.

Theorem partition_concat junc l : concat (get_partition junc l) = l.
Proof. apply partition_spec. Qed.

Lemma partition_head_junction junc x t : junc x = true -> hd [] (get_partition junc (x :: t)) = [].
Proof. intros J. simpl. rewrite J. reflexivity. Qed.

Lemma partition_tl_concat junc x t : junc x = true -> concat (tl (get_partition junc (x :: t))) = x :: t.
Proof. intros J. pose proof (partition_spec junc (x :: t)) as [Hne [Hc _]].
  pose proof (partition_head_junction junc x t J) as Hh.
  destruct (get_partition junc (x :: t)) as [|h r]; [congruence|]. simpl in *. subst h. exact Hc. Qed.

Lemma nojunc_existsb junc l : nojunc junc l = true -> existsb junc l = false.
Proof. induction l as [|x t IH]; simpl; [reflexivity|]. rewrite andb_true_iff, negb_true_iff. intros [-> H]. simpl. auto. Qed.

(* ---------------------------------------------------------------- close_pieces *)
Lemma combine_map_fst {A B} (l : list A) (l' : list B) : length l = length l' -> map fst (combine l l') = l.
Proof. revert l'; induction l as [|x t IH]; intros [|y t']; simpl; try discriminate; [reflexivity|].
  intros H. f_equal. apply IH. lia. Qed.
Lemma rot1_length {A} (l : list A) : length (rot1 l) = length l.
Proof. destruct l; simpl; [reflexivity|]. rewrite app_length. simpl. lia. Qed.
Lemma rot1_In {A} (x : A) l : In x (rot1 l) -> In x l.
Proof. destruct l; simpl; [tauto|]. rewrite in_app_iff. simpl. tauto. Qed.

Lemma close_pieces_removelast q : map (@removelast Z) (close_pieces q) = q.
Proof. unfold close_pieces. rewrite map_map.
  rewrite (map_ext _ fst) by (intros [p h]; simpl; apply removelast_last).
  apply combine_map_fst. rewrite rot1_length, map_length. reflexivity. Qed.

Lemma close_pieces_shape junc q e : forallb (piece_ok junc) q = true -> In e (close_pieces q) ->
  exists a mid b, e = a :: mid ++ [b] /\ junc a = true /\ junc b = true /\ nojunc junc mid = true.
Proof. intros Hq He. unfold close_pieces in He. apply in_map_iff in He. destruct He as [[p h] [<- Hin]].
  pose proof (in_combine_l _ _ _ _ Hin) as Hp. pose proof (in_combine_r _ _ _ _ Hin) as Hh.
  apply rot1_In, in_map_iff in Hh. destruct Hh as [p' [<- Hp']].
  rewrite forallb_forall in Hq. pose proof (Hq p Hp) as Ok. pose proof (Hq p' Hp') as Ok'.
  destruct p as [|a mid]; [discriminate|]. destruct p' as [|b r]; [discriminate|]. simpl in Ok, Ok'.
  apply andb_true_iff in Ok. apply andb_true_iff in Ok'. exists a, mid, b. simpl. tauto. Qed.

(* ---------------------------------------------------------------- one cell *)
Definition rotated_ids (junc : Z -> bool) (ids : list Z) : list Z :=
  match ids with
  | [] => []
  | x :: _ => if junc x then ids else concat (tl (get_partition junc ids)) ++ hd [] (get_partition junc ids)
  end.

Lemma rotated_is_rotation junc ids : exists l1 l2, ids = l1 ++ l2 /\ rotated_ids junc ids = l2 ++ l1.
Proof. destruct ids as [|x t]; [exists [], []; split; reflexivity|]. unfold rotated_ids.
  destruct (junc x); [exists [], (x :: t); rewrite app_nil_r; split; reflexivity|].
  pose proof (partition_spec junc (x :: t)) as [Hne [Hc _]].
  destruct (get_partition junc (x :: t)) as [|h r]; [congruence|]. simpl in *. exists h, (concat r). split; [symmetry; exact Hc|reflexivity]. Qed.

Lemma cell_interfaces_unfold junc ids : cell_interfaces junc ids = close_pieces (tl (get_partition junc (rotated_ids junc ids))).
Proof. unfold cell_interfaces, rotated_ids. destruct ids as [|x t]; [reflexivity|]. destruct (junc x); reflexivity. Qed.

Lemma rotated_starts_with_junction junc ids : existsb junc ids = true ->
  exists x t, rotated_ids junc ids = x :: t /\ junc x = true.
Proof. intros Hex. destruct ids as [|x t]; [discriminate|]. unfold rotated_ids. destruct (junc x) eqn:Jx; [exists x, t; auto|].
  pose proof (partition_spec junc (x :: t)) as [Hne [Hc [Hh Ht]]].
  destruct (get_partition junc (x :: t)) as [|h r]; [congruence|]. simpl in *.
  destruct r as [|p r'].
  - simpl in Hc. rewrite app_nil_r in Hc. subst h. apply nojunc_existsb in Hh. simpl in Hh. rewrite Jx in Hh. simpl in Hh.
    simpl in Hex. rewrite Jx in Hex. simpl in Hex. congruence.
  - simpl in Ht. apply andb_true_iff in Ht. destruct Ht as [Hp _]. destruct p as [|y s]; [discriminate|].
    simpl in Hp. apply andb_true_iff in Hp. exists y, ((s ++ concat r') ++ h). split; [reflexivity|tauto]. Qed.

(* every interface of a cell runs from a junction to a junction through non-junctions *)
Theorem cell_interfaces_shape junc ids e : In e (cell_interfaces junc ids) ->
  exists a mid b, e = a :: mid ++ [b] /\ junc a = true /\ junc b = true /\ nojunc junc mid = true.
Proof. rewrite cell_interfaces_unfold. apply close_pieces_shape. apply partition_spec. Qed.

(* dropping the closing vertex of every interface and concatenating gives a rotation of the cell cycle *)
Theorem cell_interfaces_cover junc ids : existsb junc ids = true ->
  exists l1 l2, ids = l1 ++ l2 /\ concat (map (@removelast Z) (cell_interfaces junc ids)) = l2 ++ l1.
Proof. intros Hex. destruct (rotated_is_rotation junc ids) as [l1 [l2 [H1 H2]]]. exists l1, l2. split; [exact H1|].
  rewrite cell_interfaces_unfold, close_pieces_removelast.
  destruct (rotated_starts_with_junction junc ids Hex) as [x [t [Hr Jx]]]. rewrite Hr, (partition_tl_concat junc x t Jx), <- Hr. exact H2. Qed.

Theorem no_junction_no_interface junc ids : existsb junc ids = false -> cell_interfaces junc ids = [].
Proof. intros Hex. rewrite cell_interfaces_unfold.
  assert (Hrot : existsb junc (rotated_ids junc ids) = false).
  { destruct (rotated_is_rotation junc ids) as [l1 [l2 [H1 H2]]]. rewrite H2, existsb_app. rewrite H1, existsb_app in Hex.
    apply orb_false_iff in Hex. destruct Hex as [-> ->]. reflexivity. }
  pose proof (partition_spec junc (rotated_ids junc ids)) as [Hne [Hc [Hh Ht]]].
  destruct (get_partition junc (rotated_ids junc ids)) as [|h r]; [congruence|]. simpl in *.
  destruct r as [|p r']; [reflexivity|]. exfalso. simpl in Ht. apply andb_true_iff in Ht. destruct Ht as [Hp _].
  destruct p as [|y s]; [discriminate|]. simpl in Hp. apply andb_true_iff in Hp. destruct Hp as [Jy _].
  rewrite <- Hc in Hrot. rewrite existsb_app in Hrot. apply orb_false_iff in Hrot. destruct Hrot as [_ Hrot].
  simpl in Hrot. rewrite Jy in Hrot. discriminate. Qed.

(* ---------------------------------------------------------------- de-duplication *)
Definition same_iface (e f : list Z) : Prop := e = f \/ e = rev f.
Inductive NoDupRev : list (list Z) -> Prop :=
| NDR_nil : NoDupRev []
| NDR_snoc l e : NoDupRev l -> (forall f, In f l -> ~ same_iface e f) -> NoDupRev (l ++ [e]).

Lemma dedup_step_spec earr e : NoDupRev earr ->
  NoDupRev (dedup_step earr e) /\ (exists f, In f (dedup_step earr e) /\ same_iface e f) /\
  (forall f, In f earr -> In f (dedup_step earr e)) /\ (forall f, In f (dedup_step earr e) -> In f earr \/ f = e).
Proof. intros H. unfold dedup_step. destruct (mem_list (rev e) earr) eqn:M1; [|destruct (mem_list e earr) eqn:M2]; simpl.
  - apply mem_list_spec in M1. repeat split; auto. exists (rev e). split; [exact M1|right; rewrite rev_involutive; reflexivity].
  - apply mem_list_spec in M2. repeat split; auto. exists e. split; [exact M2|left; reflexivity].
  - repeat split.
    + constructor; [exact H|]. intros f Hf [-> | ->].
      * apply mem_list_spec in Hf. congruence.
      * rewrite rev_involutive in M1. apply mem_list_spec in Hf. congruence.
    + exists e. split; [apply in_or_app; right; left; reflexivity|left; reflexivity].
    + intros f Hf. apply in_or_app. left. exact Hf.
    + intros f Hf. apply in_app_or in Hf. destruct Hf as [Hf|[<-|[]]]; auto. Qed.

Lemma dedup_fold_spec l : forall acc, NoDupRev acc ->
  NoDupRev (fold_left dedup_step l acc) /\
  (forall e, In e l \/ In e acc -> exists f, In f (fold_left dedup_step l acc) /\ same_iface e f) /\
  (forall f, In f (fold_left dedup_step l acc) -> In f acc \/ In f l).
Proof. induction l as [|e t IH]; intros acc Hacc; simpl.
  - repeat split; [exact Hacc| |tauto]. intros e [[]|He]. exists e. split; [exact He|left; reflexivity].
  - destruct (dedup_step_spec acc e Hacc) as [H1 [[f0 [Hf0 Hs0]] [H3 H4]]].
    destruct (IH (dedup_step acc e) H1) as [G1 [G2 G3]]. repeat split; [exact G1| |].
    + intros e' [[<-|Ht]|Ha].
      * destruct (G2 f0 (or_intror Hf0)) as [g [Hg Hsg]]. exists g. split; [exact Hg|].
        destruct Hs0 as [-> | ->]; [exact Hsg|]. destruct Hsg as [-> | ->]; [right; reflexivity|left; rewrite rev_involutive; reflexivity].
      * apply G2. left. exact Ht.
      * apply G2. right. apply H3. exact Ha.
    + intros f Hf. destruct (G3 f Hf) as [Hd|Ht]; [|right; right; exact Ht].
      destruct (H4 f Hd) as [Ha| ->]; [left; exact Ha|right; left; reflexivity]. Qed.

(* no interface is listed twice, in either direction; nothing is lost; nothing is invented *)
Theorem dedup_no_repeat l : NoDupRev (dedup_ifaces l).
Proof. apply (dedup_fold_spec l [] NDR_nil). Qed.
Theorem dedup_keeps_all l e : In e l -> exists f, In f (dedup_ifaces l) /\ same_iface e f.
Proof. intros H. apply (dedup_fold_spec l [] NDR_nil). left. exact H. Qed.
Theorem dedup_sound l f : In f (dedup_ifaces l) -> In f l.
Proof. intros H. destruct (proj2 (proj2 (dedup_fold_spec l [] NDR_nil)) f H) as [[]|Hl]. exact Hl. Qed.

Lemma NoDupRev_NoDup l : NoDupRev l -> NoDup l.
Proof. induction 1 as [|l e Hl IH Hne]; [constructor|].
  apply NoDup_rev in IH. rewrite <- (rev_involutive (l ++ [e])). apply NoDup_rev. rewrite rev_app_distr. simpl.
  constructor; [|exact IH]. rewrite <- in_rev. intros Hin. apply (Hne e Hin). left. reflexivity. Qed.

Theorem create_edges_new_nodup junc cells : NoDup (create_edges_new junc cells).
Proof. apply NoDupRev_NoDup, dedup_no_repeat. Qed.

Theorem create_edges_new_shape junc cells e : In e (create_edges_new junc cells) ->
  exists a mid b, e = a :: mid ++ [b] /\ junc a = true /\ junc b = true /\ nojunc junc mid = true.
Proof. intros H. apply dedup_sound in H. apply in_concat in H. destruct H as [l [Hl He]].
  apply in_map_iff in Hl. destruct Hl as [c [<- _]]. eapply cell_interfaces_shape; eauto. Qed.

(* ---------------------------------------------------------------- the three copies of the internal predicate agree *)
Lemma index_list_Some e l i : index_list e l = Some i -> nth_error l i = Some e.
Proof. revert i; induction l as [|x t IH]; intros i; simpl; [discriminate|].
  destruct (listZ_eq x e) eqn:E; [intros H; inversion H; apply listZ_eq_spec in E; subst; reflexivity|].
  destruct (index_list e t) as [j|]; simpl; [|discriminate]. intros H; inversion H; subst. simpl. apply IH. reflexivity. Qed.
Lemma index_list_nodup e l i : NoDup l -> nth_error l i = Some e -> index_list e l = Some i.
Proof. intros Hnd; revert i; induction Hnd as [|x t Hx Hnd IH]; intros i Hi; [destruct i; discriminate|].
  simpl. destruct i as [|i]; simpl in Hi.
  - inversion Hi; subst. replace (listZ_eq e e) with true by (symmetry; apply listZ_eq_spec; reflexivity). reflexivity.
  - destruct (listZ_eq x e) eqn:E.
    + apply listZ_eq_spec in E. subst. exfalso. apply Hx. eapply nth_error_In; eauto.
    + rewrite (IH i Hi). reflexivity. Qed.
Lemma enumerate_from_In {A} (l : list A) k i (e : A) : In (i, e) (enumerate_from k l) <-> (k <= i)%nat /\ nth_error l (i - k) = Some e.
Proof. revert k; induction l as [|x t IH]; intros k; simpl.
  - split; [tauto|]. intros [_ H]. destruct (i - k)%nat; discriminate.
  - rewrite IH. split.
    + intros [H|[H1 H2]]; [inversion H; subst; split; [lia|]; rewrite Nat.sub_diag; reflexivity|].
      split; [lia|]. replace (i - k)%nat with (S (i - S k)) by lia. exact H2.
    + intros [H1 H2]. destruct (Nat.eq_dec i k) as [->|Hne].
      * rewrite Nat.sub_diag in H2. simpl in H2. inversion H2. left; reflexivity.
      * right. split; [lia|]. replace (i - k)%nat with (S (i - S k)) in H2 by lia. exact H2. Qed.

Lemma external_id_iff ncells earr i e : NoDup earr -> nth_error earr i = Some e ->
  existsb (Nat.eqb i) (external_edges_id ncells earr) = is_border ncells e.
Proof. intros Hnd Hi. destruct (is_border ncells e) eqn:B.
  - apply existsb_exists. exists i. split; [|apply Nat.eqb_refl]. unfold external_edges_id. apply in_flat_map.
    exists e. split; [unfold get_border_edge; apply filter_In; split; [eapply nth_error_In; eauto|exact B]|].
    rewrite (index_list_nodup e earr i Hnd Hi). left; reflexivity.
  - apply not_true_is_false. intros H. apply existsb_exists in H. destruct H as [j [Hj Hij]]. apply Nat.eqb_eq in Hij. subst j.
    unfold external_edges_id in Hj. apply in_flat_map in Hj. destruct Hj as [e' [He' Hi']].
    unfold get_border_edge in He'. apply filter_In in He'. destruct He' as [_ Hb'].
    destruct (index_list e' earr) as [j|] eqn:E; [|destruct Hi']. destruct Hi' as [<-|[]].
    apply index_list_Some in E. rewrite Hi in E. inversion E; subst. congruence. Qed.

Theorem three_predicates_agree ncells earr : NoDup earr ->
  frame_internal ncells earr = filter (fun ie => negb (big_edge_external ncells (snd ie))) (enumerate_from 0 earr)
  /\ map fst (frame_internal ncells earr) = tension_table_ids ncells earr.
Proof. intros Hnd.
  assert (H : frame_internal ncells earr = filter (fun ie => negb (big_edge_external ncells (snd ie))) (enumerate_from 0 earr)).
  { unfold frame_internal. apply filter_ext_in. intros [i e] Hin. apply enumerate_from_In in Hin. destruct Hin as [_ Hi].
    rewrite Nat.sub_0_r in Hi. simpl fst; simpl snd. rewrite (external_id_iff ncells earr i e Hnd Hi).
    unfold big_edge_external, is_border. rewrite negb_orb, negb_involutive. reflexivity. }
  split; [exact H|]. unfold tension_table_ids. rewrite H. reflexivity. Qed.

(* the internal predicate is the one the property states *)
Theorem internal_characterisation ncells e :
  negb (big_edge_external ncells e) = true <->
  (forall v, In v e -> 2 <= ncells v) /\ (3 <= ncells (headZ e) \/ 3 <= ncells (lastZ e)).
Proof. unfold big_edge_external, end_junction. rewrite negb_orb, negb_involutive, andb_true_iff, orb_true_iff, !Z.ltb_lt, negb_true_iff.
  split.
  - intros [H1 H2]. split; [|lia]. intros v Hv. destruct (Z.ltb_spec (ncells v) 2) as [Hlt|]; [|lia].
    exfalso. assert (existsb (fun v => ncells v <? 2) e = true); [|congruence]. apply existsb_exists. exists v. split; [exact Hv|apply Z.ltb_lt; exact Hlt].
  - intros [H1 H2]. split; [|lia]. apply not_true_is_false. intros H. apply existsb_exists in H. destruct H as [v [Hv Hlt]].
    apply Z.ltb_lt in Hlt. specialize (H1 v Hv). lia. Qed.

(* ================================================================== renaming (C07) *)
Section Rename.
  Variables (f : Z -> Z) (junc junc' : Z -> bool).
  Hypothesis Hj : forall x, junc' (f x) = junc x.

  Lemma get_partition_rename l : get_partition junc' (map f l) = map (map f) (get_partition junc l).
  Proof. induction l as [|x t IH]; [reflexivity|]. simpl. rewrite Hj, IH.
    destruct (get_partition junc t) as [|h r]; simpl; destruct (junc x); reflexivity. Qed.

  Lemma headZ_map p : p <> [] -> headZ (map f p) = f (headZ p).
  Proof. destruct p; [congruence|reflexivity]. Qed.

  Lemma close_pieces_rename q : Forall (fun p => p <> []) q -> close_pieces (map (map f) q) = map (map f) (close_pieces q).
  Proof. intros Hq. unfold close_pieces.
    assert (E : map headZ (map (map f) q) = map f (map headZ q)).
    { rewrite !map_map. apply map_ext_in. intros p Hp. apply headZ_map. rewrite Forall_forall in Hq. apply Hq, Hp. }
    rewrite E. clear E Hq. set (hs := map headZ q).
    assert (R : rot1 (map f hs) = map f (rot1 hs)) by (destruct hs; simpl; [reflexivity|rewrite map_app; reflexivity]).
    rewrite R. generalize (rot1 hs). clear. induction q as [|p q IH]; intros [|h hs]; simpl; try reflexivity.
    rewrite map_app. simpl. f_equal. apply IH. Qed.

  Lemma piece_ok_nonempty jn q : forallb (piece_ok jn) q = true -> Forall (fun p => p <> []) q.
  Proof. intros H. apply Forall_forall. intros p Hp. rewrite forallb_forall in H. specialize (H p Hp). destruct p; [discriminate|discriminate]. Qed.

  Lemma map_tl' {A B} (g : A -> B) l : map g (tl l) = tl (map g l).
  Proof. destruct l; reflexivity. Qed.

  Lemma cell_interfaces_rename ids : cell_interfaces junc' (map f ids) = map (map f) (cell_interfaces junc ids).
  Proof. unfold cell_interfaces. destruct ids as [|x t]; [reflexivity|].
    change (map f (x :: t)) with (f x :: map f t) at 1. cbv beta iota. rewrite Hj.
    destruct (junc x) eqn:Jx.
    - rewrite get_partition_rename. rewrite <- map_tl'. apply close_pieces_rename.
      apply (piece_ok_nonempty junc). apply partition_spec.
    - rewrite get_partition_rename.
      assert (E : concat (tl (map (map f) (get_partition junc (x :: t)))) ++ hd [] (map (map f) (get_partition junc (x :: t)))
                  = map f (concat (tl (get_partition junc (x :: t))) ++ hd [] (get_partition junc (x :: t)))).
      { destruct (get_partition junc (x :: t)) as [|h r]; [reflexivity|]. simpl. rewrite map_app, concat_map. reflexivity. }
      rewrite E, get_partition_rename, <- map_tl'. apply close_pieces_rename. apply (piece_ok_nonempty junc). apply partition_spec. Qed.

  Hypothesis Hinj : forall x y, f x = f y -> x = y.
  Lemma listZ_eq_rename a b : listZ_eq (map f a) (map f b) = listZ_eq a b.
  Proof. revert b; induction a as [|x s IH]; intros [|y t]; simpl; try reflexivity. rewrite IH.
    destruct (Z.eqb_spec x y) as [->|Hne]; [rewrite Z.eqb_refl; reflexivity|].
    destruct (Z.eqb_spec (f x) (f y)) as [E|_]; [apply Hinj in E; contradiction|reflexivity]. Qed.
  Lemma mem_list_rename e l : mem_list (map f e) (map (map f) l) = mem_list e l.
  Proof. unfold mem_list. induction l as [|x t IH]; [reflexivity|]. simpl. rewrite listZ_eq_rename, IH. reflexivity. Qed.
  Lemma dedup_ifaces_rename l : dedup_ifaces (map (map f) l) = map (map f) (dedup_ifaces l).
  Proof. unfold dedup_ifaces. change (@nil (list Z)) with (map (map f) []) at 1. generalize (@nil (list Z)).
    induction l as [|e t IH]; intros acc; [reflexivity|]. simpl. rewrite <- IH. f_equal.
    unfold dedup_step. rewrite <- map_rev, !mem_list_rename. destruct (mem_list (rev e) acc || mem_list e acc); [reflexivity|].
    rewrite map_app. reflexivity. Qed.

  (* renumbering vertices (injectively) and cells (arbitrarily) renames the interfaces and changes nothing else,
     not even their order; mesh-edge ids do not occur in the decomposition at all *)
  Theorem create_edges_new_rename (g : Z -> Z) cells :
    create_edges_new junc' (map (fun c => (g (fst c), map f (snd c))) cells) = map (map f) (create_edges_new junc cells).
  Proof. unfold create_edges_new. rewrite <- dedup_ifaces_rename. f_equal. rewrite map_map, concat_map, map_map.
    f_equal. apply map_ext. intros c. simpl. apply cell_interfaces_rename. Qed.
End Rename.
