(* AngleProofs.v -- a junction is flagged exactly when SOME pair of its interface directions opens by at least the limit. *)
From Coq Require Import ZArith List Bool Lia.
From Forsys Require Import Model.Num Model.AngleLimit.
Import ListNotations.

Lemma all_pairs_spec {A} (a b : A) : forall l,
  In (a, b) (all_pairs l) <-> exists l1 l2 l3, l = l1 ++ a :: l2 ++ b :: l3.
Proof.
  induction l as [|x t IH]; cbn [all_pairs].
  - split; [intros []|]. intros [l1 [l2 [l3 E]]]. destruct l1; discriminate.
  - rewrite in_app_iff, in_map_iff. split.
    + intros [[y [E Hy]] | H].
      * injection E as -> ->. apply in_split in Hy. destruct Hy as [l2 [l3 ->]]. exists [], l2, l3. reflexivity.
      * apply IH in H. destruct H as [l1 [l2 [l3 ->]]]. exists (x :: l1), l2, l3. reflexivity.
    + intros [l1 [l2 [l3 E]]]. destruct l1 as [|y l1].
      * cbn [app] in E. injection E as -> ->. left. exists b. split; [reflexivity|]. apply in_or_app. right. left. reflexivity.
      * cbn [app] in E. injection E as -> ->. right. apply IH. exists l1, l2, l3. reflexivity.
Qed.
Lemma all_pairs_length {A} (l : list A) : (2 * length (all_pairs l) = length l * (length l - 1))%nat.
Proof.
  induction l as [|x t IH]; [reflexivity|]. cbn [all_pairs length]. rewrite app_length, map_length.
  replace (S (length t) - 1)%nat with (length t) by lia. nia.
Qed.

Section Flag.
  Context {T : Type} (N : NumOps T).
  (* flagged iff some pair (at positions i < j of the junction's interface list) opens by at least the limit *)
  Theorem flagged_iff_some_pair coslimit versors :
    junction_flagged N coslimit versors = true <->
    exists a b l1 l2 l3, versors = l1 ++ a :: l2 ++ b :: l3 /\ opens_by_limit N coslimit (a, b) = true.
  Proof.
    unfold junction_flagged. rewrite existsb_exists. split.
    - intros [[a b] [Hin Ho]]. apply all_pairs_spec in Hin. destruct Hin as [l1 [l2 [l3 E]]]. exists a, b, l1, l2, l3. split; assumption.
    - intros [a [b [l1 [l2 [l3 [E Ho]]]]]]. exists (a, b). split; [|exact Ho]. apply all_pairs_spec. exists l1, l2, l3. exact E.
  Qed.
  (* a junction of three interfaces is tested on its three pairs, one of four on its six pairs *)
  Theorem number_of_pairs_tested (versors : list (T * T)) : (2 * length (all_pairs versors) = length versors * (length versors - 1))%nat.
  Proof. apply all_pairs_length. Qed.
  Theorem flagged_junctions_spec coslimit juncs v :
    In v (flagged_junctions N coslimit juncs) <-> exists vs, In (v, vs) juncs /\ junction_flagged N coslimit vs = true.
  Proof.
    unfold flagged_junctions. rewrite in_map_iff. split.
    - intros [[v' vs] [E H]]. cbn in E. subst v'. apply filter_In in H. exists vs. exact H.
    - intros [vs [Hin Hf]]. exists (v, vs). split; [reflexivity|]. apply filter_In. split; assumption.
  Qed.
End Flag.
