(* CurvatureProofs.v -- the turning estimate of an interface (edge.py:148-178, Model/PressureSys.v Section Curv) over the reals:
   zero for collinear points, invariant under translation and uniform scaling (of either sign), odd under reversal of the
   storage direction. *)
From Coq Require Import Reals Lra Lia List Arith.
From Forsys Require Import Model.Num Model.PressureSys.
Import ListNotations.
Local Open Scope R_scope.

Notation grad := (gradient ROps).
Notation ginner := (grad_inner ROps).
Notation curv := (curvature ROps).
Notation tcurv := (total_curvature ROps).
Notation rdiffs := (diffs ROps).

Lemma half_R x : half ROps x = x / 2.
Proof. unfold half, two. cbn. replace (1 + 1) with 2 by ring. reflexivity. Qed.

(* ------------------------------------------------------------------ lists *)
Lemma map_tl_ {A B} (g : A -> B) l : map g (tl l) = tl (map g l).
Proof. destruct l; reflexivity. Qed.
Lemma combine_map2 {A B C D} (f : A -> C) (g : B -> D) : forall l1 l2,
  combine (map f l1) (map g l2) = map (fun p => (f (fst p), g (snd p))) (combine l1 l2).
Proof. induction l1 as [|a l1 IH]; intros [|b l2]; cbn; try reflexivity. now rewrite IH. Qed.
Lemma combine_rev {A B} : forall (l1 : list A) (l2 : list B), length l1 = length l2 ->
  combine (rev l1) (rev l2) = rev (combine l1 l2).
Proof.
  induction l1 as [|a l1 IH]; intros [|b l2] H; cbn in *; try reflexivity; try discriminate.
  injection H as H. rewrite <- IH by assumption.
  assert (L : length (rev l1) = length (rev l2)) by now rewrite !rev_length.
  revert L. generalize (rev l1) (rev l2). induction l as [|x l IHl]; intros [|y l'] L; cbn in *; try reflexivity; try discriminate.
  injection L as L. now rewrite IHl.
Qed.
Lemma sum_nil : sum ROps [] = 0.
Proof. reflexivity. Qed.
Lemma sum_cons a l : sum ROps (a :: l) = a + sum ROps l.
Proof. reflexivity. Qed.
Lemma sum_app l1 l2 : sum ROps (l1 ++ l2) = sum ROps l1 + sum ROps l2.
Proof. induction l1 as [|a l1 IH]; cbn [app]. - rewrite sum_nil. ring. - rewrite !sum_cons, IH. ring. Qed.
Lemma sum_rev l : sum ROps (rev l) = sum ROps l.
Proof. induction l as [|a l IH]; cbn [rev]. - reflexivity. - rewrite sum_app, IH, !sum_cons, sum_nil. ring. Qed.
Lemma sum_map_opp l : sum ROps (map Ropp l) = - sum ROps l.
Proof. induction l as [|a l IH]; cbn [map]. - rewrite sum_nil. ring. - rewrite !sum_cons, IH. ring. Qed.
Lemma sum_zero l : Forall (fun x => x = 0) l -> sum ROps l = 0.
Proof. induction 1 as [|a l Ha _ IH]. - reflexivity. - rewrite sum_cons, IH, Ha. ring. Qed.

(* adjacent pairs *)
Definition adj {A} (l : list A) : list (A * A) := combine l (tl l).
Lemma adj_snoc {A} (d : A) : forall l x, l <> [] -> adj (l ++ [x]) = adj l ++ [(last l d, x)].
Proof.
  induction l as [|a l IH]; intros x Hne; [congruence|].
  destruct l as [|b l]; [reflexivity|].
  unfold adj in *. cbn [app tl combine]. specialize (IH x ltac:(discriminate)). cbn [app tl] in IH.
  change (last (a :: b :: l) d) with (last (b :: l) d).
  cbn [combine]. f_equal.
  destruct l as [|c l]; [reflexivity|]. exact IH.
Qed.
Lemma last_rev {A} (d : A) l : last (rev l) d = hd d l.
Proof. destruct l as [|a l]; [reflexivity|]. cbn. now rewrite last_last. Qed.
Definition swap {A} (p : A * A) := (snd p, fst p).
Lemma adj_rev {A} (l : list A) : adj (rev l) = map swap (rev (adj l)).
Proof.
  induction l as [|a l IH]; [reflexivity|].
  destruct l as [|b l]; [reflexivity|].
  change (rev (a :: b :: l)) with (rev (b :: l) ++ [a]).
  rewrite (adj_snoc a) by (cbn; intro E; apply app_eq_nil in E; destruct E; discriminate).
  rewrite IH, last_rev. unfold adj at 2. cbn [tl combine rev hd]. rewrite map_app. reflexivity.
Qed.
Lemma diffs_adj l : rdiffs l = map (fun p => snd p - fst p) (adj l).
Proof.
  induction l as [|a l IH]; [reflexivity|]. destruct l as [|b l]; [reflexivity|].
  change (rdiffs (a :: b :: l)) with (b - a :: rdiffs (b :: l)). rewrite IH. reflexivity.
Qed.

(* ------------------------------------------------------------------ np.gradient *)
Lemma ginner_cons2 prev x y l : ginner prev (x :: y :: l) = (y - prev) / 2 :: ginner x (y :: l).
Proof. change (ginner prev (x :: y :: l)) with (half ROps (sub ROps y prev) :: ginner x (y :: l)). rewrite half_R. reflexivity. Qed.
Lemma ginner_one prev x : ginner prev [x] = [x - prev].
Proof. reflexivity. Qed.
Lemma grad_cons2 x0 x1 l : grad (x0 :: x1 :: l) = (x1 - x0) :: ginner x0 (x1 :: l).
Proof. reflexivity. Qed.
Lemma ginner_length : forall l prev, length (ginner prev l) = length l.
Proof. induction l as [|x l IH]; intros prev; [reflexivity|]. destruct l as [|y l]; [reflexivity|]. rewrite ginner_cons2. cbn [length]. now rewrite IH. Qed.
Lemma grad_length l : length (grad l) = length l.
Proof. destruct l as [|x0 [|x1 l]]; try reflexivity. rewrite grad_cons2. cbn [length]. now rewrite ginner_length. Qed.

(* affine maps commute with the gradient (two or more points) *)
Lemma ginner_affine a b : forall l prev,
  ginner (a + b * prev) (map (fun t => a + b * t) l) = map (fun g => b * g) (ginner prev l).
Proof.
  induction l as [|x l IH]; intros prev; [reflexivity|]. destruct l as [|y l].
  - cbn [map]. rewrite !ginner_one. cbn [map]. f_equal. ring.
  - cbn [map]. rewrite !ginner_cons2. cbn [map]. cbn [map] in IH. rewrite IH. f_equal. field.
Qed.
Lemma grad_affine a b l : (2 <= length l)%nat ->
  grad (map (fun t => a + b * t) l) = map (fun g => b * g) (grad l).
Proof.
  destruct l as [|x0 [|x1 l]]; cbn [length]; try lia. intros _.
  cbn [map]. rewrite !grad_cons2. pose proof (ginner_affine a b (x1 :: l) x0) as E. cbn [map] in E. rewrite E. cbn [map]. f_equal. ring.
Qed.
Lemma grad_scale b l : (2 <= length l)%nat -> grad (map (fun t => b * t) l) = map (fun g => b * g) (grad l).
Proof.
  intros H. rewrite <- (grad_affine 0 b l H). f_equal. apply map_ext. intros. ring.
Qed.

(* index characterisation *)
Lemma nth_S_cons {A} i (a : A) r d : nth (S i) (a :: r) d = nth i r d.
Proof. reflexivity. Qed.
Lemma ginner_nth : forall l prev i, (i < length l)%nat ->
  nth i (ginner prev l) 0 =
  if Nat.eqb (S i) (length l) then nth (S i) (prev :: l) 0 - nth i (prev :: l) 0
  else (nth (S (S i)) (prev :: l) 0 - nth i (prev :: l) 0) / 2.
Proof.
  induction l as [|x l IH]; intros prev i Hi; [cbn in Hi; lia|]. destruct l as [|y l].
  - cbn in Hi. assert (i = 0)%nat by lia. subst. reflexivity.
  - rewrite ginner_cons2. destruct i as [|i].
    + reflexivity.
    + rewrite nth_S_cons. rewrite IH by (cbn [length] in *; lia). reflexivity.
Qed.
Lemma grad_nth l i : (2 <= length l)%nat -> (i < length l)%nat ->
  nth i (grad l) 0 =
  if Nat.eqb i 0 then nth 1 l 0 - nth 0 l 0
  else if Nat.eqb (S i) (length l) then nth i l 0 - nth (i - 1) l 0
  else (nth (S i) l 0 - nth (i - 1) l 0) / 2.
Proof.
  destruct l as [|x0 [|x1 l]]; cbn [length]; try lia. intros _ Hi.
  rewrite grad_cons2. destruct i as [|i]; [reflexivity|].
  rewrite nth_S_cons. rewrite ginner_nth by (cbn [length] in *; lia).
  replace (S i - 1)%nat with i by lia. reflexivity.
Qed.

Lemma grad_rev l : (2 <= length l)%nat -> grad (rev l) = map Ropp (rev (grad l)).
Proof.
  intros Hl. set (n := length l) in *.
  apply (nth_ext _ _ 0 0); [now rewrite map_length, !rev_length, !grad_length, rev_length|].
  intros i Hi. rewrite grad_length, rev_length in Hi. fold n in Hi.
  rewrite <- Ropp_0 at 2. rewrite map_nth.
  rewrite rev_nth by (rewrite grad_length; exact Hi). rewrite grad_length. fold n.
  rewrite !grad_nth by (rewrite ?rev_length; fold n; lia). rewrite rev_length. fold n.
  assert (R : forall j, (j < n)%nat -> nth j (rev l) 0 = nth (n - S j) l 0) by (intros; now apply rev_nth).
  destruct (Nat.eqb_spec i 0) as [E0|E0].
  - subst i. rewrite !R by lia.
    destruct (Nat.eqb_spec (n - 1) 0) as [E|E]; [lia|].
    destruct (Nat.eqb_spec (S (n - 1)) n) as [E'|E']; [|lia].
    replace (n - 1 - 1)%nat with (n - 2)%nat by lia. ring.
  - destruct (Nat.eqb_spec (S i) n) as [E1|E1].
    + rewrite !R by lia. replace (n - S i)%nat with 0%nat by lia. cbn [Nat.eqb].
      replace (n - S (i - 1))%nat with 1%nat by lia. ring.
    + rewrite !R by lia.
      destruct (Nat.eqb_spec (n - S i) 0) as [E|E]; [lia|].
      destruct (Nat.eqb_spec (S (n - S i)) n) as [E'|E']; [lia|].
      replace (n - S (S i))%nat with (n - S i - 1)%nat by lia.
      replace (n - S (i - 1))%nat with (S (n - S i)) by lia. field.
Qed.

(* ------------------------------------------------------------------ the curvature as a map over the four derivative lists *)
Definition kappa (p : R * R * R * R) : R :=
  let '(a, b, c, d) := p in (c * b - a * d) / ((a * a + b * b) * sqrt (a * a + b * b)).
Definition quads (xs ys : list R) : list (R * R * R * R) :=
  combine (combine (combine (grad xs) (grad ys)) (grad (grad xs))) (grad (grad ys)).
Lemma curv_quads xs ys : curv xs ys = map kappa (quads xs ys).
Proof. unfold curvature, quads. apply map_ext. intros [[[a b] c] d]. reflexivity. Qed.
Definition tc_of (k ds : list R) : R :=
  sum ROps (map (fun p => fst p * snd p) (combine (map (fun p => (fst p + snd p) / 2) (combine (tl k) k)) ds)).
Definition seglen (p : R * R) : R := sqrt (fst p * fst p + snd p * snd p).
Lemma tcurv_tc_of xs ys : tcurv xs ys = tc_of (curv xs ys) (map seglen (combine (rdiffs xs) (rdiffs ys))).
Proof.
  assert (H : forall l : list (R * R), map (fun p => half ROps (add ROps (fst p) (snd p))) l = map (fun p => (fst p + snd p) / 2) l)
    by (intros l; apply map_ext; intros [a b]; rewrite half_R; reflexivity).
  unfold total_curvature, tc_of. rewrite H. reflexivity.
Qed.

Lemma quads_map4 (f1 f2 f3 f4 : R -> R) l1 l2 l3 l4 :
  combine (combine (combine (map f1 l1) (map f2 l2)) (map f3 l3)) (map f4 l4) =
  map (fun p => let '(a, b, c, d) := p in (f1 a, f2 b, f3 c, f4 d)) (combine (combine (combine l1 l2) l3) l4).
Proof.
  rewrite combine_map2.
  change (map f3 l3) with (map f3 l3).
  rewrite (combine_map2 (fun p : R * R => (f1 (fst p), f2 (snd p))) f3).
  rewrite (combine_map2 (fun p : R * R * R => (f1 (fst (fst p)), f2 (snd (fst p)), f3 (snd p))) f4).
  apply map_ext. intros [[[a b] c] d]. reflexivity.
Qed.

(* ------------------------------------------------------------------ collinear points *)
Theorem curvature_collinear x0 y0 u v ts : (2 <= length ts)%nat ->
  Forall (fun k => k = 0) (curv (map (fun t => x0 + u * t) ts) (map (fun t => y0 + v * t) ts)).
Proof.
  intros H. rewrite curv_quads. unfold quads.
  rewrite !grad_affine by assumption.
  rewrite !grad_scale by (rewrite grad_length; assumption).
  rewrite quads_map4. rewrite map_map. apply Forall_forall. intros k Hk.
  apply in_map_iff in Hk. destruct Hk as [[[[a b] c] d] [Hk Hin]]. subst k.
  (* a = b and c = d : all four lists derive from the same parameter list *)
  assert (E : a = b /\ c = d).
  { clear -Hin. revert Hin. generalize (grad ts) (grad (grad ts)). intros l1 l2. revert l2.
    induction l1 as [|p l1 IH]; intros [|q l2] Hin; cbn in Hin; try contradiction.
    destruct Hin as [Hin|Hin]; [injection Hin; intros; subst; split; reflexivity|]. now apply (IH l2). }
  destruct E as [-> ->]. unfold kappa.
  replace (u * d * (v * b) - u * b * (v * d)) with 0 by ring. unfold Rdiv. ring.
Qed.
Lemma tc_of_zero k ds : Forall (fun x => x = 0) k -> tc_of k ds = 0.
Proof.
  intros H. unfold tc_of. apply sum_zero. apply Forall_forall. intros z Hz.
  apply in_map_iff in Hz. destruct Hz as [[m d] [Hz Hin]]. subst z. cbn [fst snd].
  apply in_combine_l in Hin. apply in_map_iff in Hin. destruct Hin as [[p q] [Hm Hin]]. subst m. cbn [fst snd].
  rewrite Forall_forall in H.
  rewrite (H p), (H q); [unfold Rdiv; ring | exact (in_combine_r _ _ _ _ Hin) |].
  apply in_combine_l in Hin. destruct k; [contradiction|]. right. exact Hin.
Qed.
Theorem total_curvature_collinear x0 y0 u v ts : (2 <= length ts)%nat ->
  tcurv (map (fun t => x0 + u * t) ts) (map (fun t => y0 + v * t) ts) = 0.
Proof. intros H. rewrite tcurv_tc_of. apply tc_of_zero. now apply curvature_collinear. Qed.

(* ------------------------------------------------------------------ translation and uniform scaling *)
Lemma diffs_cons2 x y l : rdiffs (x :: y :: l) = (y - x) :: rdiffs (y :: l).
Proof. reflexivity. Qed.
Lemma diffs_affine a b l : rdiffs (map (fun t => a + b * t) l) = map (fun g => b * g) (rdiffs l).
Proof.
  induction l as [|x l IH]; [reflexivity|]. destruct l as [|y l]; [reflexivity|].
  cbn [map] in *. rewrite !diffs_cons2, IH. cbn [map]. f_equal. ring.
Qed.
Lemma sqrt_scale s q : 0 <= q -> sqrt (s * s * q) = Rabs s * sqrt q.
Proof. intros Hq. rewrite sqrt_mult by (try assumption; nra). f_equal. apply sqrt_Rsqr_abs. Qed.
Lemma kappa_scale s a b c d : s <> 0 -> kappa (s * a, s * b, s * c, s * d) = / Rabs s * kappa (a, b, c, d).
Proof.
  intros Hs. unfold kappa. set (q := a * a + b * b).
  replace (s * a * (s * a) + s * b * (s * b)) with (s * s * q) by (unfold q; ring).
  replace (s * c * (s * b) - s * a * (s * d)) with (s * s * (c * b - a * d)) by ring.
  assert (Hq : 0 <= q) by (unfold q; nra).
  rewrite sqrt_scale by assumption.
  assert (E : s * s = Rabs s * Rabs s) by (rewrite <- Rabs_mult; symmetry; apply Rabs_pos_eq; nra).
  rewrite E. assert (Ha : Rabs s <> 0) by now apply Rabs_no_R0.
  set (A := Rabs s) in *. unfold Rdiv. rewrite !Rinv_mult.
  assert (H : A * / A = 1) by (apply Rinv_r; exact Ha).
  revert H. generalize (/ A). intros iA H.
  transitivity ((A * iA) * (A * iA) * iA * ((c * b - a * d) * (/ q * / sqrt q))); [ring | rewrite H; ring].
Qed.

Lemma combine_swap {A} : forall (l1 l2 : list A), combine l2 l1 = map swap (combine l1 l2).
Proof. induction l1 as [|a l1 IH]; intros [|b l2]; cbn; try reflexivity. now rewrite IH. Qed.
Definition trap (p : R * R * R) : R := (fst (fst p) + snd (fst p)) / 2 * snd p.
Lemma tc_of_alt k ds : tc_of k ds = sum ROps (map trap (combine (adj k) ds)).
Proof.
  unfold tc_of. f_equal.
  rewrite (combine_swap k (tl k)). fold (adj k).
  rewrite <- (map_id ds) at 1. rewrite map_map, combine_map2, map_map.
  apply map_ext. intros [[a b] d]. unfold trap, swap. cbn [fst snd]. unfold Rdiv. ring.
Qed.
Lemma adj_map {A B} (f : A -> B) l : adj (map f l) = map (fun p => (f (fst p), f (snd p))) (adj l).
Proof. unfold adj. rewrite <- map_tl_. apply combine_map2. Qed.
Lemma adj_length {A} (l : list A) : length (adj l) = (length l - 1)%nat.
Proof. unfold adj. rewrite combine_length. destruct l; cbn [tl length]; lia. Qed.
Lemma diffs_length l : length (rdiffs l) = (length l - 1)%nat.
Proof. now rewrite diffs_adj, map_length, adj_length. Qed.
Lemma quads_length xs ys : length xs = length ys -> length (quads xs ys) = length xs.
Proof. intros H. unfold quads. rewrite !combine_length, !grad_length. lia. Qed.
Lemma curv_length xs ys : length xs = length ys -> length (curv xs ys) = length xs.
Proof. intros H. now rewrite curv_quads, map_length, quads_length. Qed.

Lemma curv_similarity a b s xs ys : s <> 0 -> (2 <= length xs)%nat -> (2 <= length ys)%nat ->
  curv (map (fun t => a + s * t) xs) (map (fun t => b + s * t) ys) = map (fun k => / Rabs s * k) (curv xs ys).
Proof.
  intros Hs Hx Hy. rewrite !curv_quads. unfold quads.
  rewrite !grad_affine by assumption.
  rewrite !grad_scale by (rewrite grad_length; assumption).
  rewrite quads_map4, !map_map. apply map_ext. intros [[[p q] c] d]. now apply kappa_scale.
Qed.
Lemma seglen_scale s p : seglen (s * fst p, s * snd p) = Rabs s * seglen p.
Proof.
  unfold seglen. cbn [fst snd].
  replace (s * fst p * (s * fst p) + s * snd p * (s * snd p)) with (s * s * (fst p * fst p + snd p * snd p)) by ring.
  apply sqrt_scale. nra.
Qed.
Theorem total_curvature_similarity a b s xs ys : s <> 0 -> (2 <= length xs)%nat -> (2 <= length ys)%nat ->
  tcurv (map (fun t => a + s * t) xs) (map (fun t => b + s * t) ys) = tcurv xs ys.
Proof.
  intros Hs Hx Hy. rewrite !tcurv_tc_of, curv_similarity by assumption.
  rewrite !diffs_affine, combine_map2, map_map.
  rewrite (map_ext _ (fun p => Rabs s * seglen p)) by (intros p; apply seglen_scale).
  rewrite <- (map_map seglen (fun d => Rabs s * d)).
  set (k := curv xs ys). set (ds := map seglen _).
  rewrite !tc_of_alt, adj_map, combine_map2, map_map. f_equal. apply map_ext. intros [[k1 k0] d].
  unfold trap. cbn [fst snd].
  assert (H : Rabs s * / Rabs s = 1) by (apply Rinv_r; now apply Rabs_no_R0).
  revert H. generalize (/ Rabs s). intros iA H.
  transitivity ((Rabs s * iA) * ((k1 + k0) / 2 * d)); [unfold Rdiv; ring | rewrite H; ring].
Qed.
Corollary total_curvature_translation a b xs ys : (2 <= length xs)%nat -> (2 <= length ys)%nat ->
  tcurv (map (fun t => a + t) xs) (map (fun t => b + t) ys) = tcurv xs ys.
Proof.
  intros Hx Hy. rewrite <- (total_curvature_similarity a b 1 xs ys) by (try assumption; lra).
  f_equal; apply map_ext; intros; ring.
Qed.
Corollary total_curvature_scaling s xs ys : s <> 0 -> (2 <= length xs)%nat -> (2 <= length ys)%nat ->
  tcurv (map (fun t => s * t) xs) (map (fun t => s * t) ys) = tcurv xs ys.
Proof.
  intros Hs Hx Hy. rewrite <- (total_curvature_similarity 0 0 s xs ys) by assumption.
  f_equal; apply map_ext; intros; ring.
Qed.

(* ------------------------------------------------------------------ reversal of the storage direction *)
Lemma grad_opp l : (2 <= length l)%nat -> grad (map Ropp l) = map Ropp (grad l).
Proof.
  intros H. rewrite (map_ext Ropp (fun t => -1 * t)) by (intros; ring).
  rewrite grad_scale by assumption. apply map_ext. intros; ring.
Qed.
Lemma grad_grad_rev l : (2 <= length l)%nat -> grad (grad (rev l)) = rev (grad (grad l)).
Proof.
  intros H. rewrite grad_rev by assumption.
  rewrite grad_opp by (rewrite rev_length, grad_length; assumption).
  rewrite grad_rev by (rewrite grad_length; assumption).
  rewrite map_map. rewrite (map_ext _ (fun x => x)) by (intros; ring). apply map_id.
Qed.
Definition flip4 (p : R * R * R * R) : R * R * R * R := let '(a, b, c, d) := p in (- a, - b, c, d).
Lemma quads_rev xs ys : length xs = length ys -> (2 <= length xs)%nat ->
  quads (rev xs) (rev ys) = map flip4 (rev (quads xs ys)).
Proof.
  intros Hl Hx. assert (Hy : (2 <= length ys)%nat) by lia. unfold quads.
  rewrite !grad_grad_rev, !grad_rev by assumption.
  rewrite <- (map_id (rev (grad (grad xs)))), <- (map_id (rev (grad (grad ys)))).
  rewrite quads_map4.
  rewrite !combine_rev by (rewrite ?combine_length, ?grad_length; lia).
  apply map_ext. intros [[[a b] c] d]. reflexivity.
Qed.
Lemma kappa_flip p : kappa (flip4 p) = - kappa p.
Proof.
  destruct p as [[[a b] c] d]. unfold flip4, kappa.
  replace (- a * - a + - b * - b) with (a * a + b * b) by ring. unfold Rdiv. ring.
Qed.
Lemma curv_rev xs ys : length xs = length ys -> (2 <= length xs)%nat ->
  curv (rev xs) (rev ys) = map Ropp (rev (curv xs ys)).
Proof.
  intros Hl Hx. rewrite !curv_quads, quads_rev by assumption.
  rewrite map_map, (map_ext _ (fun p => - kappa p)) by apply kappa_flip.
  rewrite <- (map_map kappa Ropp), map_rev. reflexivity.
Qed.
Lemma diffs_rev l : rdiffs (rev l) = map Ropp (rev (rdiffs l)).
Proof.
  rewrite !diffs_adj, adj_rev, map_map, <- map_rev, map_map. apply map_ext. intros [a b]. unfold swap. cbn [fst snd]. ring.
Qed.
Lemma seglen_opp p : seglen (- fst p, - snd p) = seglen p.
Proof. unfold seglen. cbn [fst snd]. f_equal. ring. Qed.
Theorem total_curvature_reversal xs ys : length xs = length ys -> (2 <= length xs)%nat ->
  tcurv (rev xs) (rev ys) = - tcurv xs ys.
Proof.
  intros Hl Hx. rewrite !tcurv_tc_of, curv_rev by assumption.
  rewrite !diffs_rev, combine_map2, map_map.
  rewrite (map_ext _ seglen) by (intros p; apply seglen_opp).
  rewrite combine_rev by (rewrite !diffs_length; lia).
  assert (Hk : length (curv xs ys) = length xs) by now apply curv_length.
  set (k := curv xs ys) in *. set (C := combine (rdiffs xs) (rdiffs ys)).
  assert (HC : length C = (length xs - 1)%nat) by (unfold C; rewrite combine_length, !diffs_length; lia).
  rewrite (map_rev seglen C). set (ds := map seglen C).
  assert (Hd : length ds = (length xs - 1)%nat) by (unfold ds; now rewrite map_length).
  rewrite !tc_of_alt, adj_map, adj_rev, map_map.
  rewrite <- (map_id (rev ds)), combine_map2, combine_rev by (rewrite adj_length; lia).
  rewrite map_map, <- sum_map_opp, map_map, <- (sum_rev (map _ (combine (adj k) ds))), <- map_rev.
  f_equal. apply map_ext. intros [[k0 k1] d]. unfold trap, swap. cbn [fst snd]. unfold Rdiv. ring.
Qed.
